#!/usr/bin/env python3
"""
tools/rs2lean.py — regenerates lean/Yuiv/Gen/Tables.lean from the finite decision tables in /repo's Rust sources.

A deliberately tiny translator for `match` tables over enum constructors / small integer literals:

  yui-link/src/link/crossing.rs   CrossingType::mirror, Crossing::resolve, Crossing::pass, Crossing::arcs
  yui-link/src/link/link.rs       the crossing-sign table inside Link::crossing_signs
  yui-khovanov/src/kh/alg.rs      KhAlgGen::deg, KhAlgStr::prod, KhAlgStr::coprod

The generated definitions are compared with the hand-written tables of the models by `decide`-style theorems in
Yuiv/Props/C02Gen.lean (crossing tables) and Yuiv/Props/C01Gen.lean (Frobenius tables): if a table entry in the Rust
source changes, the regenerated file changes and those theorems no longer check.

Exit status 0: file is up to date or was rewritten; 1: a table could not be parsed (the old generated file is kept and
the failure is reported — a broken obligation for ./check).
"""
import os, re, sys

REPO = "/repo"
OUT = os.path.join(os.path.dirname(os.path.dirname(os.path.abspath(__file__))), "lean", "Yuiv", "Gen", "Tables.lean")


class ParseError(Exception):
    pass


def fn_body(src, header_re):
    """text of the brace-balanced body following the first match of header_re"""
    m = re.search(header_re, src)
    if not m:
        raise ParseError(f"function header not found: {header_re}")
    i = src.index("{", m.end() - 1)
    depth, j = 0, i
    while j < len(src):
        if src[j] == "{": depth += 1
        elif src[j] == "}":
            depth -= 1
            if depth == 0:
                return src[i + 1:j]
        j += 1
    raise ParseError("unbalanced braces")


def match_arms(body, scrutinee_re):
    """arms of the first `match <scrutinee> { ... }` in body as list of (pattern, expr)"""
    m = re.search(r"match\s+" + scrutinee_re + r"\s*\{", body)
    if not m:
        raise ParseError(f"match not found: {scrutinee_re}")
    i = m.end() - 1
    depth, j = 0, i
    while j < len(body):
        if body[j] == "{": depth += 1
        elif body[j] == "}":
            depth -= 1
            if depth == 0: break
        j += 1
    inner = body[i + 1:j]
    arms = []
    # split on top-level commas
    parts, depth, cur = [], 0, ""
    for ch in inner:
        if ch in "([{": depth += 1
        if ch in ")]}": depth -= 1
        if ch == "," and depth == 0:
            parts.append(cur); cur = ""
        else:
            cur += ch
    if cur.strip(): parts.append(cur)
    for p in parts:
        p = re.sub(r"//[^\n]*", "", p).strip()
        if not p: continue
        if "=>" not in p:
            raise ParseError(f"arm without =>: {p!r}")
        pat, expr = p.split("=>", 1)
        arms.append((" ".join(pat.split()), " ".join(expr.split())))
    return arms


CT = {"X": ".X", "Xm": ".Xm", "V": ".V", "H": ".H"}


def gen_crossing(src):
    out = []
    # mirror
    arms = match_arms(fn_body(src, r"pub fn mirror\(self\)\s*->\s*CrossingType\s*\{"), r"self")
    lines = []
    for pat, e in arms:
        if pat in CT and e in CT: lines.append(f"  | {CT[pat]} => {CT[e]}")
        elif pat == "other" and e == "other": lines.append("  | c => c")
        else: raise ParseError(f"mirror arm {pat} => {e}")
    out.append("/-- generated from `CrossingType::mirror` -/\ndef mirror : CT → CT\n" + "\n".join(lines))
    # resolve
    arms = match_arms(fn_body(src, r"pub fn resolve\(&mut self, r: Bit\)\s*\{"), r"\(self\.ctype, r\)")
    lines = []
    for pat, e in arms:
        if pat == "_":
            if "panic" not in e: raise ParseError(f"resolve default arm {e}")
            lines.append("  | _, _ => none"); continue
        m = re.fullmatch(r"self\.ctype = (\w+)", e)
        if not m or m.group(1) not in CT: raise ParseError(f"resolve arm {pat} => {e}")
        alts = []
        for alt in pat.split("|"):
            mm = re.fullmatch(r"\((\w+), (Bit0|Bit1)\)", alt.strip())
            if not mm or mm.group(1) not in CT: raise ParseError(f"resolve pattern {alt}")
            alts.append(f"{CT[mm.group(1)]}, {'false' if mm.group(2) == 'Bit0' else 'true'}")
        lines.append("  | " + " | ".join(alts) + f" => some {CT[m.group(1)]}")
    out.append("/-- generated from `Crossing::resolve` (`none` = panic) -/\ndef resolve : CT → Bool → Option CT\n" + "\n".join(lines))
    # pass
    arms = match_arms(fn_body(src, r"pub fn pass\(&self, index:\s*usize\)\s*->\s*usize\s*\{"), r"self\.ctype")
    lines = []
    for pat, e in arms:
        alts = [a.strip() for a in pat.split("|")]
        if not all(a in CT for a in alts): raise ParseError(f"pass pattern {pat}")
        if not re.fullmatch(r"[\(\)\d\s\+\-%a-z]+", e): raise ParseError(f"pass expr {e}")
        lines.append("  | " + " | ".join(f"{CT[a]}, j" for a in alts) + " => " + e.replace("index", "j"))
    out.append("/-- generated from `Crossing::pass` -/\ndef pass : CT → Nat → Nat\n" + "\n".join(lines))
    # arcs
    arms = match_arms(fn_body(src, r"pub fn arcs\(&self\)\s*->\s*\(Path, Path\)\s*\{"), r"self\.ctype")
    lines = []
    for pat, e in arms:
        alts = [a.strip() for a in pat.split("|")]
        if not all(a in CT for a in alts): raise ParseError(f"arcs pattern {pat}")
        m = re.fullmatch(r"\(comp\((\d), (\d)\), comp\((\d), (\d)\)\)", e)
        if not m: raise ParseError(f"arcs expr {e}")
        a, b, c, d = m.groups()
        lines.append("  | " + " | ".join(CT[x] for x in alts) + f" => [({a}, {b}), ({c}, {d})]")
    out.append("/-- generated from `Crossing::arcs` -/\ndef arcSlots : CT → List (Nat × Nat)\n" + "\n".join(lines))
    return out


def gen_signs(src):
    body = fn_body(src, r"pub fn crossing_signs\(&self\)\s*->\s*Vec<Sign>\s*\{")
    arms = match_arms(body, r"\(c\.ctype\(\), j\)")
    lines = []
    for pat, e in arms:
        if pat == "_":
            if e != "None": raise ParseError(f"sign default {e}")
            lines.append("  | _, _ => 0"); continue
        val = {"Some(Sign::Pos)": "1", "Some(Sign::Neg)": "-1"}.get(e)
        if val is None: raise ParseError(f"sign expr {e}")
        alts = []
        for alt in pat.split("|"):
            mm = re.fullmatch(r"\((\w+), (\d)\)", alt.strip())
            if not mm or mm.group(1) not in CT: raise ParseError(f"sign pattern {alt}")
            alts.append(f"{CT[mm.group(1)]}, {mm.group(2)}")
        lines.append("  | " + " | ".join(alts) + f" => {val}")
    return ["/-- generated from the sign table of `Link::crossing_signs` (0 = no sign) -/\ndef slotSign : CT → Nat → Int\n" + "\n".join(lines)]


G = {"I": "false", "X": "true"}


def coef(e):
    e = e.strip()
    if e == "R::one()": return "1"
    if e == "h.clone()": return "h"
    if e == "t.clone()": return "t"
    if e == "-h.clone()": return "-h"
    if e == "-t.clone()": return "-t"
    raise ParseError(f"coefficient {e}")


def gen_alg(src):
    out = []
    arms = match_arms(fn_body(src, r"pub fn deg\(&self\)\s*->\s*isize\s*\{"), r"self")
    lines = []
    for pat, e in arms:
        m = re.fullmatch(r"KhAlgGen::(\w)", pat)
        if not m or not re.fullmatch(r"-?\d+", e): raise ParseError(f"deg arm {pat} => {e}")
        lines.append(f"  | {G[m.group(1)]} => {e}")
    out.append("/-- generated from `KhAlgGen::deg` (`true` = X) -/\ndef algDeg : Bool → Int\n" + "\n".join(lines))
    arms = match_arms(fn_body(src, r"pub fn prod\(&self, x: KhAlgGen, y: KhAlgGen\)[^{]*\{"), r"\(x, y\)")
    lines = []
    for pat, e in arms:
        m = re.fullmatch(r"vec!\[(.*)\]", e)
        if not m: raise ParseError(f"prod expr {e}")
        terms = re.findall(r"\((\w), ([^()]*(?:\(\))?[^()]*)\)", m.group(1))
        if not terms: raise ParseError(f"prod terms {e}")
        rhs = "[" + ", ".join(f"({G[g]}, {coef(c)})" for g, c in terms) + "]"
        alts = []
        for alt in pat.split("|"):
            mm = re.fullmatch(r"\((\w), (\w)\)", alt.strip())
            if not mm: raise ParseError(f"prod pattern {alt}")
            alts.append(f"{G[mm.group(1)]}, {G[mm.group(2)]}")
        lines.append("  | " + " | ".join(alts) + f" => {rhs}")
    out.append("/-- generated from `KhAlgStr::prod` (before the zero filter) -/\ndef prod (h t : Int) : Bool → Bool → List (Bool × Int)\n" + "\n".join(lines))
    arms = match_arms(fn_body(src, r"pub fn coprod\(&self, x: KhAlgGen\)[^{]*\{"), r"x")
    lines = []
    for pat, e in arms:
        m = re.fullmatch(r"vec!\[(.*)\]", e)
        if not m or pat not in G: raise ParseError(f"coprod arm {pat} => {e}")
        terms = re.findall(r"\((\w), (\w), ([^()]*(?:\(\))?[^()]*)\)", m.group(1))
        if not terms: raise ParseError(f"coprod terms {e}")
        rhs = "[" + ", ".join(f"({G[a]}, {G[b]}, {coef(c)})" for a, b, c in terms) + "]"
        lines.append(f"  | {G[pat]} => {rhs}")
    out.append("/-- generated from `KhAlgStr::coprod` (before the zero filter) -/\ndef coprod (h t : Int) : Bool → List (Bool × Bool × Int)\n" + "\n".join(lines))
    return out


OUT20 = os.path.join(os.path.dirname(OUT), "Dispatch.lean")


def gen_dispatch(src):
    """the two (CType, PolyVars) -> ring tables of bin-ykh/src/app/utils/dispatch.rs (the `poly`-feature branch)"""
    out = []
    for macro, name in [("try_euc_poly", "eucPolyTable"), ("try_noneuc_poly", "nonEucPolyTable")]:
        body = fn_body(src, r"macro_rules!\s+" + macro + r"\s*\{")
        arms = match_arms(body, r"\(\$args\.c_type, vars\)")
        lines = []
        for pat, e in arms:
            if pat == "_":
                if e != "None": raise ParseError(f"{macro} default {e}")
                lines.append("  | _, _ => none"); continue
            m = re.fullmatch(r"\(CType::(\w+), PolyVars::(\w+)\s*\)", pat)
            r1 = re.fullmatch(r"run!\(Poly<'([HT])', (\w+)>, \$app, \$args\)", e)
            r2 = re.fullmatch(r"run!\(Poly2<'H', 'T', (\w+)>, \$app, \$args\)", e)
            if not m or not (r1 or r2): raise ParseError(f"{macro} arm {pat} => {e}")
            ring = f".poly{r1.group(1)} .{r1.group(2)}" if r1 else f".polyHT .{r2.group(1)}"
            lines.append(f"  | .{m.group(1)}, .{m.group(2)} => some ({ring})")
        out.append(f"/-- generated from `{macro}!` -/\ndef {name} (ct : CType) (v : PolyVars) : Option Ring :=\n  match ct, v with\n" + "\n".join(lines))
    # try_std: which base types run directly
    body = fn_body(src, r"macro_rules!\s+try_std\s*\{")
    arms = match_arms(body, r"\$args\.c_type")
    std = []
    for pat, e in arms:
        m = re.fullmatch(r"CType::(\w+)", pat)
        r = re.fullmatch(r"run!\((\w+), \$app, \$args\)", e)
        if m and r:
            if m.group(1) != r.group(1): raise ParseError(f"try_std arm runs {r.group(1)} for {m.group(1)}")
            std.append(m.group(1))
        elif "try_qint" in e: continue
        else: raise ParseError(f"try_std arm {pat} => {e}")
    out.append("/-- generated from `try_std!`: the base types run directly over themselves -/\ndef stdDirect : List CType := [" + ", ".join("." + x for x in std) + "]")
    return out


def write_if_changed(path, text):
    old = open(path).read() if os.path.exists(path) else None
    if old != text:
        with open(path, "w") as f:
            f.write(text)
        print("rs2lean: regenerated", path)
    else:
        print("rs2lean: up to date", os.path.basename(path))


def main():
    try:
        parts = []
        parts += gen_crossing(open(os.path.join(REPO, "yui-link/src/link/crossing.rs")).read())
        parts += gen_signs(open(os.path.join(REPO, "yui-link/src/link/link.rs")).read())
        parts += gen_alg(open(os.path.join(REPO, "yui-khovanov/src/kh/alg.rs")).read())
        parts20 = gen_dispatch(open(os.path.join(REPO, "bin-ykh/src/app/utils/dispatch.rs")).read())
    except (ParseError, OSError) as e:
        print(f"rs2lean: cannot translate: {e}")
        sys.exit(1)
    text = ("import Yuiv.Model.KhRef\n/-\nGENERATED by tools/rs2lean.py from /repo's Rust sources on every ./check run — do not edit.\n"
            "Finite decision tables of yui-link (crossing.rs, link.rs) and yui-khovanov (alg.rs).\n-/\n"
            "namespace Yuiv.Gen\nopen Yuiv.KhRef\n\n" + "\n\n".join(parts) + "\n\nend Yuiv.Gen\n")
    os.makedirs(os.path.dirname(OUT), exist_ok=True)
    write_if_changed(OUT, text)
    text20 = ("import Yuiv.Model.C20\n/-\nGENERATED by tools/rs2lean.py from /repo/bin-ykh/src/app/utils/dispatch.rs on every ./check run — do not edit.\n-/\n"
              "namespace Yuiv.Gen20\nopen Yuiv.C20\n\n" + "\n\n".join(parts20) + "\n\nend Yuiv.Gen20\n")
    write_if_changed(OUT20, text20)


if __name__ == "__main__":
    main()
