#!/usr/bin/env python3
"""tools/seedmeta.py <seed-dir-name> <property> "<needs>" "<caught-by>" — writes seeded/<dir>/meta.json"""
import json, os, sys
d, prop, needs, caught = sys.argv[1:5]
root = os.path.join(os.path.dirname(os.path.dirname(os.path.abspath(__file__))), "seeded", d)
notes = open(os.path.join(root, "notes.md")).read() if os.path.exists(os.path.join(root, "notes.md")) else ""
meta = {
 "property": prop,
 "what_it_breaks": notes.split("\n\n")[1][:1200] if "\n\n" in notes else "",
 "needs_to_manifest": needs,
 "produced_by": "fresh sub-agent given only the property text and a scratch worktree (nothing from /verif)",
 "confirmed_by_me": ["tools/confirm_seed.sh: patch = tracked diff; repository suite with change: 610 passed, 0 failed; demonstration fails with the change and passes without it"],
 "checks_run": f"tools/seedtest.sh seeded/{d}/patch.diff … (git -C /repo apply; ./check; git -C /repo checkout -- .)",
 "caught_by": caught,
}
json.dump(meta, open(os.path.join(root, "meta.json"), "w"), indent=1)
print("meta written for", d)
