#!/bin/sh
# tools/seedtest.sh <patch.diff> <Cxx> [<Cyy> ...]  — apply a seeded change to /repo, run the given checks, undo it.
# Prints one line per check: CAUGHT (exit 1 with a VIOLATION line) or MISSED (exit 0).
if [ -z "$SEEDTEST_LOCKED" ]; then SEEDTEST_LOCKED=1 exec flock /tmp/repo-mut.lock env SEEDTEST_LOCKED=1 "$0" "$@"; fi
patch="$(realpath "$1")"; shift
cd /verif || exit 2
if ! git -C /repo diff --quiet; then echo "refusing: /repo has uncommitted changes"; exit 2; fi
git -C /repo apply "$patch" || { echo "patch does not apply"; exit 2; }
mkdir -p /verif/.build/evidence_backup
for id in "$@"; do
  cp -f "evidence/$id.json" "/verif/.build/evidence_backup/$id.json" 2>/dev/null
  out=$(./check "$id" --tier "${TIER:-quick}" --seed "${SEED:-1}" 2>&1); rc=$?
  v=$(echo "$out" | grep -c '^VIOLATION')
  if [ $rc -ne 0 ] && [ "$v" -gt 0 ]; then echo "CAUGHT $id: $(echo "$out" | grep '^VIOLATION' | head -1)"; else echo "MISSED $id (rc=$rc): $(echo "$out" | tail -1)"; fi
done
git -C /repo checkout -- .; python3 /verif/tools/rs2lean.py > /dev/null; python3 /verif/tools/rs2lean_fn.py > /dev/null
# evidence files must describe runs on the unchanged tree: put the saved ones back
for id in "$@"; do cp -f "/verif/.build/evidence_backup/$id.json" "evidence/$id.json" 2>/dev/null; done
git -C /repo status --short | head -3
