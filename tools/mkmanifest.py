#!/usr/bin/env python3
"""Regenerates /verif/MANIFEST.json from tools/claims.json (claimed properties) and properties.jsonl."""
import json, os
ROOT = os.path.dirname(os.path.dirname(os.path.abspath(__file__)))
props = [json.loads(l) for l in open(os.path.join(ROOT, "properties.jsonl"))]
claims = json.load(open(os.path.join(ROOT, "tools", "claims.json")))
claimed = claims["claimed"]
m = {"version": 1, "setup_cmd": "./setup.sh",
     "hooks": {"guard": "--cfg yui_verif",
               "enable": "harness/.cargo/config.toml sets rustflags = [\"--cfg\", \"yui_verif\"] for every build of /repo's crates made by the checks",
               "baseline_off_cmd": "cd /repo && cargo test --workspace --no-fail-fast --offline",
               "source_commits": claims.get("hook_commits", []), "add_only": True},
     "engines": [{"name": "lean-proof+correspondence", "path": "check", "serves_properties": sorted(claimed),
                  "kind_free_text": "Lean 4 theorems about a code model (lean/Yuiv), tied to /repo by a Rust differential harness (harness/) through a line protocol; ./check orchestrates"}],
     "checks": [], "not_applicable": [], "notes": claims.get("notes", "")}
for p in props:
    i = p["id"]
    if i in claimed:
        c = claimed[i]
        m["checks"].append({"property_id": i, "quick_cmd": f"./check {i} --tier quick", "thorough_cmd": f"./check {i} --tier thorough",
                            "evidence_file": f"/verif/evidence/{i}.json", "replay_cmd_template": f"./check {i} --replay {{path}}",
                            "engine": "lean-proof+correspondence",
                            "level_claimed": {"category": "proof", "text": c["text"], "design_ref": f"DESIGN.md section 6, {i}"},
                            "level_note": c["note"], "technique": c["technique"]})
    else:
        m["not_applicable"].append({"property_id": i, "reason": claims.get("pending_reason", "check not built yet")})
json.dump(m, open(os.path.join(ROOT, "MANIFEST.json"), "w"), indent=1)
print("claimed:", sorted(claimed))
