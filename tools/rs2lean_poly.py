#!/usr/bin/env python3
"""
tools/rs2lean_poly.py — renderer of the target `fn:poly` of tools/rs2lean_fn.py (imported by it; not a script).

It reuses the tokenizer, the item parser (structs, impls, single-arm `macro_rules!`) and the statement / expression
parser of rs2lean_fn.py and renders, with its own small type inference, the functions of

    yui/src/types/lc/lc.rs                       Lc<X, R>            (an `AHashMap<X, R>` plus the constant `r_zero`)
    yui/src/types/poly/{poly,var,var2,h_poly}.rs PolyBase<X, R>, Var<X, I>, Var2<X, Y, I>, HPoly<X, R>

and, for the target `fn:geninfo`, the free function `collect_gen_info` of yui-khovanov/src/misc.rs (`HashMap::entry(k)
.or_insert_with(..)` as append-when-absent + reference with write-back, tuple-field updates, `Vec::push`, `v[i]` and the checked
`usize` subtraction as `Res`, types of other crates through the target's `ext_types` / `ext_methods` tables and
Yuiv/Model/RustGenInfo.lean).

Reading (the meaning of the primitives is Yuiv/Model/RustMap.lean, TRUSTED):
  * every type parameter stays a type parameter: `R: Ring` is any type with `0 1 + - * neg` and decidable equality
    (`is_zero` / `is_one` are `= 0` / `= 1`), `X: Gen` any type with decidable equality, `X: Mono` additionally `*`, `1` and
    the two orders of `MonoOrd`, the exponent type `I` of `Var` / `Var2` any type with `+`, `0` and a decidable order;
    `const X: char` parameters are dropped; `usize` is `Nat`, `isize` is `Int` (no overflow, as in the hand model);
  * `AHashMap<K, V>` is the association list `AMap K V` whose order stands for the unspecified iteration order
    (`insert` of a new key appends, of an existing key replaces in place); `let v = m.get_mut(k).unwrap()` reads the value
    (panic when absent) and every mutation of `v` is written back; `m.iter_mut().for_each(|(_, r)| …)` maps the values;
  * iterators are the lists of their items; `collect()` / `from_iter` go through the written `FromIterator` impl;
  * closures and `F: Fn(..) -> ..` parameters are total Lean functions;
  * `&mut self` methods return the new value; `return` / `if` chains are rendered in continuation style; `for` loops are
    folds over the list; `assert!` failures and `unwrap()` of `None` are `Res.panic`;
  * operator forms derived by `#[auto_ops]` are identified with the written impl (`a *= &b` with only `Mul for &T`
    written is `a = &a * &b`; `a * b` with only `MulAssign` written is `{ let mut t = a.clone(); t *= b; t }`);
  * `delegate! { to self.data { … } }` is expanded.
Anything else is reported as "not translated" (exit 1 if the function is required).
"""
import os, re

R = None  # the rs2lean_fn module (set by generate)

RING_B = {"Ring", "AddMon", "AddGrp", "Field", "EucRing"}
GEN_B = {"Gen"}
MONO_B = {"Mono"}
STRUCT_KINDS = {"Lc": ["gen", "ring"], "PolyBase": ["mono", "ring"], "Var": ["exp"], "Var2": ["exp"], "HPoly": ["ring"],
                "MultiDeg": ["exp"], "MultiVar": ["exp"]}
ASSIGN_TRAIT = {"+=": "AddAssign", "-=": "SubAssign", "*=": "MulAssign"}
BIN_TRAIT = {"+": "Add", "-": "Sub", "*": "Mul"}
ASSIGN_METHOD = {"add_assign": "+=", "sub_assign": "-=", "mul_assign": "*="}


class U(Exception):
    pass


def split_top(s):
    out, cur, d = [], "", 0
    for ch in s:
        if ch in "(<[": d += 1
        if ch in ")>]": d -= 1
        if ch == "," and d == 0:
            out.append(cur); cur = ""
        else:
            cur += ch
    if cur.strip(): out.append(cur)
    return [x.strip() for x in out]


def show(t):
    if isinstance(t, str): return t
    if t[0] == "tuple": return "(" + ",".join(show(x) for x in t[1:]) + ")"
    if t[0] == "Fn": return "Fn(" + ",".join(show(x) for x in t[1]) + ")->" + show(t[2])
    return t[0] + "<" + ",".join(show(x) for x in t[1:]) + ">"


def unify(a, b):
    """structural compatibility with the wildcard `_`"""
    if a == "_" or b == "_": return True
    if isinstance(a, str) or isinstance(b, str): return a == b
    if a[0] != b[0] or len(a) != len(b): return False
    if a[0] == "Fn":
        return len(a[1]) == len(b[1]) and all(unify(x, y) for x, y in zip(a[1], b[1])) and unify(a[2], b[2])
    return all(unify(x, y) for x, y in zip(a[1:], b[1:]))


def meet(a, b):
    if a == "_": return b
    if b == "_" or isinstance(a, str) or isinstance(b, str): return a
    if a[0] == "Fn": return ("Fn", tuple(meet(x, y) for x, y in zip(a[1], b[1])), meet(a[2], b[2]))
    return (a[0],) + tuple(meet(x, y) for x, y in zip(a[1:], b[1:]))


def subst(t, s):
    if isinstance(t, str): return s.get(t, t)
    if t[0] == "Fn": return ("Fn", tuple(subst(x, s) for x in t[1]), subst(t[2], s))
    return (t[0],) + tuple(subst(x, s) for x in t[1:])


def match_ty(pat, t, s):
    """bind the type variables (keys of s with value None allowed) of pat against t"""
    if isinstance(pat, str):
        if pat in s:
            if s[pat] is None or s[pat] == "_":
                s[pat] = t; return True
            return unify(s[pat], t)
        return pat == t or t == "_" or pat == "_"
    if t == "_": return True
    if isinstance(t, str) or pat[0] != t[0] or len(pat) != len(t): return False
    if pat[0] == "Fn":
        return len(pat[1]) == len(t[1]) and all(match_ty(x, y, s) for x, y in zip(pat[1], t[1])) and match_ty(pat[2], t[2], s)
    return all(match_ty(x, y, s) for x, y in zip(pat[1:], t[1:]))


# code trees --------------------------------------------------------------------------------------------------
class Let:      # let pat := term ; rest     (monadic: let pat ← term)
    def __init__(self, pat, term, mon, rest): self.pat, self.term, self.mon, self.rest = pat, term, mon, rest
class If:
    def __init__(self, c, th, el): self.c, self.th, self.el = c, th, el
class Ret:
    def __init__(self, term): self.term = term
class Assert:
    def __init__(self, c, rest): self.c, self.rest = c, rest
class Panic:
    pass


def impure(c):
    if isinstance(c, Let): return c.mon or impure(c.rest)
    if isinstance(c, If): return impure(c.th) or impure(c.el)
    if isinstance(c, Assert) or isinstance(c, Panic): return True
    return False


def render(c, ind, mon):
    """lines of the code tree; mon: the function is Res-valued"""
    if isinstance(c, Ret):
        return [ind + (f"Res.ok {par(c.term)}" if mon else c.term)]
    if isinstance(c, Panic):
        return [ind + "Res.panic"]
    if isinstance(c, Let):
        if c.mon and mon and isinstance(c.rest, Ret) and c.rest.term == c.pat: return [ind + c.term]
        if c.mon: return [ind + f"Res.bind {par(c.term)} (fun {c.pat} =>"] + render(c.rest, ind, mon)[:-1] + [render(c.rest, ind, mon)[-1] + ")"]
        return [ind + f"let {c.pat} := {c.term}"] + render(c.rest, ind, mon)
    if isinstance(c, Assert):
        return [ind + f"if {c.c} then"] + render(c.rest, ind + "  ", mon) + [ind + "else Res.panic"]
    if isinstance(c, If):
        th, el = render(c.th, ind + "  ", mon), render(c.el, ind + "  ", mon)
        return [ind + f"if {c.c} then"] + th + [ind + "else"] + el
    raise U("internal: code tree")


def par(t):
    t = t.strip()
    if re.fullmatch(r"[\w.']+", t) or (t[0] in "({" and matching(t)): return t
    return "(" + t + ")"


def matching(t):
    d = 0
    for i, ch in enumerate(t):
        if ch in "({": d += 1
        if ch in ")}": d -= 1
        if d == 0 and i < len(t) - 1: return False
    return True


class Tr:
    def __init__(self, mod, cfg, delegates):
        self.mod, self.cfg, self.delegates = mod, cfg, delegates
        self.done, self.emitted, self.stack = {}, [], []
        self.ntmp = 0

    # ---------------------------------------------------------------- types
    def struct_args(self, name, raw):
        """drop the const arguments of a struct instance"""
        nc = len(self.mod.stcparams.get(name, []))
        return raw[nc:]

    def ty(self, s, f):
        s = s.strip()
        if s == "()": return "unit"
        if s.startswith("("):
            return ("tuple",) + tuple(self.ty(x, f) for x in split_top(s[1:-1]))
        m = re.fullmatch(r"impl Iterator<Item=(.*)>", s)
        if m: return ("List", self.ty(m.group(1), f))
        if s == "Self": return f.self_ty
        if s.startswith("Self::"):
            nm = s[6:]
            if nm in f.assoc: return self.ty(f.assoc[nm], f)
            raise U(f"type `{s}`")
        for rx, build in self.cfg.get("ext_types", []):
            m0 = re.fullmatch(rx, s)
            if m0: return build(self, m0, f)
        if s in ("std::cmp::Ordering", "Ordering", "cmp::Ordering"): return "Ordering"
        if s in ("usize", "isize", "bool"): return s
        if s in f.kinds:
            k = f.kinds[s]
            if isinstance(k, tuple): return k
            return s
        m = re.fullmatch(r"([\w:]+)<(.*)>", s)
        if m:
            name, args = m.group(1), split_top(m.group(2))
            if name == "Option": return ("Option", self.ty(args[0], f))
            if name in ("AHashMap", "HashMap"): return ("AMap", self.ty(args[0], f), self.ty(args[1], f))
            if name == "BTreeMap": return ("BMap", self.ty(args[0], f), self.ty(args[1], f))
            if name == "Vec": return ("List", self.ty(args[0], f))
            if name == "std::collections::hash_map::IntoIter": return ("List", ("tuple", self.ty(args[0], f), self.ty(args[1], f)))
            if name in self.mod.structs:
                a = self.struct_args(name, args)
                if len(a) != len(self.mod.stparams.get(name, [])): raise U(f"type `{s}`")
                return (name,) + tuple(self.ty(x, f) for x in a)
        raise U(f"type `{s}`")

    def lean_ty(self, t):
        if isinstance(t, str):
            if t == "usize": return "Nat"
            if t == "isize": return "Int"
            if t == "bool": return "Bool"
            if t == "unit": return "Unit"
            if t == "_": return "_"
            if t in self.cfg.get("ext_lean", {}): return self.cfg["ext_lean"][t]
            return t
        if t[0] == "tuple": return "(" + " × ".join(self.lean_ty(x) for x in t[1:]) + ")"
        if t[0] == "Option": return f"(Option {self.lean_ty(t[1])})"
        if t[0] == "List": return f"(List {self.lean_ty(t[1])})"
        if t[0] in ("AMap", "BMap"): return f"({t[0]} {self.lean_ty(t[1])} {self.lean_ty(t[2])})"
        if t[0] == "Fn": return "(" + " → ".join([self.lean_ty(x) for x in t[1]] + [self.lean_ty(t[2])]) + ")"
        if t[0] in self.mod.structs: return "(" + " ".join([t[0] + "S"] + [self.lean_ty(x) for x in t[1:]]) + ")"
        if t[0] in self.cfg.get("ext_lean", {}): return "(" + " ".join([self.cfg["ext_lean"][t[0]]] + [self.lean_ty(x) for x in t[1:]]) + ")"
        raise U(f"type {show(t)}")

    def setup(self, f):
        """kinds of the type parameters, self type"""
        if hasattr(f, "kinds"): return
        f.kinds, f.order_tv = {}, []
        if getattr(f, "is_free", False):
            for tp in f.tparams:
                bs = [b for t, b in f.bounds if t == tp]
                names = {re.sub(r"[<(].*$", "", b) for b in bs}
                if names & RING_B: f.kinds[tp] = "ring"
                elif names & MONO_B: f.kinds[tp] = "mono"
                elif names & GEN_B: f.kinds[tp] = "gen"
                else: raise U(f"type parameter `{tp}` with bounds {sorted(names)}")
                f.order_tv.append(tp)
            f.self_ty = None
            return
        full = f.impl_full or f.ty
        m = re.fullmatch(r"(\w+)<(.*)>", full)
        raw = split_top(m.group(2)) if m else []
        base = m.group(1) if m else full
        if base in self.mod.aliases: raise U(f"impl for the alias `{full}` (a specific monomial type)")
        if base not in self.mod.structs: raise U(f"impl for `{full}`")
        sargs = self.struct_args(base, raw)
        pos_kind = {}
        for a, k in zip(sargs, STRUCT_KINDS.get(base, [])):
            pos_kind[a] = k
        for tp in f.tparams:
            bs = [b for t, b in f.bounds if t == tp]
            names = {re.sub(r"[<(].*$", "", b) for b in bs}
            fnb = [b for b in bs if b.startswith("Fn(")]
            itb = [b for b in bs if b.startswith("IntoIterator<Item=")]
            if fnb or itb: continue
            if names & RING_B: f.kinds[tp] = "ring"
            elif names & MONO_B: f.kinds[tp] = "mono"
            elif names & GEN_B: f.kinds[tp] = "genmul" if "Mul" in names else "gen"
            elif tp in pos_kind: f.kinds[tp] = pos_kind[tp]
            else: raise U(f"type parameter `{tp}` with bounds {sorted(names)}")
            f.order_tv.append(tp)
        sa = []
        for a in sargs:
            if a in f.kinds: sa.append(a)
            elif a in ("usize", "isize"): sa.append(a)
            else: raise U(f"impl for `{full}` (a specific monomial type)")
        f.self_ty = (base,) + tuple(sa)
        for tp in f.tparams:       # function-valued / iterator-valued parameters
            bs = [b for t, b in f.bounds if t == tp]
            for b in bs:
                m1 = re.fullmatch(r"Fn\((.*)\)->(.*)", b)
                if m1:
                    args = [x.replace("&", "").strip() for x in m1.group(1).split(" , ")] if m1.group(1).strip() else []
                    f.kinds[tp] = ("Fn", tuple(self.ty(a, f) for a in args), self.ty(m1.group(2), f))
                m2 = re.fullmatch(r"IntoIterator<Item=(.*)>", b)
                if m2: f.kinds[tp] = ("List", self.ty(m2.group(1), f))
            if tp not in f.kinds: raise U(f"type parameter `{tp}`")

    def sig_binders(self, f):
        parts = []
        tv = f.order_tv
        if tv: parts.append("{" + " ".join(tv) + " : Type}")
        for tp in tv:
            k = f.kinds[tp]
            if k == "ring": parts.append(f"[DecidableEq {tp}] [Zero {tp}] [One {tp}] [Add {tp}] [Sub {tp}] [Neg {tp}] [Mul {tp}]")
            elif k == "gen": parts.append(f"[DecidableEq {tp}]")
            elif k == "genmul": parts.append(f"[DecidableEq {tp}] [Mul {tp}]")
            elif k == "mono": parts.append(f"[DecidableEq {tp}] [Mul {tp}] [One {tp}] [MonoOrd {tp}]")
            elif k == "exp": parts.append(f"[DecidableEq {tp}] [Zero {tp}] [Add {tp}] [LT {tp}] [DecidableLT {tp}]")
        return " ".join(parts)

    def kind_of(self, t, f):
        if isinstance(t, str):
            if t in ("usize", "isize"): return "int"
            k = f.kinds.get(t)
            return k if isinstance(k, str) else None
        return None

    # ---------------------------------------------------------------- functions
    def lean_fn(self, f):
        nm = R.Translator.ident(f.name)
        return f"{f.ty}.{f.tag}.{nm}" if f.tag else f"{f.ty}.{nm}"

    def translate(self, f):
        if id(f) in self.done:
            r = self.done[id(f)]
            if isinstance(r, U): raise r
            return r
        if id(f) in self.stack: raise U(f"recursion through {f.rust_name}")
        self.stack.append(id(f))
        saved = (getattr(self, "cur", None), self.ntmp)
        try:
            r = self.translate_fn(f)
        except (U, R.Unsupported) as e:
            e2 = e if getattr(e, "nested", False) else U(f"{f.rust_name}: {e}")
            e2.nested = True
            self.done[id(f)] = e2
            raise e2
        finally:
            self.stack.pop()
            self.cur, self.ntmp = saved
        self.done[id(f)] = r
        self.emitted.append(f)
        return r

    def translate_fn(self, f):
        if f.generic: raise U(f.generic)
        if getattr(f, "dup", False): raise U("defined by several impls, one per concrete monomial / exponent type")
        self.setup(f)
        self.cur, self.ntmp = f, 0
        env = {}
        params = []
        if f.selfk:
            env["self"] = dict(ln="slf", ty=f.self_ty, mut=(f.selfk == "mut"))
            params.append(("slf", f.self_ty))
        for nm, t in f.params:
            ty = self.ty(t, f)
            ln = R.Translator.ident(nm)
            env[nm] = dict(ln=ln, ty=ty, mut=False)
            params.append((ln, ty))
        ret = self.ty(f.ret, f)
        body = R.Parser(list(f.toks), f.body[0], f.body[1]).block()
        if getattr(body, "fns", None): raise U("nested fn item")
        f.ret_ty = ret
        if f.selfk == "mut":
            if ret != "unit": raise U("`&mut self` method returning a value")
            fin = lambda env_, term, ty: Ret(env_["self"]["ln"])
            lret = f.self_ty
        else:
            def fin(env_, term, ty):
                if term is None:
                    if ret != "unit": raise U("missing tail expression")
                    return Ret("()")
                if not unify(ret, ty): raise U(f"tail expression of type {show(ty)}, expected {show(ret)}")
                return Ret(term)
            lret = ret
        if getattr(f, "is_free", False):      # a type parameter that occurs in no parameter / result type (phantom) is dropped
            shown = [show(t) for _, t in params] + [show(lret)]
            f.order_tv = [tp for tp in f.order_tv if any(re.search(r"(?<![\w])" + re.escape(tp) + r"(?![\w])", x) for x in shown)]
        code = self.block(body.stmts, body.tail, env, fin, ret if f.selfk != "mut" else None)
        mon = impure(code)
        sig = " ".join(([self.sig_binders(f)] if self.sig_binders(f) else []) +
                       [f"({n} : {R.unpar(self.lean_ty(t))})" for n, t in params])
        lr = self.lean_ty(lret)
        head = f"def {self.lean_fn(f)}" + (" " + sig if sig else "") + " : " + (f"Res {lr}" if mon else R.unpar(lr)) + " :="
        text = "\n".join([f"/-- `{f.rust_name}` -/", head] + render(code, "  ", mon))
        return dict(text=text, pure=not mon, ret=lret, fn=f)

    def fresh(self, pre="r"):
        self.ntmp += 1
        return f"{pre}{self.ntmp}_"

    # ---------------------------------------------------------------- statements
    def block(self, stmts, tail, env, fin, expect):
        """code of `stmts; tail` ending with fin(env, term, ty) (term None: no tail value)"""
        if not stmts:
            if tail is None: return fin(env, None, "unit")
            if tail.kind in ("if", "return", "for", "assign", "macro") or self.is_mut_stmt(tail, env):
                return self.stmt(tail, [], None, env, fin, expect)
            bs, t, ty = self.expr(tail, env, expect)
            return self.wrap(bs, fin(env, t, ty))
        st, rest = stmts[0], stmts[1:]
        if st.kind == "let":
            return self.let(st, rest, tail, env, fin, expect)
        if st.kind == "expr":
            return self.stmt(st.e, rest, tail, env, fin, expect)
        raise U(f"statement `{st.kind}` (line {st.line})")

    def wrap(self, bs, code):
        for pat, term, mon in reversed(bs):
            code = Let(pat, term, mon, code)
        return code

    def let(self, st, rest, tail, env, fin, expect):
        if st.els is not None: raise U(f"`let … else` (line {st.line})")
        exp = self.ty(st.ty, self.cur) if st.ty else None
        init = st.init
        # `let e = m.entry(k).or_insert_with(|| d)`: insert the default when absent, then a mutable reference into the map
        if st.name and init.kind == "mcall" and init.name == "or_insert_with" and init.recv.kind == "mcall" and init.recv.name == "entry" \
                and len(init.args) == 1 and init.args[0].kind == "closure" and not init.args[0].params and len(init.recv.args) == 1:
            place = init.recv.recv
            pb, pt, pty = self.expr(place, env)
            if isinstance(pty, str) or pty[0] not in ("AMap", "BMap"): raise U(f"`entry` on {show(pty)} (line {st.line})")
            kb, kt, kty = self.expr(init.recv.args[0], env, pty[1])
            db, dt, dty = self.expr(init.args[0].body, env, pty[2])
            if any(m_ for _, _, m_ in db): raise U(f"`or_insert_with` closure that may panic (line {st.line})")
            dt = self.inline_lets(db, dt)
            K_, V_ = meet(pty[1], kty), meet(pty[2], dty)
            if not (unify(kty, pty[1]) and unify(dty, pty[2])): raise U(f"`entry` of ({show(kty)}, {show(dty)}) on {show(pty)} (line {st.line})")
            if not re.fullmatch(r"[\w.]+", kt):
                kv = self.fresh("k"); kb = kb + [(kv, kt, False)]; kt = kv
            ln = R.Translator.ident(st.name)

            def after(env1):
                pb2, pt2, _ = self.expr(place, env1)
                env2 = dict(env1)
                env2[st.name] = dict(ln=ln, ty=V_, mut=True, mapref=(place, kt))
                return self.wrap(pb2 + [(ln, f"Opt.unwrap (AMap.get {par(pt2)} {par(kt)})", True)], self.block(rest, tail, env2, fin, expect))
            return self.wrap(kb, self.store(place, f"AMap.or_insert {par(pt)} {par(kt)} {par(dt)}", ("AMap", K_, V_), env, after, pb, st.line, newty=("AMap", K_, V_)))
        # `let v = m.get_mut(k).unwrap()`: a mutable reference into a map
        if st.name and init.kind == "mcall" and init.name == "unwrap" and init.recv.kind == "mcall" and init.recv.name == "get_mut":
            place = init.recv.recv
            pb, pt, pty = self.expr(place, env)
            if isinstance(pty, str) or pty[0] not in ("AMap", "BMap"): raise U(f"`get_mut` on {show(pty)} (line {st.line})")
            kb, kt, kty = self.expr(init.recv.args[0], env)
            if not unify(kty, pty[1]): raise U(f"`get_mut` key of type {show(kty)} (line {st.line})")
            ln = R.Translator.ident(st.name)
            env2 = dict(env)
            env2[st.name] = dict(ln=ln, ty=pty[2], mut=True, mapref=(place, kt))
            code = self.block(rest, tail, env2, fin, expect)
            return self.wrap(pb + kb + [(ln, f"Opt.unwrap ({pty[0]}.get {par(pt)} {par(kt)})", True)], code)
        if st.name and init.kind == "un" and init.op == "&mut":        # `let x = &mut place`: another name of the place
            _, _, pty_ = self.expr(init.e, env)
            env2 = dict(env)
            env2[st.name] = dict(ln=None, ty=pty_, mut=True, place=init.e)
            return self.block(rest, tail, env2, fin, expect)
        bs, t, ty = self.expr(init, env, exp)
        if exp is not None:
            if not unify(exp, ty): raise U(f"`let` of type {show(ty)}, declared {show(exp)} (line {st.line})")
            ty = meet(ty, exp)
        env2 = dict(env)
        if st.name:
            if st.name == "_": return self.wrap(bs, self.block(rest, tail, env2, fin, expect))
            ln = R.Translator.ident(st.name)
            env2[st.name] = dict(ln=ln, ty=ty, mut=st.mut)
            code = self.block(rest, tail, env2, fin, expect)
            return self.wrap(bs + [(ln, t, False)], code)
        # flat tuple pattern: projections
        if isinstance(ty, str) or ty[0] != "tuple" or len(ty) - 1 != len(st.pat):
            raise U(f"tuple pattern against {show(ty)} (line {st.line})")
        if not re.fullmatch(r"[\w.]+", t):
            v = self.fresh(); bs = bs + [(v, t, False)]; t = v
        for k, (nm, mut_) in enumerate(st.pat):
            if nm == "_": continue
            env2[nm] = dict(ln=self.proj(t, k, len(st.pat)), ty=ty[k + 1], mut=False, alias=True)
        return self.wrap(bs, self.block(rest, tail, env2, fin, expect))

    @staticmethod
    def proj(t, k, n):
        if n == 1: return t
        if k == 0: return f"{t}.1"
        return Tr.proj(f"{t}.2", k - 1, n - 1)

    def is_mut_stmt(self, e, env):
        if e.kind == "mcall":
            if e.name in ("retain", "insert", "reserve", "for_each", "clone_from", "push") or e.name in ASSIGN_METHOD: return True
            try:
                _, _, rty = self.expr(e.recv, env)
            except U:
                return False
            c = self.find_method(rty, e.name, None)
            return c is not None and c[0].selfk == "mut"
        return False

    def stmt(self, e, rest, tail, env, fin, expect):
        cont = lambda env_: self.block(rest, tail, env_, fin, expect)
        if e.kind == "paren": return self.stmt(e.e, rest, tail, env, fin, expect)
        if e.kind == "return":
            if e.e is None: return fin(env, None, "unit")
            bs, t, ty = self.expr(e.e, env, expect)
            return self.wrap(bs, fin(env, t, ty))
        if e.kind == "if":
            cb, ct, cty = self.expr(e.c, env)
            if cty != "bool": raise U(f"`if` condition of type {show(cty)} (line {e.line})")
            last = not rest and tail is None

            def branch(b):
                for st_ in b.stmts:
                    if st_.kind == "let" and ((st_.name and st_.name in env) or any(n_ in env for n_, _ in (st_.pat or []))):
                        raise U(f"`let` in an `if` branch shadows an outer variable (line {e.line})")
                if last: return self.block(b.stmts, b.tail, env, fin, expect)
                extra = [R.N("expr", e=b.tail, line=e.line)] if b.tail is not None else []
                return self.block(b.stmts + extra + rest, tail, env, fin, expect)
            th = branch(e.th)
            el = cont(env) if e.el is None else branch(e.el)
            return self.wrap(cb, If(ct, th, el))
        if e.kind == "for":
            return self.for_(e, env, cont)
        if e.kind == "macro":
            if e.name in ("assert", "debug_assert"):
                cb, ct, cty = self.expr(e.args[0], env)
                return self.wrap(cb, Assert(ct, cont(env)))
            if e.name in ("assert_eq", "debug_assert_eq"):
                ab, at, aty = self.expr(e.args[0], env)
                bb, bt, bty = self.expr(e.args[1], env)
                return self.wrap(ab + bb, Assert(self.eq_term(at, bt, aty, bty, e.line), cont(env)))
            if e.name in ("panic", "unreachable"): return Panic()
            raise U(f"macro `{e.name}!` (line {e.line})")
        if e.kind == "assign":
            return self.assign(e.op, e.l, e.r, env, cont, e.line)
        if e.kind == "mcall":
            if e.name in ASSIGN_METHOD and len(e.args) == 1:
                return self.assign(ASSIGN_METHOD[e.name], e.recv, e.args[0], env, cont, e.line)
            if e.name == "push" and len(e.args) == 1:
                pb, pt, pty = self.expr(e.recv, env)
                if isinstance(pty, str) or pty[0] != "List": raise U(f"`push` on {show(pty)} (line {e.line})")
                ab, at, aty = self.expr(e.args[0], env, pty[1] if pty[1] != "_" else None)
                if not unify(pty[1], aty): raise U(f"`push` of {show(aty)} on {show(pty)} (line {e.line})")
                nty = ("List", meet(pty[1], aty))
                return self.store(e.recv, f"{par(pt)} ++ [{at}]", nty, env, cont, pb + ab, e.line, newty=nty)
            if e.name == "reserve": return cont(env)          # capacity only
            if e.name == "clone_from" and len(e.args) == 1:   # `a.clone_from(&b)` is `a = b.clone()`
                return self.assign("=", e.recv, e.args[0], env, cont, e.line)
            if e.name == "retain" and len(e.args) == 1 and e.args[0].kind == "closure":
                pb, pt, pty = self.expr(e.recv, env)
                if isinstance(pty, str) or pty[0] not in ("AMap", "BMap"): raise U(f"`retain` on {show(pty)} (line {e.line})")
                ft = self.closure(e.args[0], [pty[1], pty[2]], "bool", env)
                return self.store(e.recv, f"{pty[0]}.retain {par(pt)} {par(ft)}", pty, env, cont, pb, e.line)
            if e.name == "insert" and len(e.args) == 2:
                pb, pt, pty = self.expr(e.recv, env)
                if isinstance(pty, str) or pty[0] not in ("AMap", "BMap"): raise U(f"`insert` on {show(pty)} (line {e.line})")
                kb, kt, kty = self.expr(e.args[0], env, pty[1])
                vb, vt, vty = self.expr(e.args[1], env, pty[2])
                if not (unify(kty, pty[1]) and unify(vty, pty[2])): raise U(f"`insert` of ({show(kty)}, {show(vty)}) (line {e.line})")
                return self.store(e.recv, f"{pty[0]}.insert {par(pt)} {par(kt)} {par(vt)}", pty, env, cont, pb + kb + vb, e.line)
            if e.name == "for_each" and e.recv.kind == "mcall" and e.recv.name == "iter_mut" and len(e.args) == 1 \
                    and e.args[0].kind == "closure":
                pb, pt, pty = self.expr(e.recv.recv, env)
                if isinstance(pty, str) or pty[0] not in ("AMap", "BMap"): raise U(f"`iter_mut` on {show(pty)} (line {e.line})")
                ft = self.mut_closure(e.args[0], pty, env)
                return self.store(e.recv.recv, f"{pty[0]}.map_values {par(pt)} {par(ft)}", pty, env, cont, pb, e.line)
            # user `&mut self` method on a place
            pb, pt, pty = self.expr(e.recv, env)
            c = self.find_method(pty, e.name, None)
            if c is not None and c[0].selfk == "mut":
                g, s = c
                info = self.translate(g)
                ab, ats = self.args(g, s, e.args, env, e.line)
                call = " ".join([self.lean_fn(g)] + [par(pt)] + [par(a) for a in ats])
                if info["pure"]:
                    return self.store(e.recv, call, pty, env, cont, pb + ab, e.line)
                v = self.fresh()
                return self.wrap(pb + ab + [(v, call, True)], self.store(e.recv, v, pty, env, cont, [], e.line))
        # an expression evaluated for nothing
        if not rest and tail is None:
            bs, t, ty = self.expr(e, env, expect)
            return self.wrap(bs, fin(env, t, ty))
        raise U(f"expression statement `{e.kind}` (line {e.line})")

    def store(self, place, newterm, ty, env, cont, bs, line, newty=None):
        """assign newterm to the place (variable / field path / `*x`), then continue"""
        while place.kind == "paren" or (place.kind == "un" and place.op in ("*", "&", "&mut")): place = place.e
        if place.kind == "path" and len(place.segs) == 1:
            nm = place.segs[0]
            if nm not in env: raise U(f"assignment to `{nm}` (line {line})")
            ent = env[nm]
            if ent.get("place") is not None:
                return self.store(ent["place"], newterm, ty, env, cont, bs, line, newty=newty)
            if not ent.get("mut"): raise U(f"assignment to the immutable `{nm}` (line {line})")
            env2 = dict(env)
            env2[nm] = dict(ent)
            if newty is not None: env2[nm]["ty"] = newty
            code_bs = bs + [(ent["ln"], newterm, False)]
            if ent.get("mapref"):
                mplace, kt = ent["mapref"]
                pb, pt, pty = self.expr(mplace, env)
                inner = self.store(mplace, f"{pty[0]}.set {par(pt)} {par(kt)} {ent['ln']}", pty, env2, cont, [], line)
                return self.wrap(code_bs + pb, inner)
            return self.wrap(code_bs, cont(env2))
        if place.kind == "field":
            ob, ot, oty = self.expr(place.e, env)
            if not isinstance(oty, str) and oty[0] == "tuple" and place.name.isdigit() and int(place.name) < len(oty) - 1:
                n_ = len(oty) - 1
                comps = [newterm if k_ == int(place.name) else self.proj(par(ot), k_, n_) for k_ in range(n_)]
                nty = None
                if newty is not None:
                    l_ = list(oty); l_[int(place.name) + 1] = newty; nty = tuple(l_)
                return self.store(place.e, "(" + ", ".join(comps) + ")", oty, env, cont, bs + ob, line, newty=nty)
            if isinstance(oty, str) or oty[0] not in self.mod.structs: raise U(f"field assignment on {show(oty)} (line {line})")
            fname = self.field_name(oty[0], place.name)
            return self.store(place.e, f"{{ {ot} with {fname} := {newterm} }}", oty, env, cont, bs + ob, line)
        raise U(f"assignment target `{place.kind}` (line {line})")

    def assign(self, op, lhs, rhs, env, cont, line):
        lb, lt, lty = self.expr(lhs, env)
        if op == "=":
            rb, rt, rty = self.expr(rhs, env, lty)
            if not unify(lty, rty): raise U(f"assignment of {show(rty)} to {show(lty)} (line {line})")
            return self.store(lhs, rt, lty, env, cont, rb, line)
        if op not in ASSIGN_TRAIT: raise U(f"`{op}` (line {line})")
        rb, rt, rty = self.expr(rhs, env)
        bs, t = self.op_assign_term(op, lt, lty, rt, rty, line)
        return self.store(lhs, t, lty, env, cont, lb + rb + bs, line)

    def op_assign_term(self, op, lt, lty, rt, rty, line):
        """value of `l op= r`"""
        k = self.kind_of(lty, self.cur)
        if k in ("ring", "exp", "int") and unify(lty, rty):
            if op == "-=" and k != "ring": raise U(f"`-=` on the exponent type {show(lty)} (usize underflow is not modelled) (line {line})")
            return [], f"{par(lt)} {op[0]} {par(rt)}"
        if not isinstance(lty, str) and lty[0] in self.mod.structs:
            tr = ASSIGN_TRAIT[op]
            c = self.find_impl(lty, tr + "_", {"add_assign": 1, "sub_assign": 1, "mul_assign": 1}, op, [rty], mut=True)
            if c is not None:
                g, s = c
                info = self.translate(g)
                call = f"{self.lean_fn(g)} {par(lt)} {par(rt)}"
                if info["pure"]: return [], call
                v = self.fresh()
                return [(v, call, True)], v
            # derived by auto_ops from `impl Op for &T`
            bt = {"+=": "Add", "-=": "Sub", "*=": "Mul"}[op]
            c = self.find_binop(lty, bt, rty)
            if c is not None:
                g, s = c
                info = self.translate(g)
                call = f"{self.lean_fn(g)} {par(lt)} {par(rt)}"
                if info["pure"]: return [], call
                v = self.fresh()
                return [(v, call, True)], v
        raise U(f"`{op}` on {show(lty)}, {show(rty)} (line {line})")

    def find_impl(self, sty, tagprefix, _names, op, argtys, mut):
        name = {"+=": "add_assign", "-=": "sub_assign", "*=": "mul_assign"}[op]
        return self.find_method(sty, name, argtys, tagprefix=tagprefix)

    def find_binop(self, lty, trait, rty):
        name = trait.lower()
        return self.find_method(lty, name, [rty], tagprefix=trait)

    def for_(self, e, env, cont):
        ib, it, ity = self.expr(e.it, env)
        if isinstance(ity, str) or ity[0] != "List": raise U(f"`for` over {show(ity)} (line {e.line})")
        muts = sorted(self.mutated_roots(e.body, env))
        if len(muts) != 1: raise U(f"`for` body mutating {muts or 'nothing'} (line {e.line})")
        sv = muts[0]
        sent = env[sv]
        env2 = dict(env)
        x = self.fresh("x") if e.var.startswith("it_") or e.var == "_" else R.Translator.ident(e.var)
        if e.var != "_": env2[e.var] = dict(ln=x, ty=ity[1], mut=False)
        if e.body.tail is not None and not (e.body.tail.kind in ("assign", "mcall", "if", "for")):
            raise U(f"`for` body with a value (line {e.line})")
        stmts = e.body.stmts + ([R.N("expr", e=e.body.tail, line=e.line)] if e.body.tail is not None else [])
        body = self.block(stmts, None, env2, lambda env_, term, ty: Ret(env_[sv]["ln"]), None)
        mon = impure(body)
        lines = render(body, "      ", mon)
        fun = f"(fun {sent['ln']} {x} =>\n" + "\n".join(lines) + ")"
        if mon:
            v = sent["ln"]
            return self.wrap(ib + [(v, f"Poly.forM {par(it)} {par(sent['ln'])} {fun}", True)], cont(env))
        return self.wrap(ib + [(sent["ln"], f"List.foldl {fun} {par(sent['ln'])} {par(it)}", False)], cont(env))

    def mutated_roots(self, node, env):
        out = set()

        def root(p):
            while p.kind in ("field", "paren", "index") or (p.kind == "un" and p.op in ("*", "&", "&mut")): p = p.e
            r0 = p.segs[0] if p.kind == "path" and len(p.segs) == 1 else None
            if r0 in env and env[r0].get("place") is not None: return root(env[r0]["place"])
            return r0

        def go(n):
            if isinstance(n, list):
                for x in n: go(x)
                return
            if not isinstance(n, R.N): return
            if n.kind == "assign":
                r_ = root(n.l)
                if r_ in env: out.add(r_)
            if n.kind == "mcall" and self.is_mut_stmt(n, env):
                rc = n.recv.recv if (n.name == "for_each" and n.recv.kind == "mcall") else n.recv
                r_ = root(rc)
                if r_ in env: out.add(r_)
            if n.kind == "let":
                i_ = n.init
                if i_.kind == "mcall" and i_.recv.kind == "mcall" and i_.recv.name in ("entry", "get_mut"):
                    r_ = root(i_.recv.recv)
                    if r_ in env: out.add(r_)
                go(n.init); return
            for v in n.__dict__.values():
                if isinstance(v, (R.N, list)): go(v)
        go(node)
        return out

    # ---------------------------------------------------------------- closures
    def closure(self, c, ptys, rty, env):
        """a closure as a total Lean function; tuple patterns are projections"""
        if c.kind != "closure":
            bs, t, ty = self.expr(c, env, ("Fn", tuple(ptys), rty or "_"))
            if bs: raise U(f"function argument with effects (line {c.line})")
            if isinstance(ty, str) or ty[0] != "Fn": raise U(f"function argument of type {show(ty)} (line {c.line})")
            self.last_closure_ret = ty[2]
            return t
        if len(c.params) != len(ptys): raise U(f"closure with {len(c.params)} parameters, {len(ptys)} expected (line {c.line})")
        env2 = dict(env)
        names = []

        def bind(p, t, ty):
            if isinstance(p, tuple):
                if isinstance(ty, str) or ty[0] != "tuple" or len(ty) - 1 != len(p): raise U(f"closure pattern against {show(ty)} (line {c.line})")
                for k, q in enumerate(p): bind(q, self.proj(t, k, len(p)), ty[k + 1])
            elif p != "_":
                env2[p] = dict(ln=t, ty=ty, mut=False, alias=True)
        for k, (p, ty) in enumerate(zip(c.params, ptys)):
            if isinstance(p, tuple):
                v = self.fresh("p"); names.append(v); bind(p, v, ty)
            elif p == "_":
                names.append("_")
            else:
                v = R.Translator.ident(p); names.append(v)
                env2[p] = dict(ln=v, ty=ty, mut=False)
        saved_ret = None
        body = c.body
        if body.kind == "block":
            code = self.block(body.stmts, body.tail, env2, lambda env_, term, ty: self.clos_fin(term, ty, rty, c.line), rty)
        else:
            code = self.block([], body, env2, lambda env_, term, ty: self.clos_fin(term, ty, rty, c.line), rty)
        if impure(code): raise U(f"closure that may panic (line {c.line})")
        lines = render(code, "", False)
        inner = " ".join(x.strip() for x in lines) if len(lines) == 1 else "\n" + "\n".join("        " + x for x in lines)
        return f"(fun {' '.join(names)} => {inner})" if names else f"(fun (_ : Unit) => {inner})"

    def clos_fin(self, term, ty, rty, line):
        if term is None: raise U(f"closure without value (line {line})")
        if rty is not None and rty != "_" and not unify(rty, ty): raise U(f"closure returns {show(ty)}, expected {show(rty)} (line {line})")
        self.last_closure_ret = ty if rty in (None, "_") else meet(ty, rty)
        return Ret(term)

    def mut_closure(self, c, mty, env):
        """`|(k, v)| *v op= e` on `iter_mut()`: the new value as a function of key and value"""
        if len(c.params) != 1 or not isinstance(c.params[0], tuple) or len(c.params[0]) != 2:
            raise U(f"`for_each` closure pattern (line {c.line})")
        kn, vn = c.params[0]
        if vn == "_": raise U(f"`for_each` closure ignoring the value (line {c.line})")
        env2 = dict(env)
        kl = "_" if kn == "_" else R.Translator.ident(kn)
        vl = R.Translator.ident(vn)
        if kn != "_": env2[kn] = dict(ln=kl, ty=mty[1], mut=False)
        env2[vn] = dict(ln=vl, ty=mty[2], mut=True)
        body = c.body
        stmts = body.stmts + ([R.N("expr", e=body.tail, line=c.line)] if body.tail is not None else []) if body.kind == "block" \
            else [R.N("expr", e=body, line=c.line)]
        code = self.block(stmts, None, env2, lambda env_, term, ty: Ret(env_[vn]["ln"]), None)
        if impure(code): raise U(f"closure that may panic (line {c.line})")
        lines = render(code, "", False)
        return f"(fun {kl} {vl} => " + " ".join(x.strip() + (";" if x.strip().startswith("let ") else "") for x in lines) + ")"

    # ---------------------------------------------------------------- method lookup
    def find_method(self, rty, name, argtys, tagprefix=None):
        """(Fn, substitution) for the method `name` of the struct type rty; None when there is none"""
        if isinstance(rty, str) or rty[0] not in self.mod.structs: return None
        cands = []
        for g in self.mod.fns:
            if g.ty != rty[0] or g.name != name or g.selfk is None: continue
            if tagprefix is not None and not (g.tag or "").startswith(tagprefix): continue
            try:
                self.setup(g)
            except U:
                continue
            s = {tp: None for tp in g.tparams}
            if not match_ty(g.self_ty, rty, s): continue
            if argtys is not None:
                try:
                    ptys = [self.ty(t, g) for _, t in g.params]
                except U:
                    continue
                if len(ptys) != len(argtys) or not all(match_ty(p, a, s) for p, a in zip(ptys, argtys)): continue
            if not self.binding_ok(g, s): continue
            cands.append((g, s))
        if len(cands) > 1:         # by-value / by-reference variants of one trait: prefer the `_ref` impl only for `&x` (erased): any
            refs = [c for c in cands if "_ref" in (c[0].tag or "")]
            vals = [c for c in cands if "_ref" not in (c[0].tag or "")]
            if len(refs) == 1 and len(vals) == 1 and refs[0][0].trait == vals[0][0].trait:
                return refs[0] if getattr(self, "want_ref", False) else vals[0]
            raise U(f"ambiguous method `{name}` on {show(rty)}")
        return cands[0] if cands else None

    def binding_ok(self, g, s):
        """a ring / generator / exponent type variable is never instantiated by a container type here"""
        for tp, v in s.items():
            if v is None or isinstance(v, str): continue
            if isinstance(g.kinds.get(tp), str): return False
        return True

    def field_name(self, sname, f):
        return "f" + f if f.isdigit() else R.Translator.ident(f)

    def args(self, g, s, args, env, line, recv_ty=None):
        """translate the arguments of a call of g (substitution s of g's type parameters)"""
        if len(args) != len(g.params): raise U(f"call of {g.rust_name} with {len(args)} arguments (line {line})")
        bs, ts = [], []
        for a, (_, pt) in zip(args, g.params):
            pty = subst(self.ty(pt, g), {k: (v if v is not None else "_") for k, v in s.items()})
            if not isinstance(pty, str) and pty[0] == "Fn":
                t = self.closure(a, list(pty[1]), pty[2], env)
                if not match_ty(self.ty(pt, g)[2], self.last_closure_ret, s):
                    raise U(f"closure of type {show(self.last_closure_ret)} for `{pt}` of {g.rust_name} (line {line})")
                ts.append(t); continue
            b, t, ty = self.expr(a, env, pty)
            if not match_ty(self.ty(pt, g), ty, s): raise U(f"argument of type {show(ty)} for `{pt}` of {g.rust_name} (line {line})")
            bs += b; ts.append(t)
        return bs, ts

    def call_fn(self, g, s, pre_terms, args, env, line):
        """call of the user function g: (binds, term, type)"""
        info = self.translate(g)
        ab, ats = self.args(g, s, args, env, line)
        s2 = {k: (v if v is not None else "_") for k, v in s.items()}
        rty = subst(self.ty(g.ret, g) if g.selfk != "mut" else g.self_ty, s2)
        tyargs = "".join(f" ({tp} := {self.lean_ty(s2[tp])})" for tp in g.order_tv if s2.get(tp, "_") != "_" and self.needs_tyarg(g, tp))
        call = " ".join([self.lean_fn(g) + tyargs] + [par(t) for t in pre_terms] + [par(a) for a in ats])
        if info["pure"]: return ab, call, rty
        v = self.fresh()
        return ab + [(v, call, True)], v, rty

    def needs_tyarg(self, g, tp):
        """a type parameter that does not occur in the parameter types must be given explicitly"""
        tys = ([show(g.self_ty)] if g.selfk else []) + [show(self.ty(t, g)) for _, t in g.params]
        return not any(re.search(r"(?<![\w])" + re.escape(tp) + r"(?![\w])", x) for x in tys)

    # ---------------------------------------------------------------- expressions
    def eq_term(self, at, bt, aty, bty, line):
        if not unify(aty, bty): raise U(f"`==` on {show(aty)}, {show(bty)} (line {line})")
        k = self.kind_of(aty, self.cur)
        if k in ("ring", "exp", "int", "gen", "mono", "genmul") or aty in ("bool", "Ordering"):
            return f"decide ({at} = {bt})"
        raise U(f"`==` on {show(aty)} (line {line})")

    def expr(self, e, env, expect=None):
        """(binds, term, type)"""
        k = e.kind
        f = self.cur
        if k == "paren":
            return self.expr(e.e, env, expect)
        if k == "un" and e.op in ("&", "*", "&mut"):
            if e.op == "&": self.want_ref = True
            try:
                return self.expr(e.e, env, expect)
            finally:
                self.want_ref = False
        if k == "int":
            if expect in ("usize", "isize") or expect is None: return [], str(e.v), expect or "usize"
            if self.kind_of(expect, f) == "exp" and e.v == 0: return [], f"(0 : {expect})", expect
            raise U(f"integer literal of type {show(expect)} (line {e.line})")
        if k == "bool": return [], "true" if e.v else "false", "bool"
        if k == "unit": return [], "()", "unit"
        if k == "path":
            if len(e.segs) == 1:
                nm = e.segs[0]
                if nm in env and env[nm].get("place") is not None: return self.expr(env[nm]["place"], env, expect)
                if nm in env: return [], env[nm]["ln"], env[nm]["ty"]
                if nm == "None": return [], "none", ("Option", "_")
            if e.segs == ["Ordering", "Equal"] or e.segs == ["std", "cmp", "Ordering", "Equal"]: return [], "Ordering.eq", "Ordering"
            raise U(f"path `{'::'.join(e.segs)}` (line {e.line})")
        if k == "tuple":
            if getattr(e, "array", False):
                ex = expect[1] if expect and not isinstance(expect, str) and expect[0] == "List" else None
                parts = [self.expr(x, env, ex) for x in e.es]
                ty = parts[0][2] if parts else "_"
                return sum([p[0] for p in parts], []), "[" + ", ".join(p[1] for p in parts) + "]", ("List", ty)
            exs = list(expect[1:]) if expect and not isinstance(expect, str) and expect[0] == "tuple" and len(expect) - 1 == len(e.es) else [None] * len(e.es)
            parts = [self.expr(x, env, ex) for x, ex in zip(e.es, exs)]
            return sum([p[0] for p in parts], []), "(" + ", ".join(p[1] for p in parts) + ")", ("tuple",) + tuple(p[2] for p in parts)
        if k == "field":
            ob, ot, oty = self.expr(e.e, env)
            if not isinstance(oty, str) and oty[0] == "tuple" and e.name.isdigit() and int(e.name) < len(oty) - 1:
                return ob, self.proj(par(ot), int(e.name), len(oty) - 1), oty[int(e.name) + 1]
            if not isinstance(oty, str) and oty[0] in self.mod.structs:
                for fn_, ft in self.mod.structs[oty[0]]:
                    if fn_ == e.name:
                        fty = self.field_ty(oty, ft)
                        return ob, f"{par(ot)}.{self.field_name(oty[0], e.name)}", fty
            raise U(f"field `.{e.name}` of {show(oty)} (line {e.line})")
        if k == "un" and e.op == "-":
            ob, ot, oty = self.expr(e.e, env, expect)
            kd = self.kind_of(oty, f)
            if kd in ("ring", "int"): return ob, f"-{par(ot)}", oty
            isref = e.e.kind == "un" and e.e.op == "&"
            self.want_ref = isref
            try:
                c = self.find_method(oty, "neg", [], tagprefix="Neg")
            finally:
                self.want_ref = False
            if c is not None:
                b2, t2, ty2 = self.call_fn(c[0], c[1], [ot], [], env, e.line)
                return ob + b2, t2, ty2
            raise U(f"unary `-` on {show(oty)} (line {e.line})")
        if k == "un" and e.op == "!":
            ob, ot, oty = self.expr(e.e, env, "bool")
            if oty != "bool": raise U(f"`!` on {show(oty)} (line {e.line})")
            return ob, f"!{par(ot)}", "bool"
        if k == "bin": return self.bin(e, env)
        if k == "if":
            cb, ct, cty = self.expr(e.c, env)
            if cty != "bool" or e.el is None: raise U(f"`if` expression (line {e.line})")
            res = {}

            def fin(env_, term, ty):
                if term is None: raise U(f"`if` expression without value (line {e.line})")
                res.setdefault("ty", ty)
                if not unify(res["ty"], ty): raise U(f"`if` branches of types {show(res['ty'])}, {show(ty)} (line {e.line})")
                res["ty"] = meet(res["ty"], ty)
                return Ret(term)
            th = self.block(e.th.stmts, e.th.tail, env, fin, expect)
            el = self.block(e.el.stmts, e.el.tail, env, fin, expect)
            code = If(ct, th, el)
            mon = impure(code)
            lines = render(code, "    ", mon)
            t = "(\n" + "\n".join(lines) + ")"
            if mon:
                v = self.fresh()
                return cb + [(v, t, True)], v, res["ty"]
            return cb, t, res["ty"]
        if k == "macro" and e.name == "vec" and not e.args and not getattr(e, "repeat", False):
            ety = expect if expect and not isinstance(expect, str) and expect[0] == "List" else ("List", "_")
            return [], "[]", ety
        if k == "index":
            ob, ot, oty = self.expr(e.e, env)
            if not isinstance(oty, str) and oty[0] in self.mod.structs:
                c = self.find_method(oty, "index", None, tagprefix="Index")
                if c is None: raise U(f"index of {show(oty)} (line {e.line})")
                b2, t2, ty2 = self.call_fn(c[0], c[1], [ot], [e.ix], env, e.line)
                return ob + b2, t2, ty2
            ib, it_, ity = self.expr(e.ix, env, "usize")
            if isinstance(oty, str) or oty[0] != "List" or ity != "usize": raise U(f"index of {show(oty)} by {show(ity)} (line {e.line})")
            v = self.fresh()
            return ob + ib + [(v, f"Poly.index {par(ot)} {par(it_)}", True)], v, oty[1]
        if k == "struct":
            return self.struct(e, env, expect)
        if k == "call": return self.call(e, env, expect)
        if k == "mcall": return self.mcall(e, env, expect)
        if k == "closure":
            if expect and not isinstance(expect, str) and expect[0] == "Fn":
                t = self.closure(e, list(expect[1]), expect[2], env)
                return [], t, ("Fn", expect[1], self.last_closure_ret)
            raise U(f"closure in this position (line {e.line})")
        if k == "range":
            lb, lt, lty = self.expr(e.lo, env, "usize")
            hb, ht, hty = self.expr(e.hi, env, "usize")
            if lty != "usize" or hty != "usize": raise U(f"range (line {e.line})")
            return lb + hb, f"Poly.range{'_incl' if getattr(e, 'incl', False) else ''} {par(lt)} {par(ht)}", ("List", "usize")
        raise U(f"expression `{k}` (line {e.line})")

    def field_ty(self, oty, ft):
        name = oty[0]
        sub = dict(zip(self.mod.stparams.get(name, []), oty[1:]))
        fake = R.N("f", kinds={p: p for p in sub}, assoc={}, self_ty=oty)
        return subst(self.ty(ft, fake), sub)

    def struct(self, e, env, expect):
        f = self.cur
        nm = e.path[-1]
        sty = f.self_ty if nm == "Self" else None
        if sty is None:
            if nm not in self.mod.structs: raise U(f"struct literal `{nm}` (line {e.line})")
            sty = (nm,) + tuple("_" for _ in self.mod.stparams.get(nm, []))
            if expect and not isinstance(expect, str) and expect[0] == nm: sty = expect
        bs, parts = [], []
        fields = dict(self.mod.structs[sty[0]])
        if set(fields) != {fn_ for fn_, _ in e.fields}: raise U(f"struct literal of {sty[0]} (line {e.line})")
        for fn_, fe in e.fields:
            fty = self.field_ty(sty, fields[fn_])
            b, t, ty = self.expr(fe, env, fty)
            if not unify(fty, ty): raise U(f"field `{fn_}` of type {show(ty)} (line {e.line})")
            bs += b; parts.append(f"{self.field_name(sty[0], fn_)} := {t}")
        return bs, f"({{ {', '.join(parts)} }} : {R.unpar(self.lean_ty(sty))})", sty

    def bin(self, e, env):
        f = self.cur
        op = e.op
        if op in ("&&", "||"):
            lb, lt, lty = self.expr(e.l, env, "bool")
            rb, rt, rty = self.expr(e.r, env, "bool")
            if lty != "bool" or rty != "bool": raise U(f"`{op}` on {show(lty)}, {show(rty)} (line {e.line})")
            if any(m for _, _, m in rb):       # lazy: the right operand may panic
                inner = self.wrap(rb, Ret(rt))
                code = If(lt, inner, Ret("false")) if op == "&&" else If(lt, Ret("true"), inner)
                v = self.fresh()
                return lb + [(v, "(\n" + "\n".join(render(code, "    ", True)) + ")", True)], v, "bool"
            rt = self.inline_lets(rb, rt)
            return lb, f"{par(lt)} {op} {par(rt)}", "bool"
        lb, lt, lty = self.expr(e.l, env)
        rb, rt, rty = self.expr(e.r, env, lty if self.kind_of(lty, f) in ("int", "exp") else None)
        kl, kr = self.kind_of(lty, f), self.kind_of(rty, f)
        if op in ("==", "!="):
            t = self.eq_term(lt, rt, lty, rty, e.line)
            return lb + rb, t if op == "==" else f"!{t}", "bool"
        if op in ("<", "<=", ">", ">="):
            if kl in ("exp", "int") and unify(lty, rty):
                if op in ("<=", ">=") and kl == "exp": raise U(f"`{op}` on the exponent type (line {e.line})")
                return lb + rb, f"decide ({lt} {'≤' if op == '<=' else '≥' if op == '>=' else op} {rt})", "bool"
            raise U(f"`{op}` on {show(lty)}, {show(rty)} (line {e.line})")
        if op in ("+", "-", "*"):
            if op == "-" and lty == "usize" and rty == "usize":      # checked: `usize` underflow panics
                v = self.fresh()
                return lb + rb + [(v, f"Poly.usub {par(lt)} {par(rt)}", True)], v, "usize"
            if kl in ("ring", "exp", "int") and unify(lty, rty):
                if op == "-" and kl != "ring": raise U(f"`-` on {show(lty)} (line {e.line})")
                return lb + rb, f"{par(lt)} {op} {par(rt)}", lty
            if kl in ("mono", "genmul") and op == "*" and unify(lty, rty):
                return lb + rb, f"{par(lt)} * {par(rt)}", lty
            if not isinstance(lty, str) and lty[0] in self.mod.structs:
                c = self.find_binop(lty, BIN_TRAIT[op], rty)
                if c is not None:
                    info = self.translate(c[0])
                    call = f"{self.lean_fn(c[0])} {par(lt)} {par(rt)}"
                    if info["pure"]: return lb + rb, call, subst(self.ty(c[0].ret, c[0]), {k_: v for k_, v in c[1].items() if v})
                    v = self.fresh()
                    return lb + rb + [(v, call, True)], v, subst(self.ty(c[0].ret, c[0]), {k_: v_ for k_, v_ in c[1].items() if v_})
                bs, t = self.op_assign_term(op + "=", lt, lty, rt, rty, e.line)     # derived from `OpAssign`
                return lb + rb + bs, t, lty
        raise U(f"`{op}` on {show(lty)}, {show(rty)} (line {e.line})")

    def inline_lets(self, bs, t):
        for pat, term, mon in reversed(bs):
            t = f"(let {pat} := {term}; {t})"
        return t

    def tvar_static(self, tv, name, args, env, e):
        """`R::zero()`, `X::one()`, `I::cmp(a, b)`"""
        f = self.cur
        kd = f.kinds.get(tv)
        if name == "zero" and not args and kd in ("ring", "exp"): return [], f"(0 : {tv})", tv
        if name == "one" and not args and kd in ("ring", "mono"): return [], f"(1 : {tv})", tv
        if name == "cmp" and len(args) == 2 and kd == "exp":
            ab, at, aty = self.expr(args[0], env, tv)
            bb, bt, bty = self.expr(args[1], env, tv)
            if aty != tv or bty != tv: raise U(f"`{tv}::cmp` on {show(aty)}, {show(bty)} (line {e.line})")
            return ab + bb, f"Poly.cmpI {par(at)} {par(bt)}", "Ordering"
        raise U(f"`{tv}::{name}` (line {e.line})")

    def call(self, e, env, expect):
        f = self.cur
        segs = [s for s in e.path if not (isinstance(s, str) and s.startswith("<"))]
        line = e.line
        if len(segs) == 1:
            nm = segs[0]
            if nm == "Some" and len(e.args) == 1:
                ex = expect[1] if expect and not isinstance(expect, str) and expect[0] == "Option" else None
                b, t, ty = self.expr(e.args[0], env, ex)
                return b, f"some {par(t)}", ("Option", ty)
            if nm in env and not isinstance(env[nm]["ty"], str) and env[nm]["ty"][0] == "Fn":
                fty = env[nm]["ty"]
                if len(fty[1]) != len(e.args): raise U(f"call of `{nm}` (line {line})")
                bs, ts = [], []
                for a, pt in zip(e.args, fty[1]):
                    b, t, ty = self.expr(a, env, pt)
                    if not unify(pt, ty): raise U(f"argument of type {show(ty)} for `{nm}` (line {line})")
                    bs += b; ts.append(par(t))
                return bs, " ".join([env[nm]["ln"]] + ts), fty[2]
            if nm in self.cfg.get("tuple_ctors", {}) and len(e.args) == self.cfg["tuple_ctors"][nm][0]:
                parts = [self.expr(a, env, t_) for a, t_ in zip(e.args, self.cfg["tuple_ctors"][nm][1])]
                for p_, t_ in zip(parts, self.cfg["tuple_ctors"][nm][1]):
                    if not unify(p_[2], t_): raise U(f"`{nm}` of {show(p_[2])} (line {line})")
                return sum([p_[0] for p_ in parts], []), "(" + ", ".join(p_[1] for p_ in parts) + ")", ("tuple",) + tuple(self.cfg["tuple_ctors"][nm][1])
            if nm == "Self" and f.self_ty and f.self_ty[0] in self.mod.tuple_structs:
                return self.tuple_ctor(f.self_ty, e, env)
            if nm in self.mod.structs and nm in self.mod.tuple_structs:
                return self.tuple_ctor((nm,) + tuple("_" for _ in self.mod.stparams[nm]) if not (expect and not isinstance(expect, str) and expect[0] == nm) else expect, e, env)
            raise U(f"call of `{nm}` (line {line})")
        if len(segs) >= 2:
            head, name = segs[-2], segs[-1]
            if segs[:2] == ["ahash", "RandomState"] and name == "with_seeds": return [], "()", "hasher"
            if head == "AHashMap" and name == "with_hasher" and len(e.args) == 1:
                hb, ht, hty = self.expr(e.args[0], env)
                if hty != "hasher": raise U(f"`AHashMap::with_hasher` argument (line {line})")
                return [], "AMap.new", ("AMap", "_", "_") if not (expect and not isinstance(expect, str) and expect[0] == "AMap") else expect
            if head == "BTreeMap" and name == "new" and not e.args:
                return [], "BMap.new", expect if (expect and not isinstance(expect, str) and expect[0] == "BMap") else ("BMap", "_", "_")
            if head == "usize" and name in ("min", "max") and len(e.args) == 2:
                ab, at, aty = self.expr(e.args[0], env, "usize")
                bb, bt, bty = self.expr(e.args[1], env, "usize")
                if aty != "usize" or bty != "usize": raise U(f"`usize::{name}` on {show(aty)}, {show(bty)} (line {line})")
                return ab + bb, f"Nat.{name} {par(at)} {par(bt)}", "usize"
            if head == "HashMap" and name == "new" and not e.args:
                return [], "AMap.new", expect if (expect and not isinstance(expect, str) and expect[0] == "AMap") else ("AMap", "_", "_")
            if head in f.kinds and isinstance(f.kinds[head], str):
                return self.tvar_static(head, name, e.args, env, e)
            if head == "MonoOrd" and name in ("cmp_lex", "cmp_grlex") and len(e.args) == 2:
                ab, at, aty = self.expr(e.args[0], env)
                bb, bt, bty = self.expr(e.args[1], env)
                if self.kind_of(aty, f) != "mono" or aty != bty: raise U(f"`MonoOrd::{name}` on {show(aty)} (line {line})")
                return ab + bb, f"MonoOrd.{name} {par(at)} {par(bt)}", "Ordering"
            sty = None
            if head == "Self": sty = f.self_ty
            elif head in self.mod.structs:
                sty = (head,) + tuple("_" for _ in self.mod.stparams.get(head, []))
                if expect and not isinstance(expect, str) and expect[0] == head: sty = expect
            if sty is not None:
                if name == "Self" or (head == "Self" and False): pass
                return self.static_call(sty, name, e.args, env, expect, line)
        if len(segs) == 1 or True:
            pass
        raise U(f"call of `{'::'.join(str(s) for s in segs)}` (line {line})")

    def tuple_ctor(self, sty, e, env):
        fields = self.mod.structs[sty[0]]
        if len(fields) != len(e.args): raise U(f"constructor of {sty[0]} (line {e.line})")
        bs, parts = [], []
        for (fn_, ft), a in zip(fields, e.args):
            fty = self.field_ty(sty, ft)
            b, t, ty = self.expr(a, env, fty)
            if not unify(fty, ty): raise U(f"constructor argument of type {show(ty)} (line {e.line})")
            sty = self.refine(sty, ft, ty)
            bs += b; parts.append(f"f{fn_} := {t}")
        return bs, f"({{ {', '.join(parts)} }} : {R.unpar(self.lean_ty(sty))})", sty

    def refine(self, sty, ft, ty):
        ps = self.mod.stparams.get(sty[0], [])
        if ft in ps and sty[1 + ps.index(ft)] == "_":
            l = list(sty); l[1 + ps.index(ft)] = ty; return tuple(l)
        return sty

    def static_call(self, sty, name, args, env, expect, line):
        """`T::name(args)`: an associated function (or a method called with an explicit receiver)"""
        f = self.cur
        if sty[0] in self.mod.tuple_structs and name == "Self": raise U("tuple constructor")
        argparts = None
        cands = [g for g in self.mod.fns if g.ty == sty[0] and g.name == name and not getattr(g, "dup", False)]
        if not cands: raise U(f"`{sty[0]}::{name}` is not a function of the translated files (line {line})")
        # argument types are needed to pick the overload: translate non-closure arguments once without expectation
        pre = []
        for a in args:
            if a.kind == "closure": pre.append(None)
            else: pre.append(self.expr(a, env))
        ok = []
        for g in cands:
            try:
                self.setup(g)
                ptys = ([g.self_ty] if g.selfk else []) + [self.ty(t, g) for _, t in g.params]
            except U:
                continue
            if len(ptys) != len(args): continue
            s = {tp: None for tp in g.tparams}
            if not match_ty(g.self_ty, sty, s): continue
            good = True
            for pt, pr in zip(ptys, pre):
                if pr is None:
                    if isinstance(pt, str) or pt[0] != "Fn": good = False
                    continue
                if not match_ty(pt, pr[2], s): good = False
            if good and self.binding_ok(g, s): ok.append((g, s))
        if len(ok) > 1:
            vals = [c for c in ok if "_ref" not in (c[0].tag or "")]
            if len(vals) == 1: ok = vals
        if len(ok) != 1: raise U(f"`{sty[0]}::{name}` with arguments {[show(p[2]) if p else 'closure' for p in pre]}: {len(ok)} candidates (line {line})")
        g, s = ok[0]
        if expect is not None:
            try:
                match_ty(self.ty(g.ret, g), expect, s)
            except U:
                pass
        if g.selfk:
            rb, rt, rty = pre[0]
            b, t, ty = self.call_fn(g, s, [rt], args[1:], env, line)
            return rb + b, t, ty
        return self.call_fn(g, s, [], args, env, line)

    def mcall(self, e, env, expect):
        f = self.cur
        name, line = e.name, e.line
        rb, rt, rty = self.expr(e.recv, env)
        kd = self.kind_of(rty, f)
        n = len(e.args)
        if name in ("clone", "iter", "into_iter", "view") and n == 0 and (kd is not None or (not isinstance(rty, str) and rty[0] in ("List", "tuple", "Option"))):
            return rb, rt, rty
        if name == "clone" and n == 0: return rb, rt, rty
        if kd in ("ring", "exp", "int"):
            if name == "is_zero" and n == 0: return rb, f"decide ({rt} = 0)", "bool"
            if name == "is_one" and n == 0 and kd == "ring": return rb, f"decide ({rt} = 1)", "bool"
        if kd == "mono" and name == "is_one" and n == 0: return rb, f"decide ({rt} = 1)", "bool"
        if rty == "Ordering":
            if name == "then_with" and n == 1 and e.args[0].kind == "closure" and not e.args[0].params:
                ab, at, aty = self.expr(e.args[0].body, env, "Ordering")
                if aty != "Ordering": raise U(f"`then_with` closure of type {show(aty)} (line {line})")
                return rb, f"Ordering.then {par(rt)} {par(self.inline_lets(ab, at))}" if not any(m for _, _, m in ab) else self.bad(line), "Ordering"
            if name == "reverse" and n == 0: return rb, f"Ordering.swap {par(rt)}", "Ordering"
        if not isinstance(rty, str) and rty[0] in ("AMap", "BMap"):
            K, V, M_ = rty[1], rty[2], rty[0]
            if name == "len" and n == 0: return rb, f"{M_}.len {par(rt)}", "usize"
            if name == "is_empty" and n == 0: return rb, f"{M_}.is_empty {par(rt)}", "bool"
            if name in ("iter", "into_iter") and n == 0: return rb, f"{M_}.iter {par(rt)}", ("List", ("tuple", K, V))
            if name == "keys" and n == 0: return rb, f"{M_}.keys {par(rt)}", ("List", K)
            if name in ("get", "contains_key") and n == 1:
                kb, kt, kty = self.expr(e.args[0], env, K)
                if not unify(K, kty): raise U(f"`{name}` key of type {show(kty)} (line {line})")
                if name == "get": return rb + kb, f"{M_}.get {par(rt)} {par(kt)}", ("Option", V)
                return rb + kb, f"{M_}.contains_key {par(rt)} {par(kt)}", "bool"
        if not isinstance(rty, str) and rty[0] == "Option":
            A = rty[1]
            if name == "unwrap" and n == 0:
                v = self.fresh()
                return rb + [(v, f"Opt.unwrap {par(rt)}", True)], v, A
            if name in ("cloned", "copied") and n == 0: return rb, rt, rty
            if name == "unwrap_or" and n == 1:
                ab, at, aty = self.expr(e.args[0], env, A)
                if not unify(A, aty): raise U(f"`unwrap_or` of {show(aty)} on {show(rty)} (line {line})")
                return rb + ab, f"Option.getD {par(rt)} {par(at)}", meet(A, aty)
            if name == "map" and n == 1:
                ft = self.closure(e.args[0], [A], None, env)
                return rb, f"Option.map {par(ft)} {par(rt)}", ("Option", self.last_closure_ret)
        if not isinstance(rty, str) and rty[0] == "List":
            A = rty[1]
            if name == "next" and n == 0: return rb, f"List.head? {par(rt)}", ("Option", A)
            if name == "map" and n == 1:
                ft = self.closure(e.args[0], [A], None, env)
                return rb, f"List.map {par(ft)} {par(rt)}", ("List", self.last_closure_ret)
            if name == "filter" and n == 1:
                ft = self.closure(e.args[0], [A], "bool", env)
                return rb, f"List.filter {par(ft)} {par(rt)}", rty
            if name == "filter_map" and n == 1:
                ft = self.closure(e.args[0], [A], None, env)
                r_ = self.last_closure_ret
                if isinstance(r_, str) or r_[0] != "Option": raise U(f"`filter_map` closure of type {show(r_)} (line {line})")
                return rb, f"List.filterMap {par(ft)} {par(rt)}", ("List", r_[1])
            if name == "flat_map" and n == 1:
                ft = self.closure(e.args[0], [A], None, env)
                r_ = self.last_closure_ret
                if isinstance(r_, str) or r_[0] != "List": raise U(f"`flat_map` closure of type {show(r_)} (line {line})")
                return rb, f"List.flatMap {par(ft)} {par(rt)}", r_
            if name in ("min", "max") and n == 0 and A == "usize": return rb, f"Poly.{name} {par(rt)}", ("Option", "usize")
            if name == "fold" and n == 2 and e.args[1].kind == "closure":
                ib, it0, ity0 = self.expr(e.args[0], env)
                ft = self.closure(e.args[1], [ity0, A], ity0, env)
                return rb + ib, f"List.foldl {par(ft)} {par(it0)} {par(rt)}", ity0
            if name == "all" and n == 1:
                ft = self.closure(e.args[0], [A], "bool", env)
                return rb, f"List.all {par(rt)} {par(ft)}", "bool"
            if name == "max_by" and n == 1:
                ft = self.closure(e.args[0], [A, A], "Ordering", env)
                return rb, f"Poly.max_by {par(ft)} {par(rt)}", ("Option", A)
            if name == "collect" and n == 0:
                if expect is None or isinstance(expect, str): raise U(f"`collect` without a known target type (line {line})")
                if expect[0] == "List": return rb, rt, rty
                c = [g for g in self.mod.fns if g.ty == expect[0] and g.name == "from_iter" and (g.tag or "").startswith("FromIterator")]
                if len(c) != 1: raise U(f"`collect` into {show(expect)} (line {line})")
                g = c[0]
                self.setup(g)
                s = {tp: None for tp in g.tparams}
                if not match_ty(g.self_ty, expect, s): raise U(f"`collect` into {show(expect)} (line {line})")
                pty = self.ty(g.params[0][1], g)
                if not match_ty(pty, rty, s): raise U(f"`collect` of {show(rty)} into {show(expect)} (line {line})")
                info = self.translate(g)
                s2 = {k_: (v_ if v_ is not None else "_") for k_, v_ in s.items()}
                call = f"{self.lean_fn(g)} {par(rt)}"
                rt_ty = subst(g.self_ty, s2)
                if info["pure"]: return rb, call, rt_ty
                v = self.fresh()
                return rb + [(v, call, True)], v, rt_ty
        if not isinstance(rty, str) and rty[0] == "List" and name == "len" and n == 0:
            return rb, f"List.length {par(rt)}", "usize"
        tag_ = rty if isinstance(rty, str) else rty[0]
        if (tag_, name, n) in self.cfg.get("ext_methods", {}):
            lf, ptys, rbuild = self.cfg["ext_methods"][(tag_, name, n)]
            bs_, ts_ = list(rb), []
            for a_, pt_ in zip(e.args, ptys):
                b_, t_, ty_ = self.expr(a_, env, pt_)
                if not unify(pt_, ty_): raise U(f"argument of type {show(ty_)} for `.{name}` (line {line})")
                bs_ += b_; ts_.append(par(t_))
            return bs_, " ".join([lf, par(rt)] + ts_) if lf else rt, rbuild(rty)
        # user methods (incl. delegated ones)
        c = self.find_method(rty, name, None)
        if c is None and not isinstance(rty, str) and (rty[0], name) in self.delegates:
            fld, target = self.delegates[(rty[0], name)]
            inner = R.N("mcall", recv=R.N("field", e=e.recv, name=fld, line=line), name=target, args=e.args, line=line)
            return self.mcall(inner, env, expect)
        if c is not None:
            g, s = c
            if g.selfk == "mut": raise U(f"`&mut self` method `{name}` in expression position (line {line})")
            b, t, ty = self.call_fn(g, s, [rt], e.args, env, line)
            return rb + b, t, ty
        raise U(f"method `.{name}` on a value of type {show(rty)} (line {line})")

    def bad(self, line):
        raise U(f"`then_with` closure that may panic (line {line})")


def impl_owner(vals, i):
    """name of the type whose `impl` block contains token i"""
    j = i
    while j >= 0 and vals[j] != "impl": j -= 1
    if j < 0: raise U("delegate! outside an impl")
    j += 1
    if vals[j] == "<":
        d = 0
        while True:
            if vals[j] == "<": d += 1
            if vals[j] == ">": d -= 1
            j += 1
            if d == 0: break
    first = vals[j]
    k = j
    while vals[k] not in ("{", "where", "for"): k += 1
    if vals[k] == "for": return vals[k + 1] if vals[k + 1] != "&" else vals[k + 2]
    return first


def parse_delegates(toks):
    """`delegate! { to self.<field> { [#[call(target)]] pub fn name(&self, ..) -> ..; … } }` → {(Type, name): (field, target)}"""
    out = {}
    i = 0
    vals = [t.val for t in toks]
    while i + 2 < len(toks):
        if vals[i] == "delegate" and vals[i + 1] == "!" and vals[i + 2] == "{":
            owner = impl_owner(vals, i)
            j = i + 3
            if vals[j:j + 4] != ["to", "self", ".", vals[j + 3]] or vals[j + 4] != "{": raise U("delegate! of this form")
            fld = vals[j + 3]
            j += 5
            target = None
            while vals[j] != "}":
                if vals[j] == "#":
                    if vals[j + 1:j + 4] == ["[", "call", "("] and vals[j + 5:j + 7] == [")", "]"]:
                        target = vals[j + 4]; j += 7; continue
                    raise U("delegate! attribute")
                if vals[j] == "pub": j += 1; continue
                if vals[j] == "fn":
                    nm = vals[j + 1]
                    out[(owner, nm)] = (fld, target or nm)
                    target = None
                    while vals[j] != ";": j += 1
                    j += 1; continue
                raise U(f"delegate! item `{vals[j]}`")
            i = j
        i += 1
    return out


def generate(texts, src_label, cfg, rmod):
    global R
    R = rmod
    R.Parser.const_generics = True
    R.Parser.turbofish = True
    R.Parser.mut_types = False
    R.Parser.incl_ranges = True
    mod = None
    delegates = {}
    srcs = cfg["src"]
    for k_, text in enumerate(texts):
        toks = R.tokenize(text)
        n0 = len(mod.fns) if mod else 0
        stem = os.path.splitext(os.path.basename(srcs[k_]))[0] if cfg.get("free_fns") else None
        mod = R.parse_items(toks, mod, True, 0, stem)
        d = parse_delegates(toks)
        delegates.update(d)
    try:
        for f in mod.fns:
            f.dup = sum(1 for g in mod.fns if g.key == f.key) > 1
            if f.impl_full and re.search(r"<.*\b(usize|isize)\b.*>", f.impl_full) and not f.dup:
                pass
        tr = Tr(mod, cfg, delegates)
        # specialised impls (`Mono for Var<X, usize>`): tag by the concrete exponent type so that the names are unique
        for f in mod.fns:
            m = re.search(r"\b(usize|isize)\b", f.impl_full or "")
            if m and f.dup and f.ty in ("Var", "Var2"):
                f.tag = (f.tag or "") + "_" + m.group(1)
        for f in mod.fns:
            f.dup = sum(1 for g in mod.fns if g.key == f.key) > 1
        parts = []
        for name in cfg["structs"]:
            if name not in mod.structs: raise U(f"struct {name} not found")
            ps = mod.stparams.get(name, [])
            lines = [f"/-- `struct {name}` -/", f"structure {name}S" + (" (" + " ".join(ps) + " : Type)" if ps else "") + " where"]
            for fn_, ft in mod.structs[name]:
                fty = tr.field_ty((name,) + tuple(ps), ft)
                lines.append(f"  {tr.field_name(name, fn_)} : {R.unpar(tr.lean_ty(fty))}   -- {ft}")
            parts.append("\n".join(lines))
        skipped = []
        required = set(cfg["required"])
        for f in sorted(mod.fns, key=lambda f: (f.ty, f.tag or "", f.name, f.order)):
            try:
                tr.translate(f)
            except U as e:
                if f.key in required and not os.environ.get("POLY_DEBUG"): raise
                skipped.append((f, str(e)))
        done_keys = {f.key for f in tr.emitted}
        missing = [k for k in cfg["required"] if k not in done_keys]
        if missing and not os.environ.get("POLY_DEBUG"):
            k = missing[0]
            raise U(f"required function {k[0]}::{k[2]}" + (f" (impl {k[1]})" if k[1] else "") + " not found in the source")
    except U as e:
        raise R.Unsupported(str(e))
    fparts = [tr.done[id(f)]["text"] for f in tr.emitted]
    hdr = [f"import {m}" for m in cfg["imports"]] + ["/-",
           f"GENERATED by tools/rs2lean_fn.py from {src_label} on every ./check run — do not edit.", ""] + cfg["blurb"] + ["", "translated:"]
    hdr += [f"  {f.rust_name}  ->  {tr.lean_fn(f)}" for f in sorted(tr.emitted, key=lambda f: tr.lean_fn(f))]
    hdr += ["", "not translated:"]
    seen = set()
    for f, r in sorted(skipped, key=lambda x: (tr.lean_fn(x[0]), x[1])):
        line = f"  {f.rust_name}: {R.reason_clean(r, f)}"
        if line not in seen: hdr.append(line); seen.add(line)
    hdr += [f"  {n}" for n in sorted(set(mod.notes))]
    hdr += ["-/", "set_option linter.unusedVariables false", f"namespace {cfg['ns']}", "open Yuiv Yuiv.Rust", "", ""]
    return "\n".join(hdr) + "\n\n".join(parts + fparts) + f"\n\nend {cfg['ns']}\n"
