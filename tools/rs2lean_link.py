#!/usr/bin/env python3
"""
tools/rs2lean_link.py — renderer of the target `fn:link` of tools/rs2lean_fn.py (imported by it; not a script).

It reuses the tokenizer, the item parser and the statement / expression parser of rs2lean_fn.py and renders the inherent
functions of yui-link/src/link/{crossing,link,path}.rs as Lean definitions in `do` notation over the
`Res` monad.  It has NO type inference: methods of the translated types are called through Lean's generalized field
notation (`(x).mirror`), so Lean's elaborator resolves them by the type of the receiver; everything else is fixed below.

Reading (the meaning of the primitives is Yuiv/Model/RustLink.lean, TRUSTED):
  * a function is `Res`-valued iff its body (or something it calls) can panic: `assert!` family (`debug_assert!` included: debug
    build), `panic!`, indexing, the checked `usize` subtraction, `unwrap`, a `loop`; or mutates (`let mut`, `&mut self`);
  * `&mut self` methods return the new value of `self`; a `&mut self` method returning `&mut T` (its tail is `&mut PLACE`) is a
    MODIFIER: it takes the continuation `k_ : T → Res T`, applies it to the place and writes the result back;
    `a.m1(..).m2(..)` with such an `m1` is `a ← a.m1 .. (fun x_ => x_.m2 ..)`;
  * a parameter `F: FnMut(A, B)` (no result) is read as the LOG of its calls: the function returns the list of the argument
    tuples `f` is called with, in order; at the call site the closure body is run as a `for` loop over that list
    (the callee cannot observe the effects of `f`, and `f` returns nothing);
  * `let mut c = |..| {..}` (a local closure that mutates what it captures) is inlined at its calls (`&mut x` arguments must
    be named like the parameter); `let c = |..| ..` is a local function;
  * `loop` runs on the explicit argument `fuel` (`Res.err` when it runs out); `for` is Lean's `for .. in .. do` over the list;
  * `Vec` / iterators are lists, `[T; 4]` is `Lk.Arr4`, `HashSet` is `Lk.HashSet`, `a && b` / `a || b` are lazy.
Anything else is reported as "not translated" (exit 1 if the function is required).
"""
import os, re

R = None  # the rs2lean_fn module (set by generate)

ASSERTS = {"assert", "debug_assert", "assert_eq", "debug_assert_eq"}
PANICS = {"panic", "unreachable", "todo", "unimplemented"}
KEYWORDS = {"at", "from", "end", "then", "do", "fun", "show", "open", "where", "have", "this", "by", "in", "let", "if",
            "else", "match", "with", "for", "return", "type", "instance", "structure", "class", "def", "theorem", "macro",
            "syntax", "import", "namespace", "section", "variable", "universe", "mut", "calc", "from", "using", "deriving"}
BASE_TYPES = {"usize": "Nat", "Edge": "Nat", "i32": "Int", "bool": "Bool", "Bit": "Lk.Bit", "Sign": "Lk.Sign",
              "State": "Lk.State", "XCode": "(Lk.Arr4 Nat)", "()": "Unit"}
EXTERN_VARIANTS = {"Bit0": "Lk.Bit.Bit0", "Bit1": "Lk.Bit.Bit1", "Pos": "Lk.Sign.Pos", "Neg": "Lk.Sign.Neg"}
EXTERN_ENUMS = {"Bit": "Lk.Bit", "Sign": "Lk.Sign"}
EXTERN_STATICS = {("HashSet", "new"): ("Lk.HashSet.new", False), ("State", "from_iter"): ("Lk.State.from_iter", True)}
IDENT_METHODS = {"clone", "cloned", "copied", "collect", "collect_vec", "to_owned", "to_vec", "as_ref", "borrow"}


class U(Exception):
    pass


def split_top(s):
    out, cur, d = [], "", 0
    for ch in s:
        if ch in "(<[": d += 1
        if ch in ")>]": d -= 1
        if ch == "," and d == 0:
            out.append(cur); cur = ""
        else:
            cur += ch
    if cur.strip(): out.append(cur)
    return [x.strip() for x in out]


def walk(n):
    if isinstance(n, R.N):
        yield n
        for v in n.__dict__.values():
            yield from walk(v)
    elif isinstance(n, (list, tuple)):
        for v in n:
            yield from walk(v)


def ident(x):
    return x + "_" if x in KEYWORDS else x


def is_i32_cast(e):
    while e.kind == "paren": e = e.e
    return e.kind == "cast" and e.ty in ("i32", "i64", "isize")


class Tr:
    def __init__(self, mod, cfg, fns):
        self.mod, self.cfg, self.fns = mod, cfg, fns
        self.by_key = {(f.ty, f.name): f for f in fns}
        self.by_name = {}
        for f in fns:
            if f.selfk: self.by_name.setdefault(f.name, []).append(f)
        self.variants = dict(EXTERN_VARIANTS)
        self.statics = dict(EXTERN_STATICS); self.statics.update(cfg.get("extern_statics", {}))
        self.ext_types = dict(cfg.get("extern_types", {}))
        self.tuple_structs = {n for n, fs in mod.structs.items() if fs and all(fn_.isdigit() for fn_, _ in fs)}
        self.hashmap = bool(cfg.get("extern_statics"))      # targets with the HashMap / i32 primitives of Model/RustBraid.lean
        for en, vs in mod.enums.items():
            for v, _ in vs: self.variants[v] = f"{en}.{v}"
        self.body = {}
        self.eff, self.fuel = {}, {}
        self.done, self.emitted, self.deps = {}, [], {}

    # ---------------------------------------------------------------- types
    def lean_ty(self, t, f):
        t = t.strip()
        if t in BASE_TYPES: return BASE_TYPES[t]
        if t == "Self": return f.ty
        if t in self.mod.structs or t in self.mod.enums: return t
        if t in self.ext_types: return self.ext_types[t]
        if self.hashmap and t.startswith("&"): return self.lean_ty(t[1:], f)
        m = re.fullmatch(r"\[(.*)\]", t)
        if self.hashmap and m and ";" not in t: return f"(List {self.lean_ty(m.group(1), f)})"
        for tp, b in f.bounds:
            if tp == t:
                m = re.fullmatch(r"IntoIterator<Item=(.*)>", b.replace(" ", ""))
                if m: return f"(List {self.lean_ty(m.group(1), f)})"
                m = re.fullmatch(r"Fn\((.*)\)->(.*)", b.replace(" ", ""))
                if m:
                    ps = [self.lean_ty(x, f) for x in split_top(m.group(1))]
                    return "(" + " → ".join(ps + [self.lean_ty(m.group(2), f)]) + ")"
        m = re.fullmatch(r"(\w+)<(.*)>", t)
        if m:
            args = [self.lean_ty(x, f) for x in split_top(m.group(2))]
            head = {"Vec": "List", "Option": "Option", "HashSet": "Lk.HashSet"}.get(m.group(1))
            if head and len(args) == 1: return f"({head} {args[0]})"
        m = re.fullmatch(r"\[(.*);4\]", t)
        if m: return f"(Lk.Arr4 {self.lean_ty(m.group(1), f)})"
        if t.startswith("(") and t.endswith(")"):
            return "(" + " × ".join(self.lean_ty(x, f) for x in split_top(t[1:-1])) + ")"
        raise U(f"type `{t}`")

    def cb_param(self, f):
        """index and argument count of the `F: FnMut(..)` parameter (call log), or None"""
        for k, (nm, t) in enumerate(f.params):
            for tp, b in f.bounds:
                if tp == t and b.replace(" ", "").startswith("FnMut("):
                    b_ = b.replace(" ", "")
                    if "->" in b_: raise U(f"`FnMut` parameter {nm} with a result")
                    return k, nm, split_top(b_[6:-1])
        return None

    # ---------------------------------------------------------------- effect analysis
    def parse_body(self, f):
        if id(f) not in self.body:
            self.body[id(f)] = R.Parser(list(f.toks), f.body[0], f.body[1]).block()
        return self.body[id(f)]

    def analyse(self):
        parsed = {}
        for f in self.fns:
            try:
                parsed[id(f)] = list(walk(self.parse_body(f)))
            except R.Unsupported as e:
                parsed[id(f)] = None
                self.done[id(f)] = U(str(e))
        for f in self.fns:
            ns = parsed[id(f)]
            e = fu = False
            if f.selfk == "mut": e = True
            for n in ns or []:
                k = n.kind
                if k == "macro" and (n.name in ASSERTS or n.name in PANICS): e = True
                elif k == "index": e = True
                elif k in ("loop", "while"): e = fu = True
                elif k == "mcall" and n.name in ("unwrap", "expect", "push", "pop", "insert", "extend"): e = True
                elif k == "bin" and n.op == "-" and not (is_i32_cast(n.l) or is_i32_cast(n.r)): e = True
                elif k == "assign": e = True
                elif k == "let" and n.mut: e = True
                elif k == "for": e = True
                elif k == "call" and tuple(n.path) in self.statics and self.statics[tuple(n.path)][1]: e = True
            self.eff[id(f)], self.fuel[id(f)] = e, fu
        changed = True
        while changed:
            changed = False
            for f in self.fns:
                for n in parsed[id(f)] or []:
                    gs = []
                    if n.kind == "mcall": gs = self.by_name.get(n.name, [])
                    elif n.kind == "call" and len(n.path) == 2:
                        g = self.by_key.get((f.ty if n.path[0] == "Self" else n.path[0], n.path[1]))
                        gs = [g] if g else []
                    for g in gs:
                        if self.eff[id(g)] and not self.eff[id(f)]: self.eff[id(f)] = True; changed = True
                        if self.fuel[id(g)] and not self.fuel[id(f)]: self.fuel[id(f)] = True; changed = True
        for nm, gs in self.by_name.items():
            if len({(self.eff[id(g)], self.fuel[id(g)], g.selfk == "mut") for g in gs}) > 1:
                for g in gs: self.done.setdefault(id(g), U(f"methods named `{nm}` of different kinds (pure / panicking / `&mut self`)"))

    # ---------------------------------------------------------------- functions
    def lean_fn(self, f):
        return f"{f.ty}.{ident(f.name)}"

    def translate(self, f):
        if id(f) in self.done:
            if isinstance(self.done[id(f)], U): raise self.done[id(f)]
            return
        try:
            text = self.translate_fn(f)
        except U as e:
            self.done[id(f)] = U(f"{e}")
            raise self.done[id(f)]
        except R.Unsupported as e:
            self.done[id(f)] = U(str(e))
            raise self.done[id(f)]
        self.done[id(f)] = text
        self.emitted.append(f)

    def translate_fn(self, f):
        if f.trait and (f.ty, f.name) not in self.cfg.get("traits", []): raise U("trait impl")
        body = self.parse_body(f)
        self.cur = f
        self.closures, self.loops, self.ntmp = {}, [], 0
        self.muts, self.ren = set(), {}
        self.locals = {nm for nm, _ in f.params}
        eff, fuel = self.eff[id(f)], self.fuel[id(f)]
        cb = self.cb_param(f)
        self.cb = cb
        params = []
        if f.selfk: params.append(("self", f.ty))
        if fuel: params.append(("fuel", "Nat"))
        for k, (nm, t) in enumerate(f.params):
            if cb and k == cb[0]: continue
            if nm in f.mutparams: raise U(f"`&mut` parameter {nm}")
            params.append((ident(nm), self.lean_ty(t, f)))
        ret_mut = bool(getattr(f, "ret_mut", False))
        self.unit_ret = f.ret == "()"
        if ret_mut:
            if f.selfk != "mut": raise U("result type with `&mut` on a non-`&mut self` function")
            inner = self.lean_ty(f.ret, f)
            params.append(("k_", f"({inner} → Res {inner})"))
            rty = f.ty
        elif cb:
            if f.ret != "()" or f.selfk == "mut": raise U("`FnMut` parameter on a function with a result")
            rty = "(List (" + " × ".join(self.lean_ty(x, f) for x in cb[2]) + "))"
        elif f.selfk == "mut":
            if f.ret != "()": raise U("`&mut self` method with a result")
            rty = f.ty
        else:
            rty = self.lean_ty(f.ret, f)
        self.ret_mut = ret_mut
        sig = " ".join(f"({n} : {t})" for n, t in params)
        doc = f"/-- `{f.rust_name}` -/"
        if not eff:
            if body.stmts and any(st.kind != "let" for st in body.stmts): raise U("statements in a function that cannot panic")
            lines = []
            for st in body.stmts:
                lines += self.stmt(st, "  ", pure=True)
            if body.tail is None: raise U("no tail expression")
            t = self.ex(body.tail)
            if "←" in "\n".join(lines) + t: raise U("internal: effect in a function analysed as pure")
            lines.append("  " + t)
            return "\n".join([doc, f"def {self.lean_fn(f)} {sig} : {rty} :="] + lines)
        lines = []
        if f.selfk == "mut": lines.append("  let mut self := self")
        if cb: lines.append(f"  let mut calls_ : {rty} := []")
        lines += self.block(body, "  ", "fn")
        return "\n".join([doc, f"def {self.lean_fn(f)} {sig} : Res {rty} := do"] + lines)

    def dep(self, g):
        self.deps.setdefault(id(self.cur), set()).add(id(g))

    def fresh(self, p="t"):
        self.ntmp += 1
        return f"{p}{self.ntmp}_"

    def ret_term(self, e):
        """what `return e` / the tail `e` of the function returns"""
        f = self.cur
        if self.cb: return "calls_"
        if f.selfk == "mut" and not self.ret_mut: return "self"
        if e is None: return "()"
        return self.ex(e)

    # ---------------------------------------------------------------- blocks / statements
    def block(self, b, ind, mode):
        """mode: 'fn' (function body), 'unit' (statements only), 'val' (ends with `pure tail`)"""
        if b.kind != "block":
            b = R.N("block", stmts=[], tail=b, uses=[], fns=[])
        if b.fns: raise U("nested fn item")
        lines = []
        for st in b.stmts:
            lines += self.stmt(st, ind)
        t = b.tail
        if mode == "unit":
            if t is not None: lines += self.stmt(R.N("expr", e=t, line=getattr(t, "line", 0)), ind)
            if not lines: lines.append(ind + "pure ()")
        elif mode == "val":
            if t is None: raise U("block without value")
            if t.kind in ("return", "break", "continue") or (t.kind == "macro" and t.name in PANICS):
                lines += self.stmt(R.N("expr", e=t, line=0), ind)
            else:
                lines.append(ind + "pure " + self.ex(t))
        else:
            f = self.cur
            if self.ret_mut:
                if t is None or t.kind != "un" or t.op != "&mut": raise U("a function returning `&mut T` must end with `&mut PLACE`")
                lines.append(f"{ind}let x_ ← k_ {self.ex(t.e)}")
                lines += self.store(t.e, "x_", ind)
                lines.append(ind + "return self")
            elif t is not None and t.kind == "macro" and t.name in PANICS:
                lines.append(ind + "Res.panic")
            elif t is not None and (self.unit_ret or t.kind in ("return",)):
                lines += self.stmt(R.N("expr", e=t, line=0), ind)
                if self.unit_ret and t.kind != "return": lines.append(ind + "return " + self.ret_term(None))
            else:
                lines.append(ind + "return " + self.ret_term(t))
        return lines

    def pat(self, p):
        k = p.kind
        if k == "pint": return str(p.v)
        if k == "pbool": return "true" if p.v else "false"
        if k == "pwild": return "_"
        if k == "ptuple": return "(" + ", ".join(self.pat(x) for x in p.ps) + ")"
        if k == "psome": return f"(some {self.pat(p.p)})"
        if k == "ppath":
            if len(p.segs) == 1:
                s = p.segs[0]
                if s == "None": return "none"
                if s in self.variants and s not in self.locals: return self.variants[s]
                if s[0].isupper(): raise U(f"pattern `{s}`")
                return ident(s)
            if len(p.segs) == 2: return self.enum_path(p.segs)
        raise U("pattern")

    def enum_path(self, segs):
        en, v = segs
        if en in self.mod.enums and v in [x for x, _ in self.mod.enums[en]]: return f"{en}.{v}"
        if en in EXTERN_ENUMS and EXTERN_VARIANTS.get(v, "").startswith(EXTERN_ENUMS[en] + "."): return EXTERN_VARIANTS[v]
        raise U(f"path `{en}::{v}`")

    def expr_to_pats(self, e):
        """the pattern alternatives of `matches!(x, A | B)` (parsed as an expression)"""
        while e.kind == "paren": e = e.e
        if e.kind == "bin" and e.op == "|": return self.expr_to_pats(e.l) + self.expr_to_pats(e.r)
        if e.kind == "path": return [self.pat(R.N("ppath", segs=e.segs))]
        if e.kind == "int": return [str(e.v)]
        if e.kind == "tuple" and not getattr(e, "array", False):
            parts = [self.expr_to_pats(x) for x in e.es]
            if any(len(x) != 1 for x in parts): raise U("nested alternatives in `matches!`")
            return ["(" + ", ".join(x[0] for x in parts) + ")"]
        raise U("pattern of `matches!`")

    def stmt(self, st, ind, pure=False):
        if st.kind == "let":
            return self.let(st, ind, pure)
        e = st.e
        while e.kind == "paren": e = e.e
        k = e.kind
        if k == "assign": return self.assign(e, ind)
        if k == "macro":
            if e.name in ASSERTS:
                if e.name.endswith("_eq"):
                    if len(e.args) != 2: raise U("assert_eq! arguments")
                    c = f"({self.ex(e.args[0])} == {self.ex(e.args[1])})"
                else:
                    if len(e.args) == 2 and self.hashmap and e.args[1].kind == "str": pass      # the message
                    elif len(e.args) != 1: raise U("assert! arguments")
                    c = self.ex(e.args[0])
                return [f"{ind}Res.assert {c}"]
            if e.name in PANICS: return [ind + "Res.panic"]
            if e.name in R.NOOP_MACROS: return []
            raise U(f"macro `{e.name}!` as a statement")
        if k == "if":
            lines = [f"{ind}if {self.ex(e.c)} then"] + self.block(e.th, ind + "  ", "unit")
            if e.el is not None:
                lines += [ind + "else"] + self.block(e.el, ind + "  ", "unit")
            return lines
        if k == "match":
            lines = [f"{ind}match {self.ex(e.s)} with"]
            for pats, body in e.arms:
                lines.append(ind + "| " + " | ".join(self.pat(p) for p in pats) + " =>")
                lines += self.block(body, ind + "    ", "unit")
            return lines
        if k == "for":
            self.loops.append("for")
            if e.var != "_": self.locals.add(e.var)
            lines = [f"{ind}for {ident(e.var)} in {self.ex(e.it)} do"] + self.block(e.body, ind + "  ", "unit")
            self.loops.pop()
            return lines
        if k == "loop":
            if getattr(e, "label", None): raise U("labelled loop")
            b = self.fresh("brk")
            self.loops.append(b)
            lines = [f"{ind}let mut {b} := false", f"{ind}for _ in List.range fuel do"] + self.block(e.body, ind + "  ", "unit")
            self.loops.pop()
            lines += [f"{ind}if !{b} then", f"{ind}  Res.err"]
            return lines
        if k == "while": raise U("`while` loop")
        if k == "return":
            return [ind + "return " + self.ret_term(e.e)]
        if k == "break":
            if e.label or not self.loops: raise U("`break` here")
            if self.loops[-1] == "for": return [ind + "break"]
            return [f"{ind}{self.loops[-1]} := true", ind + "break"]
        if k == "continue":
            if e.label or not self.loops: raise U("`continue` here")
            return [ind + "continue"]
        if k == "block":
            return self.block(e, ind, "unit")
        if k == "call" and len(e.path) == 1:
            nm = e.path[0]
            if self.cb and nm == self.cb[1]:
                if len(e.args) != len(self.cb[2]): raise U("arguments of the `FnMut` parameter")
                tup = ", ".join(self.ex(a) for a in e.args)
                return [f"{ind}calls_ := calls_ ++ [({tup})]"]
            if nm in self.closures and self.closures[nm][0] == "inline":
                c = self.closures[nm][1]
                if len(c.params) != len(e.args): raise U(f"arguments of the closure `{nm}`")
                lines = []
                for p, a in zip(c.params, e.args):
                    if not isinstance(p, str): raise U("tuple parameter of an inlined closure")
                    if a.kind == "un" and a.op == "&mut":
                        if not (a.e.kind == "path" and a.e.segs == [p]): raise U(f"`&mut` argument of the closure `{nm}` not named like its parameter `{p}`")
                        continue
                    lines.append(f"{ind}let {ident(p)} := {self.ex(a)}")
                    self.locals.add(p)
                if any(n.kind == "return" for n in walk(c.body)): raise U("`return` inside an inlined closure")
                saved = self.loops; self.loops = []
                lines += self.block(c.body, ind, "unit")
                self.loops = saved
                return lines
        if k == "mcall":
            r = self.mcall_stmt(e, ind)
            if r is not None: return r
        t = self.ex(e)
        return [f"{ind}let _ := {t}"]

    def let(self, st, ind, pure=False):
        init = st.init
        if init.kind == "closure":
            if st.pat is not None or st.els is not None: raise U("closure bound by a pattern")
            if st.mut:
                self.closures[st.name] = ("inline", init)
                return []
            body = self.closure(init)
            self.closures[st.name] = ("fun", "←" in body)
            return [f"{ind}let {ident(st.name)} := {body}"]
        ty = ""
        if st.ty is not None and self.hashmap and re.fullmatch(r"HashMap<.*>", st.ty.replace(" ", "")):
            if not (init.kind == "mcall" and init.name == "collect" and not init.args and st.pat is None and st.els is None and not st.mut):
                raise U("`HashMap` binding that is not `let m: HashMap<..> = it.collect()`")
            self.locals.add(st.name)
            return [f"{ind}let {ident(st.name)} := (Lk.HashMap.from_iter {self.ex(init.recv)})"]
        if st.ty is not None:
            t = self.lean_ty(st.ty, self.cur)
            ty = " : " + t
        if init.kind == "if" and init.el is not None and st.pat is None and st.els is None and not pure and \
                any(b.kind == "block" and b.stmts for b in (init.th, init.el)):
            self.locals.add(st.name)        # branches with statements: they may assign to the variables of this `do` block
            return [f"{ind}let {'mut ' if st.mut else ''}{ident(st.name)}{ty} ← if {self.ex(init.c)} then"] + \
                self.block(init.th, ind + "    ", "val") + [f"{ind}  else"] + self.block(init.el, ind + "    ", "val")
        rhs = self.ex(init)
        if st.els is not None:
            self.locals.add(st.name)
            if pure: raise U("`let … else` in a function that cannot panic")
            return [f"{ind}let some {ident(st.name)} := {rhs}", f"{ind}  | do"] + self.block(st.els, ind + "      ", "unit")
        if st.pat is not None:
            for nm, _ in st.pat:
                if nm != "_": self.locals.add(nm)
            anymut = any(m for _, m in st.pat)
            p = "(" + ", ".join(ident(nm) for nm, _ in st.pat) + ")"
            if pure: return [f"{ind}let {p} := {rhs}"]
            return [f"{ind}let {'mut ' if anymut else ''}{p}{ty} := {rhs}"]
        self.locals.add(st.name)
        if pure: return [f"{ind}let {ident(st.name)}{ty} := {rhs}"]
        nm = ident(st.name)
        if st.name in self.muts:                 # Lean does not allow shadowing a `let mut`: the new binding gets a fresh name
            nm = self.fresh(st.name + "_")
            self.ren[st.name] = nm
            if st.mut: raise U(f"`let mut {st.name}` shadowing a `let mut`")
        elif st.mut:
            self.muts.add(st.name)
        return [f"{ind}let {'mut ' if st.mut else ''}{nm}{ty} := {rhs}"]

    def store(self, place, v, ind):
        while place.kind == "paren": place = place.e
        k = place.kind
        if k == "path" and len(place.segs) == 1:
            return [f"{ind}{ident(place.segs[0])} := {v}"]
        if k == "un" and place.op in ("*", "&mut"):
            return self.store(place.e, v, ind)
        if k == "field":
            if place.name.isdigit(): raise U("assignment to a tuple component")
            base = self.ex(place.e)
            return self.store(place.e, f"{{ {base} with {place.name}_ := {v} }}", ind)
        if k == "index":
            return self.store(place.e, f"(← Lk.idxSet {self.ex(place.e)} {self.ex(place.ix)} {v})", ind)
        if k == "tuple" and not getattr(place, "array", False) and all(x.kind == "path" and len(x.segs) == 1 for x in place.es):
            return [f"{ind}(" + ", ".join(ident(x.segs[0]) for x in place.es) + f") := {v}"]
        raise U("assignment to this place")

    def assign(self, e, ind):
        if e.op == "=": return self.store(e.l, self.ex(e.r), ind)
        cur, r = self.ex(e.l), self.ex(e.r)
        if e.op == "+=": return self.store(e.l, f"({cur} + {r})", ind)
        if e.op == "-=": return self.store(e.l, f"(← Lk.usub {cur} {r})", ind)
        if e.op == "*=": return self.store(e.l, f"({cur} * {r})", ind)
        raise U(f"`{e.op}`")

    def user_call(self, g, recv, args, extra=None):
        """term for the call of user function g (receiver term or None), `←` included when it can panic"""
        cb = self.cb_param(g)
        ts = []
        if self.fuel[id(g)]:
            if not self.fuel[id(self.cur)]: raise U("internal: fuel")
            ts.append("fuel")
        if len(args) != len(g.params): raise U(f"arguments of `{g.name}`")
        for k, a in enumerate(args):
            if cb and k == cb[0]: continue
            ts.append(self.ex(a))
        if extra: ts.append(extra)
        head = f"({recv}).{ident(g.name)}" if recv is not None else self.lean_fn(g)
        t = " ".join([head] + ts)
        return f"(← {t})" if self.eff[id(g)] else f"({t})"

    def mcall_stmt(self, e, ind):
        nm = e.name
        users = self.by_name.get(nm, [])
        if not users:
            if nm == "push" and len(e.args) == 1:
                return self.store(e.recv, f"({self.ex(e.recv)} ++ [{self.ex(e.args[0])}])", ind)
            if nm == "pop" and not e.args:
                return self.store(e.recv, f"(List.dropLast {self.ex(e.recv)})", ind)
            if nm == "insert" and len(e.args) == 1:
                return self.store(e.recv, f"(({self.ex(e.recv)}).insert {self.ex(e.args[0])})", ind)
            if nm == "extend" and len(e.args) == 1 and self.hashmap:
                return self.store(e.recv, f"({self.ex(e.recv)} ++ {self.ex(e.args[0])})", ind)
            return None
        g = users[0]
        for g_ in users: self.dep(g_)
        cb = self.cb_param(g)
        if cb:                                     # call with a closure for the `FnMut` parameter: run it over the log
            if len(users) != 1: raise U(f"several methods named `{nm}`")
            c = e.args[cb[0]]
            if c.kind != "closure": raise U("`FnMut` argument that is not a closure")
            if any(n.kind in ("return", "break", "continue") for n in walk(c.body)): raise U("jump inside an `FnMut` closure")
            call = self.user_call(g, self.ex(e.recv), e.args)
            ps = []
            for p in c.params:
                if not isinstance(p, str): raise U("tuple parameter of an `FnMut` closure")
                ps.append(ident(p)); self.locals.add(p)
            saved = self.loops; self.loops = []
            lines = [f"{ind}for ({', '.join(ps)}) in {call} do"] + self.block(c.body, ind + "  ", "unit")
            self.loops = saved
            return lines
        if g.selfk != "mut": return None
        if getattr(g, "ret_mut", False): raise U(f"`{nm}` (returns `&mut`) as a statement")
        r = e.recv
        while r.kind == "paren": r = r.e
        if r.kind == "mcall" and any(getattr(h, "ret_mut", False) for h in self.by_name.get(r.name, [])):
            hs = self.by_name[r.name]
            for h_ in hs: self.dep(h_)
            if len(hs) != 1 or len(users) != 1: raise U(f"several methods named `{r.name}` / `{nm}`")
            saved_cur = None
            inner_args = " ".join(self.ex(a) for a in e.args)
            inner = f"(x_).{ident(nm)}" + (" fuel" if self.fuel[id(g)] else "") + (" " + inner_args if inner_args else "")
            k_ = f"(fun x_ => {inner})" if self.eff[id(g)] else f"(fun x_ => pure ({inner}))"
            return self.store(r.recv, self.user_call(hs[0], self.ex(r.recv), r.args, extra=k_), ind)
        return self.store(e.recv, self.user_call(g, self.ex(e.recv), e.args), ind)

    # ---------------------------------------------------------------- expressions
    def lazy(self, t):
        """do-block of a term that may contain lifted effects"""
        return f"(do pure {t})"

    def branch(self, b):
        """a block in value position as a term; second component: it needs its own `do`"""
        if b.kind == "block" and (b.stmts or b.tail is None):
            lines = self.block(b, "      ", "val")
            return "(do\n" + "\n".join(lines) + ")", True
        t = self.ex(b.tail if b.kind == "block" else b)
        return t, "←" in t

    def closure(self, c):
        ps = []
        for p in c.params:
            if isinstance(p, str): ps.append(ident(p)); self.locals.add(p)
            else:
                def tp(q):
                    if isinstance(q, str):
                        self.locals.add(q); return ident(q)
                    return "(" + ", ".join(tp(x) for x in q) + ")"
                ps.append(tp(p))
        if any(n.kind in ("return", "break", "continue") for n in walk(c.body)): raise U("jump inside a closure")
        saved = self.loops; self.loops = []
        t, m = self.branch(c.body)
        self.loops = saved
        if m and not t.startswith("(do"): t = self.lazy(t)
        return f"(fun {' '.join(ps)} => {t})"

    def ex(self, e):
        k = e.kind
        if k == "int": return str(e.v)
        if k == "bool": return "true" if e.v else "false"
        if k == "unit": return "()"
        if k == "paren": return self.ex(e.e)
        if k == "path":
            segs = e.segs
            if len(segs) == 1:
                s = segs[0]
                if s in self.ren: return self.ren[s]
                if s in self.locals or s == "self": return ident(s)
                if s == "None": return "none"
                if s in self.variants: return self.variants[s]
                return ident(s)
            if len(segs) == 2:
                ty = self.cur.ty if segs[0] == "Self" else segs[0]
                g = self.by_key.get((ty, segs[1]))
                if g is not None:
                    if self.eff[id(g)] or self.fuel[id(g)]: raise U(f"`{ty}::{segs[1]}` (may panic) as a function value")
                    self.dep(g)
                    return self.lean_fn(g)
                return self.enum_path(segs)
            raise U("path " + "::".join(segs))
        if k == "tuple":
            es = [self.ex(x) for x in e.es]
            if getattr(e, "array", False):
                if len(es) == 4 and not any(x.kind == "tuple" for x in e.es): return "(Lk.Arr4.mk " + " ".join(es) + ")"
                return "[" + ", ".join(es) + "]"
            return "(" + ", ".join(es) + ")"
        if k == "un":
            x = self.ex(e.e)
            if e.op == "!": return f"(!{x})"
            if e.op in ("&", "*", "&mut"): return x
            if e.op == "-": return f"(-{x})"
        if k == "cast":
            x = self.ex(e.e)
            if e.ty in ("i32", "i64", "isize"): return f"(Int.ofNat {x})"
            if e.ty in ("usize", "u64"):
                if self.hashmap and x.startswith("(Lk.iabs "): return f"(Int.toNat {x})"
                return x
            raise U(f"cast to {e.ty}")
        if k == "bin": return self.bin(e)
        if k == "field":
            x = self.ex(e.e)
            if e.name.isdigit():
                if e.name not in ("0", "1"): raise U("tuple component beyond the second")
                return f"{x}.{int(e.name) + 1}"
            return f"{x}.{e.name}_"
        if k == "index": return f"(← Lk.idx {self.ex(e.e)} {self.ex(e.ix)})"
        if k == "range":
            if getattr(e, "incl", False): raise U("inclusive range")
            if e.lo.kind == "int" and e.lo.v == 0: return f"(List.range {self.ex(e.hi)})"
            return f"(Lk.range {self.ex(e.lo)} {self.ex(e.hi)})"
        if k == "call": return self.call(e)
        if k == "mcall": return self.mcall(e)
        if k == "macro": return self.macro(e)
        if k == "struct":
            ty = self.cur.ty if e.path == ["Self"] else e.path[-1]
            if ty not in self.mod.structs: raise U(f"struct literal of {ty}")
            names = [fn for fn, _ in self.mod.structs[ty]]
            if sorted(names) != sorted(fn for fn, _ in e.fields): raise U(f"fields of the struct literal of {ty}")
            return "({ " + ", ".join(f"{fn}_ := {self.ex(fe)}" for fn, fe in e.fields) + f" }} : {ty})"
        if k == "if":
            if e.el is None: raise U("`if` without `else` as a value")
            c = self.ex(e.c)
            a, ma = self.branch(e.th)
            b, mb = self.branch(e.el)
            if ma or mb:
                a = a if a.startswith("(do") else self.lazy(a)
                b = b if b.startswith("(do") else self.lazy(b)
                return f"(← (if {c} then {a} else {b}))"
            return f"(if {c} then {a} else {b})"
        if k == "match":
            s = self.ex(e.s)
            arms, mon = [], False
            for pats, body in e.arms:
                if body.kind == "macro" and body.name in PANICS:
                    t, m = "Res.panic", True
                else:
                    t, m = self.branch(body)
                arms.append((" | ".join(self.pat(p) for p in pats), t, m))
                mon = mon or m
            if mon:
                arms = [(p, t if (t.startswith("(do") or t == "Res.panic") else self.lazy(t), m) for p, t, m in arms]
                return "(← (match " + s + " with " + " ".join(f"| {p} => {t}" for p, t, _ in arms) + "))"
            return "(match " + s + " with " + " ".join(f"| {p} => {t}" for p, t, _ in arms) + ")"
        if k == "block":
            t, m = self.branch(e)
            return f"(← {t})" if m and t.startswith("(do") else t
        if k == "closure": return self.closure(e)
        raise U(f"expression `{k}` (line {getattr(e, 'line', '?')})")

    def bin(self, e):
        op = e.op
        a, b = self.ex(e.l), self.ex(e.r)
        if op in ("&&", "||"):
            if "←" in b:
                if op == "&&": return f"(← (if {a} then {self.lazy(b)} else pure false))"
                return f"(← (if {a} then pure true else {self.lazy(b)}))"
            return f"({a} {op} {b})"
        if op in ("+", "*"): return f"({a} {op} {b})"
        if op == "-":
            if is_i32_cast(e.l) or is_i32_cast(e.r): return f"({a} - {b})"
            return f"(← Lk.usub {a} {b})"
        if op in ("%", "/"):
            if not (e.r.kind == "int" and e.r.v != 0): raise U(f"`{op}` by a non-literal")
            return f"({a} {op} {b})"
        if op in ("<", "<=", ">", ">="):
            lop = {"<=": "≤", ">=": "≥"}.get(op, op)
            return f"(decide ({a} {lop} {b}))"
        if op == "==": return f"({a} == {b})"
        if op == "!=": return f"({a} != {b})"
        raise U(f"operator `{op}`")

    def call(self, e):
        p = e.path
        if len(p) == 1:
            nm = p[0]
            if nm == "Some" and len(e.args) == 1: return f"(some {self.ex(e.args[0])})"
            ts_ = self.cur.ty if nm == "Self" else nm
            if ts_ in self.tuple_structs and len(e.args) == len(self.mod.structs[ts_]):
                return "(" + " ".join([f"{ts_}.mk"] + [self.ex(a) for a in e.args]) + ")"
            if nm in self.closures:
                kind, m = self.closures[nm]
                if kind != "fun": raise U(f"mutating closure `{nm}` called inside an expression")
                t = " ".join([ident(nm)] + [self.ex(a) for a in e.args])
                return f"(← {t})" if m else f"({t})"
            if self.cb and nm == self.cb[1]: raise U("`FnMut` parameter called inside an expression")
            if nm in self.locals:
                return "(" + " ".join([ident(nm)] + [self.ex(a) for a in e.args]) + ")"
            raise U(f"call of `{nm}`")
        if len(p) == 2:
            if tuple(p) in self.statics:
                lf, m = self.statics[tuple(p)]
                t = " ".join([lf] + [self.ex(a) for a in e.args])
                return f"(← {t})" if m else (f"({t})" if e.args else lf)
            ty = self.cur.ty if p[0] == "Self" else p[0]
            g = self.by_key.get((ty, p[1]))
            if g is None: raise U(f"call of `{'::'.join(p)}`")
            self.dep(g)
            if g.selfk: raise U(f"`{'::'.join(p)}` called as an associated function")
            return self.user_call(g, None, e.args)
        raise U(f"call of `{'::'.join(p)}`")

    def mcall(self, e):
        nm, n = e.name, len(e.args)
        users = self.by_name.get(nm, [])
        r_ = e.recv
        while r_.kind == "paren": r_ = r_.e
        if self.hashmap and r_.kind == "field" and r_.name.isdigit() and r_.e.kind == "path" and r_.e.segs == ["self"] and \
                self.cur.ty in self.tuple_structs and dict(self.mod.structs[self.cur.ty]).get(r_.name) in ("i32", "usize"):
            users = []                           # a method of the primitive type of that field, not of a translated type
        if users:
            for g in users: self.dep(g)
            g = users[0]
            if g.selfk == "mut": raise U(f"`&mut self` method `{nm}` inside an expression")
            if self.cb_param(g): raise U(f"`{nm}` (takes an `FnMut`) inside an expression")
            return self.user_call(g, self.ex(e.recv), e.args)
        x = self.ex(e.recv)
        if nm in IDENT_METHODS and n == 0: return x
        if nm in ("iter", "into_iter") and n == 0: return f"(Lk.iter {x})"
        if nm == "len" and n == 0: return f"(Lk.len {x})"
        if nm == "is_empty" and n == 0: return f"(Lk.is_empty {x})"
        if nm == "enumerate" and n == 0: return f"(Lk.enumerate {x})"
        if nm == "count" and n == 0: return f"(List.length {x})"
        if nm == "flatten" and n == 0: return f"(List.filterMap id {x})"
        if nm == "counts" and n == 0: return f"(Lk.counts {x})"
        if nm == "first" and n == 0: return f"(List.head? {x})"
        if nm == "last" and n == 0: return f"(List.getLast? {x})"
        if nm == "is_some" and n == 0: return f"(Option.isSome {x})"
        if nm == "is_none" and n == 0: return f"(Option.isNone {x})"
        if nm == "is_positive" and n == 0: return f"(({x}).is_positive)"
        if self.hashmap:
            if nm == "is_zero" and n == 0: return f"({x} == 0)"
            if nm == "abs" and n == 0: return f"(Lk.iabs {x})"
            if nm == "sign" and n == 0: return f"(Lk.isign {x})"
            if nm == "rev" and n == 0: return f"(List.reverse {x})"
            if nm == "extend" and n == 1: raise U("`.extend` inside an expression")
            if nm == "all" and n == 1 and e.args[0].kind == "closure":
                f_ = self.closure(e.args[0])
                if "←" in f_: raise U("`.all` with a closure that may panic")
                return f"(List.all {x} {f_})"
        if nm == "unwrap_or" and n == 1: return f"(Option.getD {x} {self.ex(e.args[0])})"
        if nm in ("contains", "get") and n == 1: return f"(({x}).{nm} {self.ex(e.args[0])})"
        if nm in ("filter", "map", "any") and n == 1:
            a = e.args[0]
            f_ = self.closure(a) if a.kind == "closure" else self.ex(a)
            m = "←" in f_
            if nm == "any": return f"(← Lk.anyM {x} {f_})" if m else f"(List.any {x} {f_})"
            if m: raise U(f"`.{nm}` with a closure that may panic")
            if nm == "filter": return f"(List.filter {f_} {x})"
            return f"({f_} <$> {x})"
        raise U(f"method `.{nm}` (line {e.line})")

    def macro(self, e):
        if e.name == "vec":
            if getattr(e, "repeat", False): return f"(List.replicate {self.ex(e.args[1])} {self.ex(e.args[0])})"
            return "[" + ", ".join(self.ex(a) for a in e.args) + "]"
        if e.name == "matches":
            if len(e.args) != 2: raise U("matches! arguments")
            pats = self.expr_to_pats(e.args[1])
            return f"(match {self.ex(e.args[0])} with | " + " | ".join(pats) + " => true | _ => false)"
        if e.name in PANICS: return "(← Res.panic)"
        raise U(f"macro `{e.name}!`")


def generate(texts, src_label, cfg, rmod):
    global R
    R = rmod
    R.Parser.const_generics = False
    R.Parser.turbofish = True
    R.Parser.mut_types = True
    R.Parser.incl_ranges = False
    R.Parser.body_use_braces = True
    mod = None
    try:
        for text in texts:
            mod = R.parse_items(R.tokenize(text), mod, False, 0, None)
    finally:
        pass
    try:
        only, excl = cfg.get("only", {}), set(cfg.get("exclude", []))
        fns, notes = [], []
        for f in mod.fns:
            if f.ty is None or (f.trait and (f.ty, f.name) not in cfg.get("traits", [])): continue
            if f.ty in only and f.name not in only[f.ty]: continue
            if (f.ty, f.name) in excl:
                notes.append(f"{f.rust_name}: excluded by the target (see the blurb)"); continue
            fns.append(f)
        keys = [(f.ty, f.name) for f in fns]
        for k in keys:
            if keys.count(k) > 1: raise U(f"function {k[0]}::{k[1]} is defined more than once")
        tr = Tr(mod, cfg, fns)
        tr.analyse()
        parts = []
        for name in sorted(mod.enums):
            vs = mod.enums[name]
            parts.append("\n".join([f"/-- `enum {name}` -/", f"inductive {name} where"] + [f"  | {v}" for v, _ in vs] +
                                   ["deriving DecidableEq, Repr, Inhabited"]))
        dummy = R.Fn(); dummy.ty = None
        for name in cfg["structs"]:
            if name not in mod.structs: raise U(f"struct {name} not found")
            lines = [f"/-- `struct {name}` -/", f"structure {name} where"]
            for fn_, ft in mod.structs[name]:
                t = tr.lean_ty(ft, dummy)
                lines.append(f"  {'v' if fn_.isdigit() else ''}{fn_}_ : {t}   -- {ft}")
            lines.append("deriving DecidableEq, Repr, Inhabited")
            parts.append("\n".join(lines))
        skipped = []
        required = {(t, n) for (t, _, n) in cfg["required"]}
        for f in fns:
            try:
                tr.translate(f)
            except U as e:
                if (f.ty, f.name) in required: raise U(f"{f.rust_name}: {e}")
                skipped.append((f, str(e)))
        changed = True
        while changed:
            changed = False
            ok = {id(f) for f in tr.emitted}
            for f in list(tr.emitted):
                bad = [g for g in fns if id(g) in tr.deps.get(id(f), ()) and id(g) not in ok]
                if bad:
                    if (f.ty, f.name) in required: raise U(f"{f.rust_name}: calls {bad[0].rust_name}, which is not translated")
                    tr.emitted.remove(f); skipped.append((f, f"calls {bad[0].rust_name}, which is not translated")); changed = True
        done = {(f.ty, f.name) for f in tr.emitted}
        missing = [k for k in required if k not in done]
        if missing: raise U(f"required function {missing[0][0]}::{missing[0][1]} not found in the source")
    except U as e:
        raise R.Unsupported(str(e))
    finally:
        R.Parser.body_use_braces = False
        R.Parser.mut_types = False
    order, seen = [], set()

    def visit(f):
        if id(f) in seen: return
        seen.add(id(f))
        for g in fns:
            if id(g) in tr.deps.get(id(f), ()) and g in tr.emitted and (g.name != f.name or fns.index(g) < fns.index(f)): visit(g)
        order.append(f)
    for f in tr.emitted: visit(f)
    fparts = [tr.done[id(f)] for f in order]
    hdr = [f"import {m}" for m in cfg["imports"]] + ["/-",
           f"GENERATED by tools/rs2lean_fn.py from {src_label} on every ./check run — do not edit.", ""] + cfg["blurb"] + ["", "translated:"]
    hdr += [f"  {f.rust_name}  ->  {tr.lean_fn(f)}" for f in sorted(tr.emitted, key=lambda f: tr.lean_fn(f))]
    hdr += ["", "not translated:"]
    hdr += sorted(f"  {f.rust_name}: {R.reason_clean(r, f)}" for f, r in skipped)
    hdr += [f"  {n}" for n in sorted(set(notes))]
    hdr += ["-/", "set_option linter.unusedVariables false", f"namespace {cfg['ns']}", "open Yuiv Yuiv.Rust", "", ""]
    return "\n".join(hdr) + "\n\n".join(parts + fparts) + f"\n\nend {cfg['ns']}\n"
