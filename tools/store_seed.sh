#!/bin/sh
# tools/store_seed.sh <Cxx> <tag> <demo file name in /tmp/mut/out/Cxx> — copy a confirmed seeded change into /verif/seeded/<Cxx>-<tag>/
id="$1"; tag="$2"; demo="$3"
d=/verif/seeded/$id-$tag; mkdir -p "$d"
cp ${MUTOUT:-/tmp/mut/out}/$id/patch.diff "$d/patch.diff"
cp ${MUTOUT:-/tmp/mut/out}/$id/$demo "$d/"
cp ${MUTOUT:-/tmp/mut/out}/$id/demo_path.txt ${MUTOUT:-/tmp/mut/out}/$id/notes.md "$d/" 2>/dev/null
ls "$d"
