#!/usr/bin/env python3
"""
tools/rs2lean_fn.py — regenerates Lean definitions from the SOURCE TEXT of selected Rust files of /repo.

  fn:bitseq   /repo/yui/src/misc/bitseq.rs                         -> lean/Yuiv/Gen/BitSeqFn.lean   (Props/C17Gen.lean)
  fn:ratio    /repo/yui/src/types/ratio.rs                         -> lean/Yuiv/Gen/RatioFn.lean    (Props/C14Gen.lean)
  fn:intext   /repo/yui/src/misc/int_ext.rs + abst/euc_ring.rs     -> lean/Yuiv/Gen/IntExtFn.lean   (Props/C15Gen.lean)
  fn:qint     /repo/yui/src/types/qint.rs                          -> lean/Yuiv/Gen/QIntFn.lean     (Props/C14GenQ.lean, C15GenQ.lean)
  fn:ff       /repo/yui/src/types/ff.rs + f2.rs                    -> lean/Yuiv/Gen/FFFn.lean       (Props/C14GenF.lean)
  fn:misc     /repo/yui-khovanov/src/misc.rs (+ kh/ss.rs, khi/ssi.rs)  -> lean/Yuiv/Gen/MiscFn.lean     (Props/C06Gen.lean)
  fn:snf      /repo/yui-matrix/src/dense/snf.rs                    -> lean/Yuiv/Gen/SnfFn.lean      (Props/C09Gen.lean)
  fn:lll      /repo/yui-matrix/src/dense/lll.rs                    -> lean/Yuiv/Gen/LllFn.lean      (Props/C10Gen.lean)
  fn:homcalc  /repo/yui-homology/src/utils/homology_calc.rs        -> lean/Yuiv/Gen/HomCalcFn.lean  (Props/C07Gen.lean)
  fn:triang   /repo/yui-matrix/src/sparse/triang.rs                -> lean/Yuiv/Gen/TriangFn.lean   (Props/C12Gen.lean)
  fn:spmat    /repo/yui-matrix/src/sparse/sp_mat.rs                -> lean/Yuiv/Gen/SpMatFn.lean    (Props/C13Gen.lean)
  fn:trans    /repo/yui-matrix/src/sparse/trans.rs                 -> lean/Yuiv/Gen/TransFn.lean    (Props/C13GenT.lean)
  fn:spvec    /repo/yui-matrix/src/sparse/sp_vec.rs                -> lean/Yuiv/Gen/SpVecFn.lean    (Props/C13GenV.lean)
  fn:schur    /repo/yui-matrix/src/sparse/schur.rs                 -> lean/Yuiv/Gen/SchurFn.lean    (Props/C08Gen.lean)
  fn:reducer  /repo/yui-homology/src/utils/chain_reducer.rs        -> lean/Yuiv/Gen/ReducerFn.lean  (Props/C08GenR.lean)
  fn:geninfo  /repo/yui-khovanov/src/misc.rs (collect_gen_info)         -> lean/Yuiv/Gen/GenInfoFn.lean  (Props/C03Gen.lean; renderer tools/rs2lean_poly.py)
  fn:link     /repo/yui-link/src/link/{crossing,path,link}.rs      -> lean/Yuiv/Gen/LinkFn.lean     (Props/C18Gen.lean; renderer tools/rs2lean_link.py)
  fn:braid    /repo/yui-link/src/braid.rs                          -> lean/Yuiv/Gen/BraidFn.lean    (Props/C18GenB.lean; renderer tools/rs2lean_link.py)
  fn:poly     /repo/yui/src/types/lc/lc.rs + poly/{poly,var,var2,h_poly,mdeg,mvar}.rs -> lean/Yuiv/Gen/PolyFn.lean (Props/C16Gen.lean; renderer tools/rs2lean_poly.py)

Additions for fn:misc / fn:snf (see the target entries in TARGETS and Yuiv/Model/RustIter.lean, RustDense.lean):
free functions of a file (`free_fns`), closures as auxiliary definitions (captured variables become parameters),
`filter_map/filter/map/min_by/min/next/count` on containers modelled as lists, ranges `(a..b)`, extraction of a single
top-level `let` of a function (`extract`); a generic ring `R` as a type with an explicit record `e : C09.EOps α`
(`eops`), sized matrices with the field sizes given by the target (`field_dims`), `usize` as an unbounded `Nat`
(`nat_usize`), `debug_assert!` under an extra argument `dbg`, `trace!/debug!/info!` as no-ops, index expressions
`A[(i, j)]`, fixed-size arrays as tuples, `let [a, b] = x`, `let Some(x) = e else { return …/panic! }`,
`if let Some(p) = self.f.as_mut() { … }` (in-place update of an `Option` field), `&mut self` methods that also return a
value (result `(struct × value)`, callable inside expressions), `for k in lo..hi` with `continue`/`break` through
`Loop.forRange` (the body is an auxiliary definition returning `Ctl`), labelled `'outer: loop` with `continue 'outer`
from an inner `for` and `break`, a method rendered as a function parameter (`opaque_methods`: `preprocess` ↦ `pre`).

Addition for fn:bitseq (target option `strfmt`, opt-in; see STRFMT_PRELUDE): parsing / printing.  String and char literals, char
patterns, `?` and `#[display("..")]` are parsed; `FromStr::from_str` of the shape `s.chars().map(|c| match c { 'x' => Ok(Enum::V), …,
_ => Err(..) }).collect()` (a `&str` is a `List Char`, `Result` items are `Option`, `collect::<Result<_,_>>()` feeds the `Ok` prefix to the
translated `FromIterator::from_iter` and then reports `Res.err`), an `impl Iterator` built as `(lo..hi).map(move |_| {…})` over captured
`let mut` state (the list of its items), the derived `Display` of an enum, and `Display::fmt` of the shape
`for b in self.iter() { Display::fmt(&b, f)?; } Ok(())` (the `List Char` written).  Any other shape is rejected (exit 1 when required).

A small translator for a restricted Rust subset.  It tokenises the file, parses items (enum, struct, impl blocks,
trait default methods, consts, fn signatures, single-arm `macro_rules!`) and — per function — statements and expressions
with a recursive-descent / precedence-climbing parser, and emits one Lean definition per function.  Nothing about the
function BODIES is hard-coded: only, per target (TARGETS below), the list of functions that must be translatable.

Supported subset
  items        `enum` with unit variants, `struct` with named fields or tuple structs (fields `f0`, `f1`, …; type
               parameters only with scalar = "Z"), `type A<I> = …;` aliases,
               inherent `impl T { const..; fn.. }`, trait impls `impl Trait<..> for T { type X = ..; fn.. }` (an impl for
               `&T` gets the tag suffix `_ref`), blanket impls `impl<T> Trait for T`, default methods of a `trait`,
               nested `fn` items and `use …::Ordering::*` inside a body; with the target option `macros`: item-level
               invocations of `macro_rules!` definitions that have ONE arm `($a:frag, $b:frag, …) => { … }` are expanded
               (token substitution; a macro may be invoked before its definition); attributes (`#[inline]`,
               `#[auto_ops]`, `#[cfg]`) are ignored
  generics     `<T>` (a plain type variable), `where U: From<T>` for a user type U (an explicit function argument
               `U_from_T : T → U`; `U::from(x)` applies it), `I: IntoIterator<Item = T>` (the `List` of the items;
               `.into_iter()` is the identity); with scalar = "Z": a parameter all of whose bounds are ring / integer
               traits (SCALAR_BOUNDS; `for<'x> &'x T: EucRingOps<T>` included) is INSTANTIATED by the unbounded integers;
               lifetimes are erased; with the target option `const_generics`: ONE `const D: i32` parameter of a struct
               becomes an explicit leading argument `(D : Int)` of every function of a generic impl, an impl for a fixed
               argument (`QuadInt<I, -1>`, also through an alias `GaussInt<I>`) passes the literal and gets the tag
               suffix `_m1`; all values of that struct inside one function are taken to have the function's argument
               (checked on every type that names the struct), impls for another argument are not candidates of a call
  types        u64, usize (both 64 bit; scalar = None), the scalar `Int` (scalar = "Z"), bool, the enums / structs of the
               file, (), tuples, Ordering, Option<_>, references (erased)
  statements   `let` / `let mut` with identifier or flat tuple patterns, assignments and compound assignments to
               `let mut` locals, to fields of `self` and `*self`, tuple assignments `(a, b) = (e1, e2)`, `assert!` family,
               `panic!`/`unreachable!`, `if`/`else if`/`else`, `while` (fuel), `for x in <list>`, `loop` without `break`
               as the last expression of a function (fuel), `return` / `continue` (translated in continuation-passing
               style: the code after an `if`/`match` that may jump is moved into its branches), calls of `&mut self`
               methods on `self` or a mutable local, `x.add_assign(y)` … / `x.set_zero()` / `x.set_one()`
  expressions  integer / bool literals, paths (`x`, `self`, `Self::CONST`, `u64::MAX`, `Enum::Variant`, `None`, `Less`…),
               field reads, `Self::f(..)`, `T::f(..)`, `x.f(..)`, local `f(..)`, unary `! - * &`, binary
               `* / % + - << >> & ^ | == != < <= > >= && ||` with Rust precedence, `as u64|usize`, `if` expressions,
               `match` on integer / bool / enum / Ordering values and tuples of them (literal, wildcard and binding
               patterns; compiled to an if-chain, exhaustiveness checked), struct literals, tuples, `Some(e)`,
               `.unwrap()`, `.reverse_bits()`, `.cmp(&e)`, `.reverse()`, `.then(e)`, `.then_with(|| e)`, `.clone()`,
               `b.then_some(e)`, `if let Some(x) = e {..} else {..}`, tuple-struct constructors `Self(a, b)`, `x.0`,
               `<&'a I>::neg(a)`, `Add::add(x, y)`; `+ - * / %` and unary `-` on a user type are its written `Add` / … /
               `Neg` impl (the by-value / by-reference forms derived by `#[auto_ops]` are identified with it);
               with scalar = "Z" the ring methods / associated functions listed in ZMETH / ZMETH_M / ZSTATIC, with the
               target option `int32` those of the checked i32 (WMETH / WMETH_M / WSTATIC_M)
Semantics emitted
  scalar = None (bitseq): lean/Yuiv/Model/RustArith.lean (trusted): overflow checks and debug assertions ON; `+ - *`
    panic on overflow, `/ %` on zero divisor, `<< >>` when the amount is >= 64.  All integer literals are taken to be
    64-bit unsigned (a literal that rustc would default to i32 is outside the subset).
  scalar = "Z" (ratio, intext): lean/Yuiv/Model/RustRing.lean (trusted): unbounded `Int`; `/ %` truncate and panic on a
    zero divisor; `EucRing::gcd/lcm` of the integer types are the non-negative gcd / lcm.
  int32 (ff): `i32` (also through `type I = i32`) is an `Int` with checked arithmetic, lean/Yuiv/Model/RustI32.lean
    (trusted); a `const p: i32` argument has that type too (for qint the const generic is read as an unbounded `Int`).
  common: `assert!` failure panics; every panic is `Res.panic`; `&mut self` methods return the new struct value;
    `&&`/`||`/`then_with` are lazy; shared references are erased to copies (sound because the borrow checker forbids
    mutation of the referent while the reference is live); `x op= y` on a user type is its `OpAssign` impl; loops run
    on fuel (`Res.err` when it runs out): the constant `loopFuel`, or — target option `fuel_param` — an explicit first
    argument `fuel` of every function that (transitively) contains a loop.

Usage: rs2lean_fn.py [fn:bitseq|fn:ratio|fn:intext|fn:qint|fn:ff|fn:misc|fn:snf|fn:lll|fn:homcalc|fn:triang|fn:spmat|fn:trans|fn:spvec|fn:schur|fn:reducer|fn:poly|fn:geninfo|fn:link|fn:braid]... [--src FILE]... [--out FILE]   (none = all)
  `--src` (once per source file of the target, in its order) and `--out` need exactly one target.
Exit status 0: every selected generated file is up to date or was rewritten; 1: for some target something in a
REQUIRED function (or in the item structure) is outside the subset — `rs2lean_fn: cannot translate: <what>` is printed
for that target and its old file is kept (the other targets are still processed).
"""
import argparse, os, re, sys

ROOT = os.path.dirname(os.path.dirname(os.path.abspath(__file__)))
GEN = os.path.join(ROOT, "lean", "Yuiv", "Gen")


def _req(ty, names, tag=None):
    return [(ty, tag, n) for n in names]


# One entry per target `fn:<name>`.
#   required   functions that must translate (Type, trait-tag or None, name); failure => exit 1.  Every other function of
#              the file is attempted as well; if it is outside the subset the reason is listed in the header of the
#              generated file and the function is left to the differential run.
#   scalar     None: the integer types are u64/usize (`Nat` below 2^64, checked operators of Model/RustArith.lean).
#              "Z": every type parameter whose bounds are ring/integer traits (SCALAR_BOUNDS) is instantiated by the
#              unbounded integers (`Int`, the BigInt reading; operators and trait methods of Model/RustRing.lean).
#   macros     expand single-arm `macro_rules!` definitions whose matcher is `$a:frag, $b:frag, …` at item level.
#   fuel_param functions that contain a `loop`/`while` (or call one that does) take the fuel as an explicit first
#              argument instead of using the constant `loopFuel`.
TARGETS = {
    "bitseq": dict(
        src="/repo/yui/src/misc/bitseq.rs", out="BitSeqFn.lean", ns="Yuiv.GenBitSeq", scalar=None, macros=True, strfmt=True,
        fuel_param=False, imports=["Yuiv.Model.Res", "Yuiv.Model.RustArith"],
        blurb=["One Lean definition per translated Rust function (semantics of the primitive operators: Yuiv/Model/RustArith.lean;",
               "`u64`/`usize` are `Nat` below 2^64, `&mut self` methods return the new struct, panics are `Res.panic`).",
               "`Yuiv/Props/C17Gen.lean` proves each of them equal to the hand-written model `Yuiv/Model/C17.lean`."],
        required=_req("Bit", ("is_zero", "is_one", "as_u64")) + _req("BitSeq", (
            "mask", "new", "new_rev", "empty", "zeros", "ones", "len", "as_u64", "is_empty", "weight", "set",
            "set_0", "set_1", "push", "push_0", "push_1", "append", "remove", "insert", "insert_0", "insert_1",
            "sub", "is_sub")) + [
            ("Bit", "From_bool", "from"), ("BitSeq", "Index_usize", "index"), ("BitSeq", "Ord", "cmp"),
            ("BitSeq", "PartialOrd", "partial_cmp"), ("BitSeq", "AddAssign_BitSeq", "add_assign"),
            ("BitSeq", "AddAssign_Bit", "add_assign"), ("BitSeq", "From_T", "from"),
            ("BitSeq", "FromIterator_T", "from_iter"), ("Bit", "From_u64", "from"), ("BitSeq", None, "iter"),
            ("BitSeq", "FromStr", "from_str"), ("BitSeq", "Display", "fmt")]),
    "ratio": dict(
        src="/repo/yui/src/types/ratio.rs", out="RatioFn.lean", ns="Yuiv.GenRatio", scalar="Z", macros=True,
        fuel_param=True, imports=["Yuiv.Model.Res", "Yuiv.Model.RustRing"],
        blurb=["One Lean definition per translated Rust function.  The type parameter `T` of `Ratio<T>` is instantiated by the",
               "unbounded integers (`Int`); its operators and trait methods are the functions of Yuiv/Model/RustRing.lean;",
               "`&mut self` methods return the new struct, panics are `Res.panic`, `loop`s take their fuel as an argument.",
               "`Yuiv/Props/C14Gen.lean` proves each of them equal to the hand-written model `Yuiv/Model/C14.lean`."],
        required=_req("Ratio", ("new_raw", "numer", "denom", "new", "reduce", "is_int")) + [
            ("Ratio", "From_T", "from"), ("Ratio", "Zero", "zero"), ("Ratio", "Zero", "is_zero"),
            ("Ratio", "One", "one"), ("Ratio", "One", "is_one"),
            ("Ratio", "AddAssign_Ratio_T", "add_assign"), ("Ratio", "SubAssign_Ratio_T", "sub_assign"),
            ("Ratio", "Neg", "neg"), ("Ratio", "Neg_ref", "neg"), ("Ratio", "MulAssign_Ratio_T", "mul_assign"),
            ("Ratio", "DivAssign_Ratio_T", "div_assign"), ("Ratio", "Ring", "inv"), ("Ratio", "Ring", "is_unit"),
            ("Ratio", "Ring", "normalizing_unit"), ("Ratio", "Ord", "cmp"), ("Ratio", "PartialOrd", "partial_cmp")]),
    "qint": dict(
        src="/repo/yui/src/types/qint.rs", out="QIntFn.lean", ns="Yuiv.GenQInt", scalar="Z", macros=True,
        fuel_param=True, const_generics=True,
        imports=["Yuiv.Model.Res", "Yuiv.Model.RustRing"],
        blurb=["One Lean definition per translated Rust function.  `I := Int` (unbounded); the const generic `D: i32` is an explicit",
               "argument `(D : Int)` of every function of an `impl<I, const D: i32>` block, the impls for `GaussInt<I>` / `EisenInt<I>`",
               "(= `QuadInt<I, -1>` / `QuadInt<I, -3>`, names tagged `_m1` / `_m3`) pass the literal; the tuple struct has the fields",
               "`f0`, `f1`.  Operators and trait methods of `I`: Yuiv/Model/RustRing.lean; panics are `Res.panic`.",
               "`Yuiv/Props/C14GenQ.lean` / `C15GenQ.lean` prove them equal to the hand-written models `C14.QI.*` / `C15.QInt.*`."],
        required=_req("QuadInt", ("new", "omega", "is_rational", "left", "right", "pair_into", "pair", "conj", "norm")) + [
            ("QuadInt", "From_I", "from"), ("QuadInt", "Zero", "zero"), ("QuadInt", "Zero", "is_zero"),
            ("QuadInt", "One", "one"), ("QuadInt", "One", "is_one"),
            ("QuadInt", "Neg", "neg"), ("QuadInt", "Neg_ref", "neg"),
            ("QuadInt", "Add_QuadInt_I_D_ref", "add"), ("QuadInt", "Sub_QuadInt_I_D_ref", "sub"),
            ("QuadInt", "Mul_QuadInt_I_D_ref", "mul"),
            ("QuadInt", "DivRound_m1", "div_round"), ("QuadInt", "Div_GaussInt_I_ref_m1", "div"),
            ("QuadInt", "Rem_GaussInt_I_ref_m1", "rem"),
            ("QuadInt", "DivRound_m3", "div_round"), ("QuadInt", "Div_EisenInt_I_ref_m3", "div"),
            ("QuadInt", "Rem_EisenInt_I_ref_m3", "rem"),
            ("QuadInt", "Ring", "is_unit"), ("QuadInt", "Ring", "inv"), ("QuadInt", "Ring", "normalizing_unit")]),
    "ff": dict(
        src=["/repo/yui/src/types/ff.rs", "/repo/yui/src/types/f2.rs"], out="FFFn.lean", ns="Yuiv.GenFF", scalar="Z",
        macros=True, fuel_param=True, const_generics=True, int32=True,
        imports=["Yuiv.Model.Res", "Yuiv.Model.RustRing", "Yuiv.Model.RustI32"],
        blurb=["One Lean definition per translated Rust function of ff.rs (`FF<p>`) and f2.rs (`FF2`).  `I = i32` is an `Int` with CHECKED",
               "arithmetic (Yuiv/Model/RustI32.lean: `+ - * neg` panic outside the i32 range, `rem_euclid` is `Int.emod`,",
               "`I::gcdx` is num-integer's extended gcd); the const generic `p` is an explicit argument `(p : Int)`; the generic",
               "`I: ToPrimitive` of `From<I> for FF2` is read as an unbounded `Int`; panics are `Res.panic`.",
               "`Yuiv/Props/C14GenF.lean` proves them equal to the hand-written models `C14.FF.*` / `C14.FF2.*`."],
        required=_req("FF", ("new", "rep")) + [
            ("FF", "From_I", "from"), ("FF", "Zero", "zero"), ("FF", "Zero", "is_zero"), ("FF", "One", "one"),
            ("FF", "One", "is_one"), ("FF", "Neg", "neg"), ("FF", "Neg_ref", "neg"),
            ("FF", "Add_FF_p_ref", "add"), ("FF", "Sub_FF_p_ref", "sub"), ("FF", "Mul_FF_p_ref", "mul"),
            ("FF", "Div_FF_p_ref", "div"), ("FF", "Rem_FF_p_ref", "rem"),
            ("FF", "Ring", "inv"), ("FF", "Ring", "is_unit"), ("FF", "Ring", "normalizing_unit"),
            ("FF2", "From_I", "from"), ("FF2", "Zero", "zero"), ("FF2", "Zero", "is_zero"), ("FF2", "One", "one"),
            ("FF2", "One", "is_one"), ("FF2", "Neg", "neg"), ("FF2", "Neg_ref", "neg"),
            ("FF2", "Add_FF2_ref", "add"), ("FF2", "Sub_FF2_ref", "sub"), ("FF2", "Mul_FF2_ref", "mul"),
            ("FF2", "Div_FF2_ref", "div"), ("FF2", "Rem_FF2_ref", "rem"),
            ("FF2", "Ring", "inv"), ("FF2", "Ring", "is_unit"), ("FF2", "Ring", "normalizing_unit")]),
    "misc": dict(
        src=["/repo/yui-khovanov/src/misc.rs", "/repo/yui-khovanov/src/kh/ss.rs", "/repo/yui-khovanov/src/khi/ssi.rs"],
        out="MiscFn.lean", ns="Yuiv.GenMisc", scalar="Z", macros=False, fuel_param=True, int32=True, int_lit="W",
        free_fns=True, list_types={"SpVec": "(usize,{0})"},
        imports=["Yuiv.Model.Res", "Yuiv.Model.RustRing", "Yuiv.Model.RustI32", "Yuiv.Model.RustIter"],
        blurb=["Free functions of yui-khovanov/src/misc.rs (`div`, `div_vec`: the c-adic valuation behind the s-invariant) and the",
               "closing arithmetic of `ss_invariant` (kh/ss.rs) and `ssi_invariants` (khi/ssi.rs), extracted from their `let`s",
               "(there the i32 values are read as unbounded integers).",
               "`R := Int` (unbounded, Yuiv/Model/RustRing.lean); the counter `k` is an `i32` with overflow check (RustI32.lean);",
               "`SpVec<R>` is the list of its `(index, value)` entries in iteration order; `filter_map(..).min()` is",
               "`Iter.filterMapM` + `Iter.min` (Yuiv/Model/RustIter.lean); the `while` loop takes its fuel as an argument.",
               "`Yuiv/Props/C06Gen.lean` proves them equal to the hand-written models `C06.div/divVec/ss`, `C19.ssi`."],
        extract=[("ss", "ss_invariant", "ss", [("d", "Z"), ("w", "Z"), ("r", "Z")]),
                 ("ssi", "ssi_invariants", "ss0", [("d0", "Z"), ("w", "Z"), ("r", "Z")]),
                 ("ssi", "ssi_invariants", "ss1", [("d1", "Z"), ("w", "Z"), ("r", "Z")])],
        required=[("misc", None, "div"), ("misc", None, "div_vec")]),
    "snf": dict(
        src="/repo/yui-matrix/src/dense/snf.rs", out="SnfFn.lean", ns="Yuiv.GenSnf", scalar="E", macros=False,
        fuel_param=True, nat_usize=True, eops=True, dbg_param=True,
        field_dims={("SnfCalc", "target"): ("m", "n"), ("SnfCalc", "p"): ("m", "m"), ("SnfCalc", "pinv"): ("m", "m"),
                    ("SnfCalc", "q"): ("n", "n"), ("SnfCalc", "qinv"): ("n", "n")},
        imports=["Yuiv.Model.Res", "Yuiv.Model.RustArith", "Yuiv.Model.RustRing", "Yuiv.Model.RustDense"],
        blurb=["The methods of `impl SnfCalc<R>` (yui-matrix/src/dense/snf.rs).  `R` is a type `α` with an explicit record",
               "`e : C09.EOps α` of its ring operations, `Mat<R>` the sized `C09.Mat α r c` (target m×n, p/pinv m×m, q/qinv n×n),",
               "`usize` an unbounded `Nat`; dense primitives, `for k in lo..hi` (`Loop.forRange`) and the iterator chains are the",
               "functions of Yuiv/Model/RustDense.lean; `debug_assert!` is guarded by the extra argument `dbg`; `while`/`loop` run",
               "on the fuel argument; `&mut self` methods return the new struct (paired with their value); panics are `Res.panic`.",
               "`Yuiv/Props/C09Gen.lean` proves them equal to the hand-written model `Yuiv/Model/C09.lean`."],
        opaque_methods={("SnfCalc", "preprocess"): "pre"},
        required=_req("SnfCalc", ("swap_rows", "swap_cols", "mul_row", "mul_col", "left_elementary", "right_elementary",
                                  "gcdx", "row_nz", "col_nz", "select_pivot", "eliminate_row", "eliminate_col",
                                  "eliminate_at", "eliminate_step", "eliminate_all", "diag_normalize_step",
                                  "diag_normalize", "process"))),
    "lll": dict(
        src="/repo/yui-matrix/src/dense/lll.rs", out="LllFn.lean", ns="Yuiv.GenLll", scalar="Z", macros=True,
        fuel_param=True, nat_usize=True, lmat=True, no_derive=True,
        scalar_types=["i32", "i64", "i128", "BigInt"],
        imports=["Yuiv.Model.Res", "Yuiv.Model.RustArith", "Yuiv.Model.RustRing", "Yuiv.Model.RustDense",
                 "Yuiv.Model.RustLLL"],
        blurb=["The methods of `LLLData`, `LLLCalc`, `LLLHNFCalc` (yui-matrix/src/dense/lll.rs) and the `LLLRing` items of",
               "`impl_for_int!`.  `R := Int`; `Mat<R>` is `LMat` (the model's `C10.Mat` with its shape), `Vec<R>` is `Array Int`,",
               "`usize` an unbounded `Nat`; matrix / vector primitives, the mutable column view idiom, `enumerate` and the",
               "reversed `for` are the functions of Yuiv/Model/RustLLL.lean; `&mut self` methods return the new struct; loops run",
               "on the fuel argument; panics are `Res.panic`.",
               "`Yuiv/Props/C10Gen.lean` proves them equal to the hand-written model `Yuiv/Model/C10.lean`."],
        required=_req("LLLData", ("next", "back", "nrows", "lovasz_ok", "mul_row", "nz_col_in", "add_row_to", "reduce",
                                  "swap")) + _req("LLLCalc", ("iterate", "process")) +
                 _req("LLLHNFCalc", ("reduce", "is_ok", "iterate", "process", "result"))),
    "homcalc": dict(
        src="/repo/yui-homology/src/utils/homology_calc.rs", out="HomCalcFn.lean", ns="Yuiv.GenHomCalc", scalar="Z",
        macros=False, fuel_param=True, nat_usize=True, hom=True, no_derive=True,
        opaque_fns={"snf_in_place": ("snf", "C07.SnfFn")},
        imports=["Yuiv.Model.Res", "Yuiv.Model.RustArith", "Yuiv.Model.RustRing", "Yuiv.Model.RustHom"],
        blurb=["The associated functions of `impl HomologyCalc<R>` (yui-homology/src/utils/homology_calc.rs).  `R := Int`;",
               "`SpMat<R>` and `Mat<R>` are both the model's dense `C07.Mat` (`into_dense` / `into_sparse` are the identity),",
               "`SnfResult<R>` is `C07.Snf`, `Trans<R>` is `C07.Trans`, `Vec<R>` a list, `usize` an unbounded `Nat` with checked",
               "subtraction; the matrix / `SnfResult` / `Trans` primitives are the functions of Yuiv/Model/RustHom.lean (each one",
               "the corresponding primitive of the hand model); `snf_in_place` is the extra argument `snf : C07.SnfFn` (its",
               "specification is property C09); panics are `Res.panic`.",
               "`Yuiv/Props/C07Gen.lean` proves them equal to the hand-written model `Yuiv/Model/C07Calc.lean`."],
        required=_req("HomologyCalc", ("calculate", "trivial_result", "process_snf", "result", "trans"))),
    "triang": dict(
        src="/repo/yui-matrix/src/sparse/triang.rs", out="TriangFn.lean", ns="Yuiv.GenTriang", scalar="S",
        macros=False, fuel_param=True, nat_usize=True, csc=True, free_fns=True, mut_params=True, no_derive=True,
        full_consumers=["from_col_vecs"],
        imports=["Yuiv.Model.Res", "Yuiv.Model.RustArith", "Yuiv.Model.RustRing", "Yuiv.Model.RustDense",
                 "Yuiv.Model.RustCsc"],
        blurb=["The sequential core of yui-matrix/src/sparse/triang.rs: `TriangularType::{is_upper, tranpose}` and the free",
               "functions `inv_triangular`, `solve_triangular`, `solve_triangular_left`, `solve_triangular_vec`,",
               "`solve_triangular_s`, `_solve_triangular`, `collect_diag`, `copy_into`.  Cargo features are OFF: of every",
               "`cfg_if!` the non-`multithread` branch is taken and `solve_triangular_m` is dropped (Props/C12.lean proves that",
               "the result does not depend on the assignment of columns to worker buffers).",
               "`R` is a type `α` with the model's operations `[C12.Scal α]`; `SpMat<R>` is the model's CSC content `C12.SpMat α`,",
               "`SpVec<R>` its dimension and stored entries (`SVec α`), `Vec<R>` / `[R]` a dense `Array α` (index panics kept),",
               "any other `Vec<T>` a list; a `&mut` parameter is returned together with the value; the lazily consumed",
               "`(0..k).map(|j| …)` that fills and empties the scratch buffer is the sequential fold `Loop.mapRange`; the CSC",
               "primitives are the functions of Yuiv/Model/RustCsc.lean; `debug_assert!` is an `assert!` (debug build).",
               "`Yuiv/Props/C12Gen.lean` proves them equal to the hand-written model `Yuiv/Model/C12.lean`."],
        required=[("TriangularType", None, "is_upper"), ("TriangularType", None, "tranpose")] +
                 [("triang", None, n) for n in ("inv_triangular", "solve_triangular", "solve_triangular_left",
                                                "solve_triangular_vec", "solve_triangular_s", "_solve_triangular",
                                                "collect_diag", "copy_into")]),
    "spmat": dict(
        src="/repo/yui-matrix/src/sparse/sp_mat.rs", out="SpMatFn.lean", ns="Yuiv.GenSpMat", scalar="K13",
        macros=False, fuel_param=True, nat_usize=True, sp13=True, no_derive=True,
        newtype_structs={"SpMat": "inner"}, forlist_fn="Sp.forList", enumerate_fn="Sp.enumerate",
        imports=["Yuiv.Model.Res", "Yuiv.Model.RustArith", "Yuiv.Model.RustRing", "Yuiv.Model.RustIter",
                 "Yuiv.Model.RustDense", "Yuiv.Model.RustSp"],
        blurb=["The index-remapping and assembly functions of `impl SpMat<R>` (yui-matrix/src/sparse/sp_mat.rs): `from_entries`,",
               "`from_col_vecs`, `extract`, `permute(_rows/_cols)`, `submat(_rows/_cols)`, `divide4`, `combine_blocks`, `concat`,",
               "`stack`, `extend_cols`, `from_row_perm`, `from_col_perm`.  Cargo features are OFF (`serde` impls dropped).",
               "`R` is a type with `[Zero R] [One R] [Add R] [DecidableEq R]` (`is_zero` is `= 0`); `SpMat<R>` and the",
               "`CscMatrix<R>` it wraps are both the model's `C13.SpMat R` (the field `inner` is the identity), `SpVec<R>` is",
               "`C13.SpVec R`, `PermView` is `C13.Perm`, `CooMatrix<R>` is `Sp.Coo R` (shape + pushed triplets), `Range<usize>` a",
               "pair, `Vec<T>` a list, `usize` an unbounded `Nat` with checked subtraction; a parameter `F: Fn(..) -> T` is a",
               "`Res`-valued Lean function (closures passed for it may panic); local closures are inlined; the nalgebra",
               "kernels (`triplet_iter`, `CooMatrix::push`, COO→CSC, `disassemble`, `try_from_csc_data`) are the functions of",
               "Yuiv/Model/RustSp.lean, i.e. those of the hand model; panics are `Res.panic`.",
               "`Yuiv/Props/C13Gen.lean` proves them equal to the hand-written model `Yuiv/Model/C13.lean`."],
        required=_req("SpMat", ("extract", "permute", "permute_rows", "permute_cols", "submat", "submat_rows",
                                "submat_cols", "from_entries", "combine_blocks", "concat", "stack", "extend_cols",
                                "from_col_vecs", "divide4", "from_row_perm", "from_col_perm"))),
    "trans": dict(
        src="/repo/yui-matrix/src/sparse/trans.rs", out="TransFn.lean", ns="Yuiv.GenTrans", scalar="K13",
        macros=False, fuel_param=True, nat_usize=True, sp13=True, no_derive=True, soft_params=True,
        scalar_sig="{R : Type} [Zero R] [One R] [Add R] [Mul R] [Neg R] [DecidableEq R]", struct_params="(R : Type)",
        forlist_fn="Sp.forList", enumerate_fn="Sp.enumerate",
        imports=["Yuiv.Model.Res", "Yuiv.Model.RustArith", "Yuiv.Model.RustRing", "Yuiv.Model.RustIter",
                 "Yuiv.Model.RustDense", "Yuiv.Model.RustSp"],
        blurb=["The methods of `impl Trans<R>` (yui-matrix/src/sparse/trans.rs): a composable pair of coordinate maps kept as",
               "lists of factors (`forward = f_k ∘ … ∘ f_0`, `backward = b_0 ∘ … ∘ b_k`).",
               "`R` is a type with `[Zero R] [One R] [Add R] [Mul R] [Neg R] [DecidableEq R]`; `struct Trans<R>` is the generated",
               "structure `TransS R`; `SpMat<R>` / `SpVec<R>` / `PermView` are the model's `C13.SpMat R` / `C13.SpVec R` /",
               "`C13.Perm`, `Vec<T>` a list; the functions of other files it calls (`SpMat::{id, from_entries, from_row_perm,",
               "from_col_perm}`, the products `&SpMat * &SpMat`, `&SpMat * SpVec`) are those of the hand model through",
               "Yuiv/Model/RustSp.lean (`from_entries`, `from_row_perm`, `from_col_perm` are tied to sp_mat.rs by fn:spmat);",
               "`&mut self` methods return the new struct; panics are `Res.panic`.",
               "`Yuiv/Props/C13GenT.lean` proves them equal to the hand-written model `C13.Trans.*` (`Yuiv/Model/C13.lean`)."],
        required=_req("Trans", ("id", "zero", "new", "src_dim", "tgt_dim", "is_id", "forward", "backward", "append",
                                "append_perm", "merge", "merged", "forward_mat", "backward_mat", "reduce", "sub"))),
    "spvec": dict(
        src="/repo/yui-matrix/src/sparse/sp_vec.rs", out="SpVecFn.lean", ns="Yuiv.GenSpVec", scalar="K13",
        macros=False, fuel_param=True, nat_usize=True, sp13=True, no_derive=True, soft_params=True,
        scalar_sig="{R : Type} [Zero R] [One R] [Add R] [Mul R] [Neg R] [DecidableEq R]",
        wrapper_structs={"SpVec": ("inner", "PV", "PM", "Sp.vec_inner", "Sp.vec_of_inner")},
        forlist_fn="Sp.forList", enumerate_fn="Sp.enumerate",
        imports=["Yuiv.Model.Res", "Yuiv.Model.RustArith", "Yuiv.Model.RustRing", "Yuiv.Model.RustIter",
                 "Yuiv.Model.RustDense", "Yuiv.Model.RustSp"],
        blurb=["The functions of `impl SpVec<R>` (yui-matrix/src/sparse/sp_vec.rs) and `SpMat::into_spvec`.",
               "`SpVec<R>` is the model's `C13.SpVec R` (dimension + stored entries); the `CscMatrix<R>` it wraps is the",
               "`dim × 1` matrix `Sp.vec_inner v` (`SpVec.toMat`), and the struct literal `SpVec { inner }` is `Sp.vec_of_inner`",
               "(first column of `inner`; `SpVec::new` asserts that there is exactly one).  Everything else as in fn:spmat:",
               "`SpMat<R>` / `CscMatrix<R>` are `C13.SpMat R`, `PermView` is `C13.Perm`, `Range<usize>` a pair, `Vec<T>` a list,",
               "`usize` an unbounded `Nat` with checked subtraction, `F: Fn(..) -> T` a `Res`-valued function; the functions of",
               "other files (`SpMat::from_entries`, `CscMatrix::{zeros, try_from_csc_data, disassemble, triplet_iter}`) are",
               "those of the hand model through Yuiv/Model/RustSp.lean; panics are `Res.panic`.",
               "`Yuiv/Props/C13GenV.lean` proves them equal to the hand-written model `C13.SpVec.*` (`Yuiv/Model/C13.lean`)."],
        required=_req("SpVec", ("new", "zero", "unit", "dim", "iter", "iter_nz", "from_entries", "from_sorted_entries",
                                "from_raw_data", "stack_vecs", "extract", "permute", "subvec", "stack", "split",
                                "to_dense")) + [("SpMat", None, "into_spvec")]),
    "schur": dict(
        src="/repo/yui-matrix/src/sparse/schur.rs", out="SchurFn.lean", ns="Yuiv.GenSchur", scalar="S",
        macros=False, fuel_param=True, nat_usize=True, csc=True, cscx=True, no_derive=True,
        struct_params="(α : Type)", struct_param_name="α",
        imports=["Yuiv.Model.Res", "Yuiv.Model.RustArith", "Yuiv.Model.RustRing", "Yuiv.Model.RustDense",
                 "Yuiv.Model.RustCsc"],
        blurb=["The functions of `impl Schur<R>` (yui-matrix/src/sparse/schur.rs): `from_partial_triangular`, `compute_schur`,",
               "`complement`, `trans_src`, `trans_tgt`, `disassemble`.  Cargo features are OFF (sequential `compute_schur`).",
               "`R` is a type `α` with `[C12.Scal α]`; `SpMat<R>` is the model's CSC content `C12.SpMat α`, `SpVec<R>` is `SVec α`,",
               "`TriangularType` is the Boolean `is_upper`, `Trans<R>` the pair `(forward, backward)` of its two factors",
               "(`Trans::new` keeps its three shape assertions); `struct Schur<R>` is the generated structure `SchurS α`; local",
               "closures are inlined; the functions of other files (`divide4`, `solve_triangular`, `solve_triangular_left`,",
               "`stack`, `extend_cols`, `-m`, `SpMat::id`, `from_entries`, `from_col_vecs`, `col_vec`, `&SpMat * SpVec`,",
               "`SpVec - SpVec`) are those of the hand model `Yuiv/Model/C12.lean` through Yuiv/Model/RustCsc.lean",
               "(`solve_triangular*` are tied to triang.rs by fn:triang); panics are `Res.panic`.",
               "`Yuiv/Props/C08Gen.lean` proves them equal to the hand-written model `C12.schur` / `C12.computeSchur`."],
        required=_req("Schur", ("from_partial_triangular", "compute_schur", "complement", "trans_src", "trans_tgt",
                                "disassemble"))),
    "reducer": dict(
        src="/repo/yui-homology/src/utils/chain_reducer.rs", out="ReducerFn.lean", ns="Yuiv.GenReducer", scalar="AR",
        macros=False, fuel_param=True, nat_usize=True, free_fns=True, no_derive=True,
        struct_params="(I M V T P S : Type)", struct_param_name="I M V T P S",
        abs=dict(
            types=[(r"SpMat<\w+>", "M"), (r"SpVec<\w+>", "V"), (r"Trans<\w+>", "T"), (r"PermOwned|sprs::PermOwned", "P"),
                   (r"Schur<\w+>", "S"), (r"PivotType", "PivotType"), (r"PivotCondition", "PivotCondition"),
                   (r"TriangularType", "TriangularType")],
            lean={"M": "M", "V": "V", "T": "T", "P": "P", "S": "S", "I": "I"},
            degree_params=["I"],
            extern_enums={"PivotType": ["Rows", "Cols"], "PivotCondition": ["One", "AnyUnit"],
                          "TriangularType": ["Upper", "Lower"]},
            sig_struct="{I M V T P S : Type} [DecidableEq I] [Add I] [Sub I] (K : ROps M V T P S)",
            sig_free="{M V T P S : Type} (K : ROps M V T P S)",
            methods={("M", "nrows", 0): ("K.nrows", [], "usize", False), ("M", "ncols", 0): ("K.ncols", [], "usize", False),
                     ("M", "is_zero", 0): ("K.is_zero", [], "bool", False),
                     ("M", "permute", 2): ("K.permute", ["P", "P"], "M", True),
                     ("M", "divide4", 1): ("K.divide4", ["(usize,usize)"], "(M,M,M,M)", True),
                     ("P", "dim", 0): ("K.perm_dim", [], "usize", False), ("P", "at", 1): ("K.perm_at", ["usize"], "usize", True),
                     ("P", "view", 0): (None, [], "P", False), ("P", "clone", 0): (None, [], "P", False),
                     ("V", "dim", 0): ("K.vdim", [], "usize", False), ("V", "permute", 1): ("K.vpermute", ["P"], "V", True),
                     ("V", "split", 1): ("K.vsplit", ["usize"], "(V,V)", True),
                     ("S", "disassemble", 0): ("K.schur_disassemble", [], "(M,Option<T>,Option<T>)", False)},
            closure_methods={("M", "extract"): ("K.extract", "(usize,usize)", ["usize", "usize"], "Option<(usize,usize)>", "M"),
                             ("V", "extract"): ("K.vextract", "usize", ["usize"], "Option<usize>", "V")},
            mut_methods={("T", "append_perm", 1): ("K.trans_append_perm", ["P"]), ("T", "merge", 1): ("K.trans_merge", ["T"])},
            statics={("Schur", "from_partial_triangular"): ("K.schur_new", ["TriangularType", "M", "usize", "bool"], "S", True),
                     ("Trans", "id"): ("K.trans_id", ["usize"], "T", False)},
            free={"find_pivots": ("K.find_pivots", ["M", "PivotType", "PivotCondition"], "List<(usize,usize)>", True),
                  "perms_by_pivots": ("K.perms_by_pivots", ["M", "List<(usize,usize)>"], "(P,P)", True),
                  "solve_triangular_vec": ("K.solve_triangular_vec", ["TriangularType", "M", "V"], "V", True)},
            binops={("-", "V", "V"): ("K.vsub", "V"), ("*", "M", "V"): ("K.mul_vec", "V")},
            pm_one=("K.has_pm_one",)),
        range_contains_fn="Rd.range_contains",
        imports=["Yuiv.Model.Res", "Yuiv.Model.RustArith", "Yuiv.Model.RustRing", "Yuiv.Model.RustDense",
                 "Yuiv.Model.RustReducer"],
        blurb=["The methods of `impl ChainReducer<I, R>` (yui-homology/src/utils/chain_reducer.rs) and the free functions",
               "`pivots`, `reduce_mat_rows`, `reduce_mat_cols`.  The file is pure orchestration: the generated code is generic",
               "over the types `M` (`SpMat<R>`), `V` (`SpVec<R>`), `T` (`Trans<R>`), `P` (`PermOwned`), `S` (`Schur<R>`) and",
               "takes the record `K : ROps M V T P S` (Yuiv/Model/RustReducer.lean) of the operations of other files it calls",
               "(each tied to its own model by fn:spmat / fn:spvec / fn:trans / fn:schur / fn:triang, the pivot finder by C11);",
               "`I` is any type with `+`, `-`, decidable equality; `HashMap<I, X>` is the association list `HMap I X`;",
               "`if let Some(x) = map.get_mut(&k) { … }` reads, updates and re-inserts the value; `for v in vs.iter_mut()` maps",
               "over the list; `loop` takes fuel; panics are `Res.panic`.",
               "`Yuiv/Props/C08GenR.lean` states what one `reduce_at_spec` step does to `mats` / `trans` / `vecs`."],
        required=_req("ChainReducer", ("matrix", "trans", "vecs", "is_set", "is_done", "set_matrix", "deg_trip", "reduce_at_spec",
                                       "update_trans", "update_mats", "update_vecs", "preferred_strategy", "reduce_at",
                                       "reduce_all")) +
                 [("chain_reducer", None, n) for n in ("pivots", "reduce_mat_rows", "reduce_mat_cols")]),
    "poly": dict(
        src=["/repo/yui/src/types/lc/lc.rs", "/repo/yui/src/types/poly/poly.rs", "/repo/yui/src/types/poly/var.rs",
             "/repo/yui/src/types/poly/var2.rs", "/repo/yui/src/types/poly/h_poly.rs", "/repo/yui/src/types/poly/mdeg.rs",
             "/repo/yui/src/types/poly/mvar.rs"],
        out="PolyFn.lean", ns="Yuiv.GenPoly", scalar="P16", macros=True, fuel_param=False, custom="poly",
        structs=["Lc", "PolyBase", "Var", "Var2", "HPoly", "MultiDeg", "MultiVar"],
        imports=["Yuiv.Model.Res", "Yuiv.Model.RustRing", "Yuiv.Model.RustMap"],
        blurb=["The functions of `Lc<X, R>` (yui/src/types/lc/lc.rs), `PolyBase<X, R>` (poly/poly.rs), `Var<X, I>` (poly/var.rs),",
               "`Var2<X, Y, I>` (poly/var2.rs), `HPoly<X, R>` (poly/h_poly.rs), `MultiDeg<I>` (poly/mdeg.rs) and `MultiVar<X, I>`",
               "(poly/mvar.rs), rendered by tools/rs2lean_poly.py.  `BTreeMap<K, V>` is the key-sorted entry list `BMap K V`.",
               "Every type parameter stays one: `R: Ring` is a type with `0 1 + - * neg` and decidable equality (`is_zero` / `is_one`",
               "are `= 0` / `= 1`), `X: Gen` a type with decidable equality, `X: Mono` additionally `*`, `1` and the two orders",
               "`MonoOrd.cmp_lex / cmp_grlex`, the exponent type `I` a type with `+`, `0` and a decidable order (`I::cmp` is",
               "`Poly.cmpI`); `const X: char` parameters are dropped; `usize` is `Nat` (exponent overflow is not modelled).",
               "`AHashMap<K, V>` is the association list `AMap K V` of Yuiv/Model/RustMap.lean: its order stands for the unspecified",
               "iteration order, `insert` of a new key appends, `let v = m.get_mut(k).unwrap()` reads (panic when absent) and writes",
               "every mutation of `v` back, `iter_mut().for_each` maps the values; iterators are lists, `collect()` is the written",
               "`FromIterator` impl; closures and `F: Fn(..)` parameters are total Lean functions; `&mut self` methods return the",
               "new value; `for` loops are folds; `assert!` / `unwrap()` failures are `Res.panic`; operator forms derived by",
               "`#[auto_ops]` are identified with the written impl; `delegate!` is expanded; cargo features are OFF.",
               "`Yuiv/Props/C16Gen.lean` proves them equal to the hand-written model `Yuiv/Model/C16.lean`."],
        required=_req("Lc", ("new", "clean", "nterms", "is_gen", "coeff", "map", "map_coeffs", "map_gens", "filter_gens",
                             "apply", "combine", "add_pair", "add_pair_ref")) + [
            ("Lc", "From_X_R", "from"), ("Lc", "FromIterator_X_R", "from_iter"), ("Lc", "Zero", "zero"),
            ("Lc", "Zero", "is_zero"), ("Lc", "Neg", "neg"), ("Lc", "Neg_ref", "neg"),
            ("Lc", "AddAssign_Lc_X_R", "add_assign"), ("Lc", "SubAssign_Lc_X_R", "sub_assign"),
            ("Lc", "MulAssign_R", "mul_assign"), ("Lc", "Mul_ref", "mul")] +
            _req("PolyBase", ("new", "from_const", "is_const", "const_term", "lead_term")) + [
            ("PolyBase", "From_X_R", "from"), ("PolyBase", "FromIterator_X_R", "from_iter"), ("PolyBase", "From_Lc_X_R", "from"),
            ("PolyBase", "Zero", "zero"), ("PolyBase", "Zero", "is_zero"), ("PolyBase", "One", "one"), ("PolyBase", "One", "is_one"),
            ("PolyBase", "Neg", "neg"), ("PolyBase", "Neg_ref", "neg"),
            ("PolyBase", "AddAssign_PolyBase_X_R", "add_assign"), ("PolyBase", "SubAssign_PolyBase_X_R", "sub_assign"),
            ("PolyBase", "MulAssign_R", "mul_assign"), ("PolyBase", "MulAssign_PolyBase_X_R", "mul_assign"),
            ("PolyBase", "Pow_usize_ref", "pow"),
            ("Var", "MulAssign_Var_X_I", "mul_assign"), ("Var", "One", "one"), ("Var", "MonoOrd", "cmp_lex"),
            ("Var", "MonoOrd", "cmp_grlex"),
            ("Var2", None, "total_deg"), ("Var2", "MulAssign_Var2_X_Y_I", "mul_assign"), ("Var2", "One", "one"),
            ("Var2", "MonoOrd", "cmp_lex"), ("Var2", "MonoOrd", "cmp_grlex"),
            ("HPoly", None, "new"), ("HPoly", "Zero", "zero"), ("HPoly", "Zero", "is_zero"), ("HPoly", "One", "one"),
            ("HPoly", "One", "is_one"), ("HPoly", "PartialEq", "eq"), ("HPoly", "AddAssign_HPoly_X_R", "add_assign"),
            ("HPoly", "SubAssign_HPoly_X_R", "sub_assign"), ("HPoly", "Neg", "neg"), ("HPoly", "Neg_ref", "neg"),
            ("HPoly", "MulAssign_R", "mul_assign"), ("HPoly", "MulAssign_HPoly_X_R", "mul_assign")] +
            _req("MultiDeg", ("new_reduced", "reduce", "empty", "indices", "min_index", "max_index", "total")) + [
            ("MultiDeg", "Index_usize", "index"), ("MultiDeg", "Zero", "zero"), ("MultiDeg", "Zero", "is_zero"),
            ("MultiDeg", "AddAssign_MultiDeg_I", "add_assign"), ("MultiDeg", "MonoOrd", "cmp_lex"),
            ("MultiDeg", "MonoOrd", "cmp_grlex"),
            ("MultiVar", None, "deg_for"), ("MultiVar", None, "total_deg"), ("MultiVar", "From_MultiDeg_I", "from"),
            ("MultiVar", "MulAssign_MultiVar_X_I", "mul_assign"), ("MultiVar", "One", "one"),
            ("MultiVar", "MonoOrd", "cmp_lex"), ("MultiVar", "MonoOrd", "cmp_grlex")]),
    "geninfo": dict(
        src=["/repo/yui-khovanov/src/misc.rs"], out="GenInfoFn.lean", ns="Yuiv.GenGenInfo", scalar="P16", macros=False,
        fuel_param=False, custom="poly", free_fns=True, structs=[],
        ext_types=[(r"Grid1<Summand<(\w+),(\w+)>>", lambda tr, m, f: ("List", ("tuple", "isize", ("SM", tr.ty(m.group(2), f))))),
                   (r"Summand<(\w+),(\w+)>", lambda tr, m, f: ("SM", tr.ty(m.group(2), f))),
                   (r"isize2", lambda tr, m, f: ("tuple", "isize", "isize"))],
        ext_lean={"SM": "GI.Summand", "CH": "GI.Chain"},
        ext_methods={("SM", "rank", 0): ("GI.Summand.rank", [], lambda t: "usize"),
                     ("SM", "tors", 0): ("GI.Summand.tors", [], lambda t: ("List", t[1])),
                     ("SM", "gen", 1): ("GI.Summand.gen", ["usize"], lambda t: "CH"),
                     ("CH", "q_deg", 0): ("GI.Chain.q_deg", [], lambda t: "isize")},
        tuple_ctors={"isize2": (2, ["isize", "isize"])},
        imports=["Yuiv.Model.Res", "Yuiv.Model.RustRing", "Yuiv.Model.RustMap", "Yuiv.Model.RustGenInfo"],
        blurb=["`collect_gen_info` of yui-khovanov/src/misc.rs (the table behind `KhHomology::into_bigraded` / `KhIHomology::into_bigraded`:",
               "every reported generator of the total homology is filed under (homological degree, `q_deg` of its representative)),",
               "rendered by tools/rs2lean_poly.py.  `R` is a type parameter; `HashMap<K, V>` is the association list `AMap K V`",
               "(Yuiv/Model/RustMap.lean: `entry(k).or_insert_with(..)` appends a missing binding, the returned reference is read and",
               "every mutation written back); `Grid1<Summand<X, R>>` is the list of its `(degree, summand)` pairs, `Summand` the",
               "accessors `rank / tors / gen` and a generator the list of the quantum degrees of its terms (Yuiv/Model/RustGenInfo.lean);",
               "`usize` is `Nat` with checked subtraction, `tors()[i]` panics out of range; `for` loops are `Poly.forM` folds.",
               "`Yuiv/Props/C03Gen.lean` proves it equal to the hand-written model `C03.collect` (`Yuiv/Model/C03.lean`)."],
        required=[("misc", None, "collect_gen_info")]),
    "link": dict(
        src=["/repo/yui-link/src/link/crossing.rs", "/repo/yui-link/src/link/path.rs", "/repo/yui-link/src/link/link.rs"],
        out="LinkFn.lean", ns="Yuiv.GenLink", scalar=None, macros=False, fuel_param=True, custom="link",
        structs=["Crossing", "Path", "Link"],
        only={"Path": ["new", "arc", "circ", "is_arc", "is_circle"]},
        exclude=[("Link", "is_empty"), ("Link", "edges"), ("Link", "first_edge"), ("Link", "is_valid_name"), ("Link", "load"),
                 ("Link", "_load"), ("Crossing", "is_adj_to")],
        imports=["Yuiv.Model.Res", "Yuiv.Model.RustLink"],
        blurb=["The inherent functions of `CrossingType`, `Crossing` (yui-link/src/link/crossing.rs), `Link` (link/link.rs) and the",
               "constructors of `Path` (link/path.rs), rendered by tools/rs2lean_link.py in `do` notation over `Res`.",
               "A function is `Res`-valued iff it (or something it calls) can panic or mutates; `debug_assert!` is an `assert!`",
               "(debug build); `usize` / `Edge` is `Nat` with CHECKED subtraction; `[Edge; 4]` is `Lk.Arr4 Nat`, `Vec` / iterators are",
               "lists, `v[i]` panics out of range; `HashSet<Edge>` is the log of the inserted labels (only `contains` is asked);",
               "`&mut self` methods return the new value, `crossing_at_mut` (returns `&mut Crossing`) is a modifier taking the",
               "continuation `k_`; the `FnMut(usize, usize)` parameter of `traverse_edges` is read as the LOG of its calls (the",
               "function returns the list of `(i, j)` it calls `f` with; at the call sites in `components` / `crossing_signs` the",
               "closure body runs as a `for` over that list); the local closures `traverse` are inlined at their calls, `comp` of",
               "`Crossing::arcs` is a local function; `loop` runs on the argument `fuel` (`Res.err` when exhausted); `Bit`, `Sign`,",
               "`State = BitSeq` are the types of Yuiv/Model/RustLink.lean.  Excluded (not attempted): `Path` beyond its",
               "constructors, `Link::{is_empty, edges, first_edge, is_valid_name, load, _load}`, `Crossing::is_adj_to`, trait impls.",
               "`Yuiv/Props/C18Gen.lean` proves them equal to the hand-written model `Yuiv/Model/C18.lean`."],
        required=_req("CrossingType", ("mirror",)) +
                 _req("Crossing", ("new", "from_pd_code", "ctype", "edge", "edges", "is_resolved", "resolve", "resolved", "mirror",
                                   "pass", "arcs", "convert_edges")) +
                 _req("Path", ("new", "arc", "circ")) +
                 _req("Link", ("new", "from_pd_code", "data", "crossing_num", "signed_crossing_nums", "crossing_signs", "writhe",
                               "components", "crossing_index", "crossing_at", "crossing_at_mut", "resolved_at", "resolved_by",
                               "mirror", "pass_edge", "traverse_edges", "ori_pres_state", "seifert_circles", "is_knot"))),
    "braid": dict(
        src=["/repo/yui-link/src/braid.rs"],
        out="BraidFn.lean", ns="Yuiv.GenBraid", scalar=None, macros=False, fuel_param=True, custom="link",
        structs=["Generator", "Braid"],
        exclude=[("Braid", "display"), ("Braid", "load"), ("Braid", "_load"), ("Braid", "reduce")],
        traits=[("Braid", "mul_assign")],
        extern_statics={("Link", "from_pd_code"): ("Yuiv.GenLink.Link.from_pd_code", False), ("Vec", "new"): ("[]", False),
                        ("Iterator", "zip"): ("List.zip", False)},
        extern_types={"Link": "Yuiv.GenLink.Link"},
        imports=["Yuiv.Model.Res", "Yuiv.Model.RustLink", "Yuiv.Model.RustMap", "Yuiv.Model.RustBraid", "Yuiv.Gen.LinkFn"],
        blurb=["The inherent functions of `Generator` and `Braid` (yui-link/src/braid.rs) and `MulAssign<&Braid>::mul_assign`, rendered by",
               "tools/rs2lean_link.py in `do` notation over `Res` (same reading as Gen/LinkFn.lean).  `struct Generator(i32)` is a",
               "structure with the single field `v0_` (`self.0` is its first projection, `Self(e)` its constructor); `i32` is the",
               "unbounded `Int` (`abs` / unary minus never overflow: |generator| < strands), `x.abs() as usize` is `Int.natAbs`,",
               "`GetSign::sign` is `Pos` iff `x > 0`; `is_zero` is `== 0`; `let m: HashMap<_, _> = it.collect()` inserts the pairs in",
               "order, later bindings of a key overwriting earlier ones (Yuiv/Model/RustBraid.lean over the association list of",
               "Yuiv/Model/RustMap.lean), `m.get(&k)` is the lookup; `Link::from_pd_code` is the generated function of Gen/LinkFn.lean.",
               "`delegate!` (`len`, `is_triv`) is not expanded by this renderer.  Excluded (not attempted): `Braid::{display, load,",
               "_load, reduce}` (strings / files / empty body), the `From` / `FromIterator` impls.",
               "`Yuiv/Props/C18GenB.lean` proves them equal to the hand-written model `Yuiv/Model/C18.lean`."],
        required=_req("Generator", ("new", "index", "sign", "inv")) +
                 _req("Braid", ("new", "strands", "elements", "inv", "closure", "mul_assign"))),
    "intext": dict(
        src=["/repo/yui/src/misc/int_ext.rs", "/repo/yui/src/abst/euc_ring.rs"], out="IntExtFn.lean",
        ns="Yuiv.GenIntExt", scalar="Z", macros=True, fuel_param=True,
        scalar_types=["i32", "i64", "i128", "BigInt"],
        imports=["Yuiv.Model.Res", "Yuiv.Model.RustRing"],
        blurb=["One Lean definition per translated Rust function.  `Self` of the trait default methods (`EucRing::{divides, gcd,",
               "gcdx, lcm}`), of the blanket impl `DivRound for T: Integer` and of the `impl_integer!` impls for i32/i64/i128/BigInt is",
               "read as the unbounded integers (`Int`); operators and the remaining trait methods: Yuiv/Model/RustRing.lean;",
               "panics are `Res.panic`, `while` loops take their fuel as an argument (`Res.err` when it runs out).",
               "`Yuiv/Props/C15Gen.lean` proves each of them equal to the hand-written model `Yuiv/Model/C15.lean` at `intOps`."],
        required=[("DivRound", None, "div_round")] + _req("EucRing", ("divides", "gcd", "gcdx", "lcm")) +
                 [(t, "Ring", n) for t in ("i32", "i64", "i128", "BigInt") for n in ("inv", "is_unit", "normalizing_unit")]),
}
# trait bounds under which a type parameter is read as the ring of integers (target option scalar = "Z")
SCALAR_BOUNDS = {"EucRing", "EucRingOps", "Integer", "IntOps", "Ring", "RingOps", "One", "Zero", "Clone", "Default",
                 "Sized", "Copy", "PartialEq", "Eq", "PartialOrd", "Ord", "DivAssign", "RemAssign", "AddAssign",
                 "SubAssign", "MulAssign", "Signed", "FromPrimitive", "ToPrimitive", "AddMon", "AddGrp", "Mon", "Elem",
                 "AddMonOps", "AddGrpOps", "MonOps"}
SCALAR_BOUNDS_FF = {"ToPrimitive"}
SCALAR_BOUNDS_LLL = {"LLLRing", "LLLRingOps", "DivRound"}
SCALAR_BOUNDS_SP = {"Scalar", "ClosedAddAssign", "ClosedSubAssign", "ClosedMulAssign"}


class Unsupported(Exception):
    pass


TYBIND = {}        # element types of `vec![]` locals determined by their first `push` (per function)


def resolve_ty(t):
    """substitute the determined element types `?k`"""
    if "?" not in t: return t
    return re.sub(r"\?\d+", lambda m: resolve_ty(TYBIND[m.group(0)]) if m.group(0) in TYBIND else m.group(0), t)


# ------------------------------------------------------------------------------------------------ tokenizer

PUNCTS = ["<<=", ">>=", "...", "..=", "::", "->", "=>", "==", "!=", "<=", ">=", "&&", "||", "+=", "-=", "*=", "/=",
          "%=", "^=", "&=", "|=", "<<", ">>", ".."] + list("+-*/%^!&|=<>@.,;:#$?~()[]{}")
INT_RE = re.compile(r"(0[xX][0-9a-fA-F_]+|0b[01_]+|0o[0-7_]+|[0-9][0-9_]*)((?:[iu](?:8|16|32|64|128|size))?)")
ID_RE = re.compile(r"[A-Za-z_][A-Za-z0-9_]*")
CHAR_RE = re.compile(r"'(\\.[^']*|[^'\\])'")
LIFE_RE = re.compile(r"'[A-Za-z_][A-Za-z0-9_]*")


class Tok:
    __slots__ = ("kind", "val", "line", "suffix")

    def __init__(self, kind, val, line, suffix=""):
        self.kind, self.val, self.line, self.suffix = kind, val, line, suffix

    def __repr__(self):
        return f"{self.val!r}@{self.line}"


def tokenize(src):
    toks, i, n, line = [], 0, len(src), 1
    while i < n:
        c = src[i]
        if c == "\n":
            line += 1; i += 1; continue
        if c.isspace():
            i += 1; continue
        if src.startswith("//", i):
            j = src.find("\n", i)
            i = n if j < 0 else j
            continue
        if src.startswith("/*", i):
            depth, j = 1, i + 2
            while j < n and depth:
                if src.startswith("/*", j): depth += 1; j += 2
                elif src.startswith("*/", j): depth -= 1; j += 2
                else:
                    if src[j] == "\n": line += 1
                    j += 1
            if depth: raise Unsupported(f"unterminated block comment (line {line})")
            i = j
            continue
        if c == '"' or (c in "br" and re.match(r'(b|r|br)#*"', src[i:i + 6])):
            m = re.match(r'(b|r|br)?(#*)"', src[i:])
            raw = m.group(1) is not None and "r" in m.group(1)
            j = i + m.end()
            if raw:
                end = '"' + m.group(2)
                k = src.find(end, j)
                if k < 0: raise Unsupported(f"unterminated string (line {line})")
                j = k + len(end)
            else:
                while j < n and src[j] != '"':
                    j += 2 if src[j] == "\\" else 1
                if j >= n: raise Unsupported(f"unterminated string (line {line})")
                j += 1
            toks.append(Tok("str", src[i:j], line))
            line += src.count("\n", i, j)
            i = j
            continue
        if c.isalpha() or c == "_":
            m = ID_RE.match(src, i)
            toks.append(Tok("id", m.group(0), line)); i = m.end(); continue
        if c.isdigit():
            m = INT_RE.match(src, i)
            j = m.end()
            if (j < n and src[j] == "." and j + 1 < n and src[j + 1].isdigit()) or \
               (j < n and (src[j].isalpha() or src[j] == "_")):
                m2 = re.compile(r"[0-9A-Za-z_]*(\.[0-9][0-9A-Za-z_]*)?([eE][+-]?[0-9_]+)?[A-Za-z0-9_]*").match(src, j)
                toks.append(Tok("float", src[i:m2.end()], line)); i = m2.end(); continue
            txt = m.group(1).replace("_", "")
            toks.append(Tok("int", int(txt, 0) if not txt.startswith("0o") else int(txt[2:], 8), line, m.group(2)))
            i = j
            continue
        if c == "'":
            m = CHAR_RE.match(src, i)
            if m:
                toks.append(Tok("char", m.group(0), line)); i = m.end(); continue
            m = LIFE_RE.match(src, i)
            if m:
                toks.append(Tok("life", m.group(0), line)); i = m.end(); continue
            raise Unsupported(f"stray quote (line {line})")
        for p in PUNCTS:
            if src.startswith(p, i):
                toks.append(Tok("p", p, line)); i += len(p); break
        else:
            raise Unsupported(f"unexpected character {c!r} (line {line})")
    toks.append(Tok("eof", "<eof>", line))
    return toks


# ------------------------------------------------------------------------------------------------ AST

class N:
    """generic AST node: N('kind', field=..)"""

    def __init__(self, kind, **kw):
        self.kind = kind
        self.__dict__.update(kw)

    def __repr__(self):
        return "N(" + ", ".join(f"{k}={v!r}" for k, v in self.__dict__.items()) + ")"


BINPREC = {"*": 11, "/": 11, "%": 11, "+": 10, "-": 10, "<<": 9, ">>": 9, "&": 8, "^": 7, "|": 6,
           "==": 5, "!=": 5, "<": 5, ">": 5, "<=": 5, ">=": 5, "&&": 4, "||": 3}
CMPOPS = {"==", "!=", "<", ">", "<=", ">="}
ASSIGNOPS = {"=", "+=", "-=", "*=", "/=", "%=", "&=", "|=", "^=", "<<=", ">>="}
BLOCKLIKE = {"if", "while", "for", "loop", "match", "unsafe"}
NOOP_MACROS = {"trace", "debug", "info", "warn", "log::trace", "log::debug", "log::info"}


class Parser:
    turbofish = False     # accept (and ignore) `.method::<T>(..)`
    strfmt = False        # target option `strfmt`: string / char literals, char patterns, `?`, `#[display("..")]`
    last_display = None
    mut_types = False     # accept `&mut T` inside types (erased; a function returning one is only usable as a place)
    features = set()      # enabled cargo features (none: every `cfg(feature = "..")` item / branch is dropped)
    const_generics = False      # target option: `const D: i32` parameters are value parameters
    incl_ranges = False         # accept `a..=b` (node `range` with `incl`); only the fn:poly renderer sets it
    body_use_braces = False     # accept (and ignore) `use a::{B, C};` inside a body; only the fn:link renderer sets it

    def __init__(self, toks, pos=0, end=None):
        self.cparams_seen = []
        self.t, self.i = toks, pos
        self.end = len(toks) if end is None else end

    # -- helpers
    def peek(self, k=0):
        j = self.i + k
        return self.t[j] if j < self.end else Tok("eof", "<eof>", self.t[self.end - 1].line if self.end else 0)

    def at(self, v, k=0):
        t = self.peek(k)
        return t.kind in ("p", "id") and t.val == v

    def next(self):
        t = self.peek(); self.i += 1; return t

    def eat(self, v):
        if self.at(v):
            self.i += 1; return True
        return False

    def expect(self, v):
        if not self.at(v):
            t = self.peek()
            raise Unsupported(f"expected `{v}` but found `{t.val}` (line {t.line})")
        return self.next()

    def ident(self):
        t = self.peek()
        if t.kind != "id":
            raise Unsupported(f"expected identifier but found `{t.val}` (line {t.line})")
        self.i += 1
        return t.val

    def skip_balanced(self):
        """skip one delimited group starting at ( [ or {; returns (start, end) token indices of the inside"""
        op = self.next()
        close = {"(": ")", "[": "]", "{": "}"}.get(op.val)
        if op.kind != "p" or close is None:
            raise Unsupported(f"expected a delimiter but found `{op.val}` (line {op.line})")
        start, depth = self.i, 1
        while depth:
            t = self.next()
            if t.kind == "eof": raise Unsupported(f"unbalanced `{op.val}` (line {op.line})")
            if t.kind == "p" and t.val in "([{": depth += 1
            elif t.kind == "p" and t.val in ")]}": depth -= 1
        return start, self.i - 1

    def skip_attrs(self):
        """skips attributes; returns the names listed in plain `#[derive(..)]` attributes"""
        derives = []
        while self.at("#"):
            self.next()
            self.eat("!")
            if not self.at("["): raise Unsupported(f"malformed attribute (line {self.peek().line})")
            s, e = self.skip_balanced()
            if e > s and self.t[s].val == "derive":
                derives += [t.val for t in self.t[s + 1:e] if t.kind == "id"]
            if Parser.strfmt and e > s and self.t[s].val == "display":
                ds = [t.val for t in self.t[s + 1:e]]
                if not (len(ds) == 3 and ds[0] == "(" and ds[2] == ")" and self.t[s + 2].kind == "str"):
                    raise Unsupported(f"`#[display(..)]` attribute that is not one string literal (line {self.t[s].line})")
                self.last_display = ds[1]
            vals = [t.val for t in self.t[s:e]]
            if len(vals) == 6 and vals[:4] == ["cfg", "(", "feature", "="] and vals[5] == ")" and \
                    self.t[s + 4].kind == "str" and self.t[s + 4].val.strip('"') not in Parser.features:
                self.cfg_off = self.t[s + 4].val.strip('"')        # `#[cfg(feature = "X")]` with the feature X off
        return derives

    # -- types: returns a normalised string, references / lifetimes / `mut` erased
    def split_shr(self):
        """inside generics a `>>` token is two `>`"""
        t = self.peek()
        if t.kind == "p" and t.val in (">>", ">=", ">>="):
            rest = t.val[1:]
            self.t[self.i] = Tok("p", ">", t.line)
            self.t.insert(self.i + 1, Tok("p", rest, t.line))
            self.end += 1

    def ty(self):
        while self.at("&") or self.at("&&"):
            self.next()
            if self.peek().kind == "life": self.next()
            if self.eat("mut"):
                if not Parser.mut_types: raise Unsupported(f"`&mut` type (line {self.peek().line})")
                self.saw_mut_ty = True
        if self.at("("):
            self.next()
            if self.eat(")"): return "()"
            parts = [self.ty()]
            while self.eat(","):
                if self.at(")"): break
                parts.append(self.ty())
            self.expect(")")
            return "(" + ",".join(parts) + ")"
        if self.at("["):
            self.next(); e = self.ty()
            if self.eat(";"):
                n = self.next().val
                self.expect("]"); return f"[{e};{n}]"
            self.expect("]"); return f"[{e}]"
        if self.at("impl") or self.at("dyn"):
            k = self.next().val
            return k + " " + self.ty_bounds()
        if self.at("<"):                         # qualified path `<T as Trait>::Name` (not in the subset, kept as text)
            self.next(); inner = self.ty()
            if self.eat("as"): inner += " as " + self.ty()
            self.split_shr(); self.expect(">")
            out = "<" + inner + ">"
            while self.at("::") and self.peek(1).kind == "id":
                self.next(); out += "::" + self.ident()
            return out
        segs = [self.ident()]
        gen = ""
        while True:
            if self.at("<"):
                gen = self.generic_args()
            if self.at("::") and self.peek(1).kind == "id":
                self.next(); segs.append(self.ident()); continue
            break
        return "::".join(segs) + gen

    def ty_bounds(self):
        parts = [self.ty()]
        while self.eat("+"):
            parts.append(self.peek().val if self.peek().kind == "life" and self.next() else self.ty())
        return "+".join(parts)

    def generic_args(self):
        self.expect("<")
        parts = []
        while True:
            self.split_shr()
            if self.eat(">"): break
            if self.peek().kind == "life":
                parts.append(self.next().val)
            elif self.peek().kind == "id" and self.at("=", 1):
                nm = self.ident(); self.next(); parts.append(nm + "=" + self.ty())
            elif self.peek().kind in ("int", "char", "str"):
                parts.append(str(self.next().val))
            elif self.at("-") and self.peek(1).kind == "int":
                self.next(); parts.append("-" + str(self.next().val))
            else:
                parts.append(self.ty())
            self.split_shr()
            if not self.eat(","):
                self.split_shr(); self.expect(">"); break
        return "<" + ",".join(parts) + ">"

    def generic_params(self):
        """the `<…>` parameter list of an impl / fn: returns (type params, [(type, bound)], reason-or-None);
        `reason` is set when the list contains something outside the subset (const / lifetime parameters, defaults)"""
        self.expect("<")
        tps, bounds, reason = [], [], None
        while True:
            self.split_shr()
            if self.eat(">"): break
            if self.peek().kind == "life":
                self.next()                                  # lifetime parameters are erased
                if self.eat(":"):
                    while self.peek().kind == "life" or self.at("+"): self.next()
            elif self.at("const"):
                self.next(); nm = self.ident(); self.expect(":"); t = self.ty()
                if Parser.const_generics:
                    self.cparams_seen.append(nm)
                    self.cparam_types = getattr(self, "cparam_types", {}); self.cparam_types[nm] = t
                else:
                    reason = reason or f"const generic parameter {nm}: {t}"
            else:
                nm = self.ident()
                tps.append(nm)
                if self.eat(":"):
                    for b in self.bound_list(): bounds.append((nm, b))
                if self.eat("="):
                    self.ty(); reason = reason or f"defaulted type parameter {nm}"
            self.split_shr()
            if not self.eat(","):
                self.split_shr(); self.expect(">"); break
        return tps, bounds, reason

    def bound_list(self):
        """`A + B<..> + 'a` → list of bound strings; `Fn(..) -> T` style bounds are returned as text"""
        out = []
        while True:
            if self.peek().kind == "life":
                out.append(self.next().val)
            elif self.at("?"):
                self.next(); out.append("?" + self.ty())
            else:
                if self.at("for") and self.at("<", 1):
                    self.next(); self.generic_params()
                b = self.ty()
                if self.at("("):
                    s_, e_ = self.skip_balanced()
                    b += "(" + " ".join(str(t.val) for t in self.t[s_:e_]) + ")"
                    if self.eat("->"): b += "->" + self.ty()
                out.append(b)
            if not self.eat("+"): break
            if self.at("{") or self.at("where") or self.at(",") or self.at(">"): break      # trailing `+`
        return out

    def where_clause(self):
        """after `where`: [(type, bound)] up to the opening brace"""
        out = []
        while not self.at("{") and not self.at(";"):
            if self.at("for") and self.at("<", 1):          # higher-ranked bound `for<'x> &'x T: …` (lifetimes are erased)
                self.next(); self.generic_params()
            if self.peek().kind == "life":
                self.next(); self.expect(":")
                while self.peek().kind == "life" or self.at("+"): self.next()
            else:
                t = self.ty(); self.expect(":")
                for b in self.bound_list(): out.append((t, b))
            if not self.eat(","): break
        return out

    # -- blocks / statements
    def block(self):
        self.expect("{")
        stmts, tail, uses, fns = [], None, [], []
        while not self.at("}"):
            if self.peek().kind == "eof": raise Unsupported("unterminated block")
            if self.eat(";"): continue
            if self.at("#"):
                raise Unsupported(f"attribute inside a function body (line {self.peek().line})")
            if self.at("let"):
                line = self.next().line
                pat = None
                some_pat = None
                if self.at("Some") and self.at("(", 1):       # `let Some(x) = e else { … }`
                    self.next(); self.next()
                    some_pat = "_" if self.eat("_") else self.ident()
                    self.expect(")")
                    name, mut = some_pat, False
                elif self.at("(") or self.at("["):            # flat tuple / array pattern `(a, mut b, _)`, `[a, b]`
                    close = ")" if self.at("(") else "]"
                    self.next(); pat = []
                    while not self.at(close):
                        m_ = self.eat("mut")
                        if self.at("_"):
                            self.next(); pat.append(("_", False))
                        else:
                            pat.append((self.ident(), m_))
                        if self.at("(") or self.at("{") or self.at("::") or self.at("@"):
                            raise Unsupported(f"`let` with a nested pattern (line {line})")
                        if not self.eat(","): break
                    self.expect(close)
                    name, mut = None, False
                else:
                    mut = self.eat("mut")
                    if self.at("_"):
                        self.next(); name = "_"
                    else:
                        name = self.ident()
                    if self.at("(") or self.at("{") or self.at("::") or self.at("@") or self.at("|"):
                        raise Unsupported(f"`let` with a non-identifier pattern (line {line})")
                ty = self.ty() if self.eat(":") else None
                if not self.eat("="):
                    raise Unsupported(f"`let` without initialiser (line {line})")
                init = self.expr()
                els = None
                if self.at("else"):
                    if some_pat is None: raise Unsupported(f"`let … else` with this pattern (line {line})")
                    self.next(); els = self.block()
                elif some_pat is not None:
                    raise Unsupported(f"refutable `let Some(..)` without `else` (line {line})")
                self.expect(";")
                stmts.append(N("let", name=name, mut=mut, ty=ty, init=init, line=line, pat=pat, els=els))
                continue
            t = self.peek()
            if t.kind == "id" and t.val == "use":            # `use a::b::*;` / `use a::b::C;` inside a body
                self.next(); segs = []
                while not self.at(";"):
                    x = self.next()
                    if Parser.body_use_braces and x.kind == "p" and x.val in ("{", "}", ","): continue
                    if x.kind == "eof" or (x.kind == "p" and x.val in "{}"):
                        raise Unsupported(f"`use` with a brace list inside a function body (line {t.line})")
                    if x.val != "::": segs.append(str(x.val))
                self.expect(";")
                uses.append(segs)
                continue
            if t.kind == "id" and t.val == "fn":             # nested fn item
                self.next()
                fns.append(parse_fn(self, None, None, {}, [], [], None))
                continue
            if t.kind == "id" and t.val in ("struct", "enum", "impl", "const", "static", "type", "mod",
                                            "trait", "macro_rules"):
                raise Unsupported(f"item `{t.val}` inside a function body (line {t.line})")
            if t.kind == "id" and t.val == "cfg_if" and self.at("::", 1) and self.at("cfg_if", 2) and self.at("!", 3) \
                    and self.at("{", 4):
                self.next(); self.next(); self.next(); self.next()
                s_, e_ = self.skip_balanced()
                blk = self.cfg_if(s_, e_, t.line)
                if self.eat(";") or not self.at("}"):
                    stmts += list(blk.stmts)                 # the `let`s of the selected branch stay in scope
                    if blk.tail is not None: stmts.append(N("expr", e=blk.tail, line=t.line))
                    uses += list(getattr(blk, "uses", [])); fns += list(getattr(blk, "fns", []))
                else:
                    tail = blk
                continue
            blocklike = (t.kind == "id" and t.val in BLOCKLIKE) or self.at("{") or t.kind == "life"
            e = self.expr(stmt=True)
            if self.eat(";"):
                stmts.append(N("expr", e=e, line=t.line))
            elif self.at("}"):
                tail = e
            elif blocklike:
                stmts.append(N("expr", e=e, line=t.line))
            else:
                raise Unsupported(f"expected `;` or `}}` but found `{self.peek().val}` (line {self.peek().line})")
        self.expect("}")
        return N("block", stmts=stmts, tail=tail, uses=uses, fns=fns)

    # -- expressions
    def expr(self, minp=0, nostruct=False, stmt=False):
        line = self.peek().line
        if stmt and ((self.peek().kind == "id" and self.peek().val in BLOCKLIKE) or self.at("{") or self.peek().kind == "life"):
            # a block-like expression in statement position ends the statement
            e = self.primary(nostruct)
            if self.at(".") or self.at("?"):
                e = self.postfix(e, nostruct)
            else:
                return e
            lhs = e
        else:
            lhs = self.unary(nostruct)
        while True:
            t = self.peek()
            if t.kind == "id" and t.val == "as":
                if 12 < minp: break
                self.next()
                lhs = N("cast", e=lhs, ty=self.ty(), line=t.line)
                continue
            if t.kind != "p": break
            op = t.val
            if op in BINPREC:
                p = BINPREC[op]
                if p < minp: break
                self.next()
                rhs = self.expr(p + 1, nostruct)
                if op in CMPOPS and self.peek().kind == "p" and self.peek().val in CMPOPS:
                    raise Unsupported(f"chained comparison (line {t.line})")
                lhs = N("bin", op=op, l=lhs, r=rhs, line=t.line)
                continue
            if op in ASSIGNOPS:
                if 1 < minp: break
                self.next()
                rhs = self.expr(1, nostruct)
                lhs = N("assign", op=op, l=lhs, r=rhs, line=t.line)
                continue
            if op in ("..", "..=", "..."):
                if op != ".." and not (op == "..=" and Parser.incl_ranges): raise Unsupported(f"range expression `{op}` (line {t.line})")
                if 2 < minp: break
                self.next()
                hi = self.expr(3, nostruct)
                lhs = N("range", lo=lhs, hi=hi, line=t.line)
                if op == "..=": lhs.incl = True
                continue
            break
        return lhs

    def unary(self, nostruct):
        t = self.peek()
        if t.kind == "p" and t.val in ("!", "-", "*"):
            self.next()
            return N("un", op=t.val, e=self.unary(nostruct), line=t.line)
        if t.kind == "p" and t.val in ("&", "&&"):
            self.next()
            if self.eat("mut"): return N("un", op="&mut", e=self.unary(nostruct), line=t.line)
            return N("un", op="&", e=self.unary(nostruct), line=t.line)
        return self.postfix(self.primary(nostruct), nostruct)

    def args(self):
        self.expect("(")
        out = []
        while not self.at(")"):
            out.append(self.expr())
            if not self.eat(","): break
        self.expect(")")
        return out

    def postfix(self, e, nostruct):
        while True:
            t = self.peek()
            if self.at("."):
                nt = self.peek(1)
                if nt.kind == "int":
                    self.next(); self.next()
                    e = N("field", e=e, name=str(nt.val), line=t.line)
                    continue
                if nt.kind == "id" and nt.val == "await": raise Unsupported("await")
                self.next()
                name = self.ident()
                if self.at("::"):
                    if not (Parser.turbofish and self.at("<", 1)): raise Unsupported(f"turbofish on method `{name}` (line {t.line})")
                    self.next(); self.generic_args()          # the explicit type arguments are not needed: types are inferred
                if self.at("("):
                    e = N("mcall", recv=e, name=name, args=self.args(), line=t.line)
                else:
                    e = N("field", e=e, name=name, line=t.line)
                continue
            if self.at("("):
                if e.kind != "path": raise Unsupported(f"call of a non-path expression (line {t.line})")
                e = N("call", path=e.segs, args=self.args(), line=t.line)
                continue
            if self.at("["):
                self.next(); ix = self.expr(); self.expect("]")
                e = N("index", e=e, ix=ix, line=t.line)
                continue
            if self.at("?"):
                if Parser.strfmt:
                    self.next()
                    e = N("try", e=e, line=t.line)
                    continue
                raise Unsupported(f"`?` operator (line {t.line})")
            return e

    def path(self):
        segs = [self.ident()]
        while self.at("::"):
            if Parser.turbofish and self.at("<", 1):
                self.next(); self.generic_args()
                continue
            if self.at("<", 1): raise Unsupported(f"generic arguments in an expression path (line {self.peek().line})")
            self.next()
            segs.append(self.ident())
        return segs

    def primary(self, nostruct):
        t = self.peek()
        if t.kind == "int":
            self.next()
            if t.suffix and t.suffix not in ("u64", "usize"):
                raise Unsupported(f"integer literal of type {t.suffix} (line {t.line})")
            return N("int", v=t.val, suffix=t.suffix, line=t.line)
        if Parser.strfmt and t.kind in ("str", "char"):
            self.next()
            return N(t.kind, v=t.val, line=t.line)
        if t.kind in ("str", "char", "float"):
            raise Unsupported(f"string/char/float literal (line {t.line})")
        if t.kind == "life" and self.at(":", 1) and self.at("loop", 2):
            self.next(); self.next(); self.next()
            return N("loop", body=self.block(), label=t.val, line=t.line)
        if t.kind == "life":
            raise Unsupported(f"loop label (line {t.line})")
        if t.kind == "p":
            if t.val == "<":                      # `<&'a I>::method`
                self.next(); q = self.ty(); self.split_shr(); self.expect(">"); self.expect("::")
                return N("path", segs=[q, self.ident()], line=t.line)
            if t.val == "(":
                self.next()
                if self.eat(")"): return N("unit", line=t.line)
                e = self.expr()
                if self.at(","):
                    es = [e]
                    while self.eat(","):
                        if self.at(")"): break
                        es.append(self.expr())
                    self.expect(")")
                    return N("tuple", es=es, line=t.line)
                self.expect(")")
                return N("paren", e=e, line=t.line)
            if t.val == "{":
                return self.block()
            if t.val in ("|", "||"):
                return self.closure()
            if t.val == "[":
                self.next(); es = []
                while not self.at("]"):
                    es.append(self.expr())
                    if self.at(";"): raise Unsupported(f"array repeat expression (line {t.line})")
                    if not self.eat(","): break
                self.expect("]")
                return N("tuple", es=es, array=True, line=t.line)
            raise Unsupported(f"unexpected `{t.val}` (line {t.line})")
        if t.kind != "id":
            raise Unsupported(f"unexpected `{t.val}` (line {t.line})")
        kw = t.val
        if kw in ("true", "false"):
            self.next(); return N("bool", v=(kw == "true"), line=t.line)
        if kw == "if":
            self.next()
            if self.at("let"):
                self.next()
                if not (self.at("Some") and self.at("(", 1) and self.peek(2).kind == "id" and self.at(")", 3) and self.at("=", 4)):
                    raise Unsupported(f"`if let` other than `if let Some(x) = e` (line {t.line})")
                self.next(); self.next(); var = self.ident(); self.next(); self.next()
                sc = self.expr(nostruct=True)
                th = self.block()
                if not self.eat("else"):
                    return N("iflet", var=var, s=sc, th=th, el=None, line=t.line)
                if self.at("if"): raise Unsupported(f"`if let … else if` (line {t.line})")
                return N("iflet", var=var, s=sc, th=th, el=self.block(), line=t.line)
            c = self.expr(nostruct=True)
            th = self.block()
            el = None
            if self.eat("else"):
                if self.at("if"):
                    el = N("block", stmts=[], tail=self.primary(nostruct), uses=[], fns=[])
                else:
                    el = self.block()
            return N("if", c=c, th=th, el=el, line=t.line)
        if kw == "while":
            self.next()
            if self.at("let"): raise Unsupported(f"`while let` (line {t.line})")
            c = self.expr(nostruct=True)
            return N("while", c=c, body=self.block(), line=t.line)
        if kw == "match":
            self.next()
            s = self.expr(nostruct=True)
            self.expect("{")
            arms = []
            while not self.at("}"):
                pats = [self.pattern()]
                while self.eat("|"): pats.append(self.pattern())
                if self.at("if"): raise Unsupported(f"match guard (line {self.peek().line})")
                self.expect("=>")
                blocklike = self.at("{")
                body = self.expr()
                arms.append((pats, body))
                if not self.eat(",") and not blocklike and not self.at("}"):
                    raise Unsupported(f"expected `,` after match arm (line {self.peek().line})")
            self.expect("}")
            return N("match", s=s, arms=arms, line=t.line)
        if kw == "for":
            self.next()
            if self.at("mut"): raise Unsupported(f"`for mut` pattern (line {t.line})")
            tpat = None
            self.eat("&")
            if self.at("("):                  # flat tuple pattern `for (i, a) in …`: `for it_ in … { let (i, a) = it_; … }`
                self.next(); tpat = []
                while not self.at(")"):
                    self.eat("&")
                    tpat.append(("_" if self.eat("_") else self.ident(), False))
                    if not self.eat(","): break
                self.expect(")")
                var = f"it_{t.line}"
            else:
                var = "_" if self.eat("_") else self.ident()
            if not self.at("in"): raise Unsupported(f"`for` with a non-identifier pattern (line {t.line})")
            self.next()
            it = self.expr(nostruct=True)
            body = self.block()
            if tpat is not None:
                body.stmts.insert(0, N("let", name=None, mut=False, ty=None, init=N("path", segs=[var], line=t.line),
                                       line=t.line, pat=tpat, els=None))
            return N("for", var=var, it=it, body=body, line=t.line)
        if kw == "loop":
            self.next()
            return N("loop", body=self.block(), line=t.line)
        if kw == "return":
            self.next()
            e = None
            if not (self.at(";") or self.at("}") or self.at(",") or self.at(")")):
                e = self.expr(nostruct=nostruct)
            return N("return", e=e, line=t.line)
        if kw in ("continue", "break"):
            self.next()
            label = None
            if self.peek().kind == "life": label = self.next().val
            if kw == "break" and not (self.at(";") or self.at("}") or self.at(",")):
                raise Unsupported(f"`break` with a value (line {t.line})")
            return N(kw, label=label, line=t.line)
        if kw in ("unsafe", "async", "const", "let", "yield"):
            raise Unsupported(f"`{kw}` expression (line {t.line})")
        if kw == "move":
            self.next(); return self.closure()
        segs = self.path()
        if self.at("!"):
            self.next()
            s, e = self.skip_balanced()
            if segs == ["cfg_if", "cfg_if"]:
                return self.cfg_if(s, e, t.line)
            if segs == ["vec"] and any(x.kind == "p" and x.val == ";" for x in self.t[s:e]):
                q = Parser(self.t, s, e)
                x_ = q.expr(); q.expect(";"); n_ = q.expr()
                if q.i < q.end: raise Unsupported(f"`vec![x; n]` (line {t.line})")
                return N("macro", name="vec", args=[x_, n_], repeat=True, line=t.line)
            return N("macro", name="::".join(segs), args=self.macro_args(s, e), line=t.line)
        if self.at("{") and not nostruct and (segs[-1][0].isupper()):
            self.next()
            fields = []
            while not self.at("}"):
                if self.at(".."): raise Unsupported(f"struct update syntax `..` (line {self.peek().line})")
                fn = self.ident()
                fe = self.expr() if self.eat(":") else N("path", segs=[fn], line=t.line)
                fields.append((fn, fe))
                if not self.eat(","): break
            self.expect("}")
            return N("struct", path=segs, fields=fields, line=t.line)
        return N("path", segs=segs, line=t.line)

    def cfg_if(self, s, e, line):
        """`cfg_if! { if #[cfg(feature = "X")] { A } else { B } }` in expression position: the branch selected by the
        enabled features (Parser.features), as a block expression"""
        q = Parser(self.t, s, e)
        q.expect("if")
        q.cfg_off = None
        q.skip_attrs()
        if q.cfg_off is None and not (q.i > s + 1):
            raise Unsupported(f"`cfg_if!` of this form (line {line})")
        off = q.cfg_off is not None
        # the attribute must be a plain `cfg(feature = "..")`
        vals = [x.val for x in self.t[s + 1:q.i]]
        if len(vals) < 4 or vals[:2] != ["#", "["] or vals[2:6] != ["cfg", "(", "feature", "="]:
            raise Unsupported(f"`cfg_if!` with a condition other than `feature = \"..\"` (line {line})")
        a = q.block()
        if not q.eat("else") or q.at("if"): raise Unsupported(f"`cfg_if!` without a plain `else` branch (line {line})")
        b = q.block()
        if q.i < q.end: raise Unsupported(f"`cfg_if!` of this form (line {line})")
        return b if off else a

    def macro_args(self, s, e):
        """comma-separated expressions of a macro invocation; a leading string literal argument ends the list
        (format message)"""
        p = Parser(self.t, s, e)
        out = []
        while p.i < p.end:
            if p.peek().kind == "str": break
            out.append(p.expr())
            if not p.eat(","):
                if p.i < p.end: raise Unsupported(f"macro arguments (line {p.peek().line})")
                break
        return out

    def closure(self):
        t = self.next()
        params = []
        mutps = set()
        if t.val == "|":
            def tpat():
                self.expect("("); comps = []
                while not self.at(")"):
                    self.eat("&")
                    if self.at("("): comps.append(tpat())
                    else: comps.append("_" if self.eat("_") else self.ident())
                    if not self.eat(","): break
                self.expect(")")
                return tuple(comps)
            while not self.at("|"):
                if self.at("("):                      # tuple pattern `(_, a)` / `(&i, d)` / `(x, (di, dj))`
                    params.append(tpat())
                else:
                    self.eat("&")
                    if self.eat("mut"): mutps.add(self.peek().val)
                    params.append("_" if self.eat("_") else self.ident())
                if self.eat(":"): self.ty()
                if not self.eat(","): break
            self.expect("|")
        if self.at("->"): raise Unsupported(f"closure with return type (line {t.line})")
        return N("closure", params=params, body=self.expr(), line=t.line, mutps=mutps)

    def pattern(self):
        t = self.peek()
        if t.kind == "int":
            self.next(); return N("pint", v=t.val)
        if self.at("-") and self.peek(1).kind == "int":
            self.next(); return N("pint", v=-self.next().val)
        if t.kind == "id" and t.val in ("true", "false"):
            self.next(); return N("pbool", v=(t.val == "true"))
        if self.at("_"):
            self.next(); return N("pwild")
        if Parser.strfmt and t.kind == "char":
            self.next(); return N("pchar", v=t.val)
        if self.at("&"):
            self.next(); return self.pattern()
        if self.at("("):
            self.next(); ps = []
            while not self.at(")"):
                ps.append(self.pattern())
                if not self.eat(","): break
            self.expect(")")
            return N("ptuple", ps=ps)
        if t.kind == "id" and t.val == "Some" and self.at("(", 1):
            self.next(); self.next()
            inner = self.pattern()
            self.expect(")")
            return N("psome", p=inner)
        if t.kind == "id":
            if t.val in ("mut", "ref"): raise Unsupported(f"`{t.val}` binding pattern (line {t.line})")
            segs = self.path()
            if self.at("(") or self.at("{") or self.at("@"):
                raise Unsupported(f"structured pattern (line {t.line})")
            return N("ppath", segs=segs)
        raise Unsupported(f"pattern `{t.val}` (line {t.line})")


# ------------------------------------------------------------------------------------------------ items

class Fn:
    def __init__(self):
        self.ty = self.trait = self.tag = self.name = None
        self.generic = None          # reason string when the signature is outside the subset
        self.tparams = []            # type parameters (impl + fn)
        self.bounds = []             # [(type, bound)] from parameter lists and where clauses
        self.selfk = None            # None | 'ref' | 'mut' | 'val'
        self.params = []             # [(name, type string)]
        self.ret = "()"
        self.body = None             # (start, end) token indices of `{ … }` in self.toks
        self.toks = None             # private copy of the body tokens
        self.outer = None            # enclosing Fn of a nested fn item
        self.cparams = []            # const generic parameters (value parameters of type Int)
        self.impl_full = None        # full text of the impl's self type (`QuadInt<I,-1>`, `GaussInt<I>` …)
        self.assoc = {}              # associated types of the impl
        self.order = 0
        self.mutparams = []          # names of the `&mut` parameters
        self.mutbinds = []           # names of the by-value parameters bound with `mut`
        self.generic_is_mut = False  # the only reason in self.generic is a `&mut` parameter

    @property
    def key(self):
        return (self.ty, self.tag, self.name)

    @property
    def rust_name(self):
        if getattr(self, "is_free", False): return f"{self.ty}::{self.name}"
        amp = "&" if "_ref" in (self.tag or "") else ""
        return f"<{amp}{self.ty} as {self.trait}>::{self.name}" if self.trait else f"{self.ty}::{self.name}"


class Module:
    def __init__(self):
        self.enums = {}      # name -> [(variant, discr or None)]
        self.structs = {}    # name -> [(field, type)]
        self.consts = {}     # (Type, NAME) -> (type, expr AST)
        self.fns = []        # [Fn]
        self.notes = []      # skipped items
        self.derives = {}    # type name -> names in #[derive(..)]
        self.stparams = {}   # struct name -> type parameters
        self.aliases = {}    # type alias name -> (type parameters, aliased type text)
        self.stcparams = {}  # struct name -> const generic parameters
        self.tuple_structs = set()
        self.traits = []     # traits defined in the file (their default methods are in fns, ty = trait name)
        self.macros = {}     # macro_rules name -> (param names, body tokens) for the single-arm `$x:frag, …` form


def trait_tag(trait):
    return re.sub(r"_+", "_", re.sub(r"[^A-Za-z0-9]+", "_", trait)).strip("_")


def expand_macro(mod, name, args_toks, line):
    params, body = mod.macros[name]
    args, cur, depth = [], [], 0
    for t in args_toks:
        if t.kind == "p" and t.val in "([{": depth += 1
        if t.kind == "p" and t.val in ")]}": depth -= 1
        if t.kind == "p" and t.val == "," and depth == 0:
            args.append(cur); cur = []
        else:
            cur.append(t)
    if cur: args.append(cur)
    if len(args) != len(params):
        raise Unsupported(f"{name}! invoked with {len(args)} arguments, {len(params)} expected (line {line})")
    sub = dict(zip(params, args))
    out, i = [], 0
    while i < len(body):
        t = body[i]
        if t.kind == "p" and t.val == "$" and i + 1 < len(body) and body[i + 1].kind == "id":
            nm = body[i + 1].val
            if nm not in sub: raise Unsupported(f"macro {name}: unknown metavariable ${nm}")
            out += [Tok(x.kind, x.val, x.line, x.suffix) for x in sub[nm]]
            i += 2
            continue
        if t.kind == "p" and t.val == "$": raise Unsupported(f"macro {name}: repetition / `$` syntax in the body")
        out.append(Tok(t.kind, t.val, t.line, t.suffix)); i += 1
    out.append(Tok("eof", "<eof>", line))
    return out


def register_macro(mod, toks, name, s_, e_):
    """single arm `( $a:frag, $b:frag ) => { body }`"""
    q = Parser(toks, s_, e_)
    ms, me = q.skip_balanced()
    q.expect("=>")
    bs, be = q.skip_balanced()
    q.eat(";")
    if q.i < q.end: raise Unsupported("more than one arm")
    params, k = [], ms
    while k < me:
        if not (toks[k].val == "$" and toks[k + 1].kind == "id" and toks[k + 2].val == ":" and toks[k + 3].kind == "id"):
            raise Unsupported("matcher is not of the form `$a:frag, $b:frag`")
        params.append(toks[k + 1].val); k += 4
        if k < me:
            if toks[k].val != ",": raise Unsupported("matcher is not of the form `$a:frag, $b:frag`")
            k += 1
    mod.macros[name] = (params, list(toks[bs:be]))


def parse_items(toks, mod=None, macros=False, depth=0, modname=None):
    p = Parser(toks)
    mod = mod or Module()
    if depth > 8: raise Unsupported("macro expansion too deep")
    if macros and depth == 0:                     # macros may be invoked before their definition: collect them first
        k = 0
        while k + 3 < len(toks):
            if toks[k].kind == "id" and toks[k].val == "macro_rules" and toks[k + 1].val == "!" and toks[k + 2].kind == "id":
                q = Parser(toks, k + 3)
                try:
                    s_, e_ = q.skip_balanced()
                    register_macro(mod, toks, toks[k + 2].val, s_, e_)
                except Unsupported:
                    pass
                k = q.i
            else:
                k += 1
    while p.peek().kind != "eof":
        p.cfg_off = None
        derives = p.skip_attrs()
        if p.eat(";"): continue
        if p.eat("pub"):
            if p.at("("): p.skip_balanced()
        t = p.peek()
        if t.kind != "id":
            raise Unsupported(f"unexpected `{t.val}` at item level (line {t.line})")
        kw = t.val
        if p.cfg_off is not None and kw == "impl":
            while not p.at("{"):
                if p.peek().kind == "eof": raise Unsupported(f"unterminated impl (line {t.line})")
                p.next()
            p.skip_balanced()
            mod.notes.append(f"impl at line {t.line}: dropped (feature \"{p.cfg_off}\" is off)")
            continue
        if p.cfg_off is not None and kw in ("fn", "use"):
            p.next()
            nm_ = p.peek().val
            if kw == "fn":
                while not p.at("{"): p.next()
                p.skip_balanced()
                mod.notes.append(f"fn {nm_}: dropped (feature \"{p.cfg_off}\" is off)")
            else:
                while not p.eat(";"):
                    if p.at("{"): p.skip_balanced()
                    else: p.next()
            continue
        if kw == "cfg_if" and p.at("::", 1) and p.at("cfg_if", 2) and p.at("!", 3):
            p.next(); p.next(); p.next(); p.next()
            p.skip_balanced(); p.eat(";")
            mod.notes.append("cfg_if! at item level: skipped (imports only)")
            continue
        if kw == "const" and p.peek(1).kind == "id" and p.at(":", 2) and modname is not None:
            p.next(); nm_ = p.ident()
            while not p.eat(";"):
                if p.at("{") or p.at("(") or p.at("["): p.skip_balanced()
                else: p.next()
            mod.notes.append(f"const {nm_}: not translated")
            continue
        if kw == "type" and p.peek(1).kind == "id":
            p.next(); name = p.ident()
            tps = []
            if p.at("<"): tps, _, _ = p.generic_params()
            if p.eat("="):
                mod.aliases[name] = (tps, p.ty())
            while not p.eat(";"): p.next()
            continue
        if kw in ("use", "extern", "type", "static"):
            while not p.eat(";"):
                if p.peek().kind == "eof": raise Unsupported(f"unterminated `{kw}` (line {t.line})")
                if p.at("{"): p.skip_balanced()
                else: p.next()
            continue
        if kw == "mod":
            p.next(); name = p.ident()
            if p.eat(";"): continue
            p.skip_balanced()
            mod.notes.append(f"mod {name}: not translated")
            continue
        if kw == "macro_rules":
            p.next(); p.expect("!"); name = p.ident()
            s_, e_ = p.skip_balanced(); p.eat(";")
            if not macros:
                mod.notes.append(f"macro_rules! {name}: macros are not expanded")
                continue
            try:
                register_macro(mod, toks, name, s_, e_)
            except (Unsupported, IndexError) as e:
                mod.macros.pop(name, None)
                mod.notes.append(f"macro_rules! {name}: not expanded ({e})")
            continue
        if kw == "enum":
            p.next(); name = p.ident()
            if p.at("<"): raise Unsupported(f"generic enum {name}")
            p.expect("{")
            variants = []
            while not p.at("}"):
                p.last_display = None
                p.skip_attrs()
                v = p.ident()
                if p.last_display is not None:
                    mod.__dict__.setdefault("enum_display", {}).setdefault(name, {})[v] = p.last_display
                if p.at("(") or p.at("{"): raise Unsupported(f"enum {name}: variant {v} carries data")
                d = None
                if p.eat("="):
                    d = p.next()
                    if d.kind != "int": raise Unsupported(f"enum {name}: discriminant of {v}")
                    d = d.val
                variants.append((v, d))
                if not p.eat(","): break
            p.expect("}")
            if name in mod.enums or name in mod.structs: raise Unsupported(f"type {name} defined twice")
            mod.enums[name] = variants
            mod.derives[name] = derives
            continue
        if kw == "struct":
            p.next(); name = p.ident()
            stp, scp = [], []
            if p.at("<"):
                p.cparams_seen = []
                stp, sb, why = p.generic_params()
                scp = list(p.cparams_seen)
                if why or sb: raise Unsupported(f"generic struct {name}: {why or 'bounded parameters'}")
            fields = []
            if p.at("("):                                   # tuple struct: fields `0`, `1`, …
                p.next()
                while not p.at(")"):
                    p.skip_attrs()
                    if p.eat("pub") and p.at("("): p.skip_balanced()
                    fields.append((str(len(fields)), p.ty()))
                    if not p.eat(","): break
                p.expect(")")
                if p.eat("where"): p.where_clause()
                p.expect(";")
                mod.tuple_structs.add(name)
            else:
                if p.eat("where"): p.where_clause()
                if not p.at("{"): raise Unsupported(f"struct {name} is not a struct with named fields")
                p.expect("{")
                while not p.at("}"):
                    p.skip_attrs()
                    if p.eat("pub") and p.at("("): p.skip_balanced()
                    f = p.ident(); p.expect(":")
                    fields.append((f, p.ty()))
                    if not p.eat(","): break
                p.expect("}")
            mod.stcparams[name] = scp
            if name in mod.enums or name in mod.structs: raise Unsupported(f"type {name} defined twice")
            mod.structs[name] = fields
            mod.derives[name] = derives
            mod.stparams[name] = stp
            continue
        if kw == "impl":
            parse_impl(p, mod)
            continue
        if kw == "trait":
            parse_trait(p, mod)
            continue
        if kw == "fn" and modname is not None:
            p.next()
            f = parse_fn(p, modname, None, {}, [], [], None)
            if f is not None:
                f.order = len(mod.fns); f.is_free = True
                mod.fns.append(f)
            continue
        if kw == "fn":
            p.next(); name = p.ident()
            while not p.at("{"): p.next()
            p.skip_balanced()
            mod.notes.append(f"free fn {name}: not translated")
            continue
        if p.peek(1).kind == "p" and p.peek(1).val == "!":     # macro invocation at item level
            name = p.ident(); p.next()
            s, e = p.skip_balanced(); p.eat(";")
            if macros and name in mod.macros:
                parse_items(expand_macro(mod, name, toks[s:e], t.line), mod, macros, depth + 1, modname)
                mod.notes.append(f"{name}!({' '.join(str(x.val) for x in toks[s:e])}): expanded")
                continue
            mod.notes.append(f"{name}!({' '.join(str(x.val) for x in toks[s:e])}): macros are not expanded")
            continue
        raise Unsupported(f"item `{kw}` (line {t.line})")
    return mod


def parse_fn(p, tyname, trait, assoc, itps, ibounds, generic):
    """after the `fn` keyword: signature and (token range of the) body; None for a declaration without body"""
    f = Fn()
    f.ty, f.trait, f.tag, f.assoc = tyname, trait, (trait_tag(trait) if trait else None), assoc
    f.name = p.ident()
    f.generic = generic
    f.tparams, f.bounds = list(itps), list(ibounds)
    if p.at("<"):
        p.cparams_seen = []
        tps, bs, why = p.generic_params()
        f.tparams += tps; f.bounds += bs; f.generic = f.generic or why
        f.cparams += p.cparams_seen
    p.expect("(")
    while not p.at(")"):
        if p.at("&") and (p.at("self", 1) or (p.peek(1).kind == "life" and p.at("self", 2))):
            p.next()
            if p.peek().kind == "life": p.next()
            p.next(); f.selfk = "ref"
        elif p.at("&") and p.at("mut", 1) and p.at("self", 2):
            p.next(); p.next(); p.next(); f.selfk = "mut"
        elif p.at("self"):
            p.next(); f.selfk = "val"
        elif p.at("mut") and p.at("self", 1):
            p.next(); p.next(); f.selfk = "val"; f.generic = f.generic or "`mut self` receiver"; f.generic_is_mut = False
        else:
            if p.eat("mut"):
                if f.generic is None and not f.mutparams and not f.mutbinds: f.generic_is_mut = True
                elif not f.generic_is_mut: pass
                f.generic = f.generic or "`mut` parameter binding"
                f.mutbinds.append(p.peek().val)
            nm = p.ident(); p.expect(":")
            if p.at("&") and p.at("mut", 1):
                if f.generic is None and not f.mutparams: f.generic_is_mut = True
                f.generic = f.generic or f"`&mut` parameter {nm}"
                f.mutparams.append(nm)
                p.next(); p.next()
            f.params.append((nm, p.ty()))
        if not p.eat(","): break
    p.expect(")")
    if p.eat("->"):
        p.saw_mut_ty = False
        f.ret = p.ty()
        f.ret_mut = bool(getattr(p, "saw_mut_ty", False))
    if p.eat("where"):
        f.bounds += p.where_clause()
    if p.eat(";"):
        return None
    s_, e_ = p.skip_balanced()
    f.toks = list(p.t[s_ - 1:e_ + 1])
    f.body = (0, len(f.toks))
    return f


def parse_trait(p, mod):
    """`trait Name<..>: Supers where .. { fn default methods }`: the provided (default) methods become functions of
    the pseudo type `Name` whose `Self` is the implementing type"""
    p.expect("trait"); name = p.ident()
    tps, bounds, why = ([], [], None)
    if p.at("<"): tps, bounds, why = p.generic_params()
    if p.eat(":"): bounds += [("Self", b) for b in p.bound_list()]
    if p.eat("where"): bounds += p.where_clause()
    p.expect("{")
    while not p.at("}"):
        p.skip_attrs()
        t = p.peek()
        if p.eat("type") or p.eat("const"):
            while not p.eat(";"): p.next()
            continue
        if not p.eat("fn"): raise Unsupported(f"trait item `{t.val}` (line {t.line})")
        f = parse_fn(p, name, None, {}, ["Self"] + tps, bounds, why)
        if f is None: continue
        f.order = len(mod.fns); f.is_trait_default = True
        mod.fns.append(f)
    p.expect("}")
    mod.traits.append(name)


def parse_impl(p, mod):
    line = p.expect("impl").line
    generic = None
    itps, ibounds, icps = [], [], []
    if p.at("<"):
        p.cparams_seen = []
        itps, ibounds, generic = p.generic_params()
        icps = list(p.cparams_seen)
    byref = p.at("&")
    first = p.ty()
    trait = None
    if p.eat("for"):
        byref = p.at("&")
        trait, tyname = first, p.ty()
    else:
        tyname = first
    impl_full = tyname
    tyname = re.sub(r"<.*>$", "", tyname)          # `Ratio<T>` → `Ratio` (the parameters are those of the impl)
    if tyname in mod.aliases:                       # `impl … for GaussInt<I>`: the aliased struct
        tyname = re.sub(r"<.*>$", "", mod.aliases[tyname][1])
    blanket = None
    if trait is not None and tyname in itps:        # blanket impl `impl<T> Trait for T`: `Self` is the parameter
        blanket = tyname
        tyname = re.sub(r"<.*>$", "", trait)
    if p.eat("where"):
        ibounds = ibounds + p.where_clause()
    p.expect("{")
    assoc = {}
    while not p.at("}"):
        p.skip_attrs()
        if p.eat("pub") and p.at("("): p.skip_balanced()
        t = p.peek()
        if p.at("const") and p.at("fn", 1): p.next()          # `const fn`
        if p.eat("const"):
            name = p.ident(); p.expect(":"); cty = p.ty(); p.expect("=")
            e = p.expr(); p.expect(";")
            if generic is None and trait is None and not itps:
                if (tyname, name) in mod.consts: raise Unsupported(f"const {tyname}::{name} defined twice")
                mod.consts[(tyname, name)] = (cty, e)
            continue
        if p.eat("type"):
            name = p.ident(); p.expect("="); assoc[name] = p.ty(); p.expect(";")
            continue
        if p.eat("unsafe"): raise Unsupported(f"unsafe fn (line {t.line})")
        if t.kind == "id" and p.at("!", 1) and (p.at("{", 2) or p.at("(", 2)):       # macro invocation as an impl item
            nm_ = p.ident(); p.next(); p.skip_balanced(); p.eat(";")
            mod.notes.append(f"{nm_}! inside `impl {trait + ' for ' if trait else ''}{tyname}`: not expanded")
            continue
        if not p.at("fn"):
            raise Unsupported(f"impl item `{t.val}` (line {t.line})")
        p.next()
        if blanket:
            f = parse_fn(p, tyname, None, assoc, itps + ["Self"],
                         ibounds + [("Self", b) for t_, b in ibounds if t_ == blanket], generic)
            if f is not None: f.is_trait_default = True; f.blanket = blanket
        else:
            f = parse_fn(p, tyname, trait, assoc, itps, ibounds, generic)
        if f is None: continue
        f.order = len(mod.fns)
        f.cparams = icps + f.cparams
        f.cptypes = dict(getattr(p, "cparam_types", {}))
        f.impl_full = impl_full
        if byref: f.tag = (f.tag or "") + "_ref"
        mod.fns.append(f)
    p.expect("}")


# ------------------------------------------------------------------------------------------------ translation

INT64 = {"u64", "usize", "int"}
BADINT = {"u8", "u16", "u32", "u128", "i8", "i16", "i32", "i64", "i128", "isize", "f32", "f64", "char", "str", "String"}
LEAN_RESERVED = {
    "abbrev", "at", "axiom", "by", "class", "def", "deriving", "do", "else", "end", "example", "export", "extends",
    "finally", "for", "from", "fun", "have", "if", "import", "in", "inductive", "infix", "instance", "let", "local",
    "macro", "match", "mut", "mutual", "namespace", "notation", "open", "opaque", "partial", "private", "protected",
    "section", "set_option", "show", "structure", "suffices", "syntax", "then", "theorem", "universe", "unless",
    "using", "variable", "where", "with", "return", "try", "catch", "break", "continue", "unsafe", "nomatch", "nofun",
    "calc", "obtain", "termination_by", "decreasing_by", "this", "Type", "Prop", "Sort", "attribute", "prefix",
    "postfix", "infixl", "infixr", "omit", "include", "elab", "declare_syntax_cat", "noncomputable", "public", "meta",
    # names the emitter itself uses
    "decide", "compare", "some", "none", "true", "false", "xor", "not", "fuel", "slf", "xs", "List", "Res", "U64", "Nat", "Bool",
    "Unit", "Ordering", "Option", "loopFuel", "Yuiv", "Rust", "ok", "panic", "err", "assert", "bind", "pure",
}



# ------------------------------------------------------------------------------------------------ strfmt (target option)
# Parsing / printing support, opt-in per target (`strfmt=True`): `FromStr::from_str` of the shape
# `s.chars().map(|c| match c { 'x' => Ok(V), …, _ => Err(..) }).collect()`, `Display::fmt` of the shape
# `for b in <iter> { Display::fmt(&b, f)?; } Ok(())`, derived `Display` of an enum (`#[display("..")]`), and an
# `impl Iterator` built as `(lo..hi).map(move |_| { … })` over captured `let mut` state (rendered as the list of its items).
STRFMT_PRELUDE = """/-- `Iterator::collect::<Result<V, E>>()` (std: `impl FromIterator<Result<A, E>> for Result<V, E>`): the payloads of the items
up to the first `Err` are handed to `V::from_iter`, which runs to its end (a panic there wins); afterwards the `Err` is
reported.  An item `Result<A, E>` is an `Option A` (the payload of `Err` is erased, as in `Res.err`).  Returns the `Ok`
prefix and whether no `Err` was met. -/
def Iter.okPrefix {A : Type} : List (Option A) → List A × Bool
  | [] => ([], true)
  | none :: _ => ([], false)
  | some a :: xs => (a :: (Iter.okPrefix xs).1, (Iter.okPrefix xs).2)"""


def char_lit(tokval, line):
    """a Rust char literal token as a Lean char literal (plain printable ASCII only)"""
    if len(tokval) == 3 and tokval[0] == "'" and tokval[2] == "'" and 32 <= ord(tokval[1]) < 127 and tokval[1] not in "\\'":
        return tokval
    raise Unsupported(f"char literal {tokval} (line {line})")


def str_lit_chars(tokval, what):
    """a plain Rust string literal token WITHOUT format placeholders as a Lean `List Char` term"""
    if not (len(tokval) >= 2 and tokval[0] == '"' and tokval[-1] == '"'): raise Unsupported(f"{what}: string literal {tokval}")
    body = tokval[1:-1]
    for ch in body:
        if not (32 <= ord(ch) < 127) or ch in "\\{}\"": raise Unsupported(f"{what}: string literal {tokval} (escape / placeholder)")
    return "[" + ", ".join("'\\''" if ch == "'" else f"'{ch}'" for ch in body) + "]"


class IfTerm:
    def __init__(self, cond, th, el):
        self.cond, self.th, self.el = cond, th, el

    def monadic(self):
        return self.th.monadic() or self.el.monadic()


class Blk:
    """a nested block used as a term"""

    def __init__(self, code):
        self.code = code

    def monadic(self):
        return self.code.monadic()


class Code:
    """straight-line code: items = [('bind'|'let'|'do', pattern, term)], final = ('pure', term) | ('m', term)"""

    def __init__(self, items, final):
        self.items, self.final = items, final

    def monadic(self):
        for k, _, t in self.items:
            if k in ("bind", "do"): return True
            if isinstance(t, (IfTerm, Blk)) and t.monadic(): return True
        if self.final[0] == "m": return True
        return isinstance(self.final[1], (IfTerm, Blk)) and self.final[1].monadic()


def split_top(s):
    """split at top-level commas (nesting by () and <>)"""
    out, cur, d = [], "", 0
    for ch in s:
        if ch in "(<": d += 1
        if ch in ")>": d -= 1
        if ch == "," and d == 0:
            out.append(cur); cur = ""
        else:
            cur += ch
    if cur: out.append(cur)
    return out


ASSIGN_METHODS = {"add_assign": "+=", "sub_assign": "-=", "mul_assign": "*=", "div_assign": "/=", "rem_assign": "%="}
OP_ASSIGN_FN = {v[:-1]: k for k, v in ASSIGN_METHODS.items()}
# builtin methods of the scalar type Z: name -> (Lean function, number of arguments, result type)
ZMETH = {"is_zero": ("RInt.is_zero", 0, "bool"), "is_one": ("RInt.is_one", 0, "bool"),
         "is_unit": ("RInt.is_unit", 0, "bool"), "is_negative": ("RInt.is_negative", 0, "bool"),
         "is_positive": ("RInt.is_positive", 0, "bool"), "normalizing_unit": ("RInt.normalizing_unit", 0, "Z"),
         "normalized": ("RInt.normalized", 0, "Z"), "into_normalized": ("RInt.normalized", 0, "Z"),
         "inv": ("RInt.inv", 0, "Option<Z>"), "abs": ("RInt.abs", 0, "Z"), "signum": ("RInt.signum", 0, "Z"),
         "as_int": ("RInt.as_int", 0, "Option<Z>"), "conj": ("RInt.conj", 0, "Z"), "norm": ("RInt.norm", 0, "Z"),
         "to_i64": ("RInt.to_i64", 0, "Option<Z>"), "is_odd": ("RInt.is_odd", 0, "bool"), "is_even": ("RInt.is_even", 0, "bool")}
# … that can panic (emitted as a bind)
ZMETH_M = {"rem_euclid": ("RInt.rem_euclid", 1, "Z"), "div_round": ("RInt.div_round", 1, "Z")}
# methods / associated functions of the checked i32 type W (target option int32)
WMETH = {"is_zero": ("I32.is_zero", 0, "bool"), "is_one": ("I32.is_one", 0, "bool"),
         "is_negative": ("I32.is_negative", 0, "bool"), "is_positive": ("I32.is_positive", 0, "bool")}
WMETH_M = {"add": ("I32.add", 1, "W"), "sub": ("I32.sub", 1, "W"), "mul": ("I32.mul", 1, "W"), "neg": ("I32.neg", 0, "W"),
           "div": ("I32.div", 1, "W"), "rem": ("I32.rem", 1, "W"), "rem_euclid": ("I32.rem_euclid", 1, "W")}
WSTATIC_M = {"gcdx": ("I32.gcdx", 2, "(W,W,W)")}
# builtin associated functions of the scalar type Z
ZSTATIC = {"gcd": ("RInt.gcd", 2, "Z"), "lcm": ("RInt.lcm", 2, "Z"), "zero": ("0", 0, "Z"), "one": ("1", 0, "Z"),
           "default": ("0", 0, "Z"), "neg": ("RInt.neg", 1, "Z"), "add": ("RInt.add", 2, "Z"), "sub": ("RInt.sub", 2, "Z"),
           "mul": ("RInt.mul", 2, "Z"), "from_i32": ("RInt.from_i32", 1, "Option<Z>"), "alpha": ("RInt.alpha", 0, "(Z,Z)"),
           "from": ("RInt.from_lit", 1, "Z")}
ZSTATIC_OWNERS = {"EucRing", "Ring", "Integer"}      # trait-qualified calls whose Self type is fixed by scalar arguments
EMETH = {"is_zero": ("e.isZero", "bool"), "is_one": ("e.isOne", "bool"), "is_unit": ("e.isUnit", "bool"),
         "normalizing_unit": ("e.normUnit", "E"), "inv": ("e.inv", "Option<E>")}
MAT_MUT = {"swap_rows": (2, False), "swap_cols": (2, False), "mul_row": (2, True), "mul_col": (2, True),
           "left_elementary": (3, True), "right_elementary": (3, True)}       # name -> (arity, needs the ring record)
LMAT_MUT = {"swap_rows": 2, "swap_cols": 2, "mul_row": 2, "mul_col": 2, "add_row_to": 3, "add_col_to": 3}
ORD = {"Less": "Ordering.lt", "Equal": "Ordering.eq", "Greater": "Ordering.gt"}


def unpar(s):
    """strip one pair of outer parentheses (not of a tuple `(a, b)` nor of a type ascription `(e : T)`)"""
    if isinstance(s, str) and s.startswith("(") and s.endswith(")"):
        d = 0
        for k, ch in enumerate(s):
            if ch in "({[": d += 1
            elif ch in ")}]":
                d -= 1
                if d == 0 and k != len(s) - 1: return s
            elif d == 1 and (ch == "," or s.startswith(" : ", k)): return s
        return s[1:-1]
    return s


def mk_code(items, term):
    """Code returning the pure term `term`; if `term` is the name bound by the last item, that item becomes the result"""
    items = list(items)
    if items and items[-1][1] == term and items[-1][0] in ("bind", "let"):
        k, _, t = items.pop()
        return Code(items, ("m" if k == "bind" else "pure", t))
    return Code(items, ("pure", term))


class Translator:
    def __init__(self, mod, toks, allids, cfg=None):
        self.mod, self.toks = mod, toks
        self.cfg = cfg or TARGETS["bitseq"]
        self.scalar = self.cfg["scalar"]
        Translator.extra_reserved = {"m", "n", "e", "dbg", "α", "st_", "x_"} if self.cfg.get("eops") else set()
        self.done = {}        # Fn.key -> dict(text=.., pure=.., ret=.., aux=[..]) or Unsupported
        self.stack = []
        self.emitted = []     # keys in emission order
        tmp = "r"
        while any(re.fullmatch(tmp + r"\d+", x) for x in allids): tmp += "r"
        self.tmp = tmp
        self.types = set(mod.enums) | set(mod.structs)
        self.tvars, self.aliases, self.convs = [], {}, {}
        self.gsig, self.gargs = "", []
        self.gcache = {}
        self.local_fns = {}     # key of the enclosing fn -> {name: nested Fn}
        self.ord_glob = False   # `use …::Ordering::*` seen in the current body
        self.uses_fuel = False
        self.fn_mode = None     # block mode of the function body (for `return`)
        self.loop_ctx = None    # (call head, read-only vars, state vars) of the enclosing `loop`
        self.scope_outer = set()
        self.uses_opaque = []
        self.for_ctx = None
        self.nty = 0
        self.newtypes = set(self.cfg.get("newtype_structs", {})) | set(self.cfg.get("wrapper_structs", {}))
        if self.cfg.get("sp13") and "SpMat" not in mod.structs: self.newtypes.add("SpMat")      # `impl SpMat` in another file
        self.local_closures = {}
        self.cur_rest = None    # (following statements, tail) of the statement being translated
        TYBIND.clear()
        if self.cfg.get("const_generics"): self.tag_const_impls()

    # -- naming / types
    def lean_ty(self, t):
        t = resolve_ty(t)
        if "?" in t: raise Unsupported("the element type of an empty `vec![]` is never determined")
        if self.cfg.get("abs"):
            ab = self.cfg["abs"]
            if t in ab["lean"]: return ab["lean"][t]
            if t in ab["extern_enums"]: return t
            mm_ = re.fullmatch(r"MAP<(.*)>", t)
            if mm_:
                k_, v_ = split_top(mm_.group(1))
                return f"(HMap {self.lean_ty(k_)} {self.lean_ty(v_)})"
        if t == "K13" and self.scalar == "K13": return "R"
        if t == "PM": return "(C13.SpMat R)"
        if t == "PV": return "(C13.SpVec R)"
        if t == "PP": return "C13.Perm"
        if t == "CO": return "(Sp.Coo R)"
        if t == "RG": return "(Nat × Nat)"
        mf = re.fullmatch(r"FN<(.*)->(.*)>", t)
        if mf:
            args_ = split_top(mf.group(1)) if mf.group(1) else []
            return "(" + " → ".join([self.lean_ty(self.norm_ty(a_, self.cur)) for a_ in args_] +
                                    ["Res " + self.lean_ty(self.norm_ty(mf.group(2), self.cur))]) + ")"
        if t == "S" and self.scalar == "S": return "α"
        if t == "SM": return "(C12.SpMat α)"
        if t == "TR": return "(SM.TrPair α)"
        if t == "SV": return "(SVec α)"
        if t == "VS": return "(Array α)"
        if t in ("Z", "W"): return "Int"
        if t == "E": return "α"
        if t == "LM": return "LMat"
        if t == "VZ": return "(Array Int)"
        if t == "HM": return "C07.Mat"
        if t == "HS": return "C07.Snf"
        if t == "HT": return "C07.Trans"
        mm = re.fullmatch(r"M<(\w+),(\w+)>", t)
        if mm: return f"(C09.Mat α {mm.group(1)} {mm.group(2)})"
        if self.cfg.get("eops") and t in self.mod.structs: return f"({t}S α m n)"
        if t.startswith("(") and t != "()":
            return "(" + " × ".join(self.lean_ty(x) for x in split_top(t[1:-1])) + ")"
        if t in INT64: return "Nat"
        if t == "bool": return "Bool"
        if t == "()": return "Unit"
        if t == "Ordering": return "Ordering"
        if t in self.mod.enums: return t
        if t in self.mod.structs and self.cfg.get("struct_params"): return f"({t}S {self.cfg.get('struct_param_name', 'R')})"
        if t in self.mod.structs: return t + "S"
        m = re.fullmatch(r"Option<(.*)>", t)
        if m: return f"(Option {self.lean_ty(m.group(1))})"
        m = re.fullmatch(r"List<(.*)>", t)
        if m: return f"(List {self.lean_ty(m.group(1))})"
        if t in self.tvars: return t
        raise Unsupported(f"type `{t}`")

    def norm_ty(self, t, fn):
        """normalise a parsed type string in the context of fn's impl"""
        g = self.generics_of(fn)
        if t in g["aliases"]:
            al = g["aliases"][t]
            if self.cfg.get("sp13") and al.startswith("List<") and al != f"List<{t}>":
                return "List<" + self.norm_ty(al[5:-1], fn) + ">"
            return al
        ma = re.fullmatch(r"\[(.*);(\d+)\]", t)
        if ma and int(ma.group(2)) <= 8:            # a fixed-size array is a tuple
            return "(" + ",".join([self.norm_ty(ma.group(1), fn)] * int(ma.group(2))) + ")"
        if re.fullmatch(r"M<\w+,\w+>", t): return t
        if self.cfg.get("nat_usize") and t == "usize": return "usize"
        if self.cfg.get("abs"):
            ab = self.cfg["abs"]
            if t in ab["lean"] or t in ab["extern_enums"]: return t
            for rx, tag in ab["types"]:
                if re.fullmatch(rx, t): return tag
            if t in ab.get("degree_params", []): return t
            mv_ = re.fullmatch(r"Vec<(.+)>", t) or re.fullmatch(r"\[()([^;]+)\]", t)
            if mv_: return "List<" + self.norm_ty(mv_.group(1) if mv_.group(1) else mv_.group(2), fn) + ">"
            mh_ = re.fullmatch(r"HashMap<(.+)>", t)
            if mh_:
                k_, v_ = split_top(mh_.group(1))
                return f"MAP<{self.norm_ty(k_, fn)},{self.norm_ty(v_, fn)}>"
        if self.cfg.get("sp13"):
            if t in ("PM", "PV", "PP", "CO", "RG", "K13") or t.startswith("FN<"): return t
            if re.sub(r"<'\w+>$", "", t) in ("PermView", "sprs::PermView", "PermOwned", "sprs::PermOwned"): return "PP"
            if t == "Range<usize>": return "RG"
            ms = re.fullmatch(r"(SpMat|CscMatrix|SpVec|CooMatrix|Vec)<(.+)>", t) or re.fullmatch(r"\[()([^;]+)\]", t)
            if ms:
                inner = self.norm_ty(ms.group(2), fn)
                kind = ms.group(1) or "Vec"
                if kind in ("SpMat", "CscMatrix") and inner == "K13": return "PM"
                if kind == "SpVec" and inner == "K13": return "PV"
                if kind == "CooMatrix" and inner == "K13": return "CO"
                if kind == "Vec": return f"List<{inner}>"
            if t == "Self" and fn.ty in self.cfg.get("newtype_structs", {}): return "PM"
            if t in self.cfg.get("newtype_structs", {}): return "PM"
            if t == "Self" and fn.ty in self.cfg.get("wrapper_structs", {}): return self.cfg["wrapper_structs"][fn.ty][1]
            if t == "Self" and fn.ty == "SpMat" and "SpMat" not in self.mod.structs: return "PM"
            mi = re.fullmatch(r"impl Iterator<Item=(.+)>", t) if self.cfg.get("wrapper_structs") else None
            if mi: return "List<" + self.norm_ty(mi.group(1), fn) + ">"
        if self.cfg.get("cscx"):
            if t in ("TR",): return t
            if t in ("TriangularType", "super::triang::TriangularType"): return "bool"
            if re.fullmatch(r"Trans<(.+)>", t) and self.norm_ty(t[6:-1], fn) == "S": return "TR"
        if self.cfg.get("csc"):
            if t in ("SM", "SV", "VS", "S"): return t
            mc = re.fullmatch(r"(SpMat|SpVec|Vec)<(.+)>", t) or re.fullmatch(r"\[()(.+)\]", t)
            if mc:
                inner = self.norm_ty(mc.group(2), fn)
                kind = mc.group(1) or "Vec"
                if kind == "SpMat" and inner == "S": return "SM"
                if kind == "SpVec" and inner == "S": return "SV"
                if kind == "Vec": return "VS" if inner == "S" else f"List<{inner}>"
        if self.cfg.get("hom"):
            if t in ("HM", "HS", "HT"): return t
            mh = re.fullmatch(r"(SpMat|Mat|SnfResult|Trans|Vec)<(\w+)>", t)
            if mh and self.norm_ty(mh.group(2), fn) == "Z":
                return {"SpMat": "HM", "Mat": "HM", "SnfResult": "HS", "Trans": "HT", "Vec": "List<Z>"}[mh.group(1)]
        if self.cfg.get("lmat"):
            if t in ("LM", "VZ"): return t
            if re.fullmatch(r"Mat<\w+>", t) and self.norm_ty(t[4:-1], fn) == "Z": return "LM"
            if re.fullmatch(r"Vec<\w+>", t) and self.norm_ty(t[4:-1], fn) == "Z": return "VZ"
        if t == "Self":
            if self.mod.stcparams.get(fn.ty) and self.carg_of(fn) is None:
                raise Unsupported(f"`Self` = {fn.ty} without a const argument")
            return fn.ty
        if t == "i32" and self.cfg.get("int32"): return "W"
        mlt = re.fullmatch(r"(\w+)<(.*)>", t)
        if mlt and mlt.group(1) in self.cfg.get("list_types", {}):
            inner = self.cfg["list_types"][mlt.group(1)].format(*split_top(mlt.group(2)))
            return "List<" + self.norm_ty(inner, fn) + ">"
        if t in self.mod.aliases and not self.mod.aliases[t][0]:
            return self.norm_ty(self.mod.aliases[t][1], fn)
        if t.startswith("(") and t != "()":
            return "(" + ",".join(self.norm_ty(x, fn) for x in split_top(t[1:-1])) + ")"
        m = re.fullmatch(r"(\w+)<(.*)>", t)
        if m and m.group(1) in self.mod.aliases:
            ps, body = self.mod.aliases[m.group(1)]
            args = split_top(m.group(2))
            if len(ps) != len(args): raise Unsupported(f"type `{t}`")
            for p_, a_ in zip(ps, args): body = re.sub(r"(?<![\w])" + re.escape(p_) + r"(?![\w])", a_, body)
            return self.norm_ty(body, fn)
        if m and m.group(1) in self.mod.structs and (self.cfg.get("eops") or self.cfg.get("lmat") or self.cfg.get("hom")):
            return m.group(1)
        if m and m.group(1) in self.mod.structs and (self.mod.stparams.get(m.group(1)) or self.mod.stcparams.get(m.group(1))):
            raw = split_top(m.group(2))
            ntp, ncp = len(self.mod.stparams.get(m.group(1), [])), len(self.mod.stcparams.get(m.group(1), []))
            if len(raw) != ntp + ncp: raise Unsupported(f"type `{t}`")
            args = [self.norm_ty(x, fn) for x in raw[:ntp]]
            for c in raw[ntp:]:
                want = self.carg_of(fn)
                have = f"({c})" if c.startswith("-") else c
                if want is None or have != want:
                    raise Unsupported(f"type `{t}` in a function whose const argument is {want}")
            if (self.scalar or not args) and all(a == "Z" for a in args):
                return m.group(1)
            if self.cfg.get("struct_params") and all(a == self.scalar for a in args):
                return m.group(1)
            raise Unsupported(f"type `{t}`")
        if t.startswith("Self::") and t[6:] in fn.assoc: return self.norm_ty(fn.assoc[t[6:]], fn)
        if t in ("std::cmp::Ordering", "cmp::Ordering", "core::cmp::Ordering"): return "Ordering"
        m = re.fullmatch(r"Option<(.*)>", t)
        if m: return f"Option<{self.norm_ty(m.group(1), fn)}>"
        if t in BADINT: raise Unsupported(f"type `{t}` (only the 64-bit unsigned integers are in the subset)")
        if t in self.mod.structs and (self.mod.stparams.get(t) or self.mod.stcparams.get(t)) and \
                not (self.cfg.get("eops") or self.cfg.get("lmat") or self.cfg.get("hom")):
            raise Unsupported(f"generic type `{t}` without arguments")
        if t in g["tvars"]: return t
        saved = self.tvars
        self.tvars = g["tvars"]
        try:
            self.lean_ty(t)
        finally:
            self.tvars = saved
        return t

    extra_reserved = set()

    @staticmethod
    def ident(name):
        return name + "_" if (name in LEAN_RESERVED or name in Translator.extra_reserved or
                              (name.startswith("_") and name != "_")) else name

    def lean_fn(self, f):
        nm = ".".join(self.ident(x) for x in f.name.split("."))
        return f"{f.ty}.{f.tag}.{nm}" if f.tag else f"{f.ty}.{nm}"

    def tag_const_impls(self):
        """impls for a fixed const argument (`GaussInt<I>` = `QuadInt<I, -1>`) get the tag suffix `_m1`"""
        for f in self.mod.fns:
            suf = self.carg_suffix(f)
            if suf and not getattr(f, "ctagged", False):
                f.tag = (f.tag or "") + suf if f.tag else suf.lstrip("_")
                f.ctagged = True

    def find_fn(self, ty, name, argtys=None):
        c = [f for f in self.mod.fns if f.ty == ty and f.name == name and f.trait is None]
        if not c:
            c = [f for f in self.mod.fns if f.ty == ty and f.name == name]
            if self.cfg.get("const_generics") and len(c) > 1 and getattr(self, "cur", None) is not None:
                c = [f for f in c if self.carg_compatible(f)]
            if len(c) > 1 and argtys is not None:
                def fits(f):
                    try:
                        ps = [self.norm_ty(t, f) for _, t in f.params]
                    except Unsupported:
                        return False
                    return len(ps) == len(argtys) and all(self.compat(a, b) for a, b in zip(ps, argtys))
                c = [f for f in c if f.generic is None and fits(f)]
        if len(c) != 1: return None
        return c[0]

    def find_trait_default(self, name):
        """default method `name` of a trait defined in this file (target files that define traits)"""
        c = [f for f in self.mod.fns if getattr(f, "is_trait_default", False) and f.name == name]
        return c[0] if len(c) == 1 else None

    @staticmethod
    def compat(a, b):
        a, b = resolve_ty(a), resolve_ty(b)
        for x, y in ((a, b), (b, a)):
            if re.fullmatch(r"\?\d+", x) and "?" not in y and y not in ("!", "()", "int"):
                TYBIND[x] = y
                return True
        if a == b or "!" in (a, b) or (a in INT64 and b in INT64 and "int" in (a, b)): return True
        if {a, b} == {"W", "int"}: return True
        if a.startswith("(") and b.startswith("(") and a != "()" and b != "()":
            xs, ys = split_top(a[1:-1]), split_top(b[1:-1])
            return len(xs) == len(ys) and all(Translator.compat(x, y) for x, y in zip(xs, ys))
        if a.startswith("Option<") and b.startswith("Option<") and "Option<_>" in (a, b): return True
        if a.startswith("List<") and b.startswith("List<") and "List<_>" in (a, b): return True
        if a.startswith("List<") and b.startswith("List<") and ("?" in a or "?" in b):
            return Translator.compat(a[5:-1], b[5:-1])
        if a.startswith("Option<") and b.startswith("Option<") and a != "Option<_>" and b != "Option<_>":
            return Translator.compat(a[7:-1], b[7:-1])
        if a.startswith("List<(") and b.startswith("List<(") and "int" in a + b:
            return Translator.compat(a[5:-1], b[5:-1])
        return False

    def join_int(self, a, b, what, line):
        if a not in INT64 or b not in INT64:
            raise Unsupported(f"`{what}` on operands of type {a}, {b} (line {line})")
        if a == "int": return b
        if b == "int" or a == b: return a
        raise Unsupported(f"`{what}` mixes {a} and {b} (line {line})")

    # -- function level
    enum_display = None

    def translate(self, f):
        if self.enum_display is None: self.enum_display = set()
        if f.key in self.done:
            r = self.done[f.key]
            if isinstance(r, Unsupported): raise r
            return r
        if f.key in self.stack:
            raise Unsupported(f"recursion through {f.rust_name}")
        self.stack.append(f.key)
        try:
            r = self.translate_fn(f)
        except Unsupported as e:
            e2 = Unsupported(f"{f.rust_name}: {e}") if not str(e).startswith(f.rust_name) and not getattr(e, "nested", False) else e
            e2.nested = True
            self.done[f.key] = e2
            raise e2
        finally:
            self.stack.pop()
        self.done[f.key] = r
        self.emitted.append(f.key)
        return r

    def translate_fn(self, f):
        if self.cfg.get("strfmt"):
            r = self.translate_strfmt(f)
            if r is not None: return r
        if f.generic and not (f.generic_is_mut and (self.cfg.get("mut_params") or not f.mutparams) and
                              (self.cfg.get("soft_params") or not f.mutbinds)): raise Unsupported(f.generic)
        if f.ty not in self.types and not getattr(f, "is_trait_default", False) and f.ty not in self.newtypes and \
                not getattr(f, "is_free", False) and f.ty not in self.cfg.get("scalar_types", []):
            raise Unsupported(f"impl for unknown type {f.ty}")
        self.cur, self.ntmp, self.nloop, self.aux = f, 0, 0, []
        self.uses_fuel, self.ord_glob, self.loop_ctx = False, False, None
        self.uses_opaque, self.for_ctx = [], None
        self.setup_generics(f)
        ret = self.norm_ty(f.ret, f)
        env = {}     # rust name -> (lean name, type, mutable)
        params = []
        for cp in f.cparams:
            if len(f.cparams) > 1: raise Unsupported("more than one const generic parameter")
            cpt = getattr(f, "cptypes", {}).get(cp, "i32")
            if cpt in self.mod.aliases and not self.mod.aliases[cpt][0]: cpt = self.mod.aliases[cpt][1]
            if cpt != "i32": raise Unsupported(f"const generic parameter {cp}: {cpt}")
            env[cp] = (self.ident(cp), "W" if self.cfg.get("int32") else "Z", False)
            params.append((self.ident(cp), "Int"))
        if self.tvars and f.selfk == "mut": raise Unsupported("generic `&mut self` method")
        if f.selfk:
            sty = self.norm_ty("Self", f)
            env["self"] = ("slf", sty, f.selfk == "mut")
            params.append(("slf", self.lean_ty(sty)))
        for nm, t in f.params:
            t = self.norm_ty(t, f)
            ln = self.ident(nm)
            env[nm] = (ln, t, nm in f.mutparams or nm in f.mutbinds)
            params.append((ln, self.lean_ty(t)))
        body = Parser(list(f.toks), f.body[0], f.body[1]).block()
        self.register_locals(f, body)
        if f.mutparams:
            if f.selfk: raise Unsupported("`&mut` parameters of a method")
            mts = [self.lean_ty(env[nm][1]) for nm in f.mutparams]
            if ret == "()":
                self.fn_mode = ("vars", list(f.mutparams))
                lret = "(" + " × ".join(mts) + ")" if len(mts) > 1 else mts[0]
            else:
                self.fn_mode = ("mutvalp", ret, list(f.mutparams))
                lret = "(" + " × ".join(mts + [self.lean_ty(ret)]) + ")"
            code = self.tr_block(body, env, self.fn_mode)
        elif f.selfk == "mut" and ret != "()":
            self.fn_mode = ("mutval", ret)
            code = self.tr_block(body, env, self.fn_mode)
            lret = "(" + self.lean_ty(env["self"][1]) + " × " + self.lean_ty(ret) + ")"
        elif f.selfk == "mut":
            self.fn_mode = ("vars", ["self"])
            code = self.tr_block(body, env, self.fn_mode)
            lret = self.lean_ty(env["self"][1])
        else:
            self.fn_mode = ("value", ret)
            code = self.tr_block(body, env, self.fn_mode)
            lret = self.lean_ty(ret)
        pure = not code.monadic() and not self.uses_fuel
        if self.uses_fuel: params = [("fuel", "Nat")] + params
        sty_ = self.lean_ty(f.ty) if f.ty in self.types else None
        otys = {nm: ty for nm, ty in self.cfg.get("opaque_fns", {}).values()}
        params = [(nm, otys.get(nm) or f"{unpar(sty_)} → Res {sty_}") for nm in self.uses_opaque] + params
        sig = " ".join(([self.gsig] if self.gsig else []) + [f"({n} : {unpar(t)})" for n, t in params])
        head = f"def {self.lean_fn(f)}" + (" " + sig if sig else "") + " : " + (unpar(lret) if pure else f"Res {lret}") + " :="
        lines = [f"/-- `{f.rust_name}` -/", head] + self.body_lines(code, "  ", not pure)
        # the callee analysis of this function is finished: restore nothing (state is per call)
        return dict(text="\n".join(self.aux + ["\n".join(lines)]), pure=pure, ret=ret, fn=f, fuel=self.uses_fuel,
                    opaque=list(self.uses_opaque), mutval=(f.selfk == "mut" and ret != "()"),
                    mutparams=list(f.mutparams))

    # -- strfmt: parsing / printing functions (see the comment at STRFMT_PRELUDE)
    def translate_strfmt(self, f):
        if f.tag == "FromStr" and f.name == "from_str": return self.strfmt_from_str(f)
        if f.tag == "Display" and f.name == "fmt": return self.strfmt_display(f)
        if f.ret and f.ret.replace(" ", "").startswith("implIterator<Item=") and f.selfk == "ref" and not f.params:
            return self.strfmt_iter(f)
        return None

    def strfmt_result(self, f, text, ret):
        return dict(text=text, pure=False, ret=ret, fn=f, fuel=False, opaque=[], mutval=False, mutparams=[])

    def strfmt_reset(self, f):
        self.cur, self.ntmp, self.nloop, self.aux = f, 0, 0, []
        self.uses_fuel, self.ord_glob, self.loop_ctx = False, False, None
        self.uses_opaque, self.for_ctx = [], None
        self.setup_generics(f)

    def strfmt_from_str(self, f):
        bad = lambda what: Unsupported(f"`from_str` outside the subset: {what}")
        if f.selfk or len(f.params) != 1 or f.params[0][1] != "str" or f.ret.replace(" ", "") != "Result<Self,Self::Err>":
            raise bad("signature is not `(s: &str) -> Result<Self, Self::Err>`")
        sname = f.params[0][0]
        body = Parser(list(f.toks), f.body[0], f.body[1]).block()
        e = body.tail
        if body.stmts or e is None or e.kind != "mcall" or e.name != "collect" or e.args: raise bad("body is not `… .collect()`")
        m = e.recv
        if m.kind != "mcall" or m.name != "map" or len(m.args) != 1 or m.args[0].kind != "closure" or \
                len(m.args[0].params) != 1 or not isinstance(m.args[0].params[0], str):
            raise bad("`collect` is not applied to `.map(|c| …)`")
        ch = m.recv
        if not (ch.kind == "mcall" and ch.name == "chars" and not ch.args and ch.recv.kind == "path" and ch.recv.segs == [sname]):
            raise bad(f"the mapped iterator is not `{sname}.chars()`")
        c = m.args[0]
        cv = c.params[0]
        cb = c.body
        while cb.kind in ("block", "paren") and (cb.kind == "paren" or not cb.stmts):
            cb = cb.e if cb.kind == "paren" else cb.tail
            if cb is None: raise bad("empty closure")
        if cb.kind != "match" or cb.s.kind != "path" or cb.s.segs != [cv]: raise bad(f"the closure is not `match {cv} {{ … }}`")
        arms, item_ty, closed = [], None, False
        for pats, abody in cb.arms:
            if closed: raise bad("match arm after the wildcard arm")
            if abody.kind != "call" or abody.path not in (["Ok"], ["Err"]) or len(abody.args) != 1:
                raise bad(f"match arm that is not `Ok(..)` / `Err(..)` (line {abody.line})")
            if abody.path == ["Ok"]:
                a = abody.args[0]
                if a.kind != "path" or len(a.segs) != 2 or a.segs[0] not in self.mod.enums or \
                        a.segs[1] not in [v for v, _ in self.mod.enums[a.segs[0]]]:
                    raise bad(f"`Ok` of something else than an enum variant (line {abody.line})")
                if item_ty not in (None, a.segs[0]): raise bad("`Ok` arms of different types")
                item_ty = a.segs[0]
                val = f"some {a.segs[0]}.{a.segs[1]}"
            else:
                val = "none"
            for p_ in pats:
                if p_.kind == "pchar": arms.append((f"decide ({self.ident(cv)} = {char_lit(p_.v, cb.line)})", val))
                elif p_.kind == "pwild":
                    arms.append((None, val)); closed = True
                else: raise bad(f"pattern of kind {p_.kind} in the match on a char")
        if not closed: raise bad("match on a char without a wildcard arm")
        if item_ty is None: raise bad("no `Ok` arm")
        cands = [g for g in self.mod.fns if g.ty == f.ty and g.name == "from_iter" and (g.tag or "").startswith("FromIterator")]
        if len(cands) != 1: raise bad(f"no unique `impl FromIterator for {f.ty}`")
        info = self.translate_callee(cands[0])
        head = [l for l in info["text"].split("\n") if l.startswith(f"def {self.lean_fn(cands[0])} ")]
        mh = head and re.match(r"def \S+ \{T : Type\} \((\w+)_from_T : T → (\w+)\) \((\w+) : List T\) : (Res )?(\w+) :=$", head[0])
        if not mh or mh.group(2) != item_ty or mh.group(5) != self.lean_ty(f.ty):
            raise bad(f"`{cands[0].rust_name}` is not of the form `from_iter<I: IntoIterator<Item = T>>(iter: I) where {item_ty}: From<T>`")
        self.strfmt_reset(f)
        cname = f"{self.lean_fn(f)}_closure1"
        lines = [f"/-- closure #1 of `{f.rust_name}` (`Result<{item_ty}, _>` is `Option {item_ty}`: the payload of `Err` is erased) -/",
                 f"def {cname} ({self.ident(cv)} : Char) : Option {item_ty} :="]
        ind = "  "
        for cond, val in arms:
            if cond is None:
                lines.append(f"{ind}{val}")
            else:
                lines.append(f"{ind}if {cond} then {val} else")
        call = f"{self.lean_fn(cands[0])} (fun (b : {item_ty}) => b) (Iter.okPrefix items).1"
        lines += ["", f"/-- `{f.rust_name}` (a `&str` is the list of its chars; `Err(_)` is `Res.err`; `{item_ty}: From<{item_ty}>` is the identity) -/",
                  f"def {self.lean_fn(f)} ({self.ident(sname)} : List Char) : Res {self.lean_ty(f.ty)} :=",
                  "  do",
                  f"    let items := {self.ident(sname)}.map {cname}",
                  f"    let r ← {call}" if mh.group(4) else f"    let r := {call}",
                  "    (if (Iter.okPrefix items).2 then Res.ok r else Res.err)"]
        return self.strfmt_result(f, "\n".join(lines), "?Result")

    def strfmt_iter(self, f):
        bad = lambda what: Unsupported(f"`impl Iterator` outside the subset: {what}")
        item = f.ret.replace(" ", "")[len("implIterator<Item="):-1]
        body = Parser(list(f.toks), f.body[0], f.body[1]).block()
        self.strfmt_reset(f)
        sty = self.norm_ty("Self", f)
        env = {"self": ("slf", sty, False)}
        items, state = [], []
        for st in body.stmts:
            if st.kind != "let" or not st.mut or st.pat is not None or st.els is not None or st.name is None:
                raise bad(f"statement that is not `let mut x = e;` (line {st.line})")
            items += self.tr_stmt(st, env)
            state.append(st.name)
        e = body.tail
        if e is None or e.kind != "mcall" or e.name != "map" or len(e.args) != 1 or e.args[0].kind != "closure":
            raise bad("the value is not `(lo..hi).map(closure)`")
        r = e.recv
        while r.kind == "paren": r = r.e
        if r.kind != "range" or r.lo is None or r.hi is None or getattr(r, "incl", False): raise bad("the mapped iterator is not a range `lo..hi`")
        c = e.args[0]
        if len(c.params) != 1 or not isinstance(c.params[0], str): raise bad("closure parameters")
        ilo, tlo, tylo = self.tr(r.lo, env)
        ihi, thi, tyhi = self.tr(r.hi, env)
        if ilo or ihi: raise bad("range bounds with effects")
        ity = self.join_int(tylo, tyhi, "range bounds", e.line)
        base = self.lean_fn(f)
        # the closure: the captured `let mut` variables are its state (threaded), `self` is not captured
        env2 = {n: (env[n][0], env[n][1], True) for n in state}
        kv = "k_"
        if c.params[0] != "_":
            env2[c.params[0]] = (self.ident(c.params[0]), ity if ity != "int" else "usize", False); kv = self.ident(c.params[0])
        for n_ in self.idents(c.body):
            if n_ == "self": raise bad("the closure captures `self`")
        cbody = c.body if c.body.kind == "block" else N("block", stmts=[], tail=c.body)
        code = self.tr_block(cbody, env2, ("mutvalp", item, list(state)))
        stsig = " ".join(f"({env[n][0]} : {unpar(self.lean_ty(env[n][1]))})" for n in state)
        sttup = ", ".join(env[n][0] for n in state)
        stargs = " ".join(env[n][0] for n in state)
        stty = " × ".join([unpar(self.lean_ty(env[n][1])) for n in state] + [self.lean_ty(item)])
        lines = list(self.aux)
        lines += [f"/-- closure #1 of `{f.rust_name}`: new values of the captured state ({', '.join(state)}) and the item -/",
                  f"def {base}_closure1 {stsig} ({kv} : Nat) : Res ({stty}) :="] + self.body_lines(code, "  ", True)
        lines += ["", f"/-- the items of `(lo..hi).map(closure #1)` of `{f.rust_name}`, in order (`n` = number of indices left, `k` = next index) -/",
                  f"def {base}_items (n : Nat) (k : Nat) {stsig} : Res (List {self.lean_ty(item)}) :=",
                  "  match n with",
                  "  | 0 => Res.ok []",
                  "  | n + 1 =>",
                  "    do",
                  f"      let ({sttup}, x) ← {base}_closure1 {stargs} k",
                  f"      let xs ← {base}_items n (k + 1) {stargs}",
                  "      Res.ok (x :: xs)"]
        main = mk_code(items, f"({base}_items ({unpar(thi)} - {unpar(tlo)}) {tlo} {stargs})")
        lines += ["", f"/-- `{f.rust_name}`: the list of the items of the returned iterator (every consumer in this file runs it to its end) -/",
                  f"def {base} (slf : {self.lean_ty(sty)}) : Res (List {self.lean_ty(item)}) :="]
        ml = self.body_lines(Code(items, ("m", f"{base}_items ({unpar(thi)} - {unpar(tlo)}) {unpar(tlo)} {stargs}")), "  ", True)
        lines += ml
        return self.strfmt_result(f, "\n".join(lines), "?Iter<" + item + ">")

    def strfmt_display(self, f):
        bad = lambda what: Unsupported(f"`Display::fmt` outside the subset: {what}")
        if f.selfk != "ref" or len(f.params) != 1 or "Formatter" not in f.params[0][1] or f.ret.replace(" ", "") != "fmt::Result":
            raise bad("signature is not `(&self, f: &mut fmt::Formatter) -> fmt::Result`")
        fm = f.params[0][0]
        body = Parser(list(f.toks), f.body[0], f.body[1]).block()
        t = body.tail
        if not (t is not None and t.kind == "call" and t.path == ["Ok"] and len(t.args) == 1 and
                t.args[0].kind in ("tuple", "unit") and not getattr(t.args[0], "es", getattr(t.args[0], "elems", []))):
            raise bad("the value is not `Ok(())`")
        if len(body.stmts) != 1: raise bad("body is not one `for` loop followed by `Ok(())`")
        lp = body.stmts[0]
        lp = lp.e if lp.kind == "expr" else lp
        if lp.kind != "for" or lp.var == "_": raise bad("body is not one `for` loop followed by `Ok(())`")
        it = lp.it
        if not (it.kind == "mcall" and not it.args and it.recv.kind == "path" and it.recv.segs == ["self"]):
            raise bad("the loop does not run over `self.<iter>()`")
        cands = [g for g in self.mod.fns if g.ty == f.ty and g.tag is None and g.name == it.name]
        if len(cands) != 1: raise bad(f"method {it.name} not found")
        info = self.translate_callee(cands[0])
        mi = re.fullmatch(r"\?Iter<(\w+)>", info["ret"])
        if not mi: raise bad(f"`{it.name}` does not return an `impl Iterator`")
        item = mi.group(1)
        if item not in self.enum_display: raise bad(f"the item type {item} has no derived `Display`")
        lb = lp.body
        st = lb.stmts[0] if len(lb.stmts) == 1 and lb.tail is None else None
        st = st.e if st is not None and st.kind == "expr" else st
        ok = st is not None and st.kind == "try" and st.e.kind == "call" and st.e.path == ["Display", "fmt"] and len(st.e.args) == 2
        if ok:
            a0, a1 = st.e.args
            while (a0.kind == "un" and a0.op == "&") or a0.kind == "paren": a0 = a0.e
            ok = a0.kind == "path" and a0.segs == [lp.var] and a1.kind == "path" and a1.segs == [fm]
        if not ok: raise bad(f"the loop body is not `Display::fmt(&{lp.var}, {fm})?;`")
        self.strfmt_reset(f)
        sty = self.norm_ty("Self", f)
        lines = [f"/-- `{f.rust_name}`: the text written to the formatter (a `String` as the list of its chars; writing to it does not fail) -/",
                 f"def {self.lean_fn(f)} (slf : {self.lean_ty(sty)}) : Res (List Char) :=",
                 "  do",
                 f"    let xs ← {self.lean_fn(cands[0])} slf",
                 f"    Res.ok (xs.foldl (fun {fm} {self.ident(lp.var)} => {fm} ++ {item}.Display.fmt {self.ident(lp.var)}) [])"]
        return self.strfmt_result(f, "\n".join(lines), "?String")

    def register_locals(self, f, body):
        """nested fn items and `use` declarations of a function body"""
        loc = {}

        def go(n):
            if n.kind == "block":
                for u in getattr(n, "uses", []):
                    if u[-2:] == ["Ordering", "*"]: self.ord_glob = True
                for g in getattr(n, "fns", []):
                    g.ty, g.tag, g.trait = f.ty, f.tag, f.trait
                    g.short = g.name
                    g.name = f"{f.name}.{g.name}"
                    g.outer = f
                    if getattr(f, "is_trait_default", False): g.is_trait_default = True
                    loc[g.short] = g
        self.walk(body, go)
        self.local_fns[f.key] = loc

    def setup_generics(self, f):
        g = self.generics_of(f)
        self.tvars, self.aliases, self.convs = g["tvars"], g["aliases"], g["convs"]
        self.gsig, self.gargs = g["gsig"], g["gargs"]

    def generics_of(self, f):
        if id(f) not in self.gcache:
            saved = (self.tvars, self.aliases, self.convs, self.gsig, self.gargs)
            try:
                self.compute_generics(f)
                self.gcache[id(f)] = dict(tvars=self.tvars, aliases=self.aliases, convs=self.convs, gsig=self.gsig,
                                          gargs=self.gargs, err=None)
            except Unsupported as e:
                self.gcache[id(f)] = dict(tvars=[], aliases={}, convs={}, gsig="", gargs=[], err=e)
            finally:
                self.tvars, self.aliases, self.convs, self.gsig, self.gargs = saved
        g = self.gcache[id(f)]
        if g["err"] is not None: raise g["err"]
        return g

    def compute_generics(self, f):
        """type parameters of f: plain type variables, `I: IntoIterator<Item = X>` (modelled as `List X`),
        conversion clauses `U: From<T>` for a user type U and a type variable T (an explicit function argument), and —
        with the target option scalar = "Z" — parameters bounded by ring / integer traits only, read as `Int`"""
        self.tvars, self.aliases, self.convs = [], {}, {}
        scal = set()
        f_orig = f
        if self.scalar:
            for tp in f.tparams:
                bs = [re.sub(r"<.*$", "", b) for t, b in f.bounds if t == tp and not b.startswith("'")]
                if all(b in SCALAR_BOUNDS or (self.cfg.get("int32") and b in SCALAR_BOUNDS_FF) or
                       (self.cfg.get("lmat") and b in SCALAR_BOUNDS_LLL) or
                       (self.cfg.get("sp13") and b in SCALAR_BOUNDS_SP) for b in bs):
                    scal.add(tp)
        tparams = [t for t in f.tparams if t not in scal]
        bounds = [(t, b) for t, b in f.bounds if t not in scal]
        if self.cfg.get("abs"):
            dps = self.cfg["abs"].get("degree_params", [])
            tparams = [t for t in tparams if t not in dps]
            bounds = [(t, b) for t, b in bounds if t not in dps]
        for tp in scal: self.aliases[tp] = self.scalar
        if getattr(f, "ty", None) in self.cfg.get("scalar_types", []): self.aliases["Self"] = "Z"
        if self.cfg.get("sp13"):
            # `F: Fn(A, B) -> C`: a function parameter (always `Res`-valued in Lean: the closure passed may panic)
            for tp in list(tparams):
                bs = [b for t, b in bounds if t == tp]
                m_ = re.fullmatch(r"Fn\((.*)\)->(.*)", bs[0]) if len(bs) == 1 else None
                if m_:
                    args_ = [x.strip() for x in m_.group(1).split(" , ")] if m_.group(1).strip() else []
                    self.aliases[tp] = "FN<" + ",".join(args_) + "->" + m_.group(2) + ">"
                    tparams.remove(tp)
                    bounds = [(t, b) for t, b in bounds if t != tp]
        f = N("fnview", tparams=tparams, bounds=bounds)
        iters = {}
        itre = r"IntoIterator<Item=(.+)>" if self.cfg.get("sp13") else r"IntoIterator<Item=(\w+)>"
        for t, b in f.bounds:
            m = re.fullmatch(itre, b)
            if t in f.tparams and m:
                iters[t] = m.group(1)
        self.tvars = [t for t in f.tparams if t not in iters]
        for t, x in iters.items():
            if self.cfg.get("sp13"):
                for tp in scal: x = re.sub(r"(?<![\w])" + re.escape(tp) + r"(?![\w])", self.scalar, x)
                self.aliases[t] = f"List<{x}>"
                continue
            if x not in self.tvars and x not in self.types and x not in ("u64", "usize", "bool"):
                raise Unsupported(f"iterator item type {x}")
            self.aliases[t] = f"List<{x}>"
        for t, b in f.bounds:
            if t in iters and re.fullmatch(itre, b): continue
            m = re.fullmatch(r"From<(\w+)>", b)
            if t in self.types and m and m.group(1) in self.tvars:
                self.convs[(t, m.group(1))] = f"{t}_from_{m.group(1)}"
                continue
            raise Unsupported(f"bound `{t}: {b}`")
        for name in self.tvars + list(self.aliases):
            if name in self.types or name in LEAN_RESERVED: raise Unsupported(f"type parameter named {name}")
        parts = []
        if self.tvars: parts.append("{" + " ".join(self.tvars) + " : Type}")
        parts += [f"({n} : {a} → {u})" for (u, a), n in self.convs.items()]
        if self.scalar == "S" and scal:
            parts = ["{α : Type} [C12.Scal α]"] + parts
        if self.scalar == "K13" and scal:
            parts = [self.cfg.get("scalar_sig", "{R : Type} [Zero R] [One R] [Add R] [DecidableEq R]")] + parts
        if self.cfg.get("eops"):
            parts = ["{α : Type} {m n : Nat} (e : C09.EOps α)"] + (["(dbg : Bool)"] if self.cfg.get("dbg_param") else []) + parts
        self.gsig = " ".join(parts)
        self.gargs = (["(m := m)", "(n := n)", "e"] + (["dbg"] if self.cfg.get("dbg_param") else [])
                      if self.cfg.get("eops") else []) + [n for n in self.convs.values()]
        if self.scalar == "K13" and scal: self.gargs = ["(R := R)"] + self.gargs
        if self.cfg.get("abs"):
            ab = self.cfg["abs"]
            is_m = getattr(f_orig, "ty", None) in self.mod.structs
            self.gsig = " ".join([ab["sig_struct"] if is_m else ab["sig_free"]] + ([self.gsig] if self.gsig else []))
            self.gargs = (["(I := I)"] if is_m else []) + ["K"] + self.gargs

    def fresh(self):
        self.ntmp += 1
        return f"{self.tmp}{self.ntmp}"

    # -- pretty printer
    def body_lines(self, code, ind, monadic):
        if not code.items:
            return self.final_lines(code, ind, monadic)
        return ([ind + "do"] if monadic else []) + self.code_lines(code, ind + ("  " if monadic else ""), monadic)

    def final_lines(self, code, ind, monadic):
        k, t = code.final
        if k == "pure":
            if not isinstance(t, str): return self.term_lines("", t, ind, monadic)
            return [ind + (f"Res.ok {t}" if monadic else unpar(t))]
        return self.term_lines("", t, ind, True)

    def code_lines(self, code, ind, monadic):
        out = []
        for k, pat, t in code.items:
            if k == "bind" and t == "Res.panic": t = "(Res.panic : Res Unit)"
            if k == "bind": out += self.term_lines(f"let {pat} ← ", t, ind, True)
            elif k == "let": out += self.term_lines(f"let {pat} := ", t, ind, False)
            else: out += self.term_lines("", t, ind, True)
        return out + self.final_lines(code, ind, monadic)

    def term_lines(self, prefix, t, ind, monadic):
        if isinstance(t, str):
            return [ind + prefix + (unpar(t) if prefix else t)]
        if isinstance(t, Blk):
            out = self.block_lines(t.code, ind + "  ", monadic)
            out[0] = ind + prefix + out[0].lstrip()
            return out
        out = [ind + prefix + "(if " + unpar(t.cond) + " then"]
        out += self.block_lines(t.th, ind + "    ", monadic)
        out += [ind + "  else"]
        out += self.block_lines(t.el, ind + "    ", monadic)
        out[-1] += ")"
        return out

    def block_lines(self, code, ind, monadic):
        if not code.items:
            return self.final_lines(code, ind, monadic)
        if monadic:
            out = [ind + "(do"] + self.code_lines(code, ind + "  ", True)
        else:
            out = self.code_lines(code, ind + " ", False)
            out[0] = ind + "(" + out[0].lstrip()
        out[-1] += ")"
        return out

    # -- blocks and statements
    def tup(self, env, names):
        ls = [env[n][0] for n in names]
        if not ls: return "()"
        return ls[0] if len(ls) == 1 else "(" + ", ".join(ls) + ")"

    def has_jump(self, n):
        """does the node contain `return` / `continue` / `break` / `loop` (outside closures and nested fns)?"""
        if isinstance(n, (list, tuple)): return any(self.has_jump(x) for x in n)
        if not isinstance(n, N): return False
        if n.kind in ("return", "continue", "break", "loop"): return True
        if n.kind == "closure": return False
        return any(self.has_jump(v) for k, v in n.__dict__.items() if k != "fns")

    def idents(self, n, acc=None):
        acc = set() if acc is None else acc
        self.walk(n, lambda x: acc.update(x.segs[:1]) if x.kind == "path" else None)
        return acc

    def mode_end(self, mode):
        """continuation at the end of a block translated in `mode`: (wants a value?, fn(items, term, type, env) -> Code)"""
        if mode[0] == "value":
            def k(its, term, ty, env):
                if term is None:
                    if mode[1] not in (None, "()"): raise Unsupported("block without a value where one is needed")
                    self.last_ty = "()"
                    return Code(its, ("pure", "()"))
                if mode[1] is not None and not self.compat(mode[1], ty):
                    raise Unsupported(f"value of type {ty} where {mode[1]} is expected")
                self.last_ty = ty
                return mk_code(its, term)
            return True, k
        if mode[0] == "vars":
            return False, (lambda its, term, ty, env: mk_code(its, self.tup(env, mode[1])))
        if mode[0] == "loop":
            _, head, ro, st = mode
            return False, (lambda its, term, ty, env: Code(its, ("m", " ".join([head] + [env[n][0] for n in ro + st]))))
        if mode[0] == "mutval":
            def k2(its, term, ty, env):
                if term is None: raise Unsupported("block without a value where one is needed")
                if not self.compat(mode[1], ty): raise Unsupported(f"value of type {ty} where {mode[1]} is expected")
                self.last_ty = ty
                return Code(list(its), ("pure", f"({env['self'][0]}, {unpar(term)})"))
            return True, k2
        if mode[0] == "mutvalp":
            def k3(its, term, ty, env):
                if term is None: raise Unsupported("block without a value where one is needed")
                if mode[1] is not None and not self.compat(mode[1], ty):
                    raise Unsupported(f"value of type {ty} where {mode[1]} is expected")
                self.last_ty = ty
                return Code(list(its), ("pure", "(" + ", ".join([env[x][0] for x in mode[2]] + [unpar(term)]) + ")"))
            return True, k3
        if mode[0] == "forbody":
            return False, (lambda its, term, ty, env: Code(list(its), ("pure", f"(Ctl.next {self.tup(env, mode[1])})")))
        raise AssertionError(mode)

    def seq_k(self, stmts, tail, env, K, rest_ids=frozenset()):
        """CPS translation of a statement sequence that contains jumps; K = (wants value, continuation) is applied at
        its end.  `rest_ids`: identifiers used by the code the continuation stands for (scope check)"""
        if self.cfg.get("lmat"): stmts = self.fuse_views(list(stmts))
        items = []
        for i, st in enumerate(stmts):
            if self.has_jump(st):
                rs, rt = stmts[i + 1:], tail
                ids = frozenset(self.idents(rs) | self.idents(rt)) | rest_ids
                if st.kind == "let" and getattr(st, "els", None) is not None and not self.has_jump(st.init):
                    its0, term0, ty0 = self.tr(st.init, env)
                    if not (ty0.startswith("Option<") and ty0 != "Option<_>"):
                        raise Unsupported(f"`let Some(..)` on {ty0} (line {st.line})")
                    if not re.fullmatch(r"[\w.]+", term0):
                        r0 = self.fresh(); its0 = its0 + [("let", r0, term0)]; term0 = r0
                    env2 = dict(env)
                    ln = self.ident(st.name)
                    env2[st.name] = (ln, ty0[7:-1], False)
                    c1 = self.seq_k(rs, rt, env2, K, rest_ids)
                    th = Code([("bind", ln, f"Opt.unwrap {term0}")] + c1.items, c1.final)
                    el = self.expr_k(st.els, env, K, ids)
                    return Code(items + its0, ("m", IfTerm(f"Option.isSome {term0}", th, el)))
                if st.kind == "let":
                    def k(its, term, ty, env2, st=st):
                        out = list(its)
                        out += self.bind_pattern(st, [], term, ty, env2)
                        c = self.seq_k(rs, rt, env2, K, rest_ids)
                        return Code(out + c.items, c.final)
                    c = self.expr_k(st.init, env, (True, k), ids)
                else:
                    def k(its, term, ty, env2):
                        c = self.seq_k(rs, rt, env2, K, rest_ids)
                        return Code(list(its) + c.items, c.final)
                    c = self.expr_k(st.e, env, (False, k), ids)
                return Code(items + c.items, c.final)
            if st.kind == "let":
                for nm in ([st.name] if st.pat is None else [x for x, _ in st.pat]):
                    if nm != "_" and nm in rest_ids and nm in self.scope_outer:
                        raise Unsupported(f"`let {nm}` in a branch that is followed by code using an outer `{nm}` (line {st.line})")
            self.cur_rest = (stmts[i + 1:], tail)
            items += self.tr_stmt(st, env)
            self.cur_rest = None
        if tail is None:
            c = K[1]([], None, "()", env)
        else:
            c = self.expr_k(tail, env, K, rest_ids)
        return Code(items + c.items, c.final)

    def expr_k(self, e, env, K, rest_ids):
        while e.kind == "paren": e = e.e
        line = getattr(e, "line", 0)
        if not self.has_jump(e):
            if K[0]:
                if e.kind in ("assign", "while", "for") or (e.kind == "if" and e.el is None):
                    its = self.tr_stmt(N("expr", e=e, line=line), env)
                    return K[1](its, None, "()", env)
                its, t, ty = self.tr(e, env)
                return K[1](its, t, ty, env)
            its = self.tr_stmt(N("expr", e=e, line=line), env)
            return K[1](its, None, "()", env)
        if e.kind == "return":
            return self.do_return(e, env)
        if e.kind in ("continue", "break"):
            label = getattr(e, "label", None)
            fc = self.for_ctx
            if fc is not None and label is None:
                return Code([], ("pure", f"(Ctl.{'next' if e.kind == 'continue' else 'stop'} {self.tup(env, fc['st'])})"))
            if fc is not None:
                oc = fc["outer_loop"]
                if oc is not None and len(oc) > 3 and oc[3].get("label") == label and e.kind == "continue":
                    fc["exits"] = True
                    return Code([], ("pure", f"(Ctl.exit {self.tup(env, fc['st'])})"))
                raise Unsupported(f"`{e.kind} {label}` (line {line})")
            if self.loop_ctx is None: raise Unsupported(f"`{e.kind}` outside a loop (line {line})")
            lc = self.loop_ctx
            if label is not None and not (len(lc) > 3 and lc[3].get("label") == label):
                raise Unsupported(f"`{e.kind} {label}` (line {line})")
            head, ro, st = lc[0], lc[1], lc[2]
            if e.kind == "continue":
                return Code([], ("m", " ".join([head] + [env[n][0] for n in ro + st])))
            if not (len(lc) > 3 and lc[3].get("brk")): raise Unsupported(f"`break` (line {line})")
            return Code([], ("pure", self.tup(env, st)))
        if e.kind == "loop":
            return self.tr_loop(e, env, K, rest_ids)
        if e.kind == "for":
            return self.tr_for_range(e, env, K, rest_ids)
        if e.kind == "block":
            saved = self.scope_outer
            self.scope_outer = set(env)
            try:
                return self.seq_k(list(e.stmts), e.tail, dict(env), K, rest_ids)
            finally:
                self.scope_outer = saved
        if e.kind == "if":
            if self.has_jump(e.c): raise Unsupported(f"jump inside an `if` condition (line {line})")
            its, c, cty = self.tr(e.c, env)
            if cty != "bool": raise Unsupported(f"`if` condition of type {cty} (line {line})")
            th = self.expr_k(e.th, env, K, rest_ids)
            if e.el is not None:
                el = self.expr_k(e.el, env, K, rest_ids)
            else:
                el = K[1]([], None, "()", dict(env))
            return Code(its, ("m" if (th.monadic() or el.monadic()) else "pure", IfTerm(c, th, el)))
        if e.kind == "match":
            return self.match_k(e, env, K, rest_ids)
        raise Unsupported(f"`return`/`continue`/`loop` inside this kind of expression ({e.kind}) (line {line})")

    def do_return(self, e, env):
        mode = self.fn_mode
        if self.loop_ctx is None and mode is None: raise Unsupported("`return` outside a function body")
        if self.for_ctx is not None or (self.loop_ctx is not None and len(self.loop_ctx) > 3 and self.loop_ctx[3].get("brk")):
            raise Unsupported(f"`return` inside a `for` loop / a `loop` with `break` (line {e.line})")
        if mode[0] == "mutval":
            if e.e is None or self.has_jump(e.e): raise Unsupported(f"`return` without a value (line {e.line})")
            its, t, ty = self.tr(e.e, env)
            if not self.compat(mode[1], ty): raise Unsupported(f"`return` of {ty} where {mode[1]} is expected (line {e.line})")
            return Code(list(its), ("pure", f"({env['self'][0]}, {unpar(t)})"))
        if mode[0] == "vars":
            if e.e is not None: raise Unsupported(f"`return` with a value in a `&mut self` method (line {e.line})")
            return mk_code([], self.tup(env, mode[1]))
        if e.e is None:
            if mode[1] != "()": raise Unsupported(f"`return` without a value (line {e.line})")
            return Code([], ("pure", "()"))
        if self.has_jump(e.e): raise Unsupported(f"jump inside the operand of `return` (line {e.line})")
        its, t, ty = self.tr(e.e, env)
        if not self.compat(mode[1], ty): raise Unsupported(f"`return` of {ty} where {mode[1]} is expected (line {e.line})")
        return mk_code(its, t)

    def loop_breaks(self, body, label):
        """does the body contain a `break` that leaves this loop?"""
        found = [False]

        def go(n_, depth):
            if isinstance(n_, (list, tuple)):
                for v in n_: go(v, depth)
                return
            if not isinstance(n_, N): return
            if n_.kind == "break" and ((getattr(n_, "label", None) is None and depth == 0) or
                                       (label is not None and getattr(n_, "label", None) == label)):
                found[0] = True
            d2 = depth + 1 if n_.kind in ("for", "while", "loop") else depth
            if n_.kind == "closure": return
            for k_, v in n_.__dict__.items():
                if k_ != "fns": go(v, d2)
        go(body, 0)
        return found[0]

    def tr_loop_brk(self, e, env, K, rest_ids):
        """`loop { … break … }`: a fuel function returning the state at the `break`; the code after the loop follows"""
        if self.loop_ctx is not None or self.for_ctx is not None: raise Unsupported(f"nested `loop` (line {e.line})")
        st = self.mutated(e.body, env)
        used = self.used(e.body, env)
        ro = [x for x in env if x in used and x not in st]
        self.nloop += 1
        fname = f"{self.lean_fn(self.cur)}_loop{self.nloop}"
        opq = list(self.uses_opaque)
        head = " ".join([fname] + self.gargs + opq + ["fuel"])
        self.loop_ctx = (head, ro, st, dict(label=getattr(e, "label", None), brk=True))
        saved = self.scope_outer
        self.scope_outer = set(env)
        try:
            body = self.seq_k(list(e.body.stmts), e.body.tail, dict(env), self.mode_end(("loop", head, ro, st)))
        finally:
            self.loop_ctx = None
            self.scope_outer = saved
        sig = " ".join([f"({env[x][0]} : {unpar(self.lean_ty(env[x][1]))})" for x in ro + st])
        rty = ("(" + " × ".join(self.lean_ty(env[x][1]) for x in st) + ")") if len(st) > 1 else \
            (self.lean_ty(env[st[0]][1]) if st else "Unit")
        psty = self.lean_ty(self.cur.ty) if self.cur.ty in self.types else None
        osig = " ".join(f"({o_} : {unpar(psty)} → Res {psty})" for o_ in opq)
        lines = [f"/-- the `loop` #{self.nloop} of `{self.cur.rust_name}` (fuel-bounded, left by `break`; state: {', '.join(st) or 'none'}) -/",
                 f"def {fname} " + (self.gsig + " " if self.gsig else "") + (osig + " " if osig else "") + "(fuel : Nat)" +
                 (" " + sig if sig else "") + f" : Res {rty} :=",
                 "  match fuel with", "  | 0 => Res.err", "  | fuel + 1 =>"]
        lines += self.body_lines(body, "    ", True)
        self.aux.append("\n".join(lines) + "\n")
        pat = self.tup(env, st)
        call = " ".join([fname] + self.gargs + opq + [self.fuel_name()] + [env[x][0] for x in ro + st])
        rest = K[1]([], None, "()", env)
        return Code([("bind", pat if st else "_", call)] + rest.items, rest.final)

    def tr_loop(self, e, env, K=None, rest_ids=frozenset()):
        """`loop { … }` without `break`: a fuel function whose result is the function's result; `continue` and the
        end of the body re-enter it, `return e` leaves it"""
        if K is not None and self.loop_breaks(e.body, getattr(e, "label", None)):
            return self.tr_loop_brk(e, env, K, rest_ids)
        if self.fn_mode is None or self.fn_mode[0] != "value":
            raise Unsupported(f"`loop` in a `&mut self` method (line {e.line})")
        if self.loop_ctx is not None: raise Unsupported(f"nested `loop` (line {e.line})")
        st = self.mutated(e.body, env)
        used = self.used(e.body, env)
        ro = [n for n in env if n in used and n not in st]
        self.nloop += 1
        fname = f"{self.lean_fn(self.cur)}_loop{self.nloop}"
        head = " ".join([fname] + self.gargs + ["fuel"])
        self.loop_ctx = (head, ro, st)
        saved = self.scope_outer
        self.scope_outer = set(env)
        try:
            body = self.seq_k(list(e.body.stmts), e.body.tail, dict(env), self.mode_end(("loop", head, ro, st)))
        finally:
            self.loop_ctx = None
            self.scope_outer = saved
        sig = " ".join([f"({env[n][0]} : {unpar(self.lean_ty(env[n][1]))})" for n in ro + st])
        rty = self.lean_ty(self.fn_mode[1])
        lines = [f"/-- the `loop` #{self.nloop} of `{self.cur.rust_name}` (fuel-bounded; state: {', '.join(st) or 'none'}) -/",
                 f"def {fname} " + (self.gsig + " " if self.gsig else "") + "(fuel : Nat)" + (" " + sig if sig else "") + f" : Res {rty} :=",
                 "  match fuel with", "  | 0 => Res.err", "  | fuel + 1 =>"]
        lines += self.body_lines(body, "    ", True)
        self.aux.append("\n".join(lines) + "\n")
        return Code([], ("m", " ".join([fname] + self.gargs + [self.fuel_name()] + [env[n][0] for n in ro + st])))

    def closure_def(self, c, argtys, env):
        """an auxiliary definition for the closure c (its captured variables become leading parameters);
        returns (name, captured argument terms, result type, monadic?)"""
        if len(c.params) != len(argtys): raise Unsupported(f"closure with {len(c.params)} parameters (line {c.line})")
        if self.has_jump(c.body) or self.mutated(c.body, env):
            raise Unsupported(f"closure that assigns captured variables or jumps (line {c.line})")
        env2, sig, pre = dict(env), [], []
        bound = set()
        for k_, (p_, ty) in enumerate(zip(c.params, argtys)):
            if isinstance(p_, tuple):
                def bindp(pp, ty_):
                    tys_ = split_top(ty_[1:-1]) if ty_.startswith("(") else []
                    if len(tys_) != len(pp): raise Unsupported(f"closure pattern for an argument of type {ty_} (line {c.line})")
                    outp = []
                    for n, t_ in zip(pp, tys_):
                        if isinstance(n, tuple): outp.append(bindp(n, t_))
                        elif n == "_": outp.append("_")
                        else:
                            env2[n] = (self.ident(n), t_, False); bound.add(n); outp.append(self.ident(n))
                    return "(" + ", ".join(outp) + ")"
                an = f"x{k_}"
                sig.append((an, ty))
                pre.append(("let", bindp(p_, ty), an))
            else:
                an = "_" if p_ == "_" else self.ident(p_)
                sig.append((an if an != '_' else 'x' + str(k_), ty))
                if p_ != "_": env2[p_] = (an, ty, p_ in getattr(c, "mutps", set())); bound.add(p_)
        if getattr(c, "mutps", None) and not self.cfg.get("sp13"):
            raise Unsupported(f"closure with a `mut` parameter (line {c.line})")
        used = self.used(c.body, env)
        cap = [n for n in env if n in used and n not in bound]
        self.nloop += 1
        cnum_ = self.nloop
        cname = f"{self.lean_fn(self.cur)}_closure{self.nloop}"
        saved_fuel = self.uses_fuel
        self.uses_fuel = False
        code = self.tr_block(N("block", stmts=[], tail=c.body), env2, ("value", None))
        cret = self.last_ty
        code = Code(pre + code.items, code.final)
        fuel_here = self.uses_fuel
        self.uses_fuel = saved_fuel or fuel_here
        mon = code.monadic()
        sig = [f"({an_} : {unpar(self.lean_ty(ty_))})" for an_, ty_ in sig]
        csig = " ".join(([self.gsig] if self.gsig else []) + (["(fuel : Nat)"] if fuel_here else []) +
                        [f"({env[n][0]} : {unpar(self.lean_ty(env[n][1]))})" for n in cap] + sig)
        lret = self.lean_ty(cret)
        lines = [f"/-- closure #{cnum_} of `{self.cur.rust_name}` (captures: {', '.join(cap) or 'none'}) -/",
                 f"def {cname} {csig} : " + (f"Res {lret}" if mon else unpar(lret)) + " :="]
        lines += self.body_lines(code, "  ", mon)
        self.aux.append("\n".join(lines) + "\n")
        return cname, self.gargs + (["fuel"] if fuel_here else []) + [env[n][0] for n in cap], cret, mon

    def fuel_name(self):
        if self.cfg["fuel_param"]:
            self.uses_fuel = True
            return "fuel"
        return "loopFuel"

    def fuse_views(self, stmts):
        """`let mut v = PLACE.inner_mut().column_mut(j); v.swap_rows(a, b);` ↦ one statement on PLACE"""
        out, k = [], 0
        while k < len(stmts):
            st = stmts[k]
            if (st.kind == "let" and st.mut and st.init.kind == "mcall" and st.init.name == "column_mut" and
                    len(st.init.args) == 1 and st.init.recv.kind == "mcall" and st.init.recv.name == "inner_mut" and
                    k + 1 < len(stmts) and stmts[k + 1].kind == "expr" and stmts[k + 1].e.kind == "mcall" and
                    stmts[k + 1].e.name == "swap_rows" and stmts[k + 1].e.recv.kind == "path" and
                    stmts[k + 1].e.recv.segs == [st.name] and len(stmts[k + 1].e.args) == 2 and
                    st.name not in self.idents(stmts[k + 2:])):
                out.append(N("expr", line=st.line, e=N("colswap", place=st.init.recv.recv, j=st.init.args[0],
                                                       a=stmts[k + 1].e.args[0], b=stmts[k + 1].e.args[1], line=st.line)))
                k += 2
            else:
                out.append(st); k += 1
        return out

    def tr_block(self, block, env, mode):
        if self.cfg.get("lmat"):
            block = N("block", stmts=self.fuse_views(list(block.stmts)), tail=block.tail,
                      uses=getattr(block, "uses", []), fns=getattr(block, "fns", []))
        if self.has_jump(block) or mode[0] in ("mutval", "forbody", "mutvalp"):
            saved = self.scope_outer
            self.scope_outer = set(env)
            try:
                return self.seq_k(list(block.stmts), block.tail, dict(env), self.mode_end(mode))
            finally:
                self.scope_outer = saved
        env = dict(env)
        items = []
        for k_, st in enumerate(block.stmts):
            self.cur_rest = (block.stmts[k_ + 1:], block.tail)
            items += self.tr_stmt(st, env)
            self.cur_rest = None
        tail = block.tail
        if mode[0] == "value":
            if tail is None:
                if mode[1] != "()": raise Unsupported("block without a value where one is needed")
                return Code(items, ("pure", "()"))
            if tail.kind in ("assign", "while", "for") or (tail.kind == "if" and tail.el is None):
                if self.mutated(tail, env): raise Unsupported(f"assignment in a value block (line {tail.line})")
                items += self.tr_stmt(N("expr", e=tail, line=tail.line), env)
                self.last_ty = "()"
                return Code(items, ("pure", "()"))
            its, term, ty = self.tr(tail, env)
            if mode[1] is not None and ty != "!" and not self.compat(mode[1], ty):
                raise Unsupported(f"value of type {ty} where {mode[1]} is expected (line {tail.line})")
            self.last_ty = ty
            return mk_code(items + its, term)
        if tail is not None:
            items += self.tr_stmt(N("expr", e=tail, line=tail.line), env)
        if mode[0] == "vars":
            return mk_code(items, self.tup(env, mode[1]))
        if mode[0] == "loop":
            _, head, ro, st = mode
            call = " ".join([head] + [env[n][0] for n in ro + st])
            return Code(items, ("m", call))
        raise AssertionError(mode)

    def bind_or_let(self, items, its, term, pat):
        """items for `pat := term` after `its`; reuses the last binding when it defines `term`"""
        its = list(its)
        if its and its[-1][1] == term and its[-1][0] in ("bind", "let") and re.fullmatch(self.tmp + r"\d+", term):
            k, _, t = its.pop()
            its.append((k, pat, t))
        else:
            its.append(("let", pat, term))
        items += its

    def tr_stmt(self, st, env):
        items = []
        if st.kind == "let":
            init = st.init
            while init.kind == "paren": init = init.e
            if getattr(st, "pat", None) is not None and init.kind == "tuple" and len(init.es) == len(st.pat):
                # `let (a, b) = (e1, e2)`: componentwise
                its, comps = [], []
                for x in init.es:
                    i2, t, ty = self.tr(x, env)
                    its += i2; comps.append((t, ty))
                return its + self.bind_components([(nm, m) for nm, m in st.pat], comps, env, st.line)
            if self.cfg.get("csc") and st.pat is None and getattr(st, "els", None) is None:
                r_ = self.tr_lazy_map(st, env)
                if r_ is not None: return r_
            if (self.cfg.get("sp13") or self.cfg.get("cscx")) and st.pat is None and getattr(st, "els", None) is None \
                    and init.kind == "closure" and not st.mut:
                if self.mutated(init.body, env) or self.has_jump(init.body) or any(isinstance(p_, tuple) for p_ in init.params):
                    raise Unsupported(f"local closure of this form (line {st.line})")
                env[st.name] = ("<closure>", "CLOSURE", False)
                self.local_closures[(self.cur.key, st.name)] = (init, dict(env))
                return []
            its, term, ty = self.tr(st.init, env)
            if getattr(st, "els", None) is not None:
                # `let Some(x) = e else { diverges }`; here the else block panics (a jumping one is handled by seq_k)
                if not (ty.startswith("Option<") and ty != "Option<_>"): raise Unsupported(f"`let Some(..)` on {ty} (line {st.line})")
                els_ = st.els
                if els_.tail is None and len(els_.stmts) == 1 and els_.stmts[0].kind == "expr" and els_.stmts[0].e.kind == "macro":
                    els_ = N("block", stmts=[], tail=els_.stmts[0].e, uses=[], fns=[])
                if not (els_.tail is not None and els_.tail.kind == "macro" and not els_.stmts and
                        els_.tail.name in ("panic", "unreachable")):
                    raise Unsupported(f"`let … else` whose else block is not a `panic!` (line {st.line})")
                ln = self.ident(st.name)
                env[st.name] = (ln, ty[7:-1], False)
                return its + [("bind", ln, f"Opt.unwrap {term}")]
            return self.bind_pattern(st, its, term, ty, env)
        e = st.e
        while e.kind == "paren": e = e.e
        if self.cfg.get("abs"):
            r_ = self.tr_stmt_abs(e, env)
            if r_ is not None: return r_
        if e.kind == "assign":
            return self.tr_assign(e, env)
        if e.kind == "if":
            return self.tr_if_stmt(e, env)
        if e.kind == "while":
            return self.tr_while(e, env)
        if e.kind == "for":
            return self.tr_for(e, env)
        if e.kind == "block":
            mv = self.mutated(e, env)
            code = self.tr_block(e, env, ("vars", mv))
            return self.splice(code, self.tup(env, mv), mv)
        if e.kind == "match" and self.cfg.get("sp13") and self.mutated(e, env) and not self.has_jump(e):
            mv = self.mutated(e, env)
            its, arms0 = self.match_arms(e, env)
            pat = self.tup(env, mv)
            codes = []
            for cond, env2, body in arms0:
                blk = body if body.kind == "block" else N("block", stmts=[N("expr", e=body, line=e.line)], tail=None, uses=[], fns=[])
                codes.append((cond, self.tr_block(blk, env2, ("vars", mv))))
            chain = codes[-1][1]
            for cond, code in reversed(codes[:-1]):
                chain = Code([], ("m" if (code.monadic() or chain.monadic()) else "pure", IfTerm("decide (" + cond + ")", code, chain)))
            return its + self.splice(chain, pat, mv)
        if e.kind == "macro":
            its, term, ty = self.tr(e, env)
            return its
        if e.kind == "macro" and e.name in NOOP_MACROS:
            return []
        if e.kind == "colswap":
            root, field = self.place(e.place, env)
            ln = env[root][0]
            pty = env[root][1] if field is None else self.field_ty(env[root][1], field, e.line)
            if pty != "LM": raise Unsupported(f"`column_mut` on a value of type {pty} (line {e.line})")
            its, ts = [], []
            for x in (e.j, e.a, e.b):
                i2, t, ty = self.tr(x, env)
                its += i2; ts.append(t)
            cur = ln if field is None else f"{ln}.{field}"
            r = self.fresh()
            its += [("bind", r, " ".join(["LMat.col_swap_rows", cur] + ts))]
            return its + [("let", ln, r if field is None else f"{{ {ln} with {field} := {r} }}")]
        if e.kind == "iflet":
            sc_ = e.s
            while sc_.kind == "paren": sc_ = sc_.e
            if e.el is None and sc_.kind == "mcall" and sc_.name == "as_mut" and not sc_.args:
                return self.tr_iflet_mut(e, env)
            return self.tr_iflet_stmt(e, env)
        if e.kind == "mcall" and (self.cfg.get("csc") or self.cfg.get("sp13")):
            r_ = self.tr_vec_stmt(e, env)
            if r_ is not None: return r_
        if e.kind == "mcall" and (e.name in MAT_MUT or e.name in LMAT_MUT):
            r_ = self.tr_mat_mut(e, env)
            if r_ is not None: return r_
        if e.kind == "mcall":
            desug = self.desugar_mut_builtin(e, env)
            if desug is not None:
                return self.tr_assign(desug, env)
            callee, rty = self.resolve_method(e, env)
            if callee is not None and callee.selfk == "mut":
                return self.tr_mut_call(e, callee, env)
        if e.kind in ("return", "continue", "break", "loop"):
            raise Unsupported(f"`{e.kind}` in this position (line {e.line})")
        its, term, ty = self.tr(e, env)       # evaluated for its panics only
        return its

    def vec_place(self, recv, env):
        """a mutable local / `&mut` parameter of list type that a `push` / `reverse` statement updates, or None"""
        r = recv
        while r.kind == "paren": r = r.e
        if r.kind == "path" and len(r.segs) == 1 and r.segs[0] in env and env[r.segs[0]][2] and \
                resolve_ty(env[r.segs[0]][1]).startswith("List<"):
            return r.segs[0]
        return None

    def upd_field(self, ln, rty, field, new):
        """Lean term of the value `ln : rty` with its field (struct field / tuple component) replaced by `new`"""
        rty = resolve_ty(rty)
        if rty.startswith("(") and field.isdigit():
            n_ = len(split_top(rty[1:-1]))
            return "(" + ", ".join(unpar(new) if k_ == int(field) else self.tuple_proj(ln, k_, n_) for k_ in range(n_)) + ")"
        return f"{{ {ln} with {field} := {unpar(new)} }}"

    def get_field(self, ln, rty, field):
        rty = resolve_ty(rty)
        if rty.startswith("(") and field.isdigit():
            return self.tuple_proj(ln, int(field), len(split_top(rty[1:-1])))
        return f"{ln}.{field}"

    def vec_field_place(self, recv, env):
        """`x.f` with x a mutable struct variable and f a field of list type (or `x.0` of a mutable tuple variable):
        (root, field, field type) or None"""
        r = recv
        while r.kind == "paren": r = r.e
        if r.kind == "field" and r.e.kind == "path" and len(r.e.segs) == 1 and r.e.segs[0] in env and env[r.e.segs[0]][2] \
                and r.name.isdigit() and resolve_ty(env[r.e.segs[0]][1]).startswith("("):
            comps = split_top(resolve_ty(env[r.e.segs[0]][1])[1:-1])
            if int(r.name) < len(comps) and comps[int(r.name)].startswith("List<"):
                return r.e.segs[0], r.name, comps[int(r.name)]
            return None
        if r.kind == "field" and r.e.kind == "path" and len(r.e.segs) == 1 and r.e.segs[0] in env and env[r.e.segs[0]][2] \
                and env[r.e.segs[0]][1] in self.mod.structs:
            try:
                fty = self.field_ty(env[r.e.segs[0]][1], r.name, 0)
            except Unsupported:
                return None
            if fty.startswith("List<"): return r.e.segs[0], r.name, fty
        return None

    def field_nodes(self, nodes):
        out = []

        def f_(n):
            if n.kind == "field": out.append(n)
        self.walk(nodes, f_)
        return out

    def abs_getmut(self, sc, env):
        """`x.F.get_mut(&k)` or `x.m(k)` with `fn m(&mut self, i) -> Option<&mut _> { self.F.get_mut(&i) }`:
        (root variable, field, key expression) or None"""
        while sc.kind == "paren": sc = sc.e
        if sc.kind != "mcall": return None
        r = sc.recv
        while r.kind == "paren": r = r.e
        if sc.name == "get_mut" and len(sc.args) == 1 and r.kind == "field" and r.e.kind == "path" and len(r.e.segs) == 1 \
                and r.e.segs[0] in env and env[r.e.segs[0]][2] and env[r.e.segs[0]][1] in self.mod.structs:
            k = sc.args[0]
            while k.kind in ("paren",) or (k.kind == "un" and k.op == "&"): k = k.e
            return r.e.segs[0], r.name, k
        if r.kind == "path" and len(r.segs) == 1 and r.segs[0] in env and env[r.segs[0]][2] and env[r.segs[0]][1] in self.mod.structs:
            c = self.find_fn(env[r.segs[0]][1], sc.name, None)
            if c is not None and getattr(c, "ret_mut", False) and c.selfk == "mut" and len(c.params) == 1 and len(sc.args) == 1:
                body = Parser(list(c.toks), c.body[0], c.body[1]).block()
                t_ = body.tail
                if not body.stmts and t_ is not None and t_.kind == "mcall" and t_.name == "get_mut" and len(t_.args) == 1 and \
                        t_.recv.kind == "field" and t_.recv.e.kind == "path" and t_.recv.e.segs == ["self"]:
                    k = t_.args[0]
                    while k.kind in ("paren",) or (k.kind == "un" and k.op == "&"): k = k.e
                    if k.kind == "path" and k.segs == [c.params[0][0]]:
                        return r.segs[0], t_.recv.name, sc.args[0]
        return None

    def tr_stmt_abs(self, e, env):
        """statements of target option `abs`: map insertion, in-place update of a map entry, mutating methods of the
        abstract types, `for v in vs.iter_mut()`"""
        ab = self.cfg["abs"]
        line = getattr(e, "line", 0)
        if e.kind == "mcall" and e.name == "insert" and len(e.args) == 2:
            r = e.recv
            while r.kind == "paren": r = r.e
            if r.kind == "field" and r.e.kind == "path" and len(r.e.segs) == 1 and r.e.segs[0] in env and env[r.e.segs[0]][2] \
                    and env[r.e.segs[0]][1] in self.mod.structs:
                ln, sty, _ = env[r.e.segs[0]]
                fty = self.field_ty(sty, r.name, line)
                if fty.startswith("MAP<"):
                    kt, vt = split_top(fty[4:-1])
                    i1, k_, tk = self.tr(e.args[0], env)
                    i2, v_, tv = self.tr(e.args[1], env)
                    if not (self.compat(kt, tk) and self.compat(vt, tv)): raise Unsupported(f"`insert` of ({tk}, {tv}) into {fty} (line {line})")
                    return i1 + i2 + [("let", ln, f"{{ {ln} with {r.name} := HMap.insert {ln}.{r.name} {k_} {v_} }}")]
        if e.kind == "mcall" and len(e.args) == 1:
            r = e.recv
            while r.kind == "paren": r = r.e
            if r.kind == "path" and len(r.segs) == 1 and r.segs[0] in env and env[r.segs[0]][2] and \
                    (env[r.segs[0]][1], e.name, 1) in ab["mut_methods"]:
                fld, ptys = ab["mut_methods"][(env[r.segs[0]][1], e.name, 1)]
                ln = env[r.segs[0]][0]
                its, ts = self.abs_args(e.args, ptys, env, f".{e.name}", line)
                return its + [("bind", ln, " ".join([fld, ln] + ts))]
        if e.kind == "iflet" and e.el is None:
            gm = self.abs_getmut(e.s, env)
            if gm is not None:
                root, field, kexp = gm
                ln, sty, _ = env[root]
                fty = self.field_ty(sty, field, line)
                if not fty.startswith("MAP<"): raise Unsupported(f"`get_mut` on a field of type {fty} (line {line})")
                kt, vt = split_top(fty[4:-1])
                if self.has_jump(e.th): raise Unsupported(f"jump inside `if let … get_mut()` (line {line})")
                mv = [x for x in self.mutated(e.th, env) if x != e.var]
                if mv: raise Unsupported(f"`if let … get_mut()` body assigns {', '.join(mv)} (line {line})")
                i1, k_, tk = self.tr(kexp, env)
                if not self.compat(kt, tk): raise Unsupported(f"`get_mut` with a key of type {tk} (line {line})")
                if not re.fullmatch(r"[\w.]+", k_):
                    r0 = self.fresh(); i1 = i1 + [("let", r0, k_)]; k_ = r0
                cur = self.fresh()
                v = self.ident(e.var)
                env2 = dict(env)
                env2[e.var] = (v, vt, True)
                body = self.tr_block(e.th, env2, ("vars", [e.var]))
                k2, t2 = body.final
                items = [("bind", v, f"Opt.unwrap {cur}")] + list(body.items)
                if k2 != "pure":
                    r2 = self.fresh(); items.append(("bind", r2, t2)); t2 = r2
                th = Code(items, ("pure", f"{{ {ln} with {field} := HMap.insert {ln}.{field} {k_} {unpar(t2)} }}"))
                return i1 + [("let", cur, f"HMap.get {ln}.{field} {k_}"),
                             ("bind", ln, IfTerm(f"Option.isSome {cur}", th, Code([], ("pure", ln))))]
        if e.kind == "for":
            it = e.it
            while it.kind == "paren": it = it.e
            if it.kind == "mcall" and it.name == "iter_mut" and not it.args:
                root = self.vec_place(it.recv, env)
                if root is None: raise Unsupported(f"`iter_mut()` on this kind of place (line {line})")
                if self.has_jump(e.body): raise Unsupported(f"jump inside a `for … in x.iter_mut()` loop (line {line})")
                ln, lty, _ = env[root]
                elt = resolve_ty(lty)[5:-1]
                mv = [x for x in self.mutated(e.body, env) if x != e.var]
                if mv: raise Unsupported(f"`for … in x.iter_mut()` body assigns {', '.join(mv)} (line {line})")
                used = self.used(e.body, env)
                ro = [n_ for n_ in env if n_ in used and n_ != e.var and n_ != root]
                self.nloop += 1
                fname = f"{self.lean_fn(self.cur)}_each{self.nloop}"
                env2 = dict(env)
                lv = self.ident(e.var)
                env2[e.var] = (lv, elt, True)
                saved_fuel = self.uses_fuel
                self.uses_fuel = False
                body = self.tr_block(e.body, env2, ("vars", [e.var]))
                fuel_here = self.uses_fuel
                self.uses_fuel = saved_fuel or fuel_here
                csig = " ".join(([self.gsig] if self.gsig else []) + (["(fuel : Nat)"] if fuel_here else []) +
                                [f"({env[x][0]} : {unpar(self.lean_ty(env[x][1]))})" for x in ro] +
                                [f"({lv} : {unpar(self.lean_ty(elt))})"])
                lines = [f"/-- body of the `for … in {root}.iter_mut()` loop #{self.nloop} of `{self.cur.rust_name}`: the new element -/",
                         f"def {fname} {csig} : Res {self.lean_ty(elt)} :="]
                lines += self.body_lines(body, "  ", True)
                self.aux.append("\n".join(lines) + "\n")
                fcall = "(" + " ".join([fname] + self.gargs + (["fuel"] if fuel_here else []) + [env[x][0] for x in ro]) + ")"
                return [("bind", ln, f"Iter.mapM {fcall} {ln}")]
        return None

    def tr_vec_stmt(self, e, env):
        """`v.push(x)`, `v.reverse()` on a list variable; `it.for_each(|p| body)` as a `for` loop"""
        if e.name == "push" and len(e.args) == 3 and self.cfg.get("sp13"):
            r0 = e.recv
            while r0.kind == "paren": r0 = r0.e
            if r0.kind == "path" and len(r0.segs) == 1 and r0.segs[0] in env and env[r0.segs[0]][2] and env[r0.segs[0]][1] == "CO":
                ln = env[r0.segs[0]][0]
                its, ts = [], []
                for a, want in zip(e.args, ("usize", "usize", "K13")):
                    i2, t, ty = self.tr(a, env)
                    if not self.compat(want, ty): raise Unsupported(f"`CooMatrix::push` argument of type {ty} (line {e.line})")
                    its += i2; ts.append(t)
                return its + [("bind", ln, " ".join(["Sp.Coo.push", ln] + ts))]
        fp = self.vec_field_place(e.recv, env) if self.cfg.get("sp13") else None
        if fp is not None and e.name in ("push", "append", "clear"):
            root, field, fty = fp
            ln, rty0 = env[root][0], env[root][1]
            cur_ = self.get_field(ln, rty0, field)
            if e.name == "clear" and not e.args:
                return [("let", ln, self.upd_field(ln, rty0, field, "[]"))]
            if e.name == "push" and len(e.args) == 1:
                its, t, tx = self.tr(e.args[0], env)
                if not self.compat(fty[5:-1], tx): raise Unsupported(f"`push` of {tx} onto a vector of {fty[5:-1]} (line {e.line})")
                return its + [("let", ln, self.upd_field(ln, rty0, field, f"{cur_} ++ [{unpar(t)}]"))]
            if e.name == "append" and len(e.args) == 1:
                a = e.args[0]
                while a.kind == "paren": a = a.e
                if a.kind == "un" and a.op == "&mut": a = a.e
                src = self.vec_field_place(a, env)
                if src is None and self.vec_place(a, env) is not None:
                    rest = self.cur_rest
                    if rest is None or a.segs[0] in (self.idents(list(rest[0])) | self.idents(rest[1])):
                        raise Unsupported(f"`{a.segs[0]}` is used after `append` emptied it (line {e.line})")
                    its, t, tx = self.tr(a, env)
                    if not self.compat(fty, resolve_ty(tx)): raise Unsupported(f"`append` of {tx} onto {fty} (line {e.line})")
                    return its + [("let", ln, self.upd_field(ln, rty0, field, f"{cur_} ++ {t}"))]
                if src is None: raise Unsupported(f"`append` of this form (line {e.line})")
                rest = self.cur_rest
                if rest is None or any(self.vec_field_place(n_, env) == src for n_ in self.field_nodes(list(rest[0]) + [rest[1]])):
                    raise Unsupported(f"`{src[0]}.{src[1]}` is used after `append` emptied it (line {e.line})")
                if not self.compat(fty, src[2]): raise Unsupported(f"`append` of {src[2]} onto {fty} (line {e.line})")
                sl = env[src[0]][0]
                return [("let", ln, self.upd_field(ln, rty0, field, f"{cur_} ++ {self.get_field(sl, env[src[0]][1], src[1])}"))]
            return None
        if e.name in ("append", "extend") and len(e.args) == 1 and self.cfg.get("sp13"):
            root = self.vec_place(e.recv, env)
            if root is None: return None
            ln, ty, _ = env[root]
            a = e.args[0]
            while a.kind == "paren": a = a.e
            if a.kind == "un" and a.op == "&mut": a = a.e          # `v.append(&mut w)`: `w` is left empty (and must be dead)
            its, t, tx = self.tr(a, env)
            if not self.compat(resolve_ty(ty), resolve_ty(tx)): raise Unsupported(f"`{e.name}` of {tx} onto {ty} (line {e.line})")
            if e.name == "append":
                if not (a.kind == "path" and len(a.segs) == 1): raise Unsupported(f"`append` of this form (line {e.line})")
                rest = self.cur_rest
                if rest is None or a.segs[0] in (self.idents(list(rest[0])) | self.idents(rest[1])):
                    raise Unsupported(f"`{a.segs[0]}` is used after `append` emptied it (line {e.line})")
            return its + [("let", ln, f"{ln} ++ {t}")]
        if e.name == "extend_cols" and len(e.args) == 1 and self.cfg.get("cscx"):
            r0 = e.recv
            while r0.kind == "paren": r0 = r0.e
            if r0.kind == "path" and len(r0.segs) == 1 and r0.segs[0] in env and env[r0.segs[0]][2] and env[r0.segs[0]][1] == "SM":
                ln = env[r0.segs[0]][0]
                its, t, ty = self.tr(e.args[0], env)
                if ty != "SM": raise Unsupported(f"`extend_cols` with an argument of type {ty} (line {e.line})")
                return its + [("bind", ln, f"SM.extend_cols {ln} {t}")]
        if e.name in ("push", "reverse"):
            root = self.vec_place(e.recv, env)
            if root is None: return None
            ln, ty, _ = env[root]
            if e.name == "reverse" and not e.args:
                return [("let", ln, f"List.reverse {ln}")]
            if e.name == "push" and len(e.args) == 1:
                its, t, tx = self.tr(e.args[0], env)
                if not self.compat(resolve_ty(ty)[5:-1], tx):
                    raise Unsupported(f"`push` of {tx} onto a vector of {resolve_ty(ty)[5:-1]} (line {e.line})")
                return its + [("let", ln, f"{ln} ++ [{unpar(t)}]")]
            return None
        if e.name == "for_each" and len(e.args) == 1 and e.args[0].kind == "closure" and len(e.args[0].params) == 1 and \
                e.recv.kind == "mcall" and e.recv.name == "iter_mut" and not e.recv.args and self.cfg.get("sp13"):
            # `v.iter_mut().for_each(|x| *x op= e)`: an in-place map
            c = e.args[0]
            root = self.vec_place(e.recv.recv, env)
            b = c.body
            while b.kind == "paren": b = b.e
            p_ = c.params[0]
            if root is None or isinstance(p_, tuple) or b.kind != "assign" or b.op == "=" or \
                    not (b.l.kind == "un" and b.l.op == "*" and b.l.e.kind == "path" and b.l.e.segs == [p_]):
                raise Unsupported(f"`iter_mut().for_each` of this form (line {e.line})")
            ln, ty, _ = env[root]
            newc = N("closure", params=[p_], body=N("bin", op=b.op[:-1], l=N("path", segs=[p_], line=e.line), r=b.r, line=e.line),
                     line=e.line, mutps=set())
            cname, cargs, cret, mon = self.closure_def(newc, [resolve_ty(ty)[5:-1]], env)
            if mon or not self.compat(resolve_ty(ty)[5:-1], cret): raise Unsupported(f"`iter_mut().for_each` closure (line {e.line})")
            return [("let", ln, "List.map (" + " ".join([cname] + cargs) + f") {ln}")]
        if e.name == "for_each" and len(e.args) == 1 and e.args[0].kind == "closure" and len(e.args[0].params) == 1:
            c = e.args[0]
            p_ = c.params[0]
            stmts = []
            if isinstance(p_, tuple):
                var = f"it_{e.line}"
                stmts.append(N("let", name=None, mut=False, ty=None, init=N("path", segs=[var], line=e.line),
                               line=e.line, pat=[(x, False) for x in p_], els=None))
            else:
                var = p_
            b = c.body
            if b.kind == "block": body = N("block", stmts=stmts + list(b.stmts), tail=b.tail, uses=[], fns=[])
            else: body = N("block", stmts=stmts + [N("expr", e=b, line=e.line)], tail=None, uses=[], fns=[])
            return self.tr_for(N("for", var=var, it=e.recv, body=body, line=e.line), env)
        return None

    def tr_lazy_map(self, st, env):
        """`let cols = (lo..hi).map(|j| body)` whose body updates captured variables (a scratch buffer): the iterator is
        lazy, so this is only translated when `cols` is consumed exactly once, completely, by the code that follows
        (an argument of one of the target's `full_consumers`); then it is the sequential fold `Loop.mapRange`"""
        init = st.init
        while init.kind == "paren": init = init.e
        if not (init.kind == "mcall" and init.name == "map" and len(init.args) == 1 and init.args[0].kind == "closure"):
            return None
        rng, c = init.recv, init.args[0]
        while rng.kind == "paren": rng = rng.e
        if rng.kind != "range" or len(c.params) != 1 or isinstance(c.params[0], tuple): return None
        mv = self.mutated(c.body, env)
        if not mv: return None
        line = st.line
        if self.has_jump(c.body): raise Unsupported(f"closure that jumps (line {line})")
        rest = self.cur_rest
        if rest is None: raise Unsupported(f"lazy `map` with a mutating closure in this position (line {line})")
        uses = []

        def find(n, parent):
            if isinstance(n, (list, tuple)):
                for v in n: find(v, parent)
                return
            if not isinstance(n, N): return
            if n.kind == "path" and n.segs == [st.name]: uses.append(parent)
            for v in n.__dict__.values(): find(v, n)
        find(list(rest[0]), None); find(rest[1], None)
        if len(uses) != 1 or uses[0] is None or uses[0].kind != "call" or \
                uses[0].path[-1] not in self.cfg.get("full_consumers", []):
            raise Unsupported(f"the lazy iterator `{st.name}` (its closure updates {', '.join(mv)}) is not consumed exactly once "
                              f"by {' / '.join(self.cfg.get('full_consumers', []))} (line {line})")
        for nm in mv:
            if nm in self.idents(list(rest[0])) | self.idents(rest[1]):
                raise Unsupported(f"`{nm}` is used while the lazy iterator `{st.name}` borrows it (line {line})")
        i1, lo, tlo = self.tr(rng.lo, env)
        i2, hi, thi = self.tr(rng.hi, env)
        if tlo not in INT64 or thi not in INT64: raise Unsupported(f"range over {tlo}..{thi} (line {line})")
        used = self.used(c.body, env)
        ro = [n for n in env if n in used and n not in mv and n != c.params[0]]
        self.nloop += 1
        fname = f"{self.lean_fn(self.cur)}_closure{self.nloop}"
        env2 = dict(env)
        jv = self.ident(c.params[0])
        env2[c.params[0]] = (jv, "usize", False)
        saved = (self.fn_mode, self.uses_fuel)
        self.uses_fuel = False
        try:
            body = c.body if c.body.kind == "block" else N("block", stmts=[], tail=c.body, uses=[], fns=[])
            code = self.tr_block(body, env2, ("mutvalp", None, list(mv)))
            cret = self.last_ty
            fuel_here = self.uses_fuel
        finally:
            self.fn_mode, self.uses_fuel = saved[0], saved[1] or self.uses_fuel
        sty = ("(" + " × ".join(self.lean_ty(env[x][1]) for x in mv) + ")") if len(mv) > 1 else self.lean_ty(env[mv[0]][1])
        pat = self.tup(env, mv)
        csig = " ".join(([self.gsig] if self.gsig else []) + (["(fuel : Nat)"] if fuel_here else []) +
                        [f"({env[x][0]} : {unpar(self.lean_ty(env[x][1]))})" for x in ro] +
                        [f"({jv} : Nat)", f"(st_ : {unpar(sty)})"])
        code = Code([("let", pat, "st_")] + code.items, code.final)
        lines = [f"/-- closure #{self.nloop} of `{self.cur.rust_name}` (captures: {', '.join(ro) or 'none'}; updates: {', '.join(mv)}) -/",
                 f"def {fname} {csig} : Res ({unpar(sty)} × {self.lean_ty(cret)}) :="]
        lines += self.body_lines(code, "  ", True)
        self.aux.append("\n".join(lines) + "\n")
        fcall = "(" + " ".join([fname] + self.gargs + (["fuel"] if fuel_here else []) + [env[x][0] for x in ro]) + ")"
        ln = self.ident(st.name)
        env[st.name] = (ln, f"List<{cret}>", False)
        return i1 + i2 + [("bind", f"({pat}, {ln})", f"Loop.mapRange {lo} {hi} {fcall} {pat}")]

    def tr_mat_mut(self, e, env):
        """`place.swap_rows(i, j)` … on a matrix place (a field of a mutable struct variable, or a mutable local)"""
        try:
            root, field = self.place(e.recv, env)
        except Unsupported:
            return None
        ln = env[root][0]
        pty = env[root][1] if field is None else self.field_ty(env[root][1], field, e.line)
        if pty == "LM" and e.name in LMAT_MUT:
            if len(e.args) != LMAT_MUT[e.name]: raise Unsupported(f"`.{e.name}` with {len(e.args)} arguments (line {e.line})")
            its, ts = [], []
            for x in e.args:
                i2, t, ty = self.tr(x, env)
                its += i2; ts.append(t)
            cur = ln if field is None else f"{ln}.{field}"
            call = " ".join([f"LMat.{e.name}", cur] + ts)
            if field is None:
                return its + [("bind", ln, call)]
            r = self.fresh()
            return its + [("bind", r, call), ("let", ln, f"{{ {ln} with {field} := {r} }}")]
        if not re.fullmatch(r"M<\w+,\w+>", pty): return None
        arity, needs_e = MAT_MUT[e.name]
        if len(e.args) != arity: raise Unsupported(f"`.{e.name}` with {len(e.args)} arguments (line {e.line})")
        its, ts = [], []
        for x in e.args:
            i2, t, ty = self.tr(x, env)
            its += i2; ts.append(t)
        cur = ln if field is None else f"{ln}.{field}"
        call = " ".join([f"Dense.{e.name}"] + (["e"] if needs_e else []) + [cur] + ts)
        if field is None:
            return its + [("bind", ln, call)]
        r = self.fresh()
        return its + [("bind", r, call), ("let", ln, f"{{ {ln} with {field} := {r} }}")]

    def tr_iflet_stmt(self, e, env):
        """`if let Some(x) = e { A } else { B }` in statement position (the branches may assign variables)"""
        if self.has_jump(e): raise Unsupported(f"jump inside `if let` (line {e.line})")
        mv = self.mutated(e, env)
        its, s_, sty = self.tr(e.s, env)
        if not (sty.startswith("Option<") and sty != "Option<_>"): raise Unsupported(f"`if let Some(..)` on {sty} (line {e.line})")
        if not re.fullmatch(r"[\w.]+", s_):
            r0 = self.fresh(); its = its + [("let", r0, s_)]; s_ = r0
        pat = self.tup(env, mv)
        env2 = dict(env)
        v = self.ident(e.var)
        env2[e.var] = (v, sty[7:-1], False)
        th = self.tr_block(e.th, env2, ("vars", mv))
        th = Code([("bind", v, f"Opt.unwrap {s_}")] + th.items, th.final)
        el = self.tr_block(e.el, env, ("vars", mv)) if e.el is not None else Code([], ("pure", pat))
        t = IfTerm(f"Option.isSome {s_}", th, el)
        if not mv:
            return its + [("do", None, t)]
        return its + [("bind", pat, t)]

    def tr_iflet_mut(self, e, env):
        """`if let Some(x) = place.as_mut() { body }`: the body updates the content of an `Option` field in place"""
        sc = e.s
        while sc.kind == "paren": sc = sc.e
        if not (sc.kind == "mcall" and sc.name == "as_mut" and not sc.args):
            raise Unsupported(f"`if let Some(..) = …` without `else` on something other than `x.as_mut()` (line {e.line})")
        root, field = self.place(sc.recv, env)
        if field is None:
            return self.tr_iflet_mut_var(e, root, env)
        ln = env[root][0]
        oty = self.field_ty(env[root][1], field, e.line)
        if not oty.startswith("Option<"): raise Unsupported(f"`as_mut()` on a field of type {oty} (line {e.line})")
        if self.has_jump(e.th): raise Unsupported(f"jump inside `if let … as_mut()` (line {e.line})")
        mv = self.mutated(e.th, env)
        if mv: raise Unsupported(f"`if let … as_mut()` body assigns {', '.join(mv)} (line {e.line})")
        v = self.ident(e.var)
        env2 = dict(env)
        env2[e.var] = (v, oty[7:-1], True)
        body = self.tr_block(e.th, env2, ("vars", [e.var]))
        th = Code([("bind", v, f"Opt.unwrap {ln}.{field}")] + body.items[:], None)
        # the body yields the new content; wrap it into the struct
        k_, t_ = body.final
        r = self.fresh()
        if k_ == "pure":
            th = Code(th.items, ("pure", f"{{ {ln} with {field} := some {t_} }}"))
        else:
            th = Code(th.items + [("bind", r, t_)], ("pure", f"{{ {ln} with {field} := some {r} }}"))
        el = Code([], ("pure", ln))
        return [("bind", ln, IfTerm(f"Option.isSome {ln}.{field}", th, el))]

    def tr_iflet_mut_var(self, e, root, env):
        """`if let Some(x) = v.as_mut() { body }` on a mutable local `v : Option<_>`"""
        ln, oty = env[root][0], env[root][1]
        if not oty.startswith("Option<"): raise Unsupported(f"`as_mut()` on a variable of type {oty} (line {e.line})")
        if self.has_jump(e.th) or self.mutated(e.th, env): raise Unsupported(f"`if let … as_mut()` body (line {e.line})")
        v = "x_" + self.ident(e.var)
        env2 = dict(env)
        env2[e.var] = (v, oty[7:-1], True)
        body = self.tr_block(e.th, env2, ("vars", [e.var]))
        items = [("bind", v, f"Opt.unwrap {ln}")] + body.items
        k_, t_ = body.final
        if k_ == "pure":
            th = Code(items, ("pure", f"(some {t_})"))
        else:
            r = self.fresh()
            th = Code(items + [("bind", r, t_)], ("pure", f"(some {r})"))
        return [("bind", ln, IfTerm(f"Option.isSome {ln}", th, Code([], ("pure", ln))))]

    def desugar_mut_builtin(self, e, env, dry=False):
        """`place.add_assign(x)` … on a scalar place, `place.set_zero()` / `set_one()`: as assignments"""
        try:
            root, field = self.place(e.recv, env)
        except Unsupported:
            return None
        pty = env[root][1] if field is None else self.field_ty(env[root][1], field, e.line)
        if pty == "Z":
            if e.name in ASSIGN_METHODS and len(e.args) == 1:
                return N("assign", op=ASSIGN_METHODS[e.name], l=e.recv, r=e.args[0], line=e.line)
            if e.name in ("set_zero", "set_one") and not e.args:
                return N("assign", op="=", l=e.recv, r=N("zlit", v=(0 if e.name == "set_zero" else 1), line=e.line), line=e.line)
        if pty in self.types and e.name in ("set_zero", "set_one") and not e.args and self.find_fn(pty, e.name) is None:
            ctor = self.find_fn(pty, e.name[4:], [])
            if ctor is not None:       # num_traits default: `*self = Zero::zero()` / `One::one()`
                return N("assign", op="=", l=e.recv, r=N("call", path=[pty, e.name[4:]], args=[], line=e.line), line=e.line)
        return None

    def bind_pattern(self, st, its, term, ty, env):
        """items binding the pattern of the `let` statement st to the translated initialiser"""
        items = []
        if st.ty is not None:
            dty = self.norm_ty(st.ty, self.cur)
            if not self.compat(dty, ty): raise Unsupported(f"`let …: {dty}` initialised with {ty} (line {st.line})")
            ty = dty
        if ty == "()": raise Unsupported(f"`let` of a unit value (line {st.line})")
        if getattr(st, "pat", None) is not None:
            if not (ty.startswith("(") and len(split_top(ty[1:-1])) == len(st.pat)):
                raise Unsupported(f"tuple pattern for a value of type {ty} (line {st.line})")
            tys = split_top(ty[1:-1])
            names = [("_" if nm == "_" else self.ident(nm)) for nm, _ in st.pat]
            self.bind_or_let(items, its, term, "(" + ", ".join(names) + ")")
            for (nm, m), t in zip(st.pat, tys):
                if nm != "_": env[nm] = (self.ident(nm), t, m)
            return items
        if st.name == "_":
            return list(its)
        ln = self.ident(st.name)
        self.bind_or_let(items, its, term, ln)
        env[st.name] = (ln, ty, st.mut)
        return items

    def bind_components(self, pats, comps, env, line):
        """simultaneous binding of names to already translated pure terms"""
        names = [("_" if nm == "_" else self.ident(nm)) for nm, _ in pats]
        live = [(n, t) for n, (t, _) in zip(names, comps) if n != "_"]
        clash = any(re.search(r"(?<![\w.])" + re.escape(n) + r"(?![\w])", t) for n, _ in live for _, t in live)
        if clash:
            items = [("let", "(" + ", ".join(names) + ")", "(" + ", ".join(unpar(t) for t, _ in comps) + ")")]
        else:
            items = [("let", n, t) for n, t in live]
        for (nm, m), (t, ty) in zip(pats, comps):
            if ty == "()": raise Unsupported(f"binding of a unit value (line {line})")
            if nm != "_": env[nm] = (self.ident(nm), ty, m)
        return items

    def splice(self, code, pat, mv):
        if not code.items and code.final == ("pure", pat): return []
        if not mv:
            return [("do", None, Blk(code))] if code.monadic() else []
        # a nested block's lets must not leak names, so bind the tuple of the variables it assigns
        return [("bind" if code.monadic() else "let", pat, Blk(code))]

    def place(self, lhs, env):
        """assignable place: returns (root rust var, field or None)"""
        e = lhs
        while e.kind == "paren": e = e.e
        if e.kind == "path" and len(e.segs) == 1:
            root, field = e.segs[0], None
        elif e.kind == "field" and e.e.kind == "path" and len(e.e.segs) == 1:
            root, field = e.e.segs[0], e.name
        elif e.kind == "un" and e.op == "*" and e.e.kind == "path" and e.e.segs == ["self"]:
            root, field = "self", None
        elif e.kind == "un" and e.op == "*" and e.e.kind == "path" and len(e.e.segs) == 1 and self.cfg.get("abs"):
            root, field = e.e.segs[0], None
        else:
            raise Unsupported(f"assignment to this kind of place (line {lhs.line})")
        if root not in env: raise Unsupported(f"assignment to unknown variable `{root}` (line {lhs.line})")
        if not env[root][2]: raise Unsupported(f"assignment to immutable `{root}` (line {lhs.line})")
        return root, field

    def tr_assign(self, e, env):
        lhs = e.l
        while lhs.kind == "paren": lhs = lhs.e
        if lhs.kind == "tuple":
            rhs = e.r
            while rhs.kind == "paren": rhs = rhs.e
            if e.op != "=" or rhs.kind != "tuple" or len(rhs.es) != len(lhs.es):
                raise Unsupported(f"tuple assignment of this form (line {e.line})")
            pats, its, comps = [], [], []
            for l in lhs.es:
                root, field = self.place(l, env)
                if field is not None: raise Unsupported(f"tuple assignment to a field (line {e.line})")
                if root in [x for x, _ in pats]: raise Unsupported(f"`{root}` assigned twice in one tuple assignment (line {e.line})")
                pats.append((root, True))
            for l, x in zip(lhs.es, rhs.es):
                i2, t, ty = self.tr(x, env)
                if not self.compat(env[self.place(l, env)[0]][1], ty):
                    raise Unsupported(f"tuple assignment of {ty} (line {e.line})")
                its += i2; comps.append((t, env[self.place(l, env)[0]][1]))
            return its + self.bind_components(pats, comps, env, e.line)
        if lhs.kind == "index":
            return self.tr_index_assign(e, lhs, env)
        root, field = self.place(e.l, env)
        ln, rty, _ = env[root]
        if field is not None and rty == "PM" and field in self.cfg.get("newtype_structs", {}).values():
            field = None                      # `self.inner = x`: the wrapper is its field
        if field is not None and field.isdigit() and resolve_ty(rty).startswith("(") and self.cfg.get("sp13"):
            comps = split_top(resolve_ty(rty)[1:-1])
            if int(field) >= len(comps): raise Unsupported(f"tuple field .{field} (line {e.line})")
            fty = comps[int(field)]
            cur = self.get_field(ln, rty, field)
            its, term, ty = self.tr(e.r, env)
            if e.op != "=":
                its2, term, ty = self.binop(e.op[:-1], cur, fty, term, ty, e.line)
                its = its + its2
            if not self.compat(fty, ty): raise Unsupported(f"assignment of {ty} to a place of type {fty} (line {e.line})")
            return its + [("let", ln, self.upd_field(ln, rty, field, term))]
        if field is not None:
            fty = self.field_ty(rty, field, e.line)
            cur = f"{ln}.{field}"
        else:
            fty, cur = rty, ln
        its, term, ty = self.tr(e.r, env)
        if e.op != "=" and fty in self.types:
            # `x op= y` on a user type: its `OpAssign` impl (the by-value form is derived from the by-reference one)
            callee = self.find_fn(fty, OP_ASSIGN_FN.get(e.op[:-1], "?"), [ty])
            if callee is None or callee.selfk != "mut" or field is not None:
                raise Unsupported(f"`{e.op}` on {fty} (line {e.line})")
            info = self.translate_callee(callee)
            call = " ".join([self.lean_fn(callee)] + self.fuel_arg(info) + [ln, term])
            return its + [("let" if info["pure"] else "bind", ln, call)]
        if e.op != "=":
            its2, term, ty = self.binop(e.op[:-1], cur, fty, term, ty, e.line)
            its = its + its2
        if not self.compat(fty, ty):
            raise Unsupported(f"assignment of {ty} to a place of type {fty} (line {e.line})")
        items = []
        if field is None:
            self.bind_or_let(items, its, term, ln)
            env[root] = (ln, ty if fty == "int" else fty, True)
        else:
            items += its
            items.append(("let", ln, f"{{ {ln} with {field} := {unpar(term)} }}"))
        return items

    def tr_index_assign(self, e, lhs, env):
        """`place[(i, j)] op= v` / `place[i] op= v` on a matrix / vector place"""
        root, field = self.place(lhs.e, env)
        ln = env[root][0]
        pty = env[root][1] if field is None else self.field_ty(env[root][1], field, e.line)
        cur = ln if field is None else f"{ln}.{field}"
        ix = lhs.ix
        while ix.kind == "paren": ix = ix.e
        # Rust evaluates the right-hand side first, then the index expressions
        its, v, tv = self.tr(e.r, env)
        if pty == "LM" and ix.kind == "tuple" and len(ix.es) == 2:
            i2, a, ta = self.tr(ix.es[0], env)
            i3, b, tb = self.tr(ix.es[1], env)
            if ta not in INT64 or tb not in INT64: raise Unsupported(f"matrix index (line {e.line})")
            its += i2 + i3
            idx, getf, setf = f"{a} {b}", "LMat.get", "LMat.set"
        elif pty == "VZ":
            i2, a, ta = self.tr(ix, env)
            if ta not in INT64: raise Unsupported(f"vector index (line {e.line})")
            its += i2
            idx, getf, setf = a, "LVec.get", "LVec.set"
        elif pty == "VS":
            i2, a, ta = self.tr(ix, env)
            if ta not in INT64: raise Unsupported(f"vector index (line {e.line})")
            its += i2
            idx, getf, setf = a, "Buf.get", "Buf.set"
        elif resolve_ty(pty).startswith("List<") and self.cfg.get("sp13") and e.op == "=":
            i2, a, ta = self.tr(ix, env)
            if ta not in INT64: raise Unsupported(f"vector index (line {e.line})")
            if not self.compat(resolve_ty(pty)[5:-1], tv): raise Unsupported(f"assignment of {tv} to an entry (line {e.line})")
            r = self.fresh()
            its = its + i2 + [("bind", r, f"Sp.list_set {cur} {a} {v}")]
            return its + [("let", ln, r if field is None else f"{{ {ln} with {field} := {r} }}")]
        else:
            raise Unsupported(f"assignment to an indexed place of type {pty} (line {e.line})")
        sc = "S" if pty == "VS" else "Z"
        if e.op != "=":
            old = self.fresh()
            its = its + [("bind", old, f"{getf} {cur} {idx}")]
            i4, v, tv = self.binop(e.op[:-1], old, sc, v, tv, e.line)
            its += i4
        if tv != sc and not (sc == "Z" and tv == "int" and re.fullmatch(r"\d+", v)): raise Unsupported(f"assignment of {tv} to an entry (line {e.line})")
        r = self.fresh()
        its = its + [("bind", r, f"{setf} {cur} {idx} {v}")]
        if field is None:
            return its + [("let", ln, r)]
        return its + [("let", ln, f"{{ {ln} with {field} := {r} }}")]

    def field_ty(self, sty, field, line):
        if sty not in self.mod.structs: raise Unsupported(f"field `.{field}` of a value of type {sty} (line {line})")
        for f, t in self.mod.structs[sty]:
            if f == field and self.cfg.get("lmat"):
                if re.fullmatch(r"Mat<\w+>", t): return "LM"
                if re.fullmatch(r"Option<Mat<\w+>>", t): return "Option<LM>"
                if re.fullmatch(r"Vec<\w+>", t): return "VZ"
                if t in self.mod.aliases and not self.mod.aliases[t][0]: t = self.mod.aliases[t][1]
                if re.fullmatch(r"(\w+)<\w+>", t) and re.sub(r"<.*", "", t) in self.mod.structs: return re.sub(r"<.*", "", t)
            if f == field and (sty, field) in self.cfg.get("field_dims", {}):
                r_, c_ = self.cfg["field_dims"][(sty, field)]
                mt = f"M<{r_},{c_}>"
                if re.fullmatch(r"Mat<\w+>", t): return mt
                if re.fullmatch(r"Option<Mat<\w+>>", t): return f"Option<{mt}>"
                raise Unsupported(f"field {field}: type {t}")
            if f == field:
                if t in self.mod.aliases and not self.mod.aliases[t][0]: t = self.mod.aliases[t][1]
                if t == "i32" and self.cfg.get("int32"): return "W"
                if t in BADINT: raise Unsupported(f"field {field}: type {t}")
                if t in self.mod.stparams.get(sty, []):
                    if self.cfg.get("abs") and t in self.cfg["abs"].get("degree_params", []): return t
                    if self.scalar: return "Z"
                    raise Unsupported(f"field {field} of generic type {t}")
                if self.cfg.get("struct_params"):
                    for tp in self.mod.stparams.get(sty, []):
                        if self.cfg.get("abs") and tp in self.cfg["abs"].get("degree_params", []): continue
                        t = re.sub(r"(?<![\w])" + re.escape(tp) + r"(?![\w])", self.scalar, t)
                    return self.norm_ty(t, self.cur)
                return t
        raise Unsupported(f"unknown field `.{field}` (line {line})")

    def tr_if_stmt(self, e, env):
        mv = self.mutated(e, env)
        its, c, cty = self.tr(e.c, env)
        if cty != "bool": raise Unsupported(f"`if` condition of type {cty} (line {e.line})")
        pat = self.tup(env, mv)
        th = self.tr_block(e.th, env, ("vars", mv))
        el = self.tr_block(e.el, env, ("vars", mv)) if e.el is not None else Code([], ("pure", pat))
        t = IfTerm(c, th, el)
        if not mv:
            return its + ([("do", None, t)] if t.monadic() else [])
        return its + [("bind" if t.monadic() else "let", pat, t)]

    def tr_while(self, e, env):
        if self.has_jump(e): raise Unsupported(f"`return`/`continue`/`break` inside a `while` loop (line {e.line})")
        st = self.mutated(e.body, env)
        used = self.used(e, env)
        ro = [n for n in env if n in used and n not in st]
        self.nloop += 1
        fname = f"{self.lean_fn(self.cur)}_loop{self.nloop}"
        env2 = dict(env)
        its, c, cty = self.tr(e.c, env2)
        if cty != "bool": raise Unsupported(f"`while` condition of type {cty} (line {e.line})")
        body = self.tr_block(e.body, env2, ("loop", " ".join([fname] + self.gargs + ["fuel"]), ro, st))
        pat = self.tup(env, st)
        code = Code(its, ("m", IfTerm(c, body, Code([], ("pure", pat)))))
        sig = " ".join([f"({env[n][0]} : {unpar(self.lean_ty(env[n][1]))})" for n in ro + st])
        rty = " × ".join(self.lean_ty(env[n][1]) for n in st) if st else "Unit"
        rty = f"({rty})" if len(st) > 1 else rty
        lines = [f"/-- the `while` loop #{self.nloop} of `{self.cur.rust_name}` (fuel-bounded; state: {', '.join(st) or 'none'}) -/",
                 f"def {fname} " + (self.gsig + " " if self.gsig else "") + "(fuel : Nat)" + (" " + sig if sig else "") + f" : Res {rty} :=",
                 "  match fuel with", "  | 0 => Res.err", "  | fuel + 1 =>"]
        lines += self.body_lines(code, "    ", True)
        self.aux.append("\n".join(lines) + "\n")
        call = " ".join([fname] + self.gargs + [self.fuel_name()] + [env[n][0] for n in ro + st])
        return [("bind", pat if st else "_", call)]

    def tr_for_range(self, e, env, K=None, rest_ids=frozenset()):
        """`for k in lo..hi { body }` through `Loop.forRange`; the body is an auxiliary definition returning `Ctl`"""
        it = e.it
        while it.kind == "paren": it = it.e
        if it.kind == "mcall" and it.name == "rev" and not it.args:
            return self.tr_for_rev(e, it.recv, env, K)
        elt = "usize"
        if it.kind != "range":
            if not (self.cfg.get("csc") or self.cfg.get("sp13")):
                raise Unsupported(f"`continue`/`break` inside a `for` loop over a non-range (line {e.line})")
            i1, xs, txs = self.tr(it, env)
            txs = resolve_ty(txs)
            if not txs.startswith("List<"): raise Unsupported(f"`for` over a value of type {txs} (line {e.line})")
            i2, elt = [], txs[5:-1]
        else:
            i1, lo, tlo = self.tr(it.lo, env)
            i2, hi, thi = self.tr(it.hi, env)
            if tlo not in INT64 or thi not in INT64: raise Unsupported(f"`for` over {tlo}..{thi} (line {e.line})")
        st = [x for x in self.mutated(e.body, env) if x != e.var]
        used = self.used(e.body, env)
        ro = [n_ for n_ in env if n_ in used and n_ not in st and n_ != e.var]
        self.nloop += 1
        num_ = self.nloop
        fname = f"{self.lean_fn(self.cur)}_for{self.nloop}"
        env2 = dict(env)
        lv = "x_" if e.var == "_" else self.ident(e.var)
        if e.var != "_": env2[e.var] = (lv, elt, False)
        saved = (self.for_ctx, self.loop_ctx, self.uses_fuel, self.scope_outer)
        fc = dict(st=st, outer_loop=self.loop_ctx, exits=False)
        self.for_ctx, self.loop_ctx, self.uses_fuel, self.scope_outer = fc, None, False, set(env)
        try:
            body = self.seq_k(list(e.body.stmts), e.body.tail, env2, self.mode_end(("forbody", st)))
            fuel_here = self.uses_fuel
        finally:
            self.for_ctx, self.loop_ctx, self.uses_fuel, self.scope_outer = saved[0], saved[1], saved[2] or self.uses_fuel, saved[3]
        sty = ("(" + " × ".join(self.lean_ty(env[x][1]) for x in st) + ")") if len(st) > 1 else \
            (self.lean_ty(env[st[0]][1]) if st else "Unit")
        pat = self.tup(env, st)
        opq = list(self.uses_opaque)
        psty = self.lean_ty(self.cur.ty) if self.cur.ty in self.types else None
        csig = " ".join(([self.gsig] if self.gsig else []) + [f"({o_} : {unpar(psty)} → Res {psty})" for o_ in opq] +
                        (["(fuel : Nat)"] if fuel_here else []) +
                        [f"({env[x][0]} : {unpar(self.lean_ty(env[x][1]))})" for x in ro] +
                        [f"({lv} : {unpar(self.lean_ty(elt))})", f"(st_ : {unpar(sty)})"])
        pre = [("let", pat, "st_")] if st else []
        body = Code(pre + body.items, body.final)
        lines = [f"/-- body of the `for` loop #{num_} of `{self.cur.rust_name}` (state: {', '.join(st) or 'none'}) -/",
                 f"def {fname} {csig} : Res (Ctl {sty}) :="]
        lines += self.body_lines(body, "  ", True)
        self.aux.append("\n".join(lines) + "\n")
        fcall = "(" + " ".join([fname] + self.gargs + opq + (["fuel"] if fuel_here else []) + [env[x][0] for x in ro]) + ")"
        fin = self.fresh()
        loop_ = f"Loop.forRange {lo} {hi}" if it.kind == "range" else f"{self.cfg.get('forlist_fn', 'Loop.forList')} {xs}"
        items = i1 + i2 + [("bind", f"({pat if st else '_'}, {fin})", f"{loop_} {fcall} {pat if st else '()'}")]
        if K is None:
            if fc["exits"]: raise Unsupported(f"jump out of a `for` loop in this position (line {e.line})")
            return items
        rest = K[1]([], None, "()", env)
        if not fc["exits"]:
            return Code(items + rest.items, rest.final)
        lc = self.loop_ctx
        outer = Code([], ("m", " ".join([lc[0]] + [env[x][0] for x in lc[1] + lc[2]])))
        return Code(items, ("m", IfTerm(fin, rest, outer)))

    def tr_for_rev(self, e, rng, env, K):
        """`for i in (lo..hi).rev() { body }` (no jumps) through `Loop.forRangeRev`"""
        while rng.kind == "paren": rng = rng.e
        if rng.kind != "range" or self.has_jump(e.body): raise Unsupported(f"reversed `for` of this form (line {e.line})")
        i1, lo, tlo = self.tr(rng.lo, env)
        i2, hi, thi = self.tr(rng.hi, env)
        st = [x for x in self.mutated(e.body, env) if x != e.var]
        used = self.used(e.body, env)
        ro = [n_ for n_ in env if n_ in used and n_ not in st and n_ != e.var]
        self.nloop += 1
        fname = f"{self.lean_fn(self.cur)}_rfor{self.nloop}"
        env2 = dict(env)
        lv = "x_" if e.var == "_" else self.ident(e.var)
        if e.var != "_": env2[e.var] = (lv, "usize", False)
        saved_fuel = self.uses_fuel
        self.uses_fuel = False
        body = self.tr_block(e.body, env2, ("vars", st))
        fuel_here = self.uses_fuel
        self.uses_fuel = saved_fuel or fuel_here
        sty = ("(" + " × ".join(self.lean_ty(env[x][1]) for x in st) + ")") if len(st) > 1 else \
            (self.lean_ty(env[st[0]][1]) if st else "Unit")
        pat = self.tup(env, st)
        csig = " ".join(([self.gsig] if self.gsig else []) + (["(fuel : Nat)"] if fuel_here else []) +
                        [f"({env[x][0]} : {unpar(self.lean_ty(env[x][1]))})" for x in ro] +
                        [f"({lv} : Nat)", f"(st_ : {unpar(sty)})"])
        body = Code(([("let", pat, "st_")] if st else []) + body.items, body.final)
        lines = [f"/-- body of the reversed `for` loop #{self.nloop} of `{self.cur.rust_name}` (state: {', '.join(st) or 'none'}) -/",
                 f"def {fname} {csig} : Res {sty} :="]
        lines += self.body_lines(body, "  ", True)
        self.aux.append("\n".join(lines) + "\n")
        fcall = "(" + " ".join([fname] + self.gargs + (["fuel"] if fuel_here else []) + [env[x][0] for x in ro]) + ")"
        items = i1 + i2 + [("bind", pat if st else "_", f"Loop.forRangeRev {lo} {hi} {fcall} {pat if st else '()'}")]
        if K is None: return items
        rest = K[1]([], None, "()", env)
        return Code(items + rest.items, rest.final)

    def tr_for(self, e, env):
        it0 = e.it
        while it0.kind == "paren": it0 = it0.e
        if it0.kind == "range" or (it0.kind == "mcall" and it0.name == "rev" and not it0.args):
            return self.tr_for_range(e, env)
        if self.has_jump(e):
            if self.cfg.get("csc") or self.cfg.get("sp13"): return self.tr_for_range(e, env)
            raise Unsupported(f"`return`/`continue`/`break` inside a `for` loop (line {e.line})")
        its, it, ity = self.tr(e.it, env)
        ity = resolve_ty(ity)
        m = re.fullmatch(r"List<(.*)>", ity)
        if not m: raise Unsupported(f"`for` over a value of type {ity} (line {e.line})")
        st = self.mutated(e.body, env)
        if e.var in st: st.remove(e.var)
        used = self.used(e.body, env)
        ro = [n for n in env if n in used and n not in st and n != e.var]
        self.nloop += 1
        fname = f"{self.lean_fn(self.cur)}_loop{self.nloop}"
        env2 = dict(env)
        pat = self.tup(env, st)
        lv = "_" if e.var == "_" else self.ident(e.var)
        if e.var != "_": env2[e.var] = (lv, m.group(1), False)
        saved_fuel_ = self.uses_fuel
        self.uses_fuel = False
        body = self.tr_block(e.body, env2, ("loop", " ".join([fname] + self.gargs + ["<FUEL>", "xs"]), ro, st))
        fuel_here_ = self.uses_fuel
        self.uses_fuel = saved_fuel_ or fuel_here_

        def fix_(x):
            if isinstance(x, str): return x.replace("<FUEL> ", "fuel " if fuel_here_ else "")
            if isinstance(x, Code): return Code([(k_, p_, fix_(t_)) for k_, p_, t_ in x.items], (x.final[0], fix_(x.final[1])) if x.final else x.final)
            if isinstance(x, IfTerm): return IfTerm(x.cond, fix_(x.th), fix_(x.el))
            if isinstance(x, Blk): return Blk(fix_(x.code))
            return x
        body = fix_(body)
        sig = " ".join([f"({env[n][0]} : {unpar(self.lean_ty(env[n][1]))})" for n in ro + st])
        rty = " × ".join(self.lean_ty(env[n][1]) for n in st) if st else "Unit"
        rty = f"({rty})" if len(st) > 1 else rty
        lines = [f"/-- the `for` loop #{self.nloop} of `{self.cur.rust_name}` over the items `xs` (state: {', '.join(st) or 'none'}) -/",
                 f"def {fname} " + (self.gsig + " " if self.gsig else "") + ("(fuel : Nat) " if fuel_here_ else "") +
                 f"(xs : {unpar(self.lean_ty(ity))})" + (" " + sig if sig else "") + f" : Res {rty} :=",
                 "  match xs with", f"  | [] => Res.ok {pat}", f"  | {lv} :: xs =>"]
        lines += self.body_lines(body, "    ", True)
        self.aux.append("\n".join(lines) + "\n")
        call = " ".join([fname] + self.gargs + (["fuel"] if fuel_here_ else []) + [it] + [env[n][0] for n in ro + st])
        return its + [("bind", pat if st else "_", call)]

    def tr_mut_call(self, e, callee, env):
        root, field = self.place(e.recv, env)
        if field is not None and self.field_ty(env[root][1], field, e.line) in self.types:
            info = self.translate_callee(callee)
            if info.get("mutval"): raise Unsupported(f"`&mut self` call with a value on a field (line {e.line})")
            its, args = self.tr_args(e.args, callee, env, e.line)
            ln = env[root][0]
            call = " ".join([self.lean_fn(callee)] + self.fuel_arg(info) + [f"{ln}.{field}"] + args)
            r = self.fresh()
            return its + [("let" if info["pure"] else "bind", r, call), ("let", ln, f"{{ {ln} with {field} := {r} }}")]
        okey = (callee.ty, callee.name)
        if okey in self.cfg.get("opaque_methods", {}) and field is None and not e.args:
            nm = self.cfg["opaque_methods"][okey]
            if nm not in self.uses_opaque: self.uses_opaque.append(nm)
            return [("bind", env[root][0], f"{nm} {env[root][0]}")]
        if field is not None: raise Unsupported(f"`&mut self` call on a field (line {e.line})")
        info = self.translate_callee(callee)
        its, args = self.tr_args(e.args, callee, env, e.line)
        ln = env[root][0]
        call = " ".join([self.lean_fn(callee)] + self.fuel_arg(info) + [ln] + args)
        return its + [("let" if info["pure"] else "bind", ln, call)]

    def translate_callee(self, callee):
        saved = (self.cur, self.ntmp, self.nloop, self.aux, self.tvars, self.aliases, self.convs, self.gsig, self.gargs,
                 self.uses_fuel, self.ord_glob, self.fn_mode, self.loop_ctx, self.uses_opaque, self.for_ctx)
        try:
            return self.translate(callee)
        finally:
            (self.cur, self.ntmp, self.nloop, self.aux, self.tvars, self.aliases, self.convs, self.gsig, self.gargs,
             self.uses_fuel, self.ord_glob, self.fn_mode, self.loop_ctx, self.uses_opaque, self.for_ctx) = saved

    # -- variable analysis
    def walk(self, n, fn):
        """pre-order walk over AST nodes"""
        if isinstance(n, N):
            fn(n)
            for v in n.__dict__.values(): self.walk(v, fn)
        elif isinstance(n, (list, tuple)):
            for v in n: self.walk(v, fn)

    def mutated(self, node, env):
        """outer variables (keys of env, in env order) assigned somewhere inside node"""
        found = set()

        def go(n, local):
            if isinstance(n, (list, tuple)):
                for v in n: go(v, local)
                return
            if not isinstance(n, N): return
            if n.kind == "block":
                loc = set(local)
                for s in (self.fuse_views(list(n.stmts)) if self.cfg.get("lmat") else n.stmts):
                    if s.kind == "let":
                        go(s.init, loc)
                        loc.update([s.name] if getattr(s, "pat", None) is None else [x for x, _ in s.pat])
                    else:
                        go(s.e, loc)
                go(n.tail, loc)
                return
            if n.kind == "for":
                go(n.it, local); go(n.body, set(local) | {n.var})
                return
            if n.kind == "assign":
                l = n.l
                while l.kind == "paren": l = l.e
                while l.kind == "index": l = l.e
                for x in (l.es if l.kind == "tuple" else [l]):
                    try:
                        root, _ = self.place(x, {k: (k, None, True) for k in list(env) + list(local)})
                    except Unsupported:
                        root = None
                    if root is not None and root not in local and root in env: found.add(root)
                go(n.r, local)
                return
            if (n.kind == "mcall" and (n.name in MAT_MUT or n.name in LMAT_MUT)) or \
                    (n.kind == "iflet" and n.s.kind == "mcall" and n.s.name == "as_mut"):
                tgt_ = n.recv if n.kind == "mcall" else n.s.recv
                try:
                    root, _ = self.place(tgt_, {k: (k, None, True) for k in list(env) + list(local)})
                except Unsupported:
                    root = None
                if root is not None and root not in local and root in env and env[root][2]:
                    ty_ = env[root][1]
                    if n.kind == "iflet" or ty_ in ("LM",) or re.fullmatch(r"M<\w+,\w+>", ty_ or "") or ty_ in self.mod.structs:
                        found.add(root)
            if self.cfg.get("abs"):
                ab_ = self.cfg["abs"]
                if n.kind == "mcall":
                    r = n.recv
                    while r.kind == "paren": r = r.e
                    if r.kind == "path" and len(r.segs) == 1 and r.segs[0] in env and r.segs[0] not in local and env[r.segs[0]][2] \
                            and (env[r.segs[0]][1], n.name, len(n.args)) in ab_["mut_methods"]:
                        found.add(r.segs[0])
                    if n.name == "insert" and r.kind == "field" and r.e.kind == "path" and len(r.e.segs) == 1 and \
                            r.e.segs[0] in env and r.e.segs[0] not in local and env[r.e.segs[0]][2]:
                        found.add(r.e.segs[0])
                    if n.name == "iter_mut" and r.kind == "path" and len(r.segs) == 1 and r.segs[0] in env and \
                            r.segs[0] not in local and env[r.segs[0]][2]:
                        found.add(r.segs[0])
                    gm_ = self.abs_getmut(n, {k: v for k, v in env.items() if k not in local})
                    if gm_ is not None: found.add(gm_[0])
            if n.kind == "mcall" and n.name == "extend_cols" and self.cfg.get("cscx"):
                r = n.recv
                while r.kind == "paren": r = r.e
                if r.kind == "path" and len(r.segs) == 1 and r.segs[0] in env and r.segs[0] not in local and env[r.segs[0]][2]:
                    found.add(r.segs[0])
            if n.kind == "mcall" and n.name in ("push", "reverse", "append", "extend", "pop") and \
                    (self.cfg.get("csc") or self.cfg.get("sp13")):
                r = n.recv
                while r.kind == "paren": r = r.e
                if r.kind == "path" and len(r.segs) == 1 and r.segs[0] in env and r.segs[0] not in local and \
                        env[r.segs[0]][2] and (resolve_ty(env[r.segs[0]][1] or "").startswith("List<") or env[r.segs[0]][1] == "CO"):
                    found.add(r.segs[0])
                    if n.name == "append":
                        a_ = n.args[0] if n.args else None
                        while a_ is not None and a_.kind == "paren": a_ = a_.e
                        if a_ is not None and a_.kind == "un" and a_.op == "&mut": found.discard(None)
            if n.kind == "un" and n.op == "&mut":
                r = n.e
                while r.kind == "paren": r = r.e
                if r.kind == "path" and len(r.segs) == 1 and r.segs[0] in env and r.segs[0] not in local:
                    found.add(r.segs[0])
            if n.kind == "mcall" and n.name in ("push", "append", "clear") and self.cfg.get("sp13"):
                r = n.recv
                while r.kind == "paren": r = r.e
                if r.kind == "field" and r.e.kind == "path" and len(r.e.segs) == 1 and r.e.segs[0] in env and \
                        r.e.segs[0] not in local and env[r.e.segs[0]][2]:
                    found.add(r.e.segs[0])
            if n.kind == "colswap":
                try:
                    root, _ = self.place(n.place, {k: (k, None, True) for k in list(env) + list(local)})
                except Unsupported:
                    root = None
                if root is not None and root not in local and root in env: found.add(root)
            if n.kind == "mcall" and (n.name in ASSIGN_METHODS or n.name in ("set_zero", "set_one")):
                try:
                    root, _ = self.place(n.recv, {k: (k, None, True) for k in list(env) + list(local)})
                except Unsupported:
                    root = None
                if root is not None and root not in local and root in env and env[root][2]: found.add(root)
            if n.kind == "mcall":
                r = n.recv
                while r.kind == "paren": r = r.e
                if r.kind == "path" and len(r.segs) == 1 and r.segs[0] in env and r.segs[0] not in local:
                    c = self.find_fn(env[r.segs[0]][1], n.name)
                    if c is not None and c.selfk == "mut": found.add(r.segs[0])
                if r.kind == "field" and r.e.kind == "path" and len(r.e.segs) == 1 and r.e.segs[0] in env and \
                        r.e.segs[0] not in local and env[r.e.segs[0]][1] in self.mod.structs:
                    try:
                        fty_ = self.field_ty(env[r.e.segs[0]][1], r.name, 0)
                    except Unsupported:
                        fty_ = None
                    if fty_ in self.types:
                        c = self.find_fn(fty_, n.name)
                        if c is not None and c.selfk == "mut": found.add(r.e.segs[0])
            for v in n.__dict__.values(): go(v, local)

        go(node, set())
        return [n for n in env if n in found]

    def used(self, node, env):
        s = set()

        def f(n):
            if n.kind == "path" and len(n.segs) == 1 and n.segs[0] in env: s.add(n.segs[0])
            if n.kind == "call" and len(n.path) == 1 and n.path[0] in env: s.add(n.path[0])
        self.walk(node, f)
        return s

    # -- expressions: returns (items, argument-safe pure term, type)
    def tr_args(self, args, callee, env, line):
        if len(args) != len(callee.params):
            raise Unsupported(f"call of {callee.rust_name} with {len(args)} arguments (line {line})")
        its, out = [], []
        for a, (pn, pt) in zip(args, callee.params):
            ptn = resolve_ty(self.norm_ty(pt, callee))
            a0 = a
            while a0.kind == "paren": a0 = a0.e
            if ptn == "RG" and a0.kind == "range":
                i2, lo, tl = self.tr(a0.lo, env)
                i3, hi, th = self.tr(a0.hi, env)
                if tl not in INT64 or th not in INT64: raise Unsupported(f"range over {tl}..{th} (line {line})")
                its += i2 + i3; out.append(f"({lo}, {hi})")
                continue
            if ptn.startswith("FN<") and a.kind == "closure":
                mf = re.fullmatch(r"FN<(.*)->(.*)>", ptn)
                ptys = [self.norm_ty(x, callee) for x in (split_top(mf.group(1)) if mf.group(1) else [])]
                cname, cargs, cret, mon = self.closure_def(a, ptys, env)
                want = self.norm_ty(mf.group(2), callee)
                if not self.compat(want, cret): raise Unsupported(f"closure returning {cret} where {want} is expected (line {line})")
                call = " ".join([cname] + cargs)
                if mon:
                    out.append(f"({call})")
                else:
                    vs = [f"a{k_}" for k_ in range(len(ptys))]
                    out.append("(fun " + " ".join(vs) + f" => Res.ok ({call} " + " ".join(vs) + "))")
                continue
            if pn in callee.mutparams:
                x = a
                while x.kind == "paren": x = x.e
                if not (x.kind == "un" and x.op == "&mut" and x.e.kind == "path" and len(x.e.segs) == 1 and
                        x.e.segs[0] in env and env[x.e.segs[0]][2]):
                    raise Unsupported(f"argument for the `&mut` parameter `{pn}` of {callee.rust_name} is not `&mut x` "
                                      f"with a mutable variable x (line {line})")
                a = x.e
            i2, t, ty = self.tr(a, env)
            pt = self.norm_ty(pt, callee)
            if not self.compat(pt, ty):
                raise Unsupported(f"argument `{pn}` of {callee.rust_name}: {ty} given, {pt} expected (line {line})")
            its += i2; out.append(t)
        return its, out

    def call_user(self, callee, recv, args, env, line):
        if callee.selfk == "mut":
            info = self.translate_callee(callee)
            if not info.get("mutval") or recv is None or not re.fullmatch(r"\w+", recv):
                raise Unsupported(f"`&mut self` method {callee.rust_name} used inside an expression (line {line})")
            its, a = self.tr_args(args, callee, env, line)
            r = self.fresh()
            call = " ".join([self.lean_fn(callee)] + self.fuel_arg(info) + [recv] + a)
            return its + [("bind", f"({recv}, {r})", call)], r, info["ret"]
        cg = self.generics_of(callee)
        if cg["tvars"] or cg["convs"]: raise Unsupported(f"call of the generic function {callee.rust_name} (line {line})")
        info = self.translate_callee(callee)
        its, a = self.tr_args(args, callee, env, line)
        if not self.carg_compatible(callee):
            raise Unsupported(f"call of {callee.rust_name} from an impl with a different const argument (line {line})")
        call = " ".join([self.lean_fn(callee)] + self.fuel_arg(info) + self.const_args(callee, line) +
                        ([recv] if recv is not None else []) + a)
        ret = info["ret"]
        if info.get("mutparams"):
            # the new values of the `&mut` arguments come back first
            names = [a[[pn for pn, _ in callee.params].index(nm)] for nm in info["mutparams"]]
            if len(set(names)) != len(names): raise Unsupported(f"one variable passed for two `&mut` parameters (line {line})")
            if ret == "()":
                pat = names[0] if len(names) == 1 else "(" + ", ".join(names) + ")"
                return its + [("bind", pat, call)], "()", "()"
            r = self.fresh()
            return its + [("bind", "(" + ", ".join(names + [r]) + ")", call)], r, ret
        if info["pure"]:
            return its, (f"({call})" if " " in call else call), ret
        r = self.fresh()
        return its + [("bind", r, call)], r, ret

    def outer_key(self):
        f = self.cur
        while getattr(f, "outer", None) is not None: f = f.outer
        return f.key

    @staticmethod
    def tuple_proj(t, k, n):
        """Lean projection of component k of an n-tuple (right-nested pairs)"""
        return t + ".2" * k + (".1" if k < n - 1 else "")

    @staticmethod
    def field_name(f):
        return "f" + f if f.isdigit() else f

    def carg_of(self, f):
        """Lean term of the const generic argument of f's impl: a parameter name (`D`), a literal (`(-1)`) or None"""
        if f.cparams: return f.cparams[0] if len(f.cparams) == 1 else None
        full = getattr(f, "impl_full", None) or (getattr(f.outer, "impl_full", None) if getattr(f, "outer", None) else None)
        if not full: return None
        base = re.sub(r"<.*>$", "", full)
        if base in self.mod.aliases:
            full = self.mod.aliases[base][1]; base = re.sub(r"<.*>$", "", full)
        if not self.mod.stcparams.get(base): return None
        m = re.fullmatch(r"\w+<(.*)>", full)
        args = split_top(m.group(1)) if m else []
        lits = [a for a in args if re.fullmatch(r"-?\d+", a)]
        if len(lits) != 1: return None
        return f"({lits[0]})" if lits[0].startswith("-") else lits[0]

    def carg_suffix(self, f):
        c = self.carg_of(f)
        if c is None or f.cparams: return ""
        return "_" + c.strip("()").replace("-", "m")

    def const_args(self, callee, line):
        """const generic arguments to pass to callee: those of the current function (all values of a const-generic
        struct inside one function share its argument — checked on every type that names it)"""
        if not callee.cparams: return []
        c = self.carg_of(self.cur)
        if c is None: raise Unsupported(f"call of {callee.rust_name} outside an impl that fixes its const argument (line {line})")
        return [c]

    def carg_compatible(self, callee):
        """may a function of the current impl call callee (same const generic argument)?"""
        if not self.cfg.get("const_generics"): return True
        a, b = self.carg_of(self.cur), self.carg_of(callee)
        return b is None or callee.cparams or a == b

    def fuel_arg(self, info):
        out = list(self.gargs) if self.cfg.get("eops") else []
        if self.cfg.get("abs"):
            out = (["(I := I)"] if info["fn"].ty in self.mod.structs else []) + ["K"]
        for nm in info.get("opaque", []):
            if nm not in self.uses_opaque: self.uses_opaque.append(nm)
            out.append(nm)
        if info.get("fuel"):
            self.uses_fuel = True
            out.append("fuel")
        return out

    def resolve_method(self, e, env):
        """user method a method call refers to, or None (builtin)"""
        _, _, rty = self.tr(e.recv, dict(env), dry=True)
        if rty in self.types:
            argt = [self.tr(a, dict(env), dry=True)[2] for a in e.args]
            c = self.find_fn(rty, e.name, argt)
            return c, rty
        return None, rty

    def tr(self, e, env, dry=False):
        if dry:
            saved = (self.ntmp, self.nloop, list(self.aux))
            try:
                return self.tr(e, env)
            finally:
                self.ntmp, self.nloop, self.aux = saved
        k = e.kind
        line = getattr(e, "line", 0)
        if k == "paren":
            return self.tr(e.e, env)
        if k == "int":
            if e.v > 2 ** 64 - 1: raise Unsupported(f"integer literal {e.v} does not fit in 64 bits (line {line})")
            return [], str(e.v), (e.suffix or self.cfg.get("int_lit") or "int")
        if k == "bool":
            return [], ("true" if e.v else "false"), "bool"
        if k == "unit":
            return [], "()", "()"
        if k == "zlit":
            return [], str(e.v), "Z"
        if k == "index":
            its, t, ty = self.tr(e.e, env)
            ix = e.ix
            while ix.kind == "paren": ix = ix.e
            if re.fullmatch(r"M<\w+,\w+>", ty) and ix.kind == "tuple" and len(ix.es) == 2:
                i2, a, ta = self.tr(ix.es[0], env)
                i3, b, tb = self.tr(ix.es[1], env)
                if ta not in INT64 or tb not in INT64: raise Unsupported(f"matrix index of type ({ta}, {tb}) (line {line})")
                r = self.fresh()
                return its + i2 + i3 + [("bind", r, f"Dense.get {t} {a} {b}")], r, "E"
            if ty == "LM" and ix.kind == "tuple" and len(ix.es) == 2:
                i2, a, ta = self.tr(ix.es[0], env)
                i3, b, tb = self.tr(ix.es[1], env)
                if ta not in INT64 or tb not in INT64: raise Unsupported(f"matrix index of type ({ta}, {tb}) (line {line})")
                r = self.fresh()
                return its + i2 + i3 + [("bind", r, f"LMat.get {t} {a} {b}")], r, "Z"
            if ty == "VZ":
                i2, a, ta = self.tr(ix, env)
                if ta not in INT64: raise Unsupported(f"vector index of type {ta} (line {line})")
                r = self.fresh()
                return its + i2 + [("bind", r, f"LVec.get {t} {a}")], r, "Z"
            if resolve_ty(ty).startswith("List<") and self.cfg.get("sp13"):
                i2, a, ta = self.tr(ix, env)
                if ta not in INT64: raise Unsupported(f"vector index of type {ta} (line {line})")
                r = self.fresh()
                return its + i2 + [("bind", r, f"Sp.list_get {t} {a}")], r, resolve_ty(ty)[5:-1]
            if ty == "VS":
                i2, a, ta = self.tr(ix, env)
                if ta not in INT64: raise Unsupported(f"vector index of type {ta} (line {line})")
                r = self.fresh()
                return its + i2 + [("bind", r, f"Buf.get {t} {a}")], r, "S"
            if ty.startswith("(") and ix.kind == "int":
                comps = split_top(ty[1:-1])
                if ix.v < len(comps): return its, self.tuple_proj(t, ix.v, len(comps)), comps[ix.v]
            raise Unsupported(f"index expression on a value of type {ty} (line {line})")
        if k == "range":
            i1, a, ta = self.tr(e.lo, env)
            i2, b, tb = self.tr(e.hi, env)
            if ta not in INT64 or tb not in INT64: raise Unsupported(f"range over {ta}..{tb} (line {line})")
            return i1 + i2, f"(List.range' {a} ({b} - {a}))", "List<usize>"
        if k == "tuple":
            its, ts, tys = [], [], []
            for x in e.es:
                i2, t, ty = self.tr(x, env)
                if ty in ("()", "!"): raise Unsupported(f"tuple component of type {ty} (line {line})")
                its += i2; ts.append(unpar(t)); tys.append(ty)
            return its, "(" + ", ".join(ts) + ")", "(" + ",".join(tys) + ")"
        if k in ("return", "continue", "break", "loop"):
            raise Unsupported(f"`{k}` in this position (line {line})")
        if k == "path":
            return self.tr_path(e, env)
        if k == "field":
            its, t, ty = self.tr(e.e, env)
            if ty.startswith("(") and ty != "()" and e.name.isdigit():
                comps = split_top(ty[1:-1])
                if int(e.name) >= len(comps): raise Unsupported(f"tuple field .{e.name} of {ty} (line {line})")
                return its, self.tuple_proj(t, int(e.name), len(comps)), comps[int(e.name)]
            if ty == "RG" and e.name in ("start", "end"):
                return its, f"{t}.{1 if e.name == 'start' else 2}", "usize"
            if ty == "PM" and e.name in self.cfg.get("newtype_structs", {}).values():
                return its, t, "PM"                               # the wrapped `CscMatrix`: the same Lean value
            for w_ in self.cfg.get("wrapper_structs", {}).values():
                if ty == w_[1] and e.name == w_[0]: return its, f"({w_[3]} {t})", w_[2]
            return its, f"{t}.{self.field_name(e.name)}", self.field_ty(ty, e.name, line)
        if k == "un":
            its, t, ty = self.tr(e.e, env)
            if e.op == "&mut": raise Unsupported(f"`&mut` borrow expression (line {line})")
            if e.op in ("&", "*"): return its, t, ty          # references are erased (all types here are Copy)
            if e.op == "!":
                if ty == "bool": return its, f"(!{t})", ty
                if ty in INT64: return its, f"(U64.not {t})", ty
                raise Unsupported(f"`!` on {ty} (line {line})")
            if e.op == "-" and ty == "E":
                return its, f"(e.neg {t})", ty
            if e.op == "-" and ty == "S":
                return its, f"(C12.Scal.neg {t})", ty
            if e.op == "-" and ty == "SM" and self.cfg.get("cscx"):
                return its, f"(SM.neg {t})", ty
            if e.op == "-" and ty == "W":
                r = self.fresh()
                return its + [("bind", r, f"I32.neg {t}")], r, "W"
            if e.op == "-" and ty == "Z":
                return its, f"(-{t})", ty
            if e.op == "-" and ty == "int" and re.fullmatch(r"\d+", t) and self.scalar:
                return its, f"(-{t})", "Z"
            if e.op == "-" and ty in self.types:
                c = [f for f in self.mod.fns if f.ty == ty and f.name == "neg" and f.trait == "Neg" and self.carg_compatible(f)]
                byref = e.e.kind == "un" and e.e.op == "&" or (e.e.kind == "path" and e.e.segs == ["self"] and self.cur.selfk == "ref")
                c = [f for f in c if (f.tag or "").endswith("_ref") == bool(byref)] or c
                if len(c) == 1:
                    i2, t2, ty2 = self.call_user(c[0], t, [], env, line)
                    return its + i2, t2, ty2
            raise Unsupported(f"unary `{e.op}` on {ty} (line {line})")
        if k == "cast":
            its, t, ty = self.tr(e.e, env)
            if ty == "int" and not re.fullmatch(r"\d+", t):
                raise Unsupported(f"cast of an integer expression of unconstrained type (rustc would pick i32) (line {line})")
            if e.ty in ("u64", "usize") and ty in INT64: return its, t, e.ty
            raise Unsupported(f"cast `{ty} as {e.ty}` (line {line})")
        if k == "bin":
            return self.tr_bin(e, env)
        if k == "if":
            return self.tr_if_expr(e, env)
        if k == "match":
            return self.tr_match(e, env)
        if k == "iflet":
            its, s_, sty = self.tr(e.s, env)
            if not (sty.startswith("Option<") and sty != "Option<_>"): raise Unsupported(f"`if let Some(..)` on {sty} (line {line})")
            if self.mutated(e, env): raise Unsupported(f"`if let` whose branches assign variables (line {line})")
            if not re.fullmatch(r"[\w.]+", s_):
                r0 = self.fresh(); its = its + [("let", r0, s_)]; s_ = r0
            env2 = dict(env)
            v = self.ident(e.var)
            env2[e.var] = (v, sty[7:-1], False)
            th = self.tr_block(e.th, env2, ("value", None)); t1 = self.last_ty
            el = self.tr_block(e.el, env, ("value", None)); t2 = self.last_ty
            if not self.compat(t1, t2): raise Unsupported(f"`if let` branches of types {t1} and {t2} (line {line})")
            ty = t2 if t1 in ("!", "Option<_>") else t1
            th = Code([("bind", v, f"Opt.unwrap {s_}")] + th.items, th.final)
            r = self.fresh()
            return its + [("bind", r, IfTerm(f"Option.isSome {s_}", th, el))], r, ty
        if k == "block":
            code = self.tr_block(e, env, ("value", None))
            ty = self.last_ty
            if not code.items and code.final[0] == "pure" and isinstance(code.final[1], str):
                return [], code.final[1], ty
            r = self.fresh()
            return [("bind" if code.monadic() else "let", r, Blk(code))], r, ty
        if k == "struct":
            return self.tr_struct(e, env)
        if k == "macro":
            return self.tr_macro(e, env)
        if k == "call":
            return self.tr_call(e, env)
        if k == "mcall":
            return self.tr_mcall(e, env)
        if k in ("assign", "while", "for"):
            raise Unsupported(f"`{k}` used as a value (line {line})")
        if k == "closure":
            raise Unsupported(f"closure (line {line})")
        raise Unsupported(f"expression kind {k} (line {line})")

    def tr_path(self, e, env):
        segs, line = e.segs, e.line
        if len(segs) == 1:
            if segs[0] in env:
                ln, ty, _ = env[segs[0]]
                return [], ln, ty
            if segs[0] == "None": return [], "none", "Option<_>"
            if self.variant_of(segs, "Ordering"): return [], self.variant_of(segs, "Ordering"), "Ordering"
            raise Unsupported(f"unknown name `{segs[0]}` (line {line})")
        if segs[-1] in ORD and len(segs) >= 2 and segs[-2] == "Ordering":
            return [], ORD[segs[-1]], "Ordering"
        if len(segs) == 2:
            a, b = segs
            if a == "Self": a = self.cur.ty
            if a in ("u64", "usize") and b == "MAX": return [], "U64.MAX", a
            if a in self.mod.enums and b in [v for v, _ in self.mod.enums[a]]:
                return [], f"{a}.{b}", a
            if (a, b) in self.mod.consts:
                cty = self.mod.consts[(a, b)][0]
                if cty not in INT64 and cty != "bool": raise Unsupported(f"const {a}::{b} of type {cty}")
                return [], f"{a}.{self.ident(b)}", cty
        raise Unsupported(f"path `{'::'.join(segs)}` (line {line})")

    def binop(self, op, a, ta, b, tb, line):
        """items, term, type of `a op b` for already translated pure operands"""
        if self.cfg.get("abs"):
            ab = self.cfg["abs"]
            if ta == tb and ta in ab.get("degree_params", []) and op in ("+", "-"):
                return [], f"({a} {op} {b})", ta
            if ta == tb and ta in ab.get("degree_params", []) and op in ("==", "!="):
                return [], f"(decide ({a} {'=' if op == '==' else '≠'} {b}))", "bool"
            if (op, ta, tb) in ab["binops"]:
                fld, rt = ab["binops"][(op, ta, tb)]
                r = self.fresh()
                return [("bind", r, f"{fld} {a} {b}")], r, rt
        if "S" in (ta, tb):
            if ta != tb: raise Unsupported(f"`{op}` on {ta}, {tb} (line {line})")
            fn_ = {"+": "add", "-": "sub", "*": "mul"}.get(op)
            if fn_: return [], f"(C12.Scal.{fn_} {a} {b})", "S"
            raise Unsupported(f"`{op}` on ring elements (line {line})")
        if "E" in (ta, tb):
            if ta != tb: raise Unsupported(f"`{op}` on {ta}, {tb} (line {line})")
            f = {"+": "e.add", "-": "e.sub", "*": "e.mul", "/": "e.quo", "%": "e.rem"}.get(op)
            if f: return [], f"({f} {a} {b})", "E"
            if op == "==": return [], f"(e.beq {a} {b})", "bool"
            if op == "!=": return [], f"(!(e.beq {a} {b}))", "bool"
            raise Unsupported(f"`{op}` on ring elements (line {line})")
        if self.cfg.get("nat_usize") and ta in INT64 and tb in INT64 and op == "/" and re.fullmatch(r"[1-9]\d*", b):
            return [], f"({a} / {b})", self.join_int(ta, tb, op, line)
        if self.cfg.get("nat_usize") and ta in INT64 and tb in INT64 and op in ("+", "*", "-"):
            ty = self.join_int(ta, tb, op, line)
            if op == "-":
                r = self.fresh()
                return [("bind", r, f"U64.sub {a} {b}")], r, ty
            return [], f"({a} {op} {b})", ty
        if "W" in (ta, tb):
            if ta == "int" and re.fullmatch(r"\d+", a): ta = "W"
            if tb == "int" and re.fullmatch(r"\d+", b): tb = "W"
            if ta != tb: raise Unsupported(f"`{op}` on {ta}, {tb} (line {line})")
            if op in ("+", "-", "*", "/", "%"):
                r = self.fresh()
                f = {"+": "add", "-": "sub", "*": "mul", "/": "div", "%": "rem"}[op]
                return [("bind", r, f"I32.{f} {a} {b}")], r, "W"
            if op in CMPOPS:
                sym = {"==": "=", "!=": "≠", "<": "<", ">": ">", "<=": "≤", ">=": "≥"}[op]
                return [], f"(decide ({a} {sym} {b}))", "bool"
            raise Unsupported(f"`{op}` on i32 (line {line})")
        if "Z" in (ta, tb):
            if ta == "int" and re.fullmatch(r"\d+", a): ta = "Z"
            if tb == "int" and re.fullmatch(r"\d+", b): tb = "Z"
            if ta != tb: raise Unsupported(f"`{op}` on {ta}, {tb} (line {line})")
            if op in ("+", "-", "*"): return [], f"({a} {op} {b})", "Z"
            if op in ("/", "%"):
                r = self.fresh()
                return [("bind", r, f"RInt.{'div' if op == '/' else 'rem'} {a} {b}")], r, "Z"
            if op in CMPOPS:
                sym = {"==": "=", "!=": "≠", "<": "<", ">": ">", "<=": "≤", ">=": "≥"}[op]
                return [], f"(decide ({a} {sym} {b}))", "bool"
            raise Unsupported(f"`{op}` on the ring elements (line {line})")
        if op in ("+", "-", "*", "/", "%"):
            ty = self.join_int(ta, tb, op, line)
            r = self.fresh()
            f = {"+": "add", "-": "sub", "*": "mul", "/": "div", "%": "rem"}[op]
            return [("bind", r, f"U64.{f} {a} {b}")], r, ty
        if op in ("<<", ">>"):
            if ta not in INT64 or tb not in INT64: raise Unsupported(f"`{op}` on {ta}, {tb} (line {line})")
            r = self.fresh()
            return [("bind", r, f"U64.{'shl' if op == '<<' else 'shr'} {a} {b}")], r, ta
        if op in ("&", "|", "^"):
            if ta == "bool" and tb == "bool":
                return [], {"&": f"({a} && {b})", "|": f"({a} || {b})", "^": f"(xor {a} {b})"}[op], "bool"
            ty = self.join_int(ta, tb, op, line)
            sym = {"&": "&&&", "|": "|||", "^": "^^^"}[op]
            return [], f"({a} {sym} {b})", ty
        if op in CMPOPS:
            if not (self.compat(ta, tb) or ta == tb):
                raise Unsupported(f"comparison `{op}` of {ta} with {tb} (line {line})")
            if op in ("<", ">", "<=", ">=") and ta not in INT64:
                raise Unsupported(f"ordering comparison `{op}` on {ta} (line {line})")
            if ta in self.types and ("PartialEq" not in self.mod.derives.get(ta, []) or
                                     any(f.ty == ta and f.name in ("eq", "ne") for f in self.mod.fns)):
                raise Unsupported(f"`{op}` on {ta}, whose PartialEq is not the derived one (line {line})")
            if ta == "int" and tb == "int" and not (re.fullmatch(r"\d+", a) and re.fullmatch(r"\d+", b)):
                raise Unsupported(f"comparison of two integer expressions of unconstrained type (rustc would pick i32) (line {line})")
            sym = {"==": "=", "!=": "≠", "<": "<", ">": ">", "<=": "≤", ">=": "≥"}[op]
            return [], f"(decide ({a} {sym} {b}))", "bool"
        raise Unsupported(f"operator `{op}` (line {line})")

    def tr_bin(self, e, env):
        op, line = e.op, e.line
        if op in ("&&", "||"):
            i1, a, ta = self.tr(e.l, env)
            rhs = self.tr_block(N("block", stmts=[], tail=e.r), env, ("value", "bool"))
            if ta != "bool": raise Unsupported(f"`{op}` on {ta} (line {line})")
            if not rhs.items and rhs.final[0] == "pure" and isinstance(rhs.final[1], str):
                return i1, f"({a} {op} {rhs.final[1]})", "bool"
            r = self.fresh()
            t = IfTerm(a, rhs, Code([], ("pure", "false"))) if op == "&&" else IfTerm(a, Code([], ("pure", "true")), rhs)
            return i1 + [("bind" if t.monadic() else "let", r, t)], r, "bool"
        i1, a, ta = self.tr(e.l, env)
        i2, b, tb = self.tr(e.r, env)
        if ta in self.types and op in ("+", "-", "*", "/", "%"):
            # operator of a user type: its (by-reference) impl of Add / Sub / Mul / Div / Rem; the other forms are derived
            mname = {"+": "add", "-": "sub", "*": "mul", "/": "div", "%": "rem"}[op]
            c = [f for f in self.mod.fns if f.ty == ta and f.name == mname and f.trait and
                 re.sub(r"<.*$", "", f.trait) == mname.capitalize() and self.carg_compatible(f)]
            if len(c) == 1 and tb == ta and c[0].selfk in ("val", "ref") and len(c[0].params) == 1:
                i3, t, ty = self.call_user_terms(c[0], [a, b], line)
                return i1 + i2 + i3, t, ty
            raise Unsupported(f"`{op}` on {ta}, {tb} (line {line})")
        if self.cfg.get("cscx"):
            if op == "*" and ta == "SM" and tb == "SV": return i1 + i2, f"(SM.mul_vec {a} {b})", "SV"
            if op == "-" and ta == "SV" and tb == "SV": return i1 + i2, f"(SVec.sub {a} {b})", "SV"
        if op == "*" and ta == "PM" and tb in ("PM", "PV"):
            r = self.fresh()
            return i1 + i2 + [("bind", r, f"{'C13.SpMat.mul' if tb == 'PM' else 'C13.SpMat.mulVec'} {a} {b}")], r, tb
        if ta == "HM" and tb == "HM" and op == "*":
            r = self.fresh()
            return i1 + i2 + [("bind", r, f"HMat.mul {a} {b}")], r, "HM"
        i3, t, ty = self.binop(op, a, ta, b, tb, line)
        return i1 + i2 + i3, t, ty

    def call_user_terms(self, callee, terms, line):
        """call of a user function on already translated argument terms"""
        cg = self.generics_of(callee)
        if cg["tvars"] or cg["convs"]: raise Unsupported(f"call of the generic function {callee.rust_name} (line {line})")
        info = self.translate_callee(callee)
        call = " ".join([self.lean_fn(callee)] + self.fuel_arg(info) + self.const_args(callee, line) + terms)
        if info["pure"]: return [], f"({call})", info["ret"]
        r = self.fresh()
        return [("bind", r, call)], r, info["ret"]

    def simple(self, code):
        return not code.items and code.final[0] == "pure" and isinstance(code.final[1], str)

    def tr_if_expr(self, e, env):
        line = e.line
        its, c, cty = self.tr(e.c, env)
        if cty != "bool": raise Unsupported(f"`if` condition of type {cty} (line {line})")
        if e.el is None:
            raise Unsupported(f"`if` without `else` used as a value (line {line})")
        if self.mutated(e, env):
            raise Unsupported(f"`if` expression whose branches also assign variables (line {line})")
        th = self.tr_block(e.th, env, ("value", None)); t1 = self.last_ty
        el = self.tr_block(e.el, env, ("value", None)); t2 = self.last_ty
        ty = t2 if t1 == "!" else t1
        if t1 != "!" and t2 != "!" and not self.compat(t1, t2):
            raise Unsupported(f"`if` branches of types {t1} and {t2} (line {line})")
        if ty == "int" and t2 != "!": ty = t2
        if self.simple(th) and self.simple(el):
            return its, f"(if {unpar(c)} then {unpar(th.final[1])} else {unpar(el.final[1])})", ty
        t = IfTerm(c, th, el)
        r = self.fresh()
        return its + [("bind" if t.monadic() else "let", r, t)], r, ty

    # -- match: patterns become conditions of an if-chain
    def scrutinee(self, e, env):
        """translated scrutinee as a tree: ('leaf', atomic term, type) | ('tuple', [trees])"""
        x = e
        while x.kind == "paren": x = x.e
        if x.kind == "tuple":
            its, subs = [], []
            for c in x.es:
                i2, t = self.scrutinee(c, env)
                its += i2; subs.append(t)
            return its, ("tuple", subs)
        its, s_, sty = self.tr(x, env)
        if not re.fullmatch(r"[\w.]+", s_):
            r = self.fresh(); its = its + [("let", r, s_)]; s_ = r
        if sty.startswith("(") and sty != "()":
            raise Unsupported(f"`match` on a tuple-valued expression that is not a tuple literal (line {e.line})")
        return its, ("leaf", s_, sty)

    def tree_ty(self, t):
        return t[2] if t[0] == "leaf" else "(" + ",".join(self.tree_ty(x) for x in t[1]) + ")"

    def tree_term(self, t):
        return t[1] if t[0] == "leaf" else "(" + ", ".join(self.tree_term(x) for x in t[1]) + ")"

    def variant_of(self, segs, sty):
        """Lean constructor a path pattern / expression denotes for a value of type sty, or None"""
        if sty == "Ordering" and segs[-1] in ORD:
            if (len(segs) == 1 and self.ord_glob) or (len(segs) >= 2 and segs[-2] == "Ordering"):
                return ORD[segs[-1]]
        if sty in self.mod.enums and len(segs) == 2:
            a = self.cur.ty if segs[0] == "Self" else segs[0]
            if a == sty and segs[1] in [v for v, _ in self.mod.enums[a]]: return f"{a}.{segs[1]}"
        return None

    def pat_cond(self, p, tree, line):
        """(conditions (list of Lean propositions, [] = always), bindings {name: (term, type)})"""
        if p.kind == "pwild": return [], {}
        if p.kind == "ptuple":
            if tree[0] != "tuple" or len(tree[1]) != len(p.ps): raise Unsupported(f"tuple pattern (line {line})")
            conds, binds = [], {}
            for q, t in zip(p.ps, tree[1]):
                c, b = self.pat_cond(q, t, line)
                conds += c; binds.update(b)
            return conds, binds
        if p.kind == "psome" or (p.kind == "ppath" and p.segs == ["None"]):
            if tree[0] != "leaf" or not (tree[2].startswith("Option<") and tree[2] != "Option<_>"):
                raise Unsupported(f"`Some`/`None` pattern on {self.tree_ty(tree)} (line {line})")
            s_, inner = tree[1], tree[2][7:-1]
            if p.kind == "ppath": return [f"Option.isNone {s_} = true"], {}
            q = p.p
            if q.kind == "pwild": return [f"Option.isSome {s_} = true"], {}
            if q.kind == "ppath" and len(q.segs) == 1 and q.segs[0][0].islower() and inner in INT64:
                return [f"Option.isSome {s_} = true"], {q.segs[0]: (f"(Option.getD {s_} 0)", inner)}
            raise Unsupported(f"pattern inside `Some(..)` (line {line})")
        if p.kind == "ppath" and len(p.segs) == 1 and self.variant_of(p.segs, self.tree_ty(tree)) is None \
                and p.segs[0][0].islower():
            return [], {p.segs[0]: (self.tree_term(tree), self.tree_ty(tree))}      # binding pattern
        if tree[0] != "leaf": raise Unsupported(f"pattern for a tuple scrutinee (line {line})")
        s_, sty = tree[1], tree[2]
        if p.kind == "pint":
            if sty not in INT64 and sty != "Z": raise Unsupported(f"integer pattern on {sty} (line {line})")
            if p.v < 0 and sty != "Z": raise Unsupported(f"negative pattern on {sty} (line {line})")
            return [f"{s_} = {p.v}" if p.v >= 0 else f"{s_} = ({p.v})"], {}
        if p.kind == "pbool":
            if sty != "bool": raise Unsupported(f"bool pattern on {sty} (line {line})")
            return [f"{s_} = {'true' if p.v else 'false'}"], {}
        v = self.variant_of(p.segs, sty)
        if v is None: raise Unsupported(f"pattern `{'::'.join(p.segs)}` on {sty} (line {line})")
        return [f"{s_} = {v}"], {}

    def domain(self, ty):
        if ty == "bool": return ["true", "false"]
        if ty.startswith("Option<"): return ["some", "none"]
        if ty == "Ordering": return list(ORD.values())
        if ty in self.mod.enums: return [f"{ty}.{v}" for v, _ in self.mod.enums[ty]]
        if ty.startswith("(") and ty != "()":
            ds = [self.domain(x) for x in split_top(ty[1:-1])]
            if any(d is None for d in ds): return None
            out = [[]]
            for d in ds: out = [o + [v] for o in out for v in d]
            return [tuple(o) for o in out]
        return None

    def pat_matches(self, p, val, ty):
        if p.kind == "pwild": return True
        if p.kind == "ptuple":
            return all(self.pat_matches(q, v, t) for q, v, t in zip(p.ps, val, split_top(ty[1:-1])))
        if p.kind == "pbool": return val == ("true" if p.v else "false")
        if p.kind == "psome": return val == "some"
        if p.kind == "ppath" and p.segs == ["None"]: return val == "none"
        if p.kind == "ppath":
            v = self.variant_of(p.segs, ty)
            return True if v is None else v == val
        return False

    def match_arms(self, e, env):
        """[(condition string or None for `always`, env of the arm, body)], scrutinee items; checks exhaustiveness"""
        line = e.line
        its, tree = self.scrutinee(e.s, env)
        sty = self.tree_ty(tree)
        arms = []
        for pats, body in e.arms:
            alts, binds = [], {}
            for p in pats:
                c, b = self.pat_cond(p, tree, line)
                if b and len(pats) > 1: raise Unsupported(f"binding inside an or-pattern (line {line})")
                alts.append(c); binds = b
            always = any(not c for c in alts)
            cond = None if always else " ∨ ".join(" ∧ ".join(c) for c in alts)
            env2 = dict(env)
            for nm, (t, ty) in binds.items(): env2[nm] = (t, ty, False)
            arms.append((cond, env2, body))
            if always: break
        if arms[-1][0] is not None:
            dom = self.domain(sty)
            if dom is None: raise Unsupported(f"`match` on {sty} without a catch-all arm (line {line})")
            for v in dom:
                if not any(any(self.pat_matches(p, v, sty) for p in pats) for pats, _ in e.arms):
                    raise Unsupported(f"non-exhaustive `match` (line {line})")
        return its, arms

    def tr_match(self, e, env):
        line = e.line
        if self.mutated(e, env): raise Unsupported(f"`match` whose arms assign variables (line {line})")
        its, arms0 = self.match_arms(e, env)
        arms = []
        for cond, env2, body in arms0:
            code = self.tr_block(N("block", stmts=[], tail=body), env2, ("value", None))
            arms.append((cond, code, self.last_ty))
        tys = [t for _, _, t in arms if t != "!"]
        ty = tys[0] if tys else "!"
        for t in tys:
            if not self.compat(t, ty): raise Unsupported(f"`match` arms of types {ty} and {t} (line {line})")
            if ty == "int" or ty == "Option<_>": ty = t
        chain = arms[-1][1]
        for cond, code, _ in reversed(arms[:-1]):
            c = "decide (" + cond + ")"
            chain = Code([], ("m" if (code.monadic() or chain.monadic()) else "pure", IfTerm(c, code, chain)))
        if not chain.items and isinstance(chain.final[1], IfTerm):
            t = chain.final[1]
            r = self.fresh()
            return its + [("bind" if t.monadic() else "let", r, t)], r, ty
        if self.simple(chain): return its, chain.final[1], ty
        r = self.fresh()
        return its + [("bind" if chain.monadic() else "let", r, Blk(chain))], r, ty

    def match_k(self, e, env, K, rest_ids):
        if self.has_jump(e.s): raise Unsupported(f"jump inside a `match` scrutinee (line {e.line})")
        its, arms = self.match_arms(e, env)
        codes = [(cond, self.expr_k(body, env2, K, rest_ids)) for cond, env2, body in arms]
        chain = codes[-1][1]
        for cond, code in reversed(codes[:-1]):
            chain = Code([], ("m" if (code.monadic() or chain.monadic()) else "pure", IfTerm("decide (" + cond + ")", code, chain)))
        return Code(its + chain.items, chain.final)

    def tr_struct(self, e, env):
        name = self.cur.ty if e.path == ["Self"] else "::".join(e.path)
        if name in self.cfg.get("wrapper_structs", {}):
            w_ = self.cfg["wrapper_structs"][name]
            if len(e.fields) != 1 or e.fields[0][0] != w_[0]: raise Unsupported(f"struct literal of `{name}` (line {e.line})")
            its, t, ty = self.tr(e.fields[0][1], env)
            if ty != w_[2]: raise Unsupported(f"field {w_[0]}: {ty} given, {w_[2]} expected (line {e.line})")
            return its, f"({w_[4]} {t})", w_[1]
        if name not in self.mod.structs: raise Unsupported(f"struct literal of `{name}` (line {e.line})")
        decl = self.mod.structs[name]
        given = dict()
        its = []
        for fn_, fe in e.fields:
            if fn_ in given: raise Unsupported(f"field {fn_} given twice (line {e.line})")
            i2, t, ty = self.tr(fe, env)
            fty = self.field_ty(name, fn_, e.line)
            if not self.compat(fty, ty): raise Unsupported(f"field {fn_}: {ty} given, {fty} expected (line {e.line})")
            its += i2; given[fn_] = t
        if set(given) != {f for f, _ in decl}: raise Unsupported(f"struct literal does not give all fields (line {e.line})")
        body = ", ".join(f"{self.field_name(f)} := {unpar(given[f])}" for f, _ in decl)
        return its, f"({{ {body} }} : {name}S{(' ' + self.cfg.get('struct_param_name', 'R')) if self.cfg.get('struct_params') else ''})", name

    def tr_macro(self, e, env):
        nm, line = e.name, e.line
        if nm in NOOP_MACROS:
            return [], "()", "()"
        if nm in ("assert", "debug_assert"):
            if not e.args: raise Unsupported(f"`{nm}!` without condition (line {line})")
            its, c, ty = self.tr(e.args[0], env)
            if ty != "bool": raise Unsupported(f"`{nm}!` on {ty} (line {line})")
            if nm == "debug_assert" and self.cfg.get("dbg_param"):
                if its: raise Unsupported(f"`debug_assert!` whose condition can panic (line {line})")
                return [("do", None, f"Res.assert (!dbg || {c})")], "()", "()"
            return its + [("do", None, f"Res.assert {c}")], "()", "()"
        if nm in ("assert_eq", "assert_ne", "debug_assert_eq", "debug_assert_ne"):
            if len(e.args) < 2: raise Unsupported(f"`{nm}!` needs two arguments (line {line})")
            its, c, ty = self.tr(N("bin", op="==" if nm.endswith("eq") else "!=", l=e.args[0], r=e.args[1], line=line), env)
            return its + [("do", None, f"Res.assert {c}")], "()", "()"
        if nm in ("panic", "unreachable", "unimplemented", "todo"):
            r = self.fresh()
            return [("bind", r, "Res.panic")], r, "!"
        if nm == "vec" and not e.args and self.cfg.get("hom"):
            return [], "[]", "List<_>"
        if nm == "vec" and self.cfg.get("sp13") and getattr(e, "repeat", False):
            i1, x, tx = self.tr(e.args[0], env)
            i2, n_, tn = self.tr(e.args[1], env)
            if tn not in INT64 or tx in ("()", "!"): raise Unsupported(f"`vec![x; n]` with x : {tx}, n : {tn} (line {line})")
            return i1 + i2, f"(List.replicate {n_} {x})", f"List<{tx}>"
        if nm == "vec" and self.cfg.get("sp13") and not getattr(e, "repeat", False):
            if not e.args:
                self.nty += 1
                return [], "[]", f"List<?{self.nty}>"
            its, ts, ty0 = [], [], None
            for x in e.args:
                i2, t, ty = self.tr(x, env)
                if ty == "int": ty = "usize"
                if ty0 is not None and not self.compat(ty0, ty): raise Unsupported(f"`vec!` of {ty0} and {ty} (line {line})")
                ty0 = ty0 or ty
                its += i2; ts.append(unpar(t))
            return its, "[" + ", ".join(ts) + "]", f"List<{ty0}>"
        if nm == "vec" and not e.args and self.cfg.get("csc"):
            self.nty += 1
            return [], "[]", f"List<?{self.nty}>"
        if nm == "vec" and getattr(e, "repeat", False) and self.cfg.get("csc"):
            i1, x, tx = self.tr(e.args[0], env)
            i2, n_, tn = self.tr(e.args[1], env)
            if tx != "S" or tn not in INT64: raise Unsupported(f"`vec![x; n]` with x : {tx}, n : {tn} (line {line})")
            return i1 + i2, f"(Array.replicate {n_} {x})", "VS"
        raise Unsupported(f"macro `{nm}!` (line {line})")

    def tr_call(self, e, env):
        segs, line = e.path, e.line
        if segs == ["Some"] and len(e.args) == 1:
            its, t, ty = self.tr(e.args[0], env)
            return its, f"(some {t})", f"Option<{ty}>"
        if len(segs) == 1 and (self.cur.ty if segs[0] == "Self" else segs[0]) in self.mod.tuple_structs:
            name = self.cur.ty if segs[0] == "Self" else segs[0]
            decl = self.mod.structs[name]
            if len(decl) != len(e.args): raise Unsupported(f"constructor `{name}(..)` with {len(e.args)} arguments (line {line})")
            fields = [(f, a) for (f, _), a in zip(decl, e.args)]
            return self.tr_struct(N("struct", path=[name], fields=fields, line=line), env)
        if len(segs) == 1 and segs[0] in self.cfg.get("opaque_fns", {}) and segs[0] not in env and len(e.args) == 2:
            # the SNF routine: an argument of the generated definition (`snf d [p, pinv, q, qinv]`)
            nm = self.cfg["opaque_fns"][segs[0]][0]
            i1, a, ta = self.tr(e.args[0], env)
            i2, fl, tf = self.tr(e.args[1], env)
            if ta != "HM" or tf != "(bool,bool,bool,bool)":
                raise Unsupported(f"`{segs[0]}` on arguments of types {ta}, {tf} (line {line})")
            if nm not in self.uses_opaque: self.uses_opaque.append(nm)
            r = self.fresh()
            return i1 + i2 + [("bind", r, f"{nm} {a} {fl}")], r, "HS"
        if len(segs) == 2 and self.cfg.get("hom") and segs[0] == "Trans" and segs[0] not in self.types:
            if segs[1] == "id" and len(e.args) == 1:
                i1, a, ta = self.tr(e.args[0], env)
                if ta not in INT64: raise Unsupported(f"`Trans::id` on {ta} (line {line})")
                return i1, f"(HTrans.id {a})", "HT"
            if segs[1] == "new" and len(e.args) == 2:
                i1, a, ta = self.tr(e.args[0], env)
                i2, b, tb = self.tr(e.args[1], env)
                if ta != "HM" or tb != "HM": raise Unsupported(f"`Trans::new` on {ta}, {tb} (line {line})")
                r = self.fresh()
                return i1 + i2 + [("bind", r, f"HTrans.new {a} {b}")], r, "HT"
        if self.cfg.get("abs"):
            ab = self.cfg["abs"]
            ent = None
            if len(segs) == 2 and (segs[0], segs[1]) in ab["statics"]: ent = ab["statics"][(segs[0], segs[1])]
            if len(segs) == 1 and segs[0] in ab["free"] and segs[0] not in env: ent = ab["free"][segs[0]]
            if ent is not None:
                fld, ptys, rt, mon = ent
                its, ts = self.abs_args(e.args, ptys, env, "::".join(segs), line)
                call = " ".join([fld] + ts)
                if mon:
                    r = self.fresh()
                    return its + [("bind", r, call)], r, rt
                return its, f"({call})", rt
            if segs == ["HashMap", "new"] and not e.args:
                return [], "HMap.empty", "MAP<_>"
        if self.cfg.get("sp13"):
            r_ = self.tr_call_sp(e, env)
            if r_ is not None: return r_
        if self.cfg.get("cscx") and len(segs) == 1 and segs[0] in ("solve_triangular", "solve_triangular_left") and \
                segs[0] not in env and len(e.args) == 3:
            its_, tms = [], []
            for a_, want in zip(e.args, ("bool", "SM", "SM")):
                i2, t_, ty_ = self.tr(a_, env)
                if ty_ != want: raise Unsupported(f"`{segs[0]}` on an argument of type {ty_} (line {line})")
                its_ += i2; tms.append(t_)
            r = self.fresh()
            return its_ + [("bind", r, " ".join([f"SM.{segs[0]}"] + tms))], r, "SM"
        if self.cfg.get("cscx") and len(segs) == 1 and segs[0] in env and env[segs[0]][1] == "CLOSURE":
            return self.call_local_closure(e, env)
        if self.cfg.get("csc") and len(segs) == 2:
            if segs[0] == "Either" and segs[1] in ("Left", "Right") and len(e.args) == 1:
                return self.tr(e.args[0], env)            # both alternatives are iterators over the same items: a list
            if self.aliases.get(segs[0]) == "S" and segs[1] in ("zero", "one") and not e.args:
                return [], f"(C12.Scal.{segs[1]})", "S"
            ats = [self.tr(x, env) for x in e.args]
            its_ = [i for a_ in ats for i in a_[0]]
            tms, tys = [a_[1] for a_ in ats], [resolve_ty(a_[2]) for a_ in ats]
            if segs == ["SpMat", "id"] and len(tys) == 1 and tys[0] in INT64:
                return its_, (f"(SM.id {tms[0]} : C12.SpMat α)" if self.cfg.get("cscx") else f"(SM.id {tms[0]})"), "SM"
            if self.cfg.get("cscx"):
                if segs == ["SpMat", "from_entries"] and len(tys) == 2 and tys[0] == "(usize,usize)" and \
                        self.compat("List<(usize,usize,S)>", tys[1]):
                    r = self.fresh()
                    return its_ + [("bind", r, f"SM.from_entries {tms[0]} {tms[1]}")], r, "SM"
                if segs == ["Trans", "new"] and tys == ["SM", "SM"]:
                    r = self.fresh()
                    return its_ + [("bind", r, f"SM.Tr.new {tms[0]} {tms[1]}")], r, "TR"
            if segs == ["SpMat", "from_col_vecs"] and len(tys) == 2 and tys[0] in INT64 and tys[1] == "List<SV>":
                r = self.fresh()
                return its_ + [("bind", r, f"SM.from_col_vecs {tms[0]} {tms[1]}")], r, "SM"
            if segs == ["SpVec", "from_sorted_entries"] and len(tys) == 2 and tys[0] in INT64 and \
                    self.compat("List<(usize,S)>", tys[1]):
                r = self.fresh()
                return its_ + [("bind", r, f"SVec.from_sorted_entries {tms[0]} {tms[1]}")], r, "SV"
            if segs[0] in ("SpMat", "SpVec", "Either"):
                raise Unsupported(f"call of `{'::'.join(segs)}` on arguments of types {', '.join(tys)} (line {line})")
        if len(segs) == 1 and self.cfg.get("free_fns") and segs[0] not in env:
            c = [f for f in self.mod.fns if getattr(f, "is_free", False) and f.name == segs[0] and
                 (not getattr(self.cur, "is_free", False) or f.ty == self.cur.ty)]
            if len(c) == 1:
                return self.call_user(c[0], None, e.args, env, line)
        if len(segs) == 1 and segs[0] in self.local_fns.get(self.outer_key(), {}):
            return self.call_user(self.local_fns[self.outer_key()][segs[0]], None, e.args, env, line)
        if len(segs) == 2 and self.cfg.get("int32"):
            owner = segs[0]
            try:
                oty = self.norm_ty(owner, self.cur)
            except Unsupported:
                oty = None
            if oty == "W" and segs[1] in WSTATIC_M and len(e.args) == WSTATIC_M[segs[1]][1]:
                its, ts = [], []
                for x in e.args:
                    i2, t, ty = self.tr(x, env)
                    if not self.compat("W", ty): raise Unsupported(f"argument of type {ty} for `{owner}::{segs[1]}` (line {line})")
                    its += i2; ts.append(t)
                r = self.fresh()
                return its + [("bind", r, " ".join([WSTATIC_M[segs[1]][0]] + ts))], r, WSTATIC_M[segs[1]][2]
        if len(segs) == 2 and segs[0] in ("Add", "Sub", "Mul", "Div", "Rem") and segs[1] == segs[0].lower() and len(e.args) == 2:
            # `Add::add(x, y)`: the operator impl of the argument type
            return self.tr_bin(N("bin", op={"Add": "+", "Sub": "-", "Mul": "*", "Div": "/", "Rem": "%"}[segs[0]],
                                 l=e.args[0], r=e.args[1], line=line), env)
        if len(segs) == 2 and self.scalar == "E":
            owner = segs[0]
            if self.aliases.get(owner) == "E" or owner in ("EucRing", "Ring"):
                if segs[1] in ("one", "zero") and not e.args and self.aliases.get(owner) == "E":
                    return [], f"e.{segs[1]}", "E"
                if segs[1] == "gcdx" and len(e.args) == 2:
                    i1, a, ta = self.tr(e.args[0], env)
                    i2, b, tb = self.tr(e.args[1], env)
                    if ta != "E" or tb != "E": raise Unsupported(f"`gcdx` on {ta}, {tb} (line {line})")
                    return i1 + i2, f"(e.gcdx {a} {b})", "(E,E,E)"
        if segs == ["min"] and len(e.args) == 2 and "min" not in env:
            i1, a, ta = self.tr(e.args[0], env)
            i2, b, tb = self.tr(e.args[1], env)
            ty = self.join_int(ta, tb, "min", line)
            return i1 + i2, f"(min {a} {b})", ty
        if len(segs) == 2 and self.scalar:
            owner = segs[0]
            isz = self.aliases.get(owner) == "Z" or \
                (owner in ZSTATIC_OWNERS and owner not in self.types and len(e.args) > 0)
            if isz:
                c = self.find_trait_default(segs[1])
                if c is not None:
                    if c.selfk:
                        i1, recv, rty = self.tr(e.args[0], env)
                        i2, t, ty = self.call_user(c, recv, e.args[1:], env, line)
                        return i1 + i2, t, ty
                    return self.call_user(c, None, e.args, env, line)
                if segs[1] in ZSTATIC and len(e.args) == ZSTATIC[segs[1]][1]:
                    fn_, _, rty = ZSTATIC[segs[1]]
                    its, ts = [], []
                    for x in e.args:
                        i2, t, ty = self.tr(x, env)
                        if ty == "int" and re.fullmatch(r"\d+", t): ty = "Z"
                        if ty != "Z": raise Unsupported(f"argument of type {ty} for `{owner}::{segs[1]}` (line {line})")
                        its += i2; ts.append(t)
                    return its, (f"({fn_} {' '.join(ts)})" if ts else fn_), rty
        if len(segs) == 2:
            a = self.cur.ty if segs[0] == "Self" else segs[0]
            if a in self.types or a in self.newtypes:
                argt = [("closure" if x.kind == "closure" else self.tr(x, dict(env), dry=True)[2]) for x in e.args]
                if segs[1] == "from" and len(argt) == 1 and (a, argt[0]) in self.convs:
                    its, t, _ = self.tr(e.args[0], env)
                    return its, f"({self.convs[(a, argt[0])]} {t})", a
                c = self.find_fn(a, segs[1], argt)
                if c is None: raise Unsupported(f"call of unknown / ambiguous function `{a}::{segs[1]}` (line {line})")
                if c.selfk:
                    if not e.args: raise Unsupported(f"method `{a}::{segs[1]}` called without receiver (line {line})")
                    i1, recv, rty = self.tr(e.args[0], env)
                    i2, t, ty = self.call_user(c, recv, e.args[1:], env, line)
                    return i1 + i2, t, ty
                return self.call_user(c, None, e.args, env, line)
        raise Unsupported(f"call of `{'::'.join(segs)}` (line {line})")

    def call_local_closure(self, e, env):
        """call of a closure bound by `let name = |params| body;`: the body with the arguments substituted"""
        segs, line = e.path, e.line
        c, cenv = self.local_closures[(self.cur.key, segs[0])]
        if len(c.params) != len(e.args): raise Unsupported(f"call of the closure `{segs[0]}` with {len(e.args)} arguments (line {line})")
        its, env2 = [], dict(cenv)
        for p_, a in zip(c.params, e.args):
            i2, t, ty = self.tr(a, env)
            if ty == "int": ty = "usize"
            if not re.fullmatch(r"[\w.]+", t):
                r0 = self.fresh(); i2 = i2 + [("let", r0, t)]; t = r0
            its += i2
            if p_ != "_": env2[p_] = (t, ty, False)
        i3, t, ty = self.tr(c.body, env2)
        return its + i3, t, ty

    def tr_call_sp(self, e, env):
        """calls of target option `sp13`: function-typed variables, the `CooMatrix` / `CscMatrix` / `PermView` statics"""
        segs, line = e.path, e.line
        if len(segs) == 1 and segs[0] in env and resolve_ty(env[segs[0]][1]).startswith("FN<"):
            ln, fty, _ = env[segs[0]]
            mf = re.fullmatch(r"FN<(.*)->(.*)>", fty)
            ptys = [self.norm_ty(x, self.cur) for x in (split_top(mf.group(1)) if mf.group(1) else [])]
            if len(ptys) != len(e.args): raise Unsupported(f"call of `{segs[0]}` with {len(e.args)} arguments (line {line})")
            its, ts = [], []
            for a, pt in zip(e.args, ptys):
                i2, t, ty = self.tr(a, env)
                if not self.compat(pt, ty): raise Unsupported(f"argument of type {ty} for `{segs[0]}` ({pt} expected) (line {line})")
                its += i2; ts.append(t)
            r = self.fresh()
            return its + [("bind", r, " ".join([ln] + ts))], r, self.norm_ty(mf.group(2), self.cur)
        if len(segs) == 1 and segs[0] in env and env[segs[0]][1] == "CLOSURE":
            return self.call_local_closure(e, env)
        if False:
            c, cenv = self.local_closures[(self.cur.key, segs[0])]
            if len(c.params) != len(e.args): raise Unsupported(f"call of the closure `{segs[0]}` with {len(e.args)} arguments (line {line})")
            its, env2 = [], dict(cenv)
            for p_, a in zip(c.params, e.args):
                i2, t, ty = self.tr(a, env)
                if ty == "int": ty = "usize"
                if not re.fullmatch(r"[\w.]+", t):
                    r0 = self.fresh(); i2 = i2 + [("let", r0, t)]; t = r0
                its += i2
                if p_ != "_": env2[p_] = (t, ty, False)
            i3, t, ty = self.tr(c.body, env2)
            return its + i3, t, ty
        if segs in (["zip"], ["std", "iter", "zip"], ["iter", "zip"]) and len(e.args) == 2 and "zip" not in env:
            xs = [a for a in e.args]
            for k_ in range(2):
                while xs[k_].kind == "paren": xs[k_] = xs[k_].e
            if all(x.kind == "tuple" and getattr(x, "array", False) for x in xs) and len(xs[0].es) == len(xs[1].es):
                its, ps, ty0 = [], [], None
                for a, b in zip(xs[0].es, xs[1].es):
                    i2, ta, tya = self.tr(a, env)
                    i3, tb, tyb = self.tr(b, env)
                    tyb = re.sub(r"(?<![\w])int(?![\w])", "usize", tyb)
                    ty = f"({tya},{tyb})"
                    if ty0 is not None and not self.compat(ty0, ty): raise Unsupported(f"`zip` of arrays with items {ty0} and {ty} (line {line})")
                    ty0 = ty0 or ty
                    its += i2 + i3; ps.append(f"({unpar(ta)}, {unpar(tb)})")
                return its, "[" + ", ".join(ps) + "]", f"List<{ty0}>"
            raise Unsupported(f"`zip` of this form (line {line})")
        if segs == ["Iterator", "chain"] and len(e.args) == 2:
            i1, a, ta = self.tr(e.args[0], env)
            i2, b, tb = self.tr(e.args[1], env)
            ta, tb = resolve_ty(ta), resolve_ty(tb)
            if not (ta.startswith("List<") and self.compat(ta, tb)): raise Unsupported(f"`Iterator::chain` of {ta} and {tb} (line {line})")
            return i1 + i2, f"({a} ++ {b})", ta
        if segs in (["std", "mem", "replace"], ["mem", "replace"]) and len(e.args) == 2:
            x = e.args[0]
            while x.kind == "paren": x = x.e
            if not (x.kind == "un" and x.op == "&mut"): raise Unsupported(f"`mem::replace` of this form (line {line})")
            root, field = self.place(x.e, env)
            ln, rty, _ = env[root]
            if field is not None and not (rty == "PM" and field in self.cfg.get("newtype_structs", {}).values()):
                raise Unsupported(f"`mem::replace` on a field (line {line})")
            i2, t, ty = self.tr(e.args[1], env)
            if not self.compat(rty, ty): raise Unsupported(f"`mem::replace` of {rty} by {ty} (line {line})")
            old = self.fresh()
            return [("let", old, ln)] + i2 + [("let", ln, t)], old, rty
        if len(segs) == 2 and self.aliases.get(segs[0]) == "K13" and segs[1] in ("one", "zero") and not e.args:
            return [], "(1 : R)" if segs[1] == "one" else "(0 : R)", "K13"
        if len(segs) != 2: return None
        own = {"Self": self.cur.ty}.get(segs[0], segs[0])
        key = (own, segs[1])
        table = {("CooMatrix", "new"): ("Sp.Coo.new", ["usize", "usize"], "CO", False),
                 ("CscMatrix", "zeros"): ("C13.SpMat.zero", ["usize", "usize"], "PM", False),
                 ("CscMatrix", "from"): ("Sp.Coo.to_csc", ["CO"], "PM", False),
                 ("CscMatrix", "try_from_csc_data"): ("Sp.try_from_csc_data", ["usize", "usize", "List<usize>", "List<usize>", "List<K13>"],
                                                      "Option<PM>", False),
                 ("PermView", "identity"): ("C13.Perm.identity", ["usize"], "PP", False),
                 ("SpMat", "zero"): ("Sp.zero", ["(usize,usize)"], "PM", False),
                 ("SpMat", "id"): ("C13.SpMat.id", ["usize"], "PM", False),
                 ("SpMat", "from_entries"): ("C13.fromEntries", ["usize", "usize", "List<(usize,usize,K13)>"], "PM", True),
                 ("SpMat", "from_row_perm"): ("C13.fromRowPerm", ["PP"], "PM", True),
                 ("SpMat", "from_col_perm"): ("C13.fromColPerm", ["PP"], "PM", True)}
        if key == ("SpMat", "from_entries") and len(e.args) == 2 and self.find_fn("SpMat", "from_entries") is None:
            sh = e.args[0]
            while sh.kind == "paren": sh = sh.e
            if sh.kind == "tuple" and len(sh.es) == 2:
                e = N("call", path=e.path, args=[sh.es[0], sh.es[1], e.args[1]], line=line)
        if key == ("SpMat", "from") and len(e.args) == 1:
            its, t, ty = self.tr(e.args[0], env)
            if ty == "PM": return its, t, "PM"                    # `From<CscMatrix<R>>`: the wrapper
        if key in table and not (key[0] == "SpMat" and self.find_fn("SpMat", key[1]) is not None and key[1] != "zero"):
            fn_, ptys, rty, mon = table[key]
            if mon and len(ptys) == len(e.args):
                its, ts = [], []
                for a, pt in zip(e.args, ptys):
                    i2, t, ty = self.tr(a, env)
                    if ty == "int": ty = "usize"
                    if not self.compat(pt, resolve_ty(ty)): raise Unsupported(f"argument of type {ty} for `{'::'.join(segs)}` ({pt} expected) (line {line})")
                    its += i2; ts.append(t)
                r = self.fresh()
                return its + [("bind", r, " ".join([fn_] + ts))], r, rty
            if len(ptys) != len(e.args): return None
            its, ts = [], []
            for a, pt in zip(e.args, ptys):
                i2, t, ty = self.tr(a, env)
                if not self.compat(pt, resolve_ty(ty)): raise Unsupported(f"argument of type {ty} for `{'::'.join(segs)}` ({pt} expected) (line {line})")
                its += i2; ts.append(t)
            if fn_ in ("C13.SpMat.zero", "Sp.zero", "C13.SpMat.id"):
                return its, "(" + " ".join([fn_] + ts) + " : C13.SpMat R)", rty
            return its, "(" + " ".join([fn_] + ts) + ")", rty
        return None

    def tr_mcall_sp(self, e, env, i1, recv, rty):
        """method calls of target option `sp13` (None: not handled here)"""
        line, name, na = e.line, e.name, len(e.args)
        for wname, w_ in self.cfg.get("wrapper_structs", {}).items():
            if rty == w_[1]:
                c = self.find_fn(wname, name, None)
                if c is not None and c.selfk in ("ref", "val"):
                    i2, t, ty = self.call_user(c, recv, e.args, env, line)
                    return i1 + i2, t, ty
        if rty == "PM" and self.cfg.get("wrapper_structs"):
            c = self.find_fn("SpMat", name, None)
            if c is not None and c.selfk in ("ref", "val"):
                i2, t, ty = self.call_user(c, recv, e.args, env, line)
                return i1 + i2, t, ty
            if name == "triplet_iter" and na == 0: return i1, f"(Sp.iter {recv})", "List<(usize,usize,K13)>"
        if rty == "PM":
            owner = next(iter(set(self.cfg.get("newtype_structs", {}))), None)
            if owner is not None and name not in ("nrows", "ncols", "shape", "iter", "nnz", "disassemble", "inner",
                                                  "into_inner", "clone", "into"):
                c = self.find_fn(owner, name, None)
                if c is not None and c.selfk in ("ref", "val"):
                    i2, t, ty = self.call_user(c, recv, e.args, env, line)
                    return i1 + i2, t, ty
            if na == 0:
                if name in ("nrows", "ncols"): return i1, f"{recv}.{name}", "usize"
                if name == "shape": return i1, f"(Sp.shape {recv})", "(usize,usize)"
                if name == "iter": return i1, f"(Sp.iter {recv})", "List<(usize,usize,K13)>"
                if name == "nnz": return i1, f"(Sp.nnz {recv})", "usize"
                if name == "is_id" and owner is None: return i1, f"(Sp.is_id {recv})", "bool"
                if name == "disassemble": return i1, f"(Sp.disassemble {recv})", "(List<usize>,List<usize>,List<K13>)"
                if name in ("clone", "into", "into_inner", "inner"): return i1, recv, rty
        if rty == "PV" and na == 0:
            if name == "dim": return i1, f"{recv}.dim", "usize"
            if name in ("into_inner", "inner"): return i1, f"(Sp.vec_inner {recv})", "PM"
        if rty == "PP":
            if name == "at" and na == 1:
                i2, a, ta = self.tr(e.args[0], env)
                if ta not in INT64: raise Unsupported(f"`.at` with an argument of type {ta} (line {line})")
                r = self.fresh()
                return i1 + i2 + [("bind", r, f"C13.Perm.at {recv} {a}")], r, "usize"
            if name == "dim" and na == 0: return i1, f"{recv}.dim", "usize"
            if name == "clone" and na == 0: return i1, recv, rty
        if rty == "PV" and name == "clone" and na == 0: return i1, recv, rty
        if rty in self.mod.structs and name == "clone" and na == 0 and self.cfg.get("struct_params"): return i1, recv, rty
        if rty == "RG":
            if name == "contains" and na == 1:
                i2, a, ta = self.tr(e.args[0], env)
                if ta not in INT64: raise Unsupported(f"`.contains` with an argument of type {ta} (line {line})")
                return i1 + i2, f"(Sp.range_contains {recv} {a})", "bool"
        if rty == "K13" and na == 0:
            if name == "is_zero": return i1, f"(decide ({recv} = 0))", "bool"
            if name == "clone": return i1, recv, rty
        if rty.startswith("List<"):
            elt = rty[5:-1]
            if name == "len" and na == 0: return i1, f"(List.length {recv})", "usize"
            if name == "is_empty" and na == 0: return i1, f"(List.isEmpty {recv})", "bool"
            if name == "rev" and na == 0: return i1, f"(List.reverse {recv})", rty
            if name == "fold" and na == 2 and e.args[1].kind == "closure":
                i2, init, tinit = self.tr(e.args[0], env)
                cname, cargs, cret, mon = self.closure_def(e.args[1], [tinit, elt], env)
                if not self.compat(tinit, cret): raise Unsupported(f"`fold` closure returning {cret} for an accumulator of type {tinit} (line {line})")
                call = "(" + " ".join([cname] + cargs) + ")"
                if mon:
                    r = self.fresh()
                    return i1 + i2 + [("bind", r, f"List.foldlM {call} {init} {recv}")], r, tinit
                return i1 + i2, f"(List.foldl {call} {init} {recv})", tinit
            if name == "flat_map" and na == 1 and e.args[0].kind == "closure":
                cname, cargs, cret, mon = self.closure_def(e.args[0], [elt], env)
                if mon or not cret.startswith("List<"): raise Unsupported(f"`flat_map` closure returning {cret} / panicking (line {line})")
                return i1, "(List.flatMap (" + " ".join([cname] + cargs) + f") {recv})", cret
            if name == "pop" and na == 0:
                root = self.vec_place(e.recv, env)
                if root is None: raise Unsupported(f"`pop` on this kind of place (line {line})")
                ln = env[root][0]
                r = self.fresh()
                return i1 + [("let", r, f"List.getLast? {ln}"), ("let", ln, f"List.dropLast {ln}")], r, f"Option<{elt}>"
        if rty.startswith("(") and rty != "()" and name == "map" and na == 1 and e.args[0].kind == "closure":
            rx = e.recv
            while rx.kind == "paren": rx = rx.e
            comps = split_top(rty[1:-1])
            if rx.kind == "tuple" and getattr(rx, "array", False) and len(set(comps)) == 1:
                # `[a, b, c, d].map(|x| …)`: componentwise
                cname, cargs, cret, mon = self.closure_def(e.args[0], [comps[0]], env)
                if mon: raise Unsupported(f"array `map` with a closure that can panic (line {line})")
                n_ = len(comps)
                if not re.fullmatch(r"[\w.]+", recv):
                    r0 = self.fresh(); i1 = i1 + [("let", r0, recv)]; recv = r0
                call = " ".join([cname] + cargs)
                return i1, "(" + ", ".join(f"{call} {self.tuple_proj(recv, k_, n_)}" for k_ in range(n_)) + ")", \
                    "(" + ",".join([cret] * n_) + ")"
        if rty == "bool" and name == "then" and na == 1 and e.args[0].kind == "closure" and not e.args[0].params:
            body = self.tr_block(N("block", stmts=[], tail=e.args[0].body), env, ("value", None))
            ty = self.last_ty
            if self.simple(body): return i1, f"(if {recv} then some {body.final[1]} else none)", f"Option<{ty}>"
            r = self.fresh()
            th = Code(body.items, ("pure", f"(some {body.final[1]})")) if body.final[0] == "pure" and isinstance(body.final[1], str) else None
            if th is None and body.final[0] == "m":
                r2 = self.fresh()
                th = Code(list(body.items) + [("bind", r2, body.final[1])], ("pure", f"(some {r2})"))
            if th is None: raise Unsupported(f"`.then` with a closure of this form (line {line})")
            return i1 + [("bind", r, IfTerm(recv, th, Code([], ("pure", "none"))))], r, f"Option<{ty}>"
        if rty.startswith("FN<"):
            return None
        return None

    def tr_mcall_csc(self, e, env, i1, recv, rty):
        """method calls on the CSC types of target option `csc` (None: not one of them)"""
        line, name, na = e.line, e.name, len(e.args)
        if rty == "bool" and name == "then" and na == 1 and e.args[0].kind == "closure" and not e.args[0].params and \
                self.cfg.get("cscx"):
            body = self.tr_block(N("block", stmts=[], tail=e.args[0].body), env, ("value", None))
            ty = self.last_ty
            if self.simple(body): return i1, f"(if {recv} then some {body.final[1]} else none)", f"Option<{ty}>"
            r = self.fresh()
            th = Code(body.items, ("pure", f"(some {body.final[1]})")) if body.final[0] == "pure" and isinstance(body.final[1], str) else None
            if th is None and body.final[0] == "m":
                r2 = self.fresh()
                th = Code(list(body.items) + [("bind", r2, body.final[1])], ("pure", f"(some {r2})"))
            if th is None: raise Unsupported(f"`.then` with a closure of this form (line {line})")
            return i1 + [("bind", r, IfTerm(recv, th, Code([], ("pure", "none"))))], r, f"Option<{ty}>"
        if rty == "S":
            if na == 0:
                if name == "is_zero": return i1, f"(C12.Scal.isZero {recv})", "bool"
                if name == "inv": return i1, f"(C12.Scal.inv {recv})", "Option<S>"
                if name == "clone": return i1, recv, rty
        if rty == "SM":
            if na == 0:
                if name in ("nrows", "ncols"): return i1, f"(SM.{name} {recv})", "usize"
                if name == "shape": return i1, f"(SM.shape {recv})", "(usize,usize)"
                if name == "iter": return i1, f"(SM.iter {recv})", "List<(usize,usize,S)>"
                if name == "transpose": return i1, f"(SM.transpose {recv})", "SM"
            if name == "col_vec" and na == 1:
                i2, a, ta = self.tr(e.args[0], env)
                if ta not in INT64: raise Unsupported(f"`.col_vec` with an argument of type {ta} (line {line})")
                return i1 + i2, f"(SM.col_vec {recv} {a})", "SV"
            if self.cfg.get("cscx"):
                if name == "divide4" and na == 1:
                    i2, p_, tp = self.tr(e.args[0], env)
                    if tp != "(usize,usize)": raise Unsupported(f"`.divide4` with an argument of type {tp} (line {line})")
                    r = self.fresh()
                    return i1 + i2 + [("bind", r, f"SM.divide4 {recv} {p_}")], r, "(SM,SM,SM,SM)"
                if name == "stack" and na == 1:
                    i2, b_, tb = self.tr(e.args[0], env)
                    if tb != "SM": raise Unsupported(f"`.stack` with an argument of type {tb} (line {line})")
                    r = self.fresh()
                    return i1 + i2 + [("bind", r, f"SM.stack {recv} {b_}")], r, "SM"
                if name == "clone" and na == 0: return i1, recv, rty
                if name == "is_zero" and na == 0: return i1, f"(SM.is_zero {recv})", "bool"
            if name == "is_triang" and na == 1:
                i2, a, ta = self.tr(e.args[0], env)
                c = self.find_fn("TriangularType", "is_upper")
                if ta != "TriangularType" or c is None: raise Unsupported(f"`.is_triang` with an argument of type {ta} (line {line})")
                i3, up, _ = self.call_user(c, a, [], env, line)
                return i1 + i2 + i3, f"(SM.is_triang {recv} {up})", "bool"
        if rty == "SV" and na == 0:
            if name == "iter": return i1, f"(SVec.iter {recv})", "List<(usize,S)>"
            if name == "dim": return i1, f"(SVec.dim {recv})", "usize"
            if name == "to_dense": return i1, f"(SVec.to_dense {recv})", "VS"
        if rty == "VS" and na == 0:
            if name in ("iter", "into_iter"): return i1, f"(Array.toList {recv})", "List<S>"
            if name == "len": return i1, f"(Array.size {recv})", "usize"
        if rty.startswith("Option<") and name == "as_ref" and na == 0 and self.cfg.get("cscx"): return i1, recv, rty
        if rty.startswith("List<"):
            elt = rty[5:-1]
            if name == "map" and na == 1 and e.args[0].kind == "closure" and self.cfg.get("cscx"):
                cname, cargs, cret, mon = self.closure_def(e.args[0], [elt], env)
                call = "(" + " ".join([cname] + cargs) + ")"
                if mon:
                    r = self.fresh()
                    return i1 + [("bind", r, f"Iter.mapM {call} {recv}")], r, f"List<{cret}>"
                return i1, f"(List.map {call} {recv})", f"List<{cret}>"
            if na == 0:
                if name == "enumerate": return i1, f"(Csc.enumerate {recv})", f"List<(usize,{elt})>"
                if name == "rev": return i1, f"(List.reverse {recv})", rty
                if name == "collect": return (i1, f"(List.toArray {recv})", "VS") if elt == "S" else (i1, recv, rty)
                if name in ("iter", "into_iter", "cloned", "copied"): return i1, recv, rty
            if name == "all" and na == 1 and e.args[0].kind == "closure":
                cname, cargs, cret, mon = self.closure_def(e.args[0], [elt], env)
                if mon or cret != "bool": raise Unsupported(f"`.all` with a closure that can panic / returns {cret} (line {line})")
                return i1, "(List.all " + recv + " (" + " ".join([cname] + cargs) + "))", "bool"
        return None

    def abs_args(self, args, ptys, env, what, line):
        its, ts = [], []
        if len(args) != len(ptys): raise Unsupported(f"`{what}` with {len(args)} arguments (line {line})")
        for a, pt in zip(args, ptys):
            i2, t, ty = self.tr(a, env)
            if ty == "int": ty = "usize"
            if not self.compat(pt, resolve_ty(ty)): raise Unsupported(f"argument of type {ty} for `{what}` ({pt} expected) (line {line})")
            its += i2; ts.append(t)
        return its, ts

    def tr_mcall_abs(self, e, env):
        """method calls of target option `abs` (None: not handled here)"""
        ab = self.cfg["abs"]
        line, name, na = e.line, e.name, len(e.args)
        if name == "contains" and na == 1:
            rx = e.recv
            while rx.kind == "paren": rx = rx.e
            if rx.kind == "range":
                i0, lo, tl = self.tr(rx.lo, env)
                i1, hi, th = self.tr(rx.hi, env)
                i2, a, ta = self.tr(e.args[0], env)
                if not (tl in INT64 and th in INT64 and ta in INT64): raise Unsupported(f"`(a..b).contains` on {tl}, {th}, {ta} (line {line})")
                return i0 + i1 + i2, f"({self.cfg['range_contains_fn']} ({lo}, {hi}) {a})", "bool"
        if name == "any" and na == 1 and e.args[0].kind == "closure" and e.recv.kind == "mcall" and e.recv.name == "iter" \
                and not e.recv.args and "pm_one" in ab:
            c_ = e.args[0]
            b_ = c_.body
            while b_.kind == "paren": b_ = b_.e
            if len(c_.params) == 1 and isinstance(c_.params[0], tuple) and len(c_.params[0]) == 3 and b_.kind == "mcall" and \
                    b_.name == "is_pm_one" and not b_.args and b_.recv.kind == "path" and b_.recv.segs == [c_.params[0][2]]:
                i0, m_, tm = self.tr(e.recv.recv, env)
                if tm == "M": return i0, f"({ab['pm_one'][0]} {m_})", "bool"
        i1, recv, rty = self.tr(e.recv, env)
        rty = resolve_ty(rty)
        if rty in self.mod.structs:
            c = self.find_fn(rty, name, None)
            if c is not None and getattr(c, "ret_mut", False):
                raise Unsupported(f"`.{name}` returns a `&mut` reference: only usable in `if let Some(x) = …` (line {line})")
            return None
        if (rty, name, na) in ab["methods"]:
            fld, ptys, rt, mon = ab["methods"][(rty, name, na)]
            if fld is None: return i1, recv, rt
            i2, ts = self.abs_args(e.args, ptys, env, f".{name}", line)
            call = " ".join([fld, recv] + ts)
            if mon:
                r = self.fresh()
                return i1 + i2 + [("bind", r, call)], r, rt
            return i1 + i2, f"({call})", rt
        if (rty, name) in ab["closure_methods"] and na == 2 and e.args[1].kind == "closure":
            fld, shty, ptys, cret_want, rt = ab["closure_methods"][(rty, name)]
            i2, sh, tsh = self.tr(e.args[0], env)
            if tsh == "int": tsh = "usize"
            if not self.compat(shty, tsh): raise Unsupported(f"`.{name}` with a first argument of type {tsh} (line {line})")
            cname, cargs, cret, mon = self.closure_def(e.args[1], ptys, env)
            if not self.compat(cret_want, cret): raise Unsupported(f"closure returning {cret} where {cret_want} is expected (line {line})")
            call = " ".join([cname] + cargs)
            if mon: ct = f"({call})"
            else:
                vs = [f"a{k_}" for k_ in range(len(ptys))]
                ct = "(fun " + " ".join(vs) + f" => Res.ok ({call} " + " ".join(vs) + "))"
            r = self.fresh()
            return i1 + i2 + [("bind", r, f"{fld} {recv} {sh} {ct}")], r, rt
        if rty == "M" and name == "shape" and na == 0:
            return i1, f"(K.nrows {recv}, K.ncols {recv})", "(usize,usize)"
        if rty.startswith("MAP<"):
            kt, vt = split_top(rty[4:-1])
            if name in ("get", "contains_key") and na == 1:
                i2, k_, tk = self.tr(e.args[0], env)
                if not self.compat(kt, tk): raise Unsupported(f"`.{name}` with a key of type {tk} (line {line})")
                if name == "get": return i1 + i2, f"(HMap.get {recv} {k_})", f"Option<{vt}>"
                return i1 + i2, f"(HMap.contains_key {recv} {k_})", "bool"
        if rty == "bool" and name == "then" and na == 1 and e.args[0].kind == "closure" and not e.args[0].params:
            body = self.tr_block(N("block", stmts=[], tail=e.args[0].body), env, ("value", None))
            ty = self.last_ty
            if self.simple(body): return i1, f"(if {recv} then some {body.final[1]} else none)", f"Option<{ty}>"
            r = self.fresh()
            th = Code(body.items, ("pure", f"(some {body.final[1]})")) if body.final[0] == "pure" and isinstance(body.final[1], str) else None
            if th is None and body.final[0] == "m":
                r2 = self.fresh()
                th = Code(list(body.items) + [("bind", r2, body.final[1])], ("pure", f"(some {r2})"))
            if th is None: raise Unsupported(f"`.then` with a closure of this form (line {line})")
            return i1 + [("bind", r, IfTerm(recv, th, Code([], ("pure", "none"))))], r, f"Option<{ty}>"
        if rty.startswith("List<"):
            elt = rty[5:-1]
            if name == "len" and na == 0: return i1, f"(List.length {recv})", "usize"
            if name in ("iter", "into_iter", "clone", "cloned") and na == 0: return i1, recv, rty
            if name == "all" and na == 1 and e.args[0].kind == "closure":
                cname, cargs, cret, mon = self.closure_def(e.args[0], [elt], env)
                if mon or cret != "bool": raise Unsupported(f"`.all` with a closure that can panic / returns {cret} (line {line})")
                return i1, "(List.all " + recv + " (" + " ".join([cname] + cargs) + "))", "bool"
        if rty.startswith("Option<") and name == "clone" and na == 0: return i1, recv, rty
        return None

    def tr_mcall(self, e, env):
        line, name = e.line, e.name
        if self.cfg.get("abs"):
            r_ = self.tr_mcall_abs(e, env)
            if r_ is not None: return r_
        if self.cfg.get("sp13") and name == "contains" and len(e.args) == 1:
            rx = e.recv
            while rx.kind == "paren": rx = rx.e
            if rx.kind == "range":
                i0, lo, tl = self.tr(rx.lo, env)
                i1, hi, th = self.tr(rx.hi, env)
                i2, a, ta = self.tr(e.args[0], env)
                if not (tl in INT64 and th in INT64 and ta in INT64): raise Unsupported(f"`(a..b).contains` on {tl}, {th}, {ta} (line {line})")
                return i0 + i1 + i2, f"(Sp.range_contains ({lo}, {hi}) {a})", "bool"
        i1, recv, rty = self.tr(e.recv, env)
        if self.cfg.get("sp13"):
            rty = resolve_ty(rty)
            r_ = self.tr_mcall_sp(e, env, i1, recv, rty)
            if r_ is not None: return r_
        if rty in self.types:
            argt = [self.tr(a, dict(env), dry=True)[2] for a in e.args]
            c = self.find_fn(rty, name, argt)
            if c is None:
                if name == "clone" and not e.args: return i1, recv, rty
                raise Unsupported(f"unknown / ambiguous method `.{name}` on {rty} (line {line})")
            if c.selfk is None: raise Unsupported(f"`.{name}` is not a method (line {line})")
            i2, t, ty = self.call_user(c, recv, e.args, env, line)
            return i1 + i2, t, ty
        if rty == "Z":
            c = None
            if self.cur.ty in self.cfg.get("scalar_types", []):      # sibling method of the same integer impl
                sib = [f for f in self.mod.fns if f.ty == self.cur.ty and f.name == name and f.selfk]
                if len(sib) == 1: c = sib[0]
            c = c or self.find_trait_default(name)
            if c is not None and c.selfk:
                i2, t, ty = self.call_user(c, recv, e.args, env, line)
                return i1 + i2, t, ty
            if name == "clone" and not e.args: return i1, recv, rty
            if name == "cmp" and len(e.args) == 1:
                i2, b, tb = self.tr(e.args[0], env)
                if tb != "Z": raise Unsupported(f"`.cmp` with an argument of type {tb} (line {line})")
                return i1 + i2, f"(compare {recv} {b})", "Ordering"
            if name in ZMETH and len(e.args) == ZMETH[name][1]:
                return i1, f"({ZMETH[name][0]} {recv})", ZMETH[name][2]
            if name in ZMETH_M and len(e.args) == ZMETH_M[name][1]:
                its2, ts = [], []
                for x in e.args:
                    i2, t, ty = self.tr(x, env)
                    if ty == "int" and re.fullmatch(r"\d+", t): ty = "Z"
                    if ty != "Z": raise Unsupported(f"argument of type {ty} for `.{name}` (line {line})")
                    its2 += i2; ts.append(t)
                r = self.fresh()
                return i1 + its2 + [("bind", r, f"{ZMETH_M[name][0]} {recv} {' '.join(ts)}")], r, ZMETH_M[name][2]
        if rty == "E":
            if name == "clone" and not e.args: return i1, recv, rty
            if name in EMETH and not e.args:
                return i1, f"({EMETH[name][0]} {recv})", EMETH[name][1]
            if name == "divides" and len(e.args) == 1:
                i2, b, tb = self.tr(e.args[0], env)
                if tb != "E": raise Unsupported(f"`.divides` with an argument of type {tb} (line {line})")
                return i1 + i2, f"(e.dvd {recv} {b})", "bool"
        mm = re.fullmatch(r"M<(\w+),(\w+)>", rty)
        if mm:
            r_, c_ = mm.group(1), mm.group(2)
            if not e.args:
                if name == "nrows": return i1, r_, "usize"
                if name == "ncols": return i1, c_, "usize"
                if name == "shape": return i1, f"({r_}, {c_})", "(usize,usize)"
                if name == "is_zero": return i1, f"(C09.isZeroMat e.toROps {recv})", "bool"
                if name == "is_diag": return i1, f"(C09.isDiag e.toROps {recv})", "bool"
                if name == "inner": return i1, recv, rty
            if name in ("row", "column") and len(e.args) == 1:
                i2, a, ta = self.tr(e.args[0], env)
                if ta not in INT64: raise Unsupported(f"`.{name}` with an argument of type {ta} (line {line})")
                r = self.fresh()
                return i1 + i2 + [("bind", r, f"Dense.{name} {recv} {a}")], r, "List<E>"
        if rty == "LM":
            if not e.args:
                if name == "nrows": return i1, f"{recv}.r", "usize"
                if name == "ncols": return i1, f"{recv}.c", "usize"
                if name == "shape": return i1, f"({recv}.r, {recv}.c)", "(usize,usize)"
                if name == "inner": return i1, recv, rty
            if name == "row" and len(e.args) == 1:
                i2, a, ta = self.tr(e.args[0], env)
                if ta not in INT64: raise Unsupported(f"`.row` with an argument of type {ta} (line {line})")
                r = self.fresh()
                return i1 + i2 + [("bind", r, f"LMat.row {recv} {a}")], r, "List<Z>"
        if self.cfg.get("csc"):
            rty = resolve_ty(rty)
            r_ = self.tr_mcall_csc(e, env, i1, recv, rty)
            if r_ is not None: return r_
        if rty == "HM":
            if not e.args:
                if name == "nrows": return i1, f"(HMat.nrows {recv})", "usize"
                if name == "ncols": return i1, f"(HMat.ncols {recv})", "usize"
                if name == "shape": return i1, f"(HMat.shape {recv})", "(usize,usize)"
                if name == "is_zero": return i1, f"(HMat.is_zero {recv})", "bool"
                if name in ("into_dense", "into_sparse"): return i1, f"(HMat.{name} {recv})", "HM"
                if name == "clone": return i1, recv, rty
            if name in ("submat_rows", "submat_cols") and len(e.args) == 1 and e.args[0].kind == "range":
                i2, lo, tl = self.tr(e.args[0].lo, env)
                i3, hi, th = self.tr(e.args[0].hi, env)
                if tl not in INT64 or th not in INT64: raise Unsupported(f"`.{name}` over {tl}..{th} (line {line})")
                r = self.fresh()
                return i1 + i2 + i3 + [("bind", r, f"HMat.{name} {recv} {lo} {hi}")], r, "HM"
            if name in ("stack", "concat") and len(e.args) == 1:
                i2, b, tb = self.tr(e.args[0], env)
                if tb != "HM": raise Unsupported(f"`.{name}` with an argument of type {tb} (line {line})")
                r = self.fresh()
                return i1 + i2 + [("bind", r, f"HMat.{name} {recv} {b}")], r, "HM"
        if rty == "HS" and not e.args:
            if name == "rank": return i1, f"(HSnf.rank {recv})", "usize"
            if name == "result": return i1, f"(HSnf.result {recv})", "HM"
            if name == "factors": return i1, f"(HSnf.factors {recv})", "List<Z>"
            if name in ("p", "pinv", "q", "qinv"): return i1, f"(HSnf.{name} {recv})", "Option<HM>"
        if rty == "bool" and name == "then" and len(e.args) == 1 and e.args[0].kind == "closure" and not e.args[0].params:
            body = self.tr_block(N("block", stmts=[], tail=e.args[0].body), env, ("value", None))
            ty = self.last_ty
            if not self.simple(body): raise Unsupported(f"`.then` with a closure that can panic (line {line})")
            return i1, f"(if {recv} then some {body.final[1]} else none)", f"Option<{ty}>"
        if rty.startswith("List<") and name == "collect" and not e.args and self.cfg.get("hom"):
            return i1, recv, rty
        if rty.startswith("List<") and name == "enumerate" and not e.args:
            return i1, f"({self.cfg.get('enumerate_fn', 'Iter.enumerate')} {recv})", f"List<(usize,{rty[5:-1]})>"
        if rty.startswith("List<"):
            elt = rty[5:-1]
            if name == "count" and not e.args: return i1, f"(List.length {recv})", "usize"
            if name == "next" and not e.args: return i1, f"(List.head? {recv})", f"Option<{elt}>"
            if name in ("filter", "map") and len(e.args) == 1 and e.args[0].kind == "closure":
                cname, cargs, cret, mon = self.closure_def(e.args[0], [elt], env)
                call = "(" + " ".join([cname] + cargs) + ")"
                if name == "filter":
                    if cret != "bool": raise Unsupported(f"`filter` closure returning {cret} (line {line})")
                    if mon:
                        r = self.fresh()
                        return i1 + [("bind", r, f"Iter.filterM {call} {recv}")], r, rty
                    return i1, f"(List.filter {call} {recv})", rty
                if mon:
                    r = self.fresh()
                    return i1 + [("bind", r, f"Iter.mapM {call} {recv}")], r, f"List<{cret}>"
                return i1, f"(List.map {call} {recv})", f"List<{cret}>"
            if name == "min_by" and len(e.args) == 1 and e.args[0].kind == "closure":
                cname, cargs, cret, mon = self.closure_def(e.args[0], [elt, elt], env)
                if mon or cret != "Ordering": raise Unsupported(f"`min_by` closure (line {line})")
                return i1, "(Iter.minBy (" + " ".join([cname] + cargs) + f") {recv})", f"Option<{elt}>"
        if rty.startswith("Option<") and rty != "Option<_>":
            inner = rty[7:-1]
            if name == "map" and len(e.args) == 1 and e.args[0].kind == "closure":
                cname, cargs, cret, mon = self.closure_def(e.args[0], [inner], env)
                if mon: raise Unsupported(f"`Option::map` with a closure that can panic (line {line})")
                return i1, "(Option.map (" + " ".join([cname] + cargs) + f") {recv})", f"Option<{cret}>"
            if name == "unwrap_or" and len(e.args) == 1:
                i2, d, td = self.tr(e.args[0], env)
                if not self.compat(inner, td): raise Unsupported(f"`unwrap_or` of type {td} (line {line})")
                return i1 + i2, f"(Opt.unwrap_or {recv} {d})", inner
            if name in ("is_some", "is_none") and not e.args:
                return i1, f"(Option.{'isSome' if name == 'is_some' else 'isNone'} {recv})", "bool"
        if rty == "W":
            if name == "clone" and not e.args: return i1, recv, rty
            if name in WMETH and len(e.args) == WMETH[name][1]:
                return i1, f"({WMETH[name][0]} {recv})", WMETH[name][2]
            if name in WMETH_M and len(e.args) == WMETH_M[name][1]:
                its2, ts = [], []
                for x in e.args:
                    i2, t, ty = self.tr(x, env)
                    if not self.compat("W", ty): raise Unsupported(f"argument of type {ty} for `.{name}` (line {line})")
                    its2 += i2; ts.append(t)
                r = self.fresh()
                return i1 + its2 + [("bind", r, " ".join([WMETH_M[name][0], recv] + ts))], r, WMETH_M[name][2]
        if rty == "bool" and name == "then_some" and len(e.args) == 1:
            i2, t, ty = self.tr(e.args[0], env)
            return i1 + i2, f"(if {recv} then some {t} else none)", f"Option<{ty}>"
        if rty.startswith("Option<") and name == "unwrap" and not e.args:
            r = self.fresh()
            inner = rty[7:-1]
            if inner == "_": raise Unsupported(f"`.unwrap()` on a value of unknown option type (line {line})")
            return i1 + [("bind", r, f"Opt.unwrap {recv}")], r, inner
        if rty == "Ordering" and name == "reverse" and not e.args:
            return i1, f"(Ordering.swap {recv})", "Ordering"
        if rty in INT64:
            if name == "reverse_bits" and not e.args:
                return i1, f"(U64.reverse_bits {recv})", rty
            if name == "cmp" and len(e.args) == 1:
                i2, b, tb = self.tr(e.args[0], env)
                self.join_int(rty, tb, ".cmp", line)
                return i1 + i2, f"(compare {recv} {b})", "Ordering"
            if name == "clone" and not e.args: return i1, recv, rty
        if rty.startswith("List<") and name in ("into_iter", "iter") and not e.args:
            return i1, recv, rty
        if rty.startswith("List<") and name == "filter_map" and len(e.args) == 1 and e.args[0].kind == "closure":
            cname, cargs, cret, mon = self.closure_def(e.args[0], [rty[5:-1]], env)
            if not cret.startswith("Option<"): raise Unsupported(f"`filter_map` closure returning {cret} (line {line})")
            call = " ".join([cname] + cargs)
            if mon:
                r = self.fresh()
                return i1 + [("bind", r, f"Iter.filterMapM ({call}) {recv}")], r, f"List<{cret[7:-1]}>"
            return i1, f"(List.filterMap ({call}) {recv})", f"List<{cret[7:-1]}>"
        if rty in ("List<W>", "List<Z>") and name == "min" and not e.args:
            return i1, f"(Iter.min {recv})", f"Option<{rty[5:-1]}>"
        if rty == "Ordering" and name in ("then", "then_with") and len(e.args) == 1:
            a = e.args[0]
            if name == "then_with":
                if a.kind != "closure" or a.params: raise Unsupported(f"`.then_with` needs a `|| e` closure (line {line})")
                a = a.body
            rhs = self.tr_block(N("block", stmts=[], tail=a), env, ("value", "Ordering"))
            if self.simple(rhs):
                return i1, f"(Ordering.then {recv} {rhs.final[1]})", "Ordering"
            if name == "then":        # strict: evaluate the argument first
                r = self.fresh()
                return i1 + [("bind" if rhs.monadic() else "let", r, Blk(rhs))], f"(Ordering.then {recv} {r})", "Ordering"
            if not re.fullmatch(r"[\w.]+", recv):
                r0 = self.fresh(); i1 = i1 + [("let", r0, recv)]; recv = r0
            r = self.fresh()
            t = IfTerm(f"decide ({recv} = Ordering.eq)", rhs, Code([], ("pure", recv)))
            return i1 + [("bind" if t.monadic() else "let", r, t)], r, "Ordering"
        raise Unsupported(f"method `.{name}` on a value of type {rty} (line {line})")


# ------------------------------------------------------------------------------------------------ driver

def generate(src_text, src_label, target="bitseq"):
    cfg = TARGETS[target]
    REQUIRED = cfg["required"]
    texts = src_text if isinstance(src_text, list) else [src_text]
    if cfg.get("custom") == "poly":          # own renderer (tools/rs2lean_poly.py) on top of this file's parser
        import rs2lean_poly
        return rs2lean_poly.generate(texts, src_label, cfg, sys.modules[__name__])
    if cfg.get("custom") == "link":          # own renderer (tools/rs2lean_link.py) on top of this file's parser
        import rs2lean_link
        return rs2lean_link.generate(texts, src_label, cfg, sys.modules[__name__])
    toks, allids, mod = None, set(), None
    Parser.const_generics = bool(cfg.get("const_generics"))
    Parser.turbofish = bool(cfg.get("csc") or cfg.get("sp13") or cfg.get("abs"))
    Parser.strfmt = bool(cfg.get("strfmt"))
    Parser.mut_types = bool(cfg.get("abs"))
    srcs = cfg["src"] if isinstance(cfg["src"], list) else [cfg["src"]]
    for k_, text in enumerate(texts):
        toks = tokenize(text)
        allids |= {t.val for t in toks if t.kind == "id"}
        stem = os.path.splitext(os.path.basename(srcs[k_]))[0] if cfg.get("free_fns") else None
        mod = parse_items(toks, mod, cfg["macros"], 0, stem)
    extern_enums = set()
    if cfg.get("abs"):
        for en, vs in cfg["abs"]["extern_enums"].items():
            mod.enums[en] = [(v, None) for v in vs]
            mod.derives[en] = ["PartialEq", "Eq", "Clone", "Copy"]
            extern_enums.add(en)
    tr = Translator(mod, toks, allids, cfg)
    tr.cur = Fn()
    tr.enum_display = set()
    parts = []
    # enums
    for name in sorted(mod.enums):
        if name in extern_enums: continue
        vs = mod.enums[name]
        lines = [f"/-- `enum {name}` -/", f"inductive {name} where"] + [f"  | {v}" for v, _ in vs] + ["deriving DecidableEq, Repr, Inhabited"]
        disc, nxt = [], 0
        for v, d in vs:
            d = nxt if d is None else d
            disc.append((v, d)); nxt = d + 1
        lines += ["", f"/-- discriminants of `enum {name}` -/", f"def {name}.discr : {name} → Nat"] + [f"  | .{v} => {d}" for v, d in disc]
        parts.append("\n".join(lines))
        if cfg.get("strfmt") and "Display" in mod.derives.get(name, []):
            dm = getattr(mod, "enum_display", {}).get(name, {})
            miss = [v for v, _ in vs if v not in dm]
            if miss: raise Unsupported(f"enum {name}: derived `Display` without `#[display(\"..\")]` on variant {miss[0]}")
            parts.append("\n".join([f"/-- derived `Display` of `enum {name}` (the `#[display(\"..\")]` attributes): the text written -/",
                                    f"def {name}.Display.fmt : {name} → List Char"] +
                                   [f"  | .{v} => {str_lit_chars(dm[v], f'enum {name}')}" for v, _ in vs]))
            tr.enum_display.add(name)
    if cfg.get("strfmt"):
        parts.append(STRFMT_PRELUDE)
    def struct_order(names):
        out, seen = [], set()

        def visit(nm):
            if nm in seen: return
            seen.add(nm)
            for _, t in mod.structs[nm]:
                for other in sorted(mod.structs):
                    if other != nm and re.search(r"(?<![\w])" + re.escape(other) + r"(?![\w])", t): visit(other)
            out.append(nm)
        for nm in names: visit(nm)
        return out
    for name in struct_order(sorted(mod.structs)):
        fs = mod.structs[name]
        eo = cfg.get("eops")
        if name in cfg.get("wrapper_structs", {}):
            w_ = cfg["wrapper_structs"][name]
            mod.notes.append(f"struct {name}: rendered as {w_[1]} (field `{w_[0]}` through {w_[3]} / {w_[4]})")
            tr.types.discard(name)
            tr.newtypes.add(name)
            continue
        if name in cfg.get("newtype_structs", {}):
            mod.notes.append(f"struct {name}: a wrapper of its field `{cfg['newtype_structs'][name]}` (same Lean type)")
            tr.types.discard(name)
            tr.newtypes.add(name)
            continue
        if cfg.get("hom") and all(re.fullmatch(r"PhantomData<.*>", t) for _, t in fs):
            mod.notes.append(f"struct {name}: only `PhantomData` fields (its functions are associated functions)")
            continue
        lines = [f"/-- `struct {name}` -/", f"structure {name}S" + (" (α : Type) (m n : Nat)" if eo else "") +
                 (" " + cfg["struct_params"] if cfg.get("struct_params") else "") + " where"]
        try:
            for f, t in fs:
                if t in BADINT: raise Unsupported(f"struct {name}: field {f} of type {t}")
                lt = tr.lean_ty(tr.field_ty(name, f, 0))
                lines.append(f"  {tr.field_name(f)} : {unpar(lt) if eo else lt}   -- {t}")
        except Unsupported as ex:
            if not (eo or cfg.get("lmat")): raise
            mod.notes.append(f"struct {name}: {ex}")
            tr.types.discard(name)
            continue
        if not eo and not cfg.get("no_derive"): lines.append("deriving DecidableEq, Repr, Inhabited")
        parts.append("\n".join(lines))
    for (ty, name) in sorted(mod.consts):
        cty, e = mod.consts[(ty, name)]
        if cty in BADINT: raise Unsupported(f"const {ty}::{name} of type {cty}")
        f = Fn(); f.ty, f.name = ty, name
        tr.cur, tr.ntmp, tr.nloop, tr.aux = f, 0, 0, []
        tr.setup_generics(f)
        its, t, ety = tr.tr(e, {})
        if its: raise Unsupported(f"const {ty}::{name}: initialiser is not a literal expression")
        parts.append(f"/-- `{ty}::{name}` -/\ndef {ty}.{tr.ident(name)} : {tr.lean_ty(cty)} := {unpar(t)}")
    required = set(REQUIRED)
    skipped = []
    fparts_extra, extracted = [], []
    keys = [f.key for f in mod.fns]
    for k in keys:
        if keys.count(k) > 1:
            raise Unsupported(f"function {k[0]}::{k[2]}" + (f" (impl {k[1]})" if k[1] else "") +
                              " is defined more than once (cfg-gated variants are outside the subset)")
    for f in sorted(mod.fns, key=lambda f: (f.ty, f.tag or "", f.name, f.order)):
        try:
            tr.translate(f)
        except Unsupported as e:
            if f.key in required: raise
            skipped.append((f, str(e)))
    for (fty, fname, lname, vars_) in cfg.get("extract", []):
        cand = [f for f in mod.fns if f.ty == fty and f.name == fname]
        if len(cand) != 1: raise Unsupported(f"function {fty}::{fname} (for the extracted `let {lname}`) not found")
        f = cand[0]
        body = Parser(list(f.toks), f.body[0], f.body[1]).block()
        lets = [st for st in body.stmts if st.kind == "let" and st.name == lname]
        if len(lets) != 1: raise Unsupported(f"{fty}::{fname}: `let {lname} = …` not found at the top level of the body")
        tr.cur, tr.ntmp, tr.nloop, tr.aux = f, 0, 0, []
        tr.setup_generics(f)
        env = {v: (tr.ident(v), t, False) for v, t in vars_}
        extra = sorted(x for x in tr.idents(lets[0].init) if x not in env)
        if extra: raise Unsupported(f"{fty}::{fname}: `let {lname}` also depends on {', '.join(extra)}")
        saved_lit = tr.cfg.get("int_lit")
        tr.cfg = dict(tr.cfg, int_lit=None)
        its, t, ty = tr.tr(lets[0].init, env)
        tr.cfg = dict(tr.cfg, int_lit=saved_lit)
        if its: raise Unsupported(f"{fty}::{fname}: `let {lname}` is not a pure arithmetic expression")
        sig = " ".join(f"({tr.ident(v)} : {unpar(tr.lean_ty(t_))})" for v, t_ in vars_)
        fparts_extra.append(f"/-- the expression bound by `let {lname}` in `{fty}::{fname}` (free variables: "
                            f"{', '.join(v for v, _ in vars_)}) -/\ndef {fty}.{fname}.{lname} {sig} : {unpar(tr.lean_ty(ty))} :=\n  {unpar(t)}")
        extracted.append(f"{fty}::{fname} (only `let {lname} = …`)  ->  {fty}.{fname}.{lname}")
    missing = [k for k in REQUIRED if k not in tr.done]
    if missing:
        k = missing[0]
        raise Unsupported(f"required function {k[0]}::{k[2]}" + (f" (impl {k[1]})" if k[1] else "") + " not found in the source")
    fparts = [tr.done[k]["text"] for k in tr.emitted] + fparts_extra
    translated = [tr.done[k]["fn"] for k in tr.emitted]
    hdr = [f"import {m}" for m in cfg["imports"]] + ["/-",
           f"GENERATED by tools/rs2lean_fn.py from {src_label} on every ./check run — do not edit.",
           ""] + cfg["blurb"] + ["", "translated:"]
    hdr += [f"  {f.rust_name}  ->  {tr.lean_fn(f)}" for f in sorted(translated, key=lambda f: tr.lean_fn(f))]
    hdr += [f"  {x}" for x in extracted]
    hdr += ["", "not translated:"]
    hdr += [f"  {f.rust_name}: {reason_clean(r, f)}" for f, r in sorted(skipped, key=lambda x: tr.lean_fn(x[0]))]
    hdr += [f"  {n}" for n in sorted(set(mod.notes))]
    hdr += ["-/", "set_option linter.unusedVariables false", f"namespace {cfg['ns']}", "open Yuiv Yuiv.Rust", "", ""]
    return "\n".join(hdr) + "\n\n".join(parts + fparts) + f"\n\nend {cfg['ns']}\n"


def reason_clean(r, f):
    r = re.sub(r"\s*\(line \d+\)", "", r)
    pre = f.rust_name + ": "
    return r[len(pre):] if r.startswith(pre) else r


def run_target(target, src, out):
    cfg = TARGETS[target]
    dflt = cfg["src"] if isinstance(cfg["src"], list) else [cfg["src"]]
    srcs = list(src) if src else dflt
    if len(srcs) != len(dflt):
        print(f"rs2lean_fn: cannot translate: fn:{target} reads {len(dflt)} source file(s): {', '.join(dflt)}")
        return 1
    out = out or os.path.join(GEN, cfg["out"])
    label = " + ".join(d if os.path.abspath(x) == d else os.path.basename(x) for x, d in zip(srcs, dflt))
    try:
        texts = [open(x).read() for x in srcs]
        text = generate(texts if len(texts) > 1 else texts[0], label, target)
    except (Unsupported, OSError, RecursionError) as e:
        print(f"rs2lean_fn: cannot translate: {e}")
        return 1
    except Exception as e:      # a bug of the translator must not look like a successful run
        print(f"rs2lean_fn: cannot translate: internal error {type(e).__name__}: {e}")
        return 1
    os.makedirs(os.path.dirname(os.path.abspath(out)), exist_ok=True)
    old = open(out).read() if os.path.exists(out) else None
    if old != text:
        with open(out, "w") as f:
            f.write(text)
        print("rs2lean_fn: regenerated", out)
    else:
        print("rs2lean_fn: up to date", os.path.basename(out))
    return 0


def main():
    ap = argparse.ArgumentParser()
    ap.add_argument("targets", nargs="*", help="fn:bitseq, fn:ratio, …; none = all")
    ap.add_argument("--src", action="append", default=None,
                    help="alternative source file (repeat once per source file of the target, in its order)")
    ap.add_argument("--out", default=None)
    a = ap.parse_args()
    names = []
    for t in a.targets:
        if t == "tables": continue               # entry of a props "gen" list that belongs to tools/rs2lean.py (./check passes the whole list)
        n = t[3:] if t.startswith("fn:") else t
        if n not in TARGETS:
            print(f"rs2lean_fn: cannot translate: unknown target {t} (known: {', '.join('fn:' + k for k in TARGETS)})")
            sys.exit(1)
        names.append(n)
    if a.targets and not names: sys.exit(0)
    names = names or list(TARGETS)
    if (a.src or a.out) and len(names) != 1:
        print("rs2lean_fn: cannot translate: --src/--out need exactly one target")
        sys.exit(1)
    rc = 0
    for n in names:
        rc |= run_target(n, a.src, a.out)
    sys.exit(rc)


if __name__ == "__main__":
    main()
