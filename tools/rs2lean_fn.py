#!/usr/bin/env python3
"""
tools/rs2lean_fn.py — regenerates lean/Yuiv/Gen/BitSeqFn.lean from the SOURCE TEXT of /repo/yui/src/misc/bitseq.rs.

A small translator for the restricted Rust subset the `Bit` / `BitSeq` methods are written in.  It tokenises the
file, parses items (enum, struct, impl blocks, consts, fn signatures) and — per function — statements and
expressions with a recursive-descent / precedence-climbing parser, and emits one Lean definition per function into
namespace `Yuiv.GenBitSeq`.  Nothing about the function BODIES is hard-coded: only the list of functions that must be
translatable (REQUIRED) is.

Supported subset
  items        `enum` with unit variants, `struct` with named fields, inherent `impl T { const..; fn.. }`,
               trait impls `impl Trait<..> for T { type X = ..; fn.. }`; generics only in the forms
               `<T>` (a plain type variable), `where U: From<T>` for a user type U (the conversion becomes an explicit
               function argument `U_from_T : T → U`, and `U::from(x)` applies it) and `I: IntoIterator<Item = T>`
               (an iterator is modelled by the `List` of its items; `.into_iter()` is the identity on it)
  types        u64, usize (both 64 bit), bool, the enum, the struct, (), Ordering, Option<_>, references (erased)
  statements   `let` / `let mut` (identifier patterns), assignments and compound assignments to `let mut` locals and
               to fields of `self` (`= += -= *= /= %= &= |= ^= <<= >>=`), `assert!`/`debug_assert!`/`assert_eq!`/
               `assert_ne!`/`panic!`/`unreachable!`, `if`/`else if`/`else` statements that mutate locals/self,
               `while` loops (fuel), `for x in <list>` loops (structural recursion over the items), calls of
               `&mut self` methods on `self` or a mutable local
  expressions  integer / bool literals, paths (`x`, `self`, `Self::CONST`, `u64::MAX`, `Enum::Variant`), field reads,
               `Self::f(..)`, `T::f(..)`, `x.f(..)`, unary `! * &`, binary `* / % + - << >> & ^ | == != < <= > >= && ||`
               with Rust precedence, `as u64|usize`, `if` expressions, `match` on integer/bool/enum literals,
               struct literals `Self { a, b: e }`, `Some(e)`, `.reverse_bits()`, `.cmp(&e)`, `.then(e)`,
               `.then_with(|| e)`, `.clone()`
Semantics emitted (see lean/Yuiv/Model/RustArith.lean — trusted): overflow checks and debug assertions ON; `+ - *`
panic on overflow, `/ %` on zero divisor, `<< >>` when the amount is >= 64; `assert!` failure panics; every panic is
`Res.panic`; `&mut self` methods return the new struct value; `&&`/`||`/`then_with` are lazy.  All integer literals
are taken to be 64-bit unsigned (rustc infers u64/usize for every literal in this file because each flows into a
u64/usize position; a literal that rustc would default to i32 is outside the subset).

Usage: rs2lean_fn.py [--src FILE] [--out FILE]
Exit status 0: the generated file is up to date or was rewritten; 1: something in a REQUIRED function (or in the item
structure) is outside the subset — `rs2lean_fn: cannot translate: <what>` is printed and the old file is kept.
"""
import argparse, os, re, sys

ROOT = os.path.dirname(os.path.dirname(os.path.abspath(__file__)))
SRC = "/repo/yui/src/misc/bitseq.rs"
OUT = os.path.join(ROOT, "lean", "Yuiv", "Gen", "BitSeqFn.lean")

# functions that must translate (Type, trait-tag or None, name); failure => exit 1
REQUIRED = [("Bit", None, n) for n in ("is_zero", "is_one", "as_u64")] + \
           [("BitSeq", None, n) for n in (
               "mask", "new", "new_rev", "empty", "zeros", "ones", "len", "as_u64", "is_empty", "weight", "set",
               "set_0", "set_1", "push", "push_0", "push_1", "append", "remove", "insert", "insert_0", "insert_1",
               "sub", "is_sub")] + \
           [("Bit", "From_bool", "from"), ("BitSeq", "Index_usize", "index"), ("BitSeq", "Ord", "cmp"),
            ("BitSeq", "PartialOrd", "partial_cmp"), ("BitSeq", "AddAssign_BitSeq", "add_assign"),
            ("BitSeq", "AddAssign_Bit", "add_assign"), ("BitSeq", "From_T", "from"),
            ("BitSeq", "FromIterator_T", "from_iter")]
# every other function of the file is attempted as well; if it is outside the subset (iter, edit, generate, From<[T; N]>,
# FromStr, Display, Debug; the macro-generated From<int> impls are never seen because macros are not expanded) the reason
# is listed in the header of the generated file and the function is left to the differential run.


class Unsupported(Exception):
    pass


# ------------------------------------------------------------------------------------------------ tokenizer

PUNCTS = ["<<=", ">>=", "...", "..=", "::", "->", "=>", "==", "!=", "<=", ">=", "&&", "||", "+=", "-=", "*=", "/=",
          "%=", "^=", "&=", "|=", "<<", ">>", ".."] + list("+-*/%^!&|=<>@.,;:#$?~()[]{}")
INT_RE = re.compile(r"(0[xX][0-9a-fA-F_]+|0b[01_]+|0o[0-7_]+|[0-9][0-9_]*)((?:[iu](?:8|16|32|64|128|size))?)")
ID_RE = re.compile(r"[A-Za-z_][A-Za-z0-9_]*")
CHAR_RE = re.compile(r"'(\\.[^']*|[^'\\])'")
LIFE_RE = re.compile(r"'[A-Za-z_][A-Za-z0-9_]*")


class Tok:
    __slots__ = ("kind", "val", "line", "suffix")

    def __init__(self, kind, val, line, suffix=""):
        self.kind, self.val, self.line, self.suffix = kind, val, line, suffix

    def __repr__(self):
        return f"{self.val!r}@{self.line}"


def tokenize(src):
    toks, i, n, line = [], 0, len(src), 1
    while i < n:
        c = src[i]
        if c == "\n":
            line += 1; i += 1; continue
        if c.isspace():
            i += 1; continue
        if src.startswith("//", i):
            j = src.find("\n", i)
            i = n if j < 0 else j
            continue
        if src.startswith("/*", i):
            depth, j = 1, i + 2
            while j < n and depth:
                if src.startswith("/*", j): depth += 1; j += 2
                elif src.startswith("*/", j): depth -= 1; j += 2
                else:
                    if src[j] == "\n": line += 1
                    j += 1
            if depth: raise Unsupported(f"unterminated block comment (line {line})")
            i = j
            continue
        if c == '"' or (c in "br" and re.match(r'(b|r|br)#*"', src[i:i + 6])):
            m = re.match(r'(b|r|br)?(#*)"', src[i:])
            raw = m.group(1) is not None and "r" in m.group(1)
            j = i + m.end()
            if raw:
                end = '"' + m.group(2)
                k = src.find(end, j)
                if k < 0: raise Unsupported(f"unterminated string (line {line})")
                j = k + len(end)
            else:
                while j < n and src[j] != '"':
                    j += 2 if src[j] == "\\" else 1
                if j >= n: raise Unsupported(f"unterminated string (line {line})")
                j += 1
            toks.append(Tok("str", src[i:j], line))
            line += src.count("\n", i, j)
            i = j
            continue
        if c.isalpha() or c == "_":
            m = ID_RE.match(src, i)
            toks.append(Tok("id", m.group(0), line)); i = m.end(); continue
        if c.isdigit():
            m = INT_RE.match(src, i)
            j = m.end()
            if j < n and src[j] == "." and j + 1 < n and src[j + 1].isdigit():
                raise Unsupported(f"floating point literal (line {line})")
            if j < n and (src[j].isalpha() or src[j] == "_"):
                raise Unsupported(f"literal suffix (line {line})")
            txt = m.group(1).replace("_", "")
            toks.append(Tok("int", int(txt, 0) if not txt.startswith("0o") else int(txt[2:], 8), line, m.group(2)))
            i = j
            continue
        if c == "'":
            m = CHAR_RE.match(src, i)
            if m:
                toks.append(Tok("char", m.group(0), line)); i = m.end(); continue
            m = LIFE_RE.match(src, i)
            if m:
                toks.append(Tok("life", m.group(0), line)); i = m.end(); continue
            raise Unsupported(f"stray quote (line {line})")
        for p in PUNCTS:
            if src.startswith(p, i):
                toks.append(Tok("p", p, line)); i += len(p); break
        else:
            raise Unsupported(f"unexpected character {c!r} (line {line})")
    toks.append(Tok("eof", "<eof>", line))
    return toks


# ------------------------------------------------------------------------------------------------ AST

class N:
    """generic AST node: N('kind', field=..)"""

    def __init__(self, kind, **kw):
        self.kind = kind
        self.__dict__.update(kw)

    def __repr__(self):
        return "N(" + ", ".join(f"{k}={v!r}" for k, v in self.__dict__.items()) + ")"


BINPREC = {"*": 11, "/": 11, "%": 11, "+": 10, "-": 10, "<<": 9, ">>": 9, "&": 8, "^": 7, "|": 6,
           "==": 5, "!=": 5, "<": 5, ">": 5, "<=": 5, ">=": 5, "&&": 4, "||": 3}
CMPOPS = {"==", "!=", "<", ">", "<=", ">="}
ASSIGNOPS = {"=", "+=", "-=", "*=", "/=", "%=", "&=", "|=", "^=", "<<=", ">>="}
BLOCKLIKE = {"if", "while", "for", "loop", "match", "unsafe"}


class Parser:
    def __init__(self, toks, pos=0, end=None):
        self.t, self.i = toks, pos
        self.end = len(toks) if end is None else end

    # -- helpers
    def peek(self, k=0):
        j = self.i + k
        return self.t[j] if j < self.end else Tok("eof", "<eof>", self.t[self.end - 1].line if self.end else 0)

    def at(self, v, k=0):
        t = self.peek(k)
        return t.kind in ("p", "id") and t.val == v

    def next(self):
        t = self.peek(); self.i += 1; return t

    def eat(self, v):
        if self.at(v):
            self.i += 1; return True
        return False

    def expect(self, v):
        if not self.at(v):
            t = self.peek()
            raise Unsupported(f"expected `{v}` but found `{t.val}` (line {t.line})")
        return self.next()

    def ident(self):
        t = self.peek()
        if t.kind != "id":
            raise Unsupported(f"expected identifier but found `{t.val}` (line {t.line})")
        self.i += 1
        return t.val

    def skip_balanced(self):
        """skip one delimited group starting at ( [ or {; returns (start, end) token indices of the inside"""
        op = self.next()
        close = {"(": ")", "[": "]", "{": "}"}.get(op.val)
        if op.kind != "p" or close is None:
            raise Unsupported(f"expected a delimiter but found `{op.val}` (line {op.line})")
        start, depth = self.i, 1
        while depth:
            t = self.next()
            if t.kind == "eof": raise Unsupported(f"unbalanced `{op.val}` (line {op.line})")
            if t.kind == "p" and t.val in "([{": depth += 1
            elif t.kind == "p" and t.val in ")]}": depth -= 1
        return start, self.i - 1

    def skip_attrs(self):
        """skips attributes; returns the names listed in plain `#[derive(..)]` attributes"""
        derives = []
        while self.at("#"):
            self.next()
            self.eat("!")
            if not self.at("["): raise Unsupported(f"malformed attribute (line {self.peek().line})")
            s, e = self.skip_balanced()
            if e > s and self.t[s].val == "derive":
                derives += [t.val for t in self.t[s + 1:e] if t.kind == "id"]
        return derives

    # -- types: returns a normalised string, references / lifetimes / `mut` erased
    def split_shr(self):
        """inside generics a `>>` token is two `>`"""
        t = self.peek()
        if t.kind == "p" and t.val in (">>", ">=", ">>="):
            rest = t.val[1:]
            self.t[self.i] = Tok("p", ">", t.line)
            self.t.insert(self.i + 1, Tok("p", rest, t.line))
            self.end += 1

    def ty(self):
        while self.at("&") or self.at("&&"):
            self.next()
            if self.peek().kind == "life": self.next()
            if self.eat("mut"): raise Unsupported(f"`&mut` type (line {self.peek().line})")
        if self.at("("):
            self.next()
            if self.eat(")"): return "()"
            parts = [self.ty()]
            while self.eat(","):
                if self.at(")"): break
                parts.append(self.ty())
            self.expect(")")
            return "(" + ",".join(parts) + ")"
        if self.at("["):
            self.next(); e = self.ty()
            if self.eat(";"):
                n = self.next().val
                self.expect("]"); return f"[{e};{n}]"
            self.expect("]"); return f"[{e}]"
        if self.at("impl") or self.at("dyn"):
            k = self.next().val
            return k + " " + self.ty_bounds()
        segs = [self.ident()]
        gen = ""
        while True:
            if self.at("<"):
                gen = self.generic_args()
            if self.at("::") and self.peek(1).kind == "id":
                self.next(); segs.append(self.ident()); continue
            break
        return "::".join(segs) + gen

    def ty_bounds(self):
        parts = [self.ty()]
        while self.eat("+"):
            parts.append(self.peek().val if self.peek().kind == "life" and self.next() else self.ty())
        return "+".join(parts)

    def generic_args(self):
        self.expect("<")
        parts = []
        while True:
            self.split_shr()
            if self.eat(">"): break
            if self.peek().kind == "life":
                parts.append(self.next().val)
            elif self.peek().kind == "id" and self.at("=", 1):
                nm = self.ident(); self.next(); parts.append(nm + "=" + self.ty())
            elif self.peek().kind in ("int", "char", "str"):
                parts.append(str(self.next().val))
            else:
                parts.append(self.ty())
            self.split_shr()
            if not self.eat(","):
                self.split_shr(); self.expect(">"); break
        return "<" + ",".join(parts) + ">"

    def generic_params(self):
        """the `<…>` parameter list of an impl / fn: returns (type params, [(type, bound)], reason-or-None);
        `reason` is set when the list contains something outside the subset (const / lifetime parameters, defaults)"""
        self.expect("<")
        tps, bounds, reason = [], [], None
        while True:
            self.split_shr()
            if self.eat(">"): break
            if self.peek().kind == "life":
                reason = reason or f"lifetime parameter {self.next().val}"
                if self.eat(":"):
                    while self.peek().kind == "life" or self.at("+"): self.next()
            elif self.at("const"):
                self.next(); nm = self.ident(); self.expect(":"); t = self.ty()
                reason = reason or f"const generic parameter {nm}: {t}"
            else:
                nm = self.ident()
                tps.append(nm)
                if self.eat(":"):
                    for b in self.bound_list(): bounds.append((nm, b))
                if self.eat("="):
                    self.ty(); reason = reason or f"defaulted type parameter {nm}"
            self.split_shr()
            if not self.eat(","):
                self.split_shr(); self.expect(">"); break
        return tps, bounds, reason

    def bound_list(self):
        """`A + B<..> + 'a` → list of bound strings; `Fn(..) -> T` style bounds are returned as text"""
        out = []
        while True:
            if self.peek().kind == "life":
                out.append(self.next().val)
            elif self.at("?"):
                self.next(); out.append("?" + self.ty())
            else:
                b = self.ty()
                if self.at("("):
                    s_, e_ = self.skip_balanced()
                    b += "(" + " ".join(str(t.val) for t in self.t[s_:e_]) + ")"
                    if self.eat("->"): b += "->" + self.ty()
                out.append(b)
            if not self.eat("+"): break
        return out

    def where_clause(self):
        """after `where`: [(type, bound)] up to the opening brace"""
        out = []
        while not self.at("{") and not self.at(";"):
            if self.peek().kind == "life":
                self.next(); self.expect(":")
                while self.peek().kind == "life" or self.at("+"): self.next()
            else:
                t = self.ty(); self.expect(":")
                for b in self.bound_list(): out.append((t, b))
            if not self.eat(","): break
        return out

    # -- blocks / statements
    def block(self):
        self.expect("{")
        stmts, tail = [], None
        while not self.at("}"):
            if self.peek().kind == "eof": raise Unsupported("unterminated block")
            if self.eat(";"): continue
            if self.at("#"):
                raise Unsupported(f"attribute inside a function body (line {self.peek().line})")
            if self.at("let"):
                line = self.next().line
                mut = self.eat("mut")
                if self.at("_"):
                    self.next(); name = "_"
                else:
                    name = self.ident()
                if self.at("(") or self.at("{") or self.at("::") or self.at("@") or self.at("|"):
                    raise Unsupported(f"`let` with a non-identifier pattern (line {line})")
                ty = self.ty() if self.eat(":") else None
                if not self.eat("="):
                    raise Unsupported(f"`let` without initialiser (line {line})")
                init = self.expr()
                if self.at("else"): raise Unsupported(f"`let … else` (line {line})")
                self.expect(";")
                stmts.append(N("let", name=name, mut=mut, ty=ty, init=init, line=line))
                continue
            t = self.peek()
            if t.kind == "id" and t.val in ("fn", "use", "struct", "enum", "impl", "const", "static", "type", "mod",
                                            "trait", "macro_rules"):
                raise Unsupported(f"item `{t.val}` inside a function body (line {t.line})")
            blocklike = (t.kind == "id" and t.val in BLOCKLIKE) or self.at("{")
            e = self.expr(stmt=True)
            if self.eat(";"):
                stmts.append(N("expr", e=e, line=t.line))
            elif self.at("}"):
                tail = e
            elif blocklike:
                stmts.append(N("expr", e=e, line=t.line))
            else:
                raise Unsupported(f"expected `;` or `}}` but found `{self.peek().val}` (line {self.peek().line})")
        self.expect("}")
        return N("block", stmts=stmts, tail=tail)

    # -- expressions
    def expr(self, minp=0, nostruct=False, stmt=False):
        line = self.peek().line
        if stmt and ((self.peek().kind == "id" and self.peek().val in BLOCKLIKE) or self.at("{")):
            # a block-like expression in statement position ends the statement
            e = self.primary(nostruct)
            if self.at(".") or self.at("?"):
                e = self.postfix(e, nostruct)
            else:
                return e
            lhs = e
        else:
            lhs = self.unary(nostruct)
        while True:
            t = self.peek()
            if t.kind == "id" and t.val == "as":
                if 12 < minp: break
                self.next()
                lhs = N("cast", e=lhs, ty=self.ty(), line=t.line)
                continue
            if t.kind != "p": break
            op = t.val
            if op in BINPREC:
                p = BINPREC[op]
                if p < minp: break
                self.next()
                rhs = self.expr(p + 1, nostruct)
                if op in CMPOPS and self.peek().kind == "p" and self.peek().val in CMPOPS:
                    raise Unsupported(f"chained comparison (line {t.line})")
                lhs = N("bin", op=op, l=lhs, r=rhs, line=t.line)
                continue
            if op in ASSIGNOPS:
                if 1 < minp: break
                self.next()
                rhs = self.expr(1, nostruct)
                lhs = N("assign", op=op, l=lhs, r=rhs, line=t.line)
                continue
            if op in ("..", "..=", "..."):
                raise Unsupported(f"range expression (line {t.line})")
            break
        return lhs

    def unary(self, nostruct):
        t = self.peek()
        if t.kind == "p" and t.val in ("!", "-", "*"):
            self.next()
            return N("un", op=t.val, e=self.unary(nostruct), line=t.line)
        if t.kind == "p" and t.val in ("&", "&&"):
            self.next()
            if self.eat("mut"): raise Unsupported(f"`&mut` borrow expression (line {t.line})")
            return N("un", op="&", e=self.unary(nostruct), line=t.line)
        return self.postfix(self.primary(nostruct), nostruct)

    def args(self):
        self.expect("(")
        out = []
        while not self.at(")"):
            out.append(self.expr())
            if not self.eat(","): break
        self.expect(")")
        return out

    def postfix(self, e, nostruct):
        while True:
            t = self.peek()
            if self.at("."):
                nt = self.peek(1)
                if nt.kind == "int": raise Unsupported(f"tuple field access (line {t.line})")
                if nt.kind == "id" and nt.val == "await": raise Unsupported("await")
                self.next()
                name = self.ident()
                if self.at("::"): raise Unsupported(f"turbofish on method `{name}` (line {t.line})")
                if self.at("("):
                    e = N("mcall", recv=e, name=name, args=self.args(), line=t.line)
                else:
                    e = N("field", e=e, name=name, line=t.line)
                continue
            if self.at("("):
                if e.kind != "path": raise Unsupported(f"call of a non-path expression (line {t.line})")
                e = N("call", path=e.segs, args=self.args(), line=t.line)
                continue
            if self.at("["):
                raise Unsupported(f"index expression `[..]` (line {t.line})")
            if self.at("?"):
                raise Unsupported(f"`?` operator (line {t.line})")
            return e

    def path(self):
        segs = [self.ident()]
        while self.at("::"):
            if self.at("<", 1): raise Unsupported(f"generic arguments in an expression path (line {self.peek().line})")
            self.next()
            segs.append(self.ident())
        return segs

    def primary(self, nostruct):
        t = self.peek()
        if t.kind == "int":
            self.next()
            if t.suffix and t.suffix not in ("u64", "usize"):
                raise Unsupported(f"integer literal of type {t.suffix} (line {t.line})")
            return N("int", v=t.val, suffix=t.suffix, line=t.line)
        if t.kind in ("str", "char"):
            raise Unsupported(f"string/char literal (line {t.line})")
        if t.kind == "life":
            raise Unsupported(f"loop label (line {t.line})")
        if t.kind == "p":
            if t.val == "(":
                self.next()
                if self.eat(")"): return N("unit", line=t.line)
                e = self.expr()
                if self.at(","): raise Unsupported(f"tuple expression (line {t.line})")
                self.expect(")")
                return N("paren", e=e, line=t.line)
            if t.val == "{":
                return self.block()
            if t.val in ("|", "||"):
                return self.closure()
            if t.val == "[":
                raise Unsupported(f"array expression (line {t.line})")
            raise Unsupported(f"unexpected `{t.val}` (line {t.line})")
        if t.kind != "id":
            raise Unsupported(f"unexpected `{t.val}` (line {t.line})")
        kw = t.val
        if kw in ("true", "false"):
            self.next(); return N("bool", v=(kw == "true"), line=t.line)
        if kw == "if":
            self.next()
            if self.at("let"): raise Unsupported(f"`if let` (line {t.line})")
            c = self.expr(nostruct=True)
            th = self.block()
            el = None
            if self.eat("else"):
                if self.at("if"):
                    el = N("block", stmts=[], tail=self.primary(nostruct))
                else:
                    el = self.block()
            return N("if", c=c, th=th, el=el, line=t.line)
        if kw == "while":
            self.next()
            if self.at("let"): raise Unsupported(f"`while let` (line {t.line})")
            c = self.expr(nostruct=True)
            return N("while", c=c, body=self.block(), line=t.line)
        if kw == "match":
            self.next()
            s = self.expr(nostruct=True)
            self.expect("{")
            arms = []
            while not self.at("}"):
                pats = [self.pattern()]
                while self.eat("|"): pats.append(self.pattern())
                if self.at("if"): raise Unsupported(f"match guard (line {self.peek().line})")
                self.expect("=>")
                blocklike = self.at("{")
                body = self.expr()
                arms.append((pats, body))
                if not self.eat(",") and not blocklike and not self.at("}"):
                    raise Unsupported(f"expected `,` after match arm (line {self.peek().line})")
            self.expect("}")
            return N("match", s=s, arms=arms, line=t.line)
        if kw == "for":
            self.next()
            if self.at("mut"): raise Unsupported(f"`for mut` pattern (line {t.line})")
            var = "_" if self.eat("_") else self.ident()
            if not self.at("in"): raise Unsupported(f"`for` with a non-identifier pattern (line {t.line})")
            self.next()
            it = self.expr(nostruct=True)
            return N("for", var=var, it=it, body=self.block(), line=t.line)
        if kw in ("loop", "unsafe", "return", "break", "continue", "async", "const", "let", "yield"):
            raise Unsupported(f"`{kw}` expression (line {t.line})")
        if kw == "move":
            self.next(); return self.closure()
        segs = self.path()
        if self.at("!"):
            self.next()
            s, e = self.skip_balanced()
            return N("macro", name="::".join(segs), args=self.macro_args(s, e), line=t.line)
        if self.at("{") and not nostruct and (segs[-1][0].isupper()):
            self.next()
            fields = []
            while not self.at("}"):
                if self.at(".."): raise Unsupported(f"struct update syntax `..` (line {self.peek().line})")
                fn = self.ident()
                fe = self.expr() if self.eat(":") else N("path", segs=[fn], line=t.line)
                fields.append((fn, fe))
                if not self.eat(","): break
            self.expect("}")
            return N("struct", path=segs, fields=fields, line=t.line)
        return N("path", segs=segs, line=t.line)

    def macro_args(self, s, e):
        """comma-separated expressions of a macro invocation; a leading string literal argument ends the list
        (format message)"""
        p = Parser(self.t, s, e)
        out = []
        while p.i < p.end:
            if p.peek().kind == "str": break
            out.append(p.expr())
            if not p.eat(","):
                if p.i < p.end: raise Unsupported(f"macro arguments (line {p.peek().line})")
                break
        return out

    def closure(self):
        t = self.next()
        params = []
        if t.val == "|":
            while not self.at("|"):
                params.append(self.ident())
                if self.eat(":"): self.ty()
                if not self.eat(","): break
            self.expect("|")
        if self.at("->"): raise Unsupported(f"closure with return type (line {t.line})")
        return N("closure", params=params, body=self.expr(), line=t.line)

    def pattern(self):
        t = self.peek()
        if t.kind == "int":
            self.next(); return N("pint", v=t.val)
        if t.kind == "id" and t.val in ("true", "false"):
            self.next(); return N("pbool", v=(t.val == "true"))
        if self.at("_"):
            self.next(); return N("pwild")
        if self.at("&"):
            self.next(); return self.pattern()
        if t.kind == "id":
            segs = self.path()
            if self.at("(") or self.at("{") or self.at("@"):
                raise Unsupported(f"structured pattern (line {t.line})")
            return N("ppath", segs=segs)
        raise Unsupported(f"pattern `{t.val}` (line {t.line})")


# ------------------------------------------------------------------------------------------------ items

class Fn:
    def __init__(self):
        self.ty = self.trait = self.tag = self.name = None
        self.generic = None          # reason string when the signature is outside the subset
        self.tparams = []            # type parameters (impl + fn)
        self.bounds = []             # [(type, bound)] from parameter lists and where clauses
        self.selfk = None            # None | 'ref' | 'mut' | 'val'
        self.params = []             # [(name, type string)]
        self.ret = "()"
        self.body = None             # (start, end) token indices of `{ … }`
        self.assoc = {}              # associated types of the impl
        self.order = 0

    @property
    def key(self):
        return (self.ty, self.tag, self.name)

    @property
    def rust_name(self):
        return f"<{self.ty} as {self.trait}>::{self.name}" if self.trait else f"{self.ty}::{self.name}"


class Module:
    def __init__(self):
        self.enums = {}      # name -> [(variant, discr or None)]
        self.structs = {}    # name -> [(field, type)]
        self.consts = {}     # (Type, NAME) -> (type, expr AST)
        self.fns = []        # [Fn]
        self.notes = []      # skipped items
        self.derives = {}    # type name -> names in #[derive(..)]


def trait_tag(trait):
    return re.sub(r"_+", "_", re.sub(r"[^A-Za-z0-9]+", "_", trait)).strip("_")


def parse_items(toks):
    p = Parser(toks)
    mod = Module()
    while p.peek().kind != "eof":
        derives = p.skip_attrs()
        if p.eat(";"): continue
        if p.eat("pub"):
            if p.at("("): p.skip_balanced()
        t = p.peek()
        if t.kind != "id":
            raise Unsupported(f"unexpected `{t.val}` at item level (line {t.line})")
        kw = t.val
        if kw in ("use", "extern", "type", "static"):
            while not p.eat(";"):
                if p.peek().kind == "eof": raise Unsupported(f"unterminated `{kw}` (line {t.line})")
                if p.at("{"): p.skip_balanced()
                else: p.next()
            continue
        if kw == "mod":
            p.next(); name = p.ident()
            if p.eat(";"): continue
            p.skip_balanced()
            mod.notes.append(f"mod {name}: not translated")
            continue
        if kw == "macro_rules":
            p.next(); p.expect("!"); name = p.ident(); p.skip_balanced(); p.eat(";")
            mod.notes.append(f"macro_rules! {name}: macros are not expanded")
            continue
        if kw == "enum":
            p.next(); name = p.ident()
            if p.at("<"): raise Unsupported(f"generic enum {name}")
            p.expect("{")
            variants = []
            while not p.at("}"):
                p.skip_attrs()
                v = p.ident()
                if p.at("(") or p.at("{"): raise Unsupported(f"enum {name}: variant {v} carries data")
                d = None
                if p.eat("="):
                    d = p.next()
                    if d.kind != "int": raise Unsupported(f"enum {name}: discriminant of {v}")
                    d = d.val
                variants.append((v, d))
                if not p.eat(","): break
            p.expect("}")
            if name in mod.enums or name in mod.structs: raise Unsupported(f"type {name} defined twice")
            mod.enums[name] = variants
            mod.derives[name] = derives
            continue
        if kw == "struct":
            p.next(); name = p.ident()
            if p.at("<"): raise Unsupported(f"generic struct {name}")
            if not p.at("{"): raise Unsupported(f"struct {name} is not a struct with named fields")
            p.expect("{")
            fields = []
            while not p.at("}"):
                p.skip_attrs()
                if p.eat("pub") and p.at("("): p.skip_balanced()
                f = p.ident(); p.expect(":")
                fields.append((f, p.ty()))
                if not p.eat(","): break
            p.expect("}")
            if name in mod.enums or name in mod.structs: raise Unsupported(f"type {name} defined twice")
            mod.structs[name] = fields
            mod.derives[name] = derives
            continue
        if kw == "impl":
            parse_impl(p, mod)
            continue
        if kw == "fn":
            p.next(); name = p.ident()
            while not p.at("{"): p.next()
            p.skip_balanced()
            mod.notes.append(f"free fn {name}: not translated")
            continue
        if p.peek(1).kind == "p" and p.peek(1).val == "!":     # macro invocation at item level
            name = p.ident(); p.next()
            s, e = p.skip_balanced(); p.eat(";")
            mod.notes.append(f"{name}!({' '.join(str(x.val) for x in toks[s:e])}): macros are not expanded")
            continue
        raise Unsupported(f"item `{kw}` (line {t.line})")
    return mod


def parse_impl(p, mod):
    line = p.expect("impl").line
    generic = None
    itps, ibounds = [], []
    if p.at("<"):
        itps, ibounds, generic = p.generic_params()
    first = p.ty()
    trait = None
    if p.eat("for"):
        trait, tyname = first, p.ty()
    else:
        tyname = first
    if p.eat("where"):
        ibounds = ibounds + p.where_clause()
    p.expect("{")
    assoc = {}
    while not p.at("}"):
        p.skip_attrs()
        if p.eat("pub") and p.at("("): p.skip_balanced()
        t = p.peek()
        if p.eat("const"):
            name = p.ident(); p.expect(":"); cty = p.ty(); p.expect("=")
            e = p.expr(); p.expect(";")
            if generic is None and trait is None and not itps:
                if (tyname, name) in mod.consts: raise Unsupported(f"const {tyname}::{name} defined twice")
                mod.consts[(tyname, name)] = (cty, e)
            continue
        if p.eat("type"):
            name = p.ident(); p.expect("="); assoc[name] = p.ty(); p.expect(";")
            continue
        if not p.at("fn"):
            raise Unsupported(f"impl item `{t.val}` (line {t.line})")
        p.next()
        f = Fn()
        f.ty, f.trait, f.tag, f.assoc, f.order = tyname, trait, (trait_tag(trait) if trait else None), assoc, len(mod.fns)
        f.name = p.ident()
        f.generic = generic
        f.tparams, f.bounds = list(itps), list(ibounds)
        if p.at("<"):
            tps, bs, why = p.generic_params()
            f.tparams += tps; f.bounds += bs; f.generic = f.generic or why
        p.expect("(")
        while not p.at(")"):
            if p.at("&") and (p.at("self", 1) or (p.peek(1).kind == "life" and p.at("self", 2))):
                p.next()
                if p.peek().kind == "life": p.next()
                p.next(); f.selfk = "ref"
            elif p.at("&") and p.at("mut", 1) and p.at("self", 2):
                p.next(); p.next(); p.next(); f.selfk = "mut"
            elif p.at("self"):
                p.next(); f.selfk = "val"
            elif p.at("mut") and p.at("self", 1):
                p.next(); p.next(); f.selfk = "val"; f.generic = f.generic or "`mut self` receiver"
            else:
                if p.eat("mut"): f.generic = f.generic or "`mut` parameter binding"
                nm = p.ident(); p.expect(":")
                if p.at("&") and p.at("mut", 1):
                    f.generic = f.generic or f"`&mut` parameter {nm}"
                    p.next(); p.next()
                f.params.append((nm, p.ty()))
            if not p.eat(","): break
        p.expect(")")
        if p.eat("->"):
            f.ret = p.ty()
        if p.eat("where"):
            f.bounds += p.where_clause()
        if p.eat(";"):
            continue
        f.body = p.skip_balanced()
        f.body = (f.body[0] - 1, f.body[1] + 1)
        mod.fns.append(f)
    p.expect("}")


# ------------------------------------------------------------------------------------------------ translation

INT64 = {"u64", "usize", "int"}
BADINT = {"u8", "u16", "u32", "u128", "i8", "i16", "i32", "i64", "i128", "isize", "f32", "f64", "char", "str", "String"}
LEAN_RESERVED = {
    "abbrev", "at", "axiom", "by", "class", "def", "deriving", "do", "else", "end", "example", "export", "extends",
    "finally", "for", "from", "fun", "have", "if", "import", "in", "inductive", "infix", "instance", "let", "local",
    "macro", "match", "mut", "mutual", "namespace", "notation", "open", "opaque", "partial", "private", "protected",
    "section", "set_option", "show", "structure", "suffices", "syntax", "then", "theorem", "universe", "unless",
    "using", "variable", "where", "with", "return", "try", "catch", "break", "continue", "unsafe", "nomatch", "nofun",
    "calc", "obtain", "termination_by", "decreasing_by", "this", "Type", "Prop", "Sort", "attribute", "prefix",
    "postfix", "infixl", "infixr", "omit", "include", "elab", "declare_syntax_cat", "noncomputable", "public", "meta",
    # names the emitter itself uses
    "decide", "compare", "some", "none", "true", "false", "xor", "not", "fuel", "slf", "xs", "List", "Res", "U64", "Nat", "Bool",
    "Unit", "Ordering", "Option", "loopFuel", "Yuiv", "Rust", "ok", "panic", "err", "assert", "bind", "pure",
}


class IfTerm:
    def __init__(self, cond, th, el):
        self.cond, self.th, self.el = cond, th, el

    def monadic(self):
        return self.th.monadic() or self.el.monadic()


class Blk:
    """a nested block used as a term"""

    def __init__(self, code):
        self.code = code

    def monadic(self):
        return self.code.monadic()


class Code:
    """straight-line code: items = [('bind'|'let'|'do', pattern, term)], final = ('pure', term) | ('m', term)"""

    def __init__(self, items, final):
        self.items, self.final = items, final

    def monadic(self):
        for k, _, t in self.items:
            if k in ("bind", "do"): return True
            if isinstance(t, (IfTerm, Blk)) and t.monadic(): return True
        if self.final[0] == "m": return True
        return isinstance(self.final[1], (IfTerm, Blk)) and self.final[1].monadic()


def unpar(s):
    if isinstance(s, str) and s.startswith("(") and s.endswith(")"):
        d = 0
        for k, ch in enumerate(s):
            if ch == "(": d += 1
            elif ch == ")":
                d -= 1
                if d == 0 and k != len(s) - 1: return s
        return s[1:-1]
    return s


def mk_code(items, term):
    """Code returning the pure term `term`; if `term` is the name bound by the last item, that item becomes the result"""
    items = list(items)
    if items and items[-1][1] == term and items[-1][0] in ("bind", "let"):
        k, _, t = items.pop()
        return Code(items, ("m" if k == "bind" else "pure", t))
    return Code(items, ("pure", term))


class Translator:
    def __init__(self, mod, toks, allids):
        self.mod, self.toks = mod, toks
        self.done = {}        # Fn.key -> dict(text=.., pure=.., ret=.., aux=[..]) or Unsupported
        self.stack = []
        self.emitted = []     # keys in emission order
        tmp = "r"
        while any(re.fullmatch(tmp + r"\d+", x) for x in allids): tmp += "r"
        self.tmp = tmp
        self.types = set(mod.enums) | set(mod.structs)
        self.tvars, self.aliases, self.convs = [], {}, {}

    # -- naming / types
    def lean_ty(self, t):
        if t in INT64: return "Nat"
        if t == "bool": return "Bool"
        if t == "()": return "Unit"
        if t == "Ordering": return "Ordering"
        if t in self.mod.enums: return t
        if t in self.mod.structs: return t + "S"
        m = re.fullmatch(r"Option<(.*)>", t)
        if m: return f"(Option {self.lean_ty(m.group(1))})"
        m = re.fullmatch(r"List<(.*)>", t)
        if m: return f"(List {self.lean_ty(m.group(1))})"
        if t in self.tvars: return t
        raise Unsupported(f"type `{t}`")

    def norm_ty(self, t, fn):
        """normalise a parsed type string in the context of fn's impl"""
        if t == "Self": return fn.ty
        if fn is self.cur or fn.key == getattr(self.cur, "key", None):
            if t in self.aliases: return self.aliases[t]
        if t.startswith("Self::") and t[6:] in fn.assoc: return self.norm_ty(fn.assoc[t[6:]], fn)
        if t in ("std::cmp::Ordering", "cmp::Ordering", "core::cmp::Ordering"): return "Ordering"
        m = re.fullmatch(r"Option<(.*)>", t)
        if m: return f"Option<{self.norm_ty(m.group(1), fn)}>"
        if t in BADINT: raise Unsupported(f"type `{t}` (only the 64-bit unsigned integers are in the subset)")
        self.lean_ty(t)
        return t

    @staticmethod
    def ident(name):
        return name + "_" if name in LEAN_RESERVED or name.startswith("_") and name != "_" else name

    def lean_fn(self, f):
        return f"{f.ty}.{f.tag}.{self.ident(f.name)}" if f.tag else f"{f.ty}.{self.ident(f.name)}"

    def find_fn(self, ty, name, argtys=None):
        c = [f for f in self.mod.fns if f.ty == ty and f.name == name and f.trait is None]
        if not c:
            c = [f for f in self.mod.fns if f.ty == ty and f.name == name]
            if len(c) > 1 and argtys is not None:
                def fits(f):
                    try:
                        ps = [self.norm_ty(t, f) for _, t in f.params]
                    except Unsupported:
                        return False
                    return len(ps) == len(argtys) and all(self.compat(a, b) for a, b in zip(ps, argtys))
                c = [f for f in c if f.generic is None and fits(f)]
        if len(c) != 1: return None
        return c[0]

    @staticmethod
    def compat(a, b):
        return a == b or (a in INT64 and b in INT64 and "int" in (a, b))

    def join_int(self, a, b, what, line):
        if a not in INT64 or b not in INT64:
            raise Unsupported(f"`{what}` on operands of type {a}, {b} (line {line})")
        if a == "int": return b
        if b == "int" or a == b: return a
        raise Unsupported(f"`{what}` mixes {a} and {b} (line {line})")

    # -- function level
    def translate(self, f):
        if f.key in self.done:
            r = self.done[f.key]
            if isinstance(r, Unsupported): raise r
            return r
        if f.key in self.stack:
            raise Unsupported(f"recursion through {f.rust_name}")
        self.stack.append(f.key)
        try:
            r = self.translate_fn(f)
        except Unsupported as e:
            e2 = Unsupported(f"{f.rust_name}: {e}") if not str(e).startswith(f.rust_name) and not getattr(e, "nested", False) else e
            e2.nested = True
            self.done[f.key] = e2
            raise e2
        finally:
            self.stack.pop()
        self.done[f.key] = r
        self.emitted.append(f.key)
        return r

    def translate_fn(self, f):
        if f.generic: raise Unsupported(f.generic)
        if f.ty not in self.types: raise Unsupported(f"impl for unknown type {f.ty}")
        self.cur, self.ntmp, self.nloop, self.aux = f, 0, 0, []
        self.setup_generics(f)
        ret = self.norm_ty(f.ret, f)
        env = {}     # rust name -> (lean name, type, mutable)
        params = []
        if f.tparams and f.selfk == "mut": raise Unsupported("generic `&mut self` method")
        if f.selfk:
            env["self"] = ("slf", f.ty, f.selfk == "mut")
            params.append(("slf", self.lean_ty(f.ty)))
        for nm, t in f.params:
            t = self.norm_ty(t, f)
            ln = self.ident(nm)
            env[nm] = (ln, t, False)
            params.append((ln, self.lean_ty(t)))
        body = Parser(self.toks, f.body[0], f.body[1]).block()
        if f.selfk == "mut":
            if ret != "()": raise Unsupported("`&mut self` method that also returns a value")
            code = self.tr_block(body, env, ("vars", ["self"]))
            lret = self.lean_ty(f.ty)
        else:
            code = self.tr_block(body, env, ("value", ret))
            lret = self.lean_ty(ret)
        pure = not code.monadic()
        sig = " ".join(([self.gsig] if self.gsig else []) + [f"({n} : {unpar(t)})" for n, t in params])
        head = f"def {self.lean_fn(f)}" + (" " + sig if sig else "") + " : " + (lret if pure else f"Res {lret}") + " :="
        lines = [f"/-- `{f.rust_name}` -/", head] + self.body_lines(code, "  ", not pure)
        # the callee analysis of this function is finished: restore nothing (state is per call)
        return dict(text="\n".join(self.aux + ["\n".join(lines)]), pure=pure, ret=ret, fn=f)

    def setup_generics(self, f):
        """type parameters of f: plain type variables, `I: IntoIterator<Item = X>` (modelled as `List X`), and
        conversion clauses `U: From<T>` for a user type U and a type variable T (an explicit function argument)"""
        self.tvars, self.aliases, self.convs = [], {}, {}
        iters = {}
        for t, b in f.bounds:
            m = re.fullmatch(r"IntoIterator<Item=(\w+)>", b)
            if t in f.tparams and m:
                iters[t] = m.group(1)
        self.tvars = [t for t in f.tparams if t not in iters]
        for t, x in iters.items():
            if x not in self.tvars and x not in self.types and x not in ("u64", "usize", "bool"):
                raise Unsupported(f"iterator item type {x}")
            self.aliases[t] = f"List<{x}>"
        for t, b in f.bounds:
            if t in iters and re.fullmatch(r"IntoIterator<Item=(\w+)>", b): continue
            m = re.fullmatch(r"From<(\w+)>", b)
            if t in self.types and m and m.group(1) in self.tvars:
                self.convs[(t, m.group(1))] = f"{t}_from_{m.group(1)}"
                continue
            raise Unsupported(f"bound `{t}: {b}`")
        for name in self.tvars + list(self.aliases):
            if name in self.types or name in LEAN_RESERVED: raise Unsupported(f"type parameter named {name}")
        parts = []
        if self.tvars: parts.append("{" + " ".join(self.tvars) + " : Type}")
        parts += [f"({n} : {a} → {u})" for (u, a), n in self.convs.items()]
        self.gsig = " ".join(parts)
        self.gargs = [n for n in self.convs.values()]

    def fresh(self):
        self.ntmp += 1
        return f"{self.tmp}{self.ntmp}"

    # -- pretty printer
    def body_lines(self, code, ind, monadic):
        if not code.items:
            return self.final_lines(code, ind, monadic)
        return ([ind + "do"] if monadic else []) + self.code_lines(code, ind + ("  " if monadic else ""), monadic)

    def final_lines(self, code, ind, monadic):
        k, t = code.final
        if k == "pure":
            if not isinstance(t, str): return self.term_lines("", t, ind, monadic)
            return [ind + (f"Res.ok {t}" if monadic else unpar(t))]
        return self.term_lines("", t, ind, True)

    def code_lines(self, code, ind, monadic):
        out = []
        for k, pat, t in code.items:
            if k == "bind": out += self.term_lines(f"let {pat} ← ", t, ind, True)
            elif k == "let": out += self.term_lines(f"let {pat} := ", t, ind, False)
            else: out += self.term_lines("", t, ind, True)
        return out + self.final_lines(code, ind, monadic)

    def term_lines(self, prefix, t, ind, monadic):
        if isinstance(t, str):
            return [ind + prefix + (unpar(t) if prefix else t)]
        if isinstance(t, Blk):
            out = self.block_lines(t.code, ind + "  ", monadic)
            out[0] = ind + prefix + out[0].lstrip()
            return out
        out = [ind + prefix + "(if " + unpar(t.cond) + " then"]
        out += self.block_lines(t.th, ind + "    ", monadic)
        out += [ind + "  else"]
        out += self.block_lines(t.el, ind + "    ", monadic)
        out[-1] += ")"
        return out

    def block_lines(self, code, ind, monadic):
        if not code.items:
            return self.final_lines(code, ind, monadic)
        if monadic:
            out = [ind + "(do"] + self.code_lines(code, ind + "  ", True)
        else:
            out = self.code_lines(code, ind + " ", False)
            out[0] = ind + "(" + out[0].lstrip()
        out[-1] += ")"
        return out

    # -- blocks and statements
    def tup(self, env, names):
        ls = [env[n][0] for n in names]
        if not ls: return "()"
        return ls[0] if len(ls) == 1 else "(" + ", ".join(ls) + ")"

    def tr_block(self, block, env, mode):
        env = dict(env)
        items = []
        for st in block.stmts:
            items += self.tr_stmt(st, env)
        tail = block.tail
        if mode[0] == "value":
            if tail is None:
                if mode[1] != "()": raise Unsupported("block without a value where one is needed")
                return Code(items, ("pure", "()"))
            if tail.kind in ("assign", "while", "for") or (tail.kind == "if" and tail.el is None):
                if self.mutated(tail, env): raise Unsupported(f"assignment in a value block (line {tail.line})")
                items += self.tr_stmt(N("expr", e=tail, line=tail.line), env)
                self.last_ty = "()"
                return Code(items, ("pure", "()"))
            its, term, ty = self.tr(tail, env)
            if mode[1] is not None and ty != "!" and not self.compat(mode[1], ty):
                raise Unsupported(f"value of type {ty} where {mode[1]} is expected (line {tail.line})")
            self.last_ty = ty
            return mk_code(items + its, term)
        if tail is not None:
            items += self.tr_stmt(N("expr", e=tail, line=tail.line), env)
        if mode[0] == "vars":
            return mk_code(items, self.tup(env, mode[1]))
        if mode[0] == "loop":
            _, head, ro, st = mode
            call = " ".join([head] + [env[n][0] for n in ro + st])
            return Code(items, ("m", call))
        raise AssertionError(mode)

    def bind_or_let(self, items, its, term, pat):
        """items for `pat := term` after `its`; reuses the last binding when it defines `term`"""
        its = list(its)
        if its and its[-1][1] == term and its[-1][0] in ("bind", "let") and re.fullmatch(self.tmp + r"\d+", term):
            k, _, t = its.pop()
            its.append((k, pat, t))
        else:
            its.append(("let", pat, term))
        items += its

    def tr_stmt(self, st, env):
        items = []
        if st.kind == "let":
            its, term, ty = self.tr(st.init, env)
            if st.ty is not None:
                dty = self.norm_ty(st.ty, self.cur)
                if not self.compat(dty, ty): raise Unsupported(f"`let {st.name}: {dty}` initialised with {ty} (line {st.line})")
                ty = dty
            if ty == "()": raise Unsupported(f"`let` of a unit value (line {st.line})")
            if st.name == "_":
                return its
            ln = self.ident(st.name)
            self.bind_or_let(items, its, term, ln)
            env[st.name] = (ln, ty, st.mut)
            return items
        e = st.e
        while e.kind == "paren": e = e.e
        if e.kind == "assign":
            return self.tr_assign(e, env)
        if e.kind == "if":
            return self.tr_if_stmt(e, env)
        if e.kind == "while":
            return self.tr_while(e, env)
        if e.kind == "for":
            return self.tr_for(e, env)
        if e.kind == "block":
            mv = self.mutated(e, env)
            code = self.tr_block(e, env, ("vars", mv))
            return self.splice(code, self.tup(env, mv), mv)
        if e.kind == "macro":
            its, term, ty = self.tr(e, env)
            return its
        if e.kind == "mcall":
            callee, rty = self.resolve_method(e, env)
            if callee is not None and callee.selfk == "mut":
                return self.tr_mut_call(e, callee, env)
        its, term, ty = self.tr(e, env)       # evaluated for its panics only
        return its

    def splice(self, code, pat, mv):
        if not code.items and code.final == ("pure", pat): return []
        if not mv:
            return [("do", None, Blk(code))] if code.monadic() else []
        # a nested block's lets must not leak names, so bind the tuple of the variables it assigns
        return [("bind" if code.monadic() else "let", pat, Blk(code))]

    def place(self, lhs, env):
        """assignable place: returns (root rust var, field or None)"""
        e = lhs
        while e.kind == "paren": e = e.e
        if e.kind == "path" and len(e.segs) == 1:
            root, field = e.segs[0], None
        elif e.kind == "field" and e.e.kind == "path" and len(e.e.segs) == 1:
            root, field = e.e.segs[0], e.name
        elif e.kind == "un" and e.op == "*" and e.e.kind == "path" and e.e.segs == ["self"]:
            root, field = "self", None
        else:
            raise Unsupported(f"assignment to this kind of place (line {lhs.line})")
        if root not in env: raise Unsupported(f"assignment to unknown variable `{root}` (line {lhs.line})")
        if not env[root][2]: raise Unsupported(f"assignment to immutable `{root}` (line {lhs.line})")
        return root, field

    def tr_assign(self, e, env):
        root, field = self.place(e.l, env)
        ln, rty, _ = env[root]
        if field is not None:
            fty = self.field_ty(rty, field, e.line)
            cur = f"{ln}.{field}"
        else:
            fty, cur = rty, ln
        its, term, ty = self.tr(e.r, env)
        if e.op != "=":
            its2, term, ty = self.binop(e.op[:-1], cur, fty, term, ty, e.line)
            its = its + its2
        if not self.compat(fty, ty):
            raise Unsupported(f"assignment of {ty} to a place of type {fty} (line {e.line})")
        items = []
        if field is None:
            self.bind_or_let(items, its, term, ln)
            env[root] = (ln, ty if fty == "int" else fty, True)
        else:
            items += its
            items.append(("let", ln, f"{{ {ln} with {field} := {unpar(term)} }}"))
        return items

    def field_ty(self, sty, field, line):
        if sty not in self.mod.structs: raise Unsupported(f"field `.{field}` of a value of type {sty} (line {line})")
        for f, t in self.mod.structs[sty]:
            if f == field:
                if t in BADINT: raise Unsupported(f"field {field}: type {t}")
                return t
        raise Unsupported(f"unknown field `.{field}` (line {line})")

    def tr_if_stmt(self, e, env):
        mv = self.mutated(e, env)
        its, c, cty = self.tr(e.c, env)
        if cty != "bool": raise Unsupported(f"`if` condition of type {cty} (line {e.line})")
        pat = self.tup(env, mv)
        th = self.tr_block(e.th, env, ("vars", mv))
        el = self.tr_block(e.el, env, ("vars", mv)) if e.el is not None else Code([], ("pure", pat))
        t = IfTerm(c, th, el)
        if not mv:
            return its + ([("do", None, t)] if t.monadic() else [])
        return its + [("bind" if t.monadic() else "let", pat, t)]

    def tr_while(self, e, env):
        st = self.mutated(e.body, env)
        used = self.used(e, env)
        ro = [n for n in env if n in used and n not in st]
        self.nloop += 1
        fname = f"{self.lean_fn(self.cur)}_loop{self.nloop}"
        env2 = dict(env)
        its, c, cty = self.tr(e.c, env2)
        if cty != "bool": raise Unsupported(f"`while` condition of type {cty} (line {e.line})")
        body = self.tr_block(e.body, env2, ("loop", " ".join([fname] + self.gargs + ["fuel"]), ro, st))
        pat = self.tup(env, st)
        code = Code(its, ("m", IfTerm(c, body, Code([], ("pure", pat)))))
        sig = " ".join([f"({env[n][0]} : {unpar(self.lean_ty(env[n][1]))})" for n in ro + st])
        rty = " × ".join(self.lean_ty(env[n][1]) for n in st) if st else "Unit"
        rty = f"({rty})" if len(st) > 1 else rty
        lines = [f"/-- the `while` loop #{self.nloop} of `{self.cur.rust_name}` (fuel-bounded; state: {', '.join(st) or 'none'}) -/",
                 f"def {fname} " + (self.gsig + " " if self.gsig else "") + "(fuel : Nat)" + (" " + sig if sig else "") + f" : Res {rty} :=",
                 "  match fuel with", "  | 0 => Res.err", "  | fuel + 1 =>"]
        lines += self.body_lines(code, "    ", True)
        self.aux.append("\n".join(lines) + "\n")
        call = " ".join([fname] + self.gargs + ["loopFuel"] + [env[n][0] for n in ro + st])
        return [("bind", pat if st else "_", call)]

    def tr_for(self, e, env):
        its, it, ity = self.tr(e.it, env)
        m = re.fullmatch(r"List<(.*)>", ity)
        if not m: raise Unsupported(f"`for` over a value of type {ity} (line {e.line})")
        st = self.mutated(e.body, env)
        if e.var in st: st.remove(e.var)
        used = self.used(e.body, env)
        ro = [n for n in env if n in used and n not in st and n != e.var]
        self.nloop += 1
        fname = f"{self.lean_fn(self.cur)}_loop{self.nloop}"
        env2 = dict(env)
        pat = self.tup(env, st)
        lv = "_" if e.var == "_" else self.ident(e.var)
        if e.var != "_": env2[e.var] = (lv, m.group(1), False)
        body = self.tr_block(e.body, env2, ("loop", " ".join([fname] + self.gargs + ["xs"]), ro, st))
        sig = " ".join([f"({env[n][0]} : {unpar(self.lean_ty(env[n][1]))})" for n in ro + st])
        rty = " × ".join(self.lean_ty(env[n][1]) for n in st) if st else "Unit"
        rty = f"({rty})" if len(st) > 1 else rty
        lines = [f"/-- the `for` loop #{self.nloop} of `{self.cur.rust_name}` over the items `xs` (state: {', '.join(st) or 'none'}) -/",
                 f"def {fname} " + (self.gsig + " " if self.gsig else "") + f"(xs : {unpar(self.lean_ty(ity))})" + (" " + sig if sig else "") + f" : Res {rty} :=",
                 "  match xs with", f"  | [] => Res.ok {pat}", f"  | {lv} :: xs =>"]
        lines += self.body_lines(body, "    ", True)
        self.aux.append("\n".join(lines) + "\n")
        call = " ".join([fname] + self.gargs + [it] + [env[n][0] for n in ro + st])
        return its + [("bind", pat if st else "_", call)]

    def tr_mut_call(self, e, callee, env):
        root, field = self.place(e.recv, env)
        if field is not None: raise Unsupported(f"`&mut self` call on a field (line {e.line})")
        info = self.translate_callee(callee)
        its, args = self.tr_args(e.args, callee, env, e.line)
        ln = env[root][0]
        call = " ".join([self.lean_fn(callee), ln] + args)
        return its + [("let" if info["pure"] else "bind", ln, call)]

    def translate_callee(self, callee):
        saved = (self.cur, self.ntmp, self.nloop, self.aux, self.tvars, self.aliases, self.convs, self.gsig, self.gargs)
        try:
            return self.translate(callee)
        finally:
            self.cur, self.ntmp, self.nloop, self.aux, self.tvars, self.aliases, self.convs, self.gsig, self.gargs = saved

    # -- variable analysis
    def walk(self, n, fn):
        """pre-order walk over AST nodes"""
        if isinstance(n, N):
            fn(n)
            for v in n.__dict__.values(): self.walk(v, fn)
        elif isinstance(n, (list, tuple)):
            for v in n: self.walk(v, fn)

    def mutated(self, node, env):
        """outer variables (keys of env, in env order) assigned somewhere inside node"""
        found = set()

        def go(n, local):
            if isinstance(n, (list, tuple)):
                for v in n: go(v, local)
                return
            if not isinstance(n, N): return
            if n.kind == "block":
                loc = set(local)
                for s in n.stmts:
                    if s.kind == "let":
                        go(s.init, loc); loc.add(s.name)
                    else:
                        go(s.e, loc)
                go(n.tail, loc)
                return
            if n.kind == "for":
                go(n.it, local); go(n.body, set(local) | {n.var})
                return
            if n.kind == "assign":
                try:
                    root, _ = self.place(n.l, {k: (k, None, True) for k in list(env) + list(local)})
                except Unsupported:
                    root = None
                if root is not None and root not in local and root in env: found.add(root)
                go(n.r, local)
                return
            if n.kind == "mcall":
                r = n.recv
                while r.kind == "paren": r = r.e
                if r.kind == "path" and len(r.segs) == 1 and r.segs[0] in env and r.segs[0] not in local:
                    c = self.find_fn(env[r.segs[0]][1], n.name)
                    if c is not None and c.selfk == "mut": found.add(r.segs[0])
            for v in n.__dict__.values(): go(v, local)

        go(node, set())
        return [n for n in env if n in found]

    def used(self, node, env):
        s = set()

        def f(n):
            if n.kind == "path" and len(n.segs) == 1 and n.segs[0] in env: s.add(n.segs[0])
        self.walk(node, f)
        return s

    # -- expressions: returns (items, argument-safe pure term, type)
    def tr_args(self, args, callee, env, line):
        if len(args) != len(callee.params):
            raise Unsupported(f"call of {callee.rust_name} with {len(args)} arguments (line {line})")
        its, out = [], []
        for a, (pn, pt) in zip(args, callee.params):
            i2, t, ty = self.tr(a, env)
            pt = self.norm_ty(pt, callee)
            if not self.compat(pt, ty):
                raise Unsupported(f"argument `{pn}` of {callee.rust_name}: {ty} given, {pt} expected (line {line})")
            its += i2; out.append(t)
        return its, out

    def call_user(self, callee, recv, args, env, line):
        if callee.selfk == "mut":
            raise Unsupported(f"`&mut self` method {callee.rust_name} used inside an expression (line {line})")
        if callee.tparams: raise Unsupported(f"call of the generic function {callee.rust_name} (line {line})")
        info = self.translate_callee(callee)
        its, a = self.tr_args(args, callee, env, line)
        call = " ".join([self.lean_fn(callee)] + ([recv] if recv is not None else []) + a)
        ret = info["ret"]
        if info["pure"]:
            return its, (f"({call})" if (a or recv is not None) else call), ret
        r = self.fresh()
        return its + [("bind", r, call)], r, ret

    def resolve_method(self, e, env):
        """user method a method call refers to, or None (builtin)"""
        _, _, rty = self.tr(e.recv, dict(env), dry=True)
        if rty in self.types:
            argt = [self.tr(a, dict(env), dry=True)[2] for a in e.args]
            c = self.find_fn(rty, e.name, argt)
            return c, rty
        return None, rty

    def tr(self, e, env, dry=False):
        if dry:
            saved = (self.ntmp, self.nloop, list(self.aux))
            try:
                return self.tr(e, env)
            finally:
                self.ntmp, self.nloop, self.aux = saved
        k = e.kind
        line = getattr(e, "line", 0)
        if k == "paren":
            return self.tr(e.e, env)
        if k == "int":
            if e.v > 2 ** 64 - 1: raise Unsupported(f"integer literal {e.v} does not fit in 64 bits (line {line})")
            return [], str(e.v), (e.suffix or "int")
        if k == "bool":
            return [], ("true" if e.v else "false"), "bool"
        if k == "unit":
            return [], "()", "()"
        if k == "path":
            return self.tr_path(e, env)
        if k == "field":
            its, t, ty = self.tr(e.e, env)
            return its, f"{t}.{e.name}", self.field_ty(ty, e.name, line)
        if k == "un":
            its, t, ty = self.tr(e.e, env)
            if e.op in ("&", "*"): return its, t, ty          # references are erased (all types here are Copy)
            if e.op == "!":
                if ty == "bool": return its, f"(!{t})", ty
                if ty in INT64: return its, f"(U64.not {t})", ty
                raise Unsupported(f"`!` on {ty} (line {line})")
            raise Unsupported(f"unary `{e.op}` (line {line})")
        if k == "cast":
            its, t, ty = self.tr(e.e, env)
            if ty == "int" and not re.fullmatch(r"\d+", t):
                raise Unsupported(f"cast of an integer expression of unconstrained type (rustc would pick i32) (line {line})")
            if e.ty in ("u64", "usize") and ty in INT64: return its, t, e.ty
            raise Unsupported(f"cast `{ty} as {e.ty}` (line {line})")
        if k == "bin":
            return self.tr_bin(e, env)
        if k == "if":
            return self.tr_if_expr(e, env)
        if k == "match":
            return self.tr_match(e, env)
        if k == "block":
            code = self.tr_block(e, env, ("value", None))
            ty = self.last_ty
            if not code.items and code.final[0] == "pure" and isinstance(code.final[1], str):
                return [], code.final[1], ty
            r = self.fresh()
            return [("bind" if code.monadic() else "let", r, Blk(code))], r, ty
        if k == "struct":
            return self.tr_struct(e, env)
        if k == "macro":
            return self.tr_macro(e, env)
        if k == "call":
            return self.tr_call(e, env)
        if k == "mcall":
            return self.tr_mcall(e, env)
        if k in ("assign", "while", "for"):
            raise Unsupported(f"`{k}` used as a value (line {line})")
        if k == "closure":
            raise Unsupported(f"closure (line {line})")
        raise Unsupported(f"expression kind {k} (line {line})")

    def tr_path(self, e, env):
        segs, line = e.segs, e.line
        if len(segs) == 1:
            if segs[0] in env:
                ln, ty, _ = env[segs[0]]
                return [], ln, ty
            raise Unsupported(f"unknown name `{segs[0]}` (line {line})")
        if len(segs) == 2:
            a, b = segs
            if a == "Self": a = self.cur.ty
            if a in ("u64", "usize") and b == "MAX": return [], "U64.MAX", a
            if a in self.mod.enums and b in [v for v, _ in self.mod.enums[a]]:
                return [], f"{a}.{b}", a
            if (a, b) in self.mod.consts:
                cty = self.mod.consts[(a, b)][0]
                if cty not in INT64 and cty != "bool": raise Unsupported(f"const {a}::{b} of type {cty}")
                return [], f"{a}.{self.ident(b)}", cty
        raise Unsupported(f"path `{'::'.join(segs)}` (line {line})")

    def binop(self, op, a, ta, b, tb, line):
        """items, term, type of `a op b` for already translated pure operands"""
        if op in ("+", "-", "*", "/", "%"):
            ty = self.join_int(ta, tb, op, line)
            r = self.fresh()
            f = {"+": "add", "-": "sub", "*": "mul", "/": "div", "%": "rem"}[op]
            return [("bind", r, f"U64.{f} {a} {b}")], r, ty
        if op in ("<<", ">>"):
            if ta not in INT64 or tb not in INT64: raise Unsupported(f"`{op}` on {ta}, {tb} (line {line})")
            r = self.fresh()
            return [("bind", r, f"U64.{'shl' if op == '<<' else 'shr'} {a} {b}")], r, ta
        if op in ("&", "|", "^"):
            if ta == "bool" and tb == "bool":
                return [], {"&": f"({a} && {b})", "|": f"({a} || {b})", "^": f"(xor {a} {b})"}[op], "bool"
            ty = self.join_int(ta, tb, op, line)
            sym = {"&": "&&&", "|": "|||", "^": "^^^"}[op]
            return [], f"({a} {sym} {b})", ty
        if op in CMPOPS:
            if not (self.compat(ta, tb) or ta == tb):
                raise Unsupported(f"comparison `{op}` of {ta} with {tb} (line {line})")
            if op in ("<", ">", "<=", ">=") and ta not in INT64:
                raise Unsupported(f"ordering comparison `{op}` on {ta} (line {line})")
            if ta in self.types and ("PartialEq" not in self.mod.derives.get(ta, []) or
                                     any(f.ty == ta and f.name in ("eq", "ne") for f in self.mod.fns)):
                raise Unsupported(f"`{op}` on {ta}, whose PartialEq is not the derived one (line {line})")
            if ta == "int" and tb == "int" and not (re.fullmatch(r"\d+", a) and re.fullmatch(r"\d+", b)):
                raise Unsupported(f"comparison of two integer expressions of unconstrained type (rustc would pick i32) (line {line})")
            sym = {"==": "=", "!=": "≠", "<": "<", ">": ">", "<=": "≤", ">=": "≥"}[op]
            return [], f"(decide ({a} {sym} {b}))", "bool"
        raise Unsupported(f"operator `{op}` (line {line})")

    def tr_bin(self, e, env):
        op, line = e.op, e.line
        if op in ("&&", "||"):
            i1, a, ta = self.tr(e.l, env)
            rhs = self.tr_block(N("block", stmts=[], tail=e.r), env, ("value", "bool"))
            if ta != "bool": raise Unsupported(f"`{op}` on {ta} (line {line})")
            if not rhs.items and rhs.final[0] == "pure" and isinstance(rhs.final[1], str):
                return i1, f"({a} {op} {rhs.final[1]})", "bool"
            r = self.fresh()
            t = IfTerm(a, rhs, Code([], ("pure", "false"))) if op == "&&" else IfTerm(a, Code([], ("pure", "true")), rhs)
            return i1 + [("bind" if t.monadic() else "let", r, t)], r, "bool"
        i1, a, ta = self.tr(e.l, env)
        i2, b, tb = self.tr(e.r, env)
        i3, t, ty = self.binop(op, a, ta, b, tb, line)
        return i1 + i2 + i3, t, ty

    def simple(self, code):
        return not code.items and code.final[0] == "pure" and isinstance(code.final[1], str)

    def tr_if_expr(self, e, env):
        line = e.line
        its, c, cty = self.tr(e.c, env)
        if cty != "bool": raise Unsupported(f"`if` condition of type {cty} (line {line})")
        if e.el is None:
            raise Unsupported(f"`if` without `else` used as a value (line {line})")
        if self.mutated(e, env):
            raise Unsupported(f"`if` expression whose branches also assign variables (line {line})")
        th = self.tr_block(e.th, env, ("value", None)); t1 = self.last_ty
        el = self.tr_block(e.el, env, ("value", None)); t2 = self.last_ty
        ty = t2 if t1 == "!" else t1
        if t1 != "!" and t2 != "!" and not self.compat(t1, t2):
            raise Unsupported(f"`if` branches of types {t1} and {t2} (line {line})")
        if ty == "int" and t2 != "!": ty = t2
        if self.simple(th) and self.simple(el):
            return its, f"(if {unpar(c)} then {unpar(th.final[1])} else {unpar(el.final[1])})", ty
        t = IfTerm(c, th, el)
        r = self.fresh()
        return its + [("bind" if t.monadic() else "let", r, t)], r, ty

    def tr_match(self, e, env):
        line = e.line
        its, s, sty = self.tr(e.s, env)
        if self.mutated(e, env): raise Unsupported(f"`match` whose arms assign variables (line {line})")
        if not re.fullmatch(r"[\w.]+", s):
            r = self.fresh(); its = its + [("let", r, s)]; s = r
        arms = []
        for pats, body in e.arms:
            conds = []
            for p in pats:
                if p.kind == "pwild": conds = None; break
                if p.kind == "pint":
                    if sty not in INT64: raise Unsupported(f"integer pattern on {sty} (line {line})")
                    conds.append(f"{s} = {p.v}")
                elif p.kind == "pbool":
                    if sty != "bool": raise Unsupported(f"bool pattern on {sty} (line {line})")
                    conds.append(f"{s} = {'true' if p.v else 'false'}")
                else:
                    segs = p.segs
                    a = self.cur.ty if segs[0] == "Self" else segs[0]
                    if len(segs) == 2 and a == sty and sty in self.mod.enums and segs[1] in [v for v, _ in self.mod.enums[a]]:
                        conds.append(f"{s} = {a}.{segs[1]}")
                    else:
                        raise Unsupported(f"pattern `{'::'.join(segs)}` (binding patterns are not in the subset) (line {line})")
            code = self.tr_block(N("block", stmts=[], tail=body), env, ("value", None))
            arms.append((conds, code, self.last_ty))
            if conds is None: break
        tys = [t for _, _, t in arms if t != "!"]
        ty = tys[0] if tys else "!"
        for t in tys:
            if not self.compat(t, ty): raise Unsupported(f"`match` arms of types {ty} and {t} (line {line})")
            if ty == "int": ty = t
        # exhaustiveness: a wildcard arm, or all variants of the enum / both booleans
        if arms[-1][0] is None:
            chain = arms[-1][1]; rest = arms[:-1]
        else:
            allc = [c for cs, _, _ in arms for c in cs]
            if sty in self.mod.enums: need = [f"{s} = {sty}.{v}" for v, _ in self.mod.enums[sty]]
            elif sty == "bool": need = [f"{s} = true", f"{s} = false"]
            else: raise Unsupported(f"`match` on {sty} without a wildcard arm (line {line})")
            if any(nc not in allc for nc in need): raise Unsupported(f"non-exhaustive `match` (line {line})")
            chain = arms[-1][1]; rest = arms[:-1]
        for conds, code, _ in reversed(rest):
            c = "decide (" + " ∨ ".join(conds) + ")"
            chain = Code([], ("m" if (code.monadic() or chain.monadic()) else "pure", IfTerm(c, code, chain)))
        if not chain.items and isinstance(chain.final[1], IfTerm):
            t = chain.final[1]
            r = self.fresh()
            return its + [("bind" if t.monadic() else "let", r, t)], r, ty
        if self.simple(chain): return its, chain.final[1], ty
        r = self.fresh()
        return its + [("bind" if chain.monadic() else "let", r, Blk(chain))], r, ty

    def tr_struct(self, e, env):
        name = self.cur.ty if e.path == ["Self"] else "::".join(e.path)
        if name not in self.mod.structs: raise Unsupported(f"struct literal of `{name}` (line {e.line})")
        decl = self.mod.structs[name]
        given = dict()
        its = []
        for fn_, fe in e.fields:
            if fn_ in given: raise Unsupported(f"field {fn_} given twice (line {e.line})")
            i2, t, ty = self.tr(fe, env)
            fty = self.field_ty(name, fn_, e.line)
            if not self.compat(fty, ty): raise Unsupported(f"field {fn_}: {ty} given, {fty} expected (line {e.line})")
            its += i2; given[fn_] = t
        if set(given) != {f for f, _ in decl}: raise Unsupported(f"struct literal does not give all fields (line {e.line})")
        body = ", ".join(f"{f} := {unpar(given[f])}" for f, _ in decl)
        return its, f"({{ {body} }} : {name}S)", name

    def tr_macro(self, e, env):
        nm, line = e.name, e.line
        if nm in ("assert", "debug_assert"):
            if not e.args: raise Unsupported(f"`{nm}!` without condition (line {line})")
            its, c, ty = self.tr(e.args[0], env)
            if ty != "bool": raise Unsupported(f"`{nm}!` on {ty} (line {line})")
            return its + [("do", None, f"Res.assert {c}")], "()", "()"
        if nm in ("assert_eq", "assert_ne", "debug_assert_eq", "debug_assert_ne"):
            if len(e.args) < 2: raise Unsupported(f"`{nm}!` needs two arguments (line {line})")
            its, c, ty = self.tr(N("bin", op="==" if nm.endswith("eq") else "!=", l=e.args[0], r=e.args[1], line=line), env)
            return its + [("do", None, f"Res.assert {c}")], "()", "()"
        if nm in ("panic", "unreachable", "unimplemented", "todo"):
            r = self.fresh()
            return [("bind", r, "Res.panic")], r, "!"
        raise Unsupported(f"macro `{nm}!` (line {line})")

    def tr_call(self, e, env):
        segs, line = e.path, e.line
        if segs == ["Some"] and len(e.args) == 1:
            its, t, ty = self.tr(e.args[0], env)
            return its, f"(some {t})", f"Option<{ty}>"
        if len(segs) == 2:
            a = self.cur.ty if segs[0] == "Self" else segs[0]
            if a in self.types:
                argt = [self.tr(x, dict(env), dry=True)[2] for x in e.args]
                if segs[1] == "from" and len(argt) == 1 and (a, argt[0]) in self.convs:
                    its, t, _ = self.tr(e.args[0], env)
                    return its, f"({self.convs[(a, argt[0])]} {t})", a
                c = self.find_fn(a, segs[1], argt)
                if c is None: raise Unsupported(f"call of unknown / ambiguous function `{a}::{segs[1]}` (line {line})")
                if c.selfk:
                    if not e.args: raise Unsupported(f"method `{a}::{segs[1]}` called without receiver (line {line})")
                    i1, recv, rty = self.tr(e.args[0], env)
                    i2, t, ty = self.call_user(c, recv, e.args[1:], env, line)
                    return i1 + i2, t, ty
                return self.call_user(c, None, e.args, env, line)
        raise Unsupported(f"call of `{'::'.join(segs)}` (line {line})")

    def tr_mcall(self, e, env):
        line, name = e.line, e.name
        i1, recv, rty = self.tr(e.recv, env)
        if rty in self.types:
            argt = [self.tr(a, dict(env), dry=True)[2] for a in e.args]
            c = self.find_fn(rty, name, argt)
            if c is None:
                if name == "clone" and not e.args: return i1, recv, rty
                raise Unsupported(f"unknown / ambiguous method `.{name}` on {rty} (line {line})")
            if c.selfk is None: raise Unsupported(f"`.{name}` is not a method (line {line})")
            i2, t, ty = self.call_user(c, recv, e.args, env, line)
            return i1 + i2, t, ty
        if rty in INT64:
            if name == "reverse_bits" and not e.args:
                return i1, f"(U64.reverse_bits {recv})", rty
            if name == "cmp" and len(e.args) == 1:
                i2, b, tb = self.tr(e.args[0], env)
                self.join_int(rty, tb, ".cmp", line)
                return i1 + i2, f"(compare {recv} {b})", "Ordering"
            if name == "clone" and not e.args: return i1, recv, rty
        if rty.startswith("List<") and name in ("into_iter", "iter") and not e.args:
            return i1, recv, rty
        if rty == "Ordering" and name in ("then", "then_with") and len(e.args) == 1:
            a = e.args[0]
            if name == "then_with":
                if a.kind != "closure" or a.params: raise Unsupported(f"`.then_with` needs a `|| e` closure (line {line})")
                a = a.body
            rhs = self.tr_block(N("block", stmts=[], tail=a), env, ("value", "Ordering"))
            if self.simple(rhs):
                return i1, f"(Ordering.then {recv} {rhs.final[1]})", "Ordering"
            if name == "then":        # strict: evaluate the argument first
                r = self.fresh()
                return i1 + [("bind" if rhs.monadic() else "let", r, Blk(rhs))], f"(Ordering.then {recv} {r})", "Ordering"
            if not re.fullmatch(r"[\w.]+", recv):
                r0 = self.fresh(); i1 = i1 + [("let", r0, recv)]; recv = r0
            r = self.fresh()
            t = IfTerm(f"decide ({recv} = Ordering.eq)", rhs, Code([], ("pure", recv)))
            return i1 + [("bind" if t.monadic() else "let", r, t)], r, "Ordering"
        raise Unsupported(f"method `.{name}` on a value of type {rty} (line {line})")


# ------------------------------------------------------------------------------------------------ driver

def generate(src_text, src_label):
    toks = tokenize(src_text)
    allids = {t.val for t in toks if t.kind == "id"}
    mod = parse_items(toks)
    tr = Translator(mod, toks, allids)
    parts = []
    # enums
    for name in sorted(mod.enums):
        vs = mod.enums[name]
        lines = [f"/-- `enum {name}` -/", f"inductive {name} where"] + [f"  | {v}" for v, _ in vs] + ["deriving DecidableEq, Repr, Inhabited"]
        disc, nxt = [], 0
        for v, d in vs:
            d = nxt if d is None else d
            disc.append((v, d)); nxt = d + 1
        lines += ["", f"/-- discriminants of `enum {name}` -/", f"def {name}.discr : {name} → Nat"] + [f"  | .{v} => {d}" for v, d in disc]
        parts.append("\n".join(lines))
    for name in sorted(mod.structs):
        fs = mod.structs[name]
        lines = [f"/-- `struct {name}` -/", f"structure {name}S where"]
        for f, t in fs:
            if t in BADINT: raise Unsupported(f"struct {name}: field {f} of type {t}")
            lines.append(f"  {f} : {tr.lean_ty(t)}   -- {t}")
        lines.append("deriving DecidableEq, Repr, Inhabited")
        parts.append("\n".join(lines))
    for (ty, name) in sorted(mod.consts):
        cty, e = mod.consts[(ty, name)]
        if cty in BADINT: raise Unsupported(f"const {ty}::{name} of type {cty}")
        f = Fn(); f.ty, f.name = ty, name
        tr.cur, tr.ntmp, tr.nloop, tr.aux = f, 0, 0, []
        tr.setup_generics(f)
        its, t, ety = tr.tr(e, {})
        if its: raise Unsupported(f"const {ty}::{name}: initialiser is not a literal expression")
        parts.append(f"/-- `{ty}::{name}` -/\ndef {ty}.{tr.ident(name)} : {tr.lean_ty(cty)} := {unpar(t)}")
    required = set(REQUIRED)
    skipped = []
    keys = [f.key for f in mod.fns]
    for k in keys:
        if keys.count(k) > 1:
            raise Unsupported(f"function {k[0]}::{k[2]}" + (f" (impl {k[1]})" if k[1] else "") +
                              " is defined more than once (cfg-gated variants are outside the subset)")
    for f in sorted(mod.fns, key=lambda f: (f.ty, f.tag or "", f.name, f.order)):
        try:
            tr.translate(f)
        except Unsupported as e:
            if f.key in required: raise
            skipped.append((f, str(e)))
    missing = [k for k in REQUIRED if k not in tr.done]
    if missing:
        k = missing[0]
        raise Unsupported(f"required function {k[0]}::{k[2]}" + (f" (impl {k[1]})" if k[1] else "") + " not found in the source")
    fparts = [tr.done[k]["text"] for k in tr.emitted]
    translated = [tr.done[k]["fn"] for k in tr.emitted]
    hdr = ["import Yuiv.Model.Res", "import Yuiv.Model.RustArith", "/-",
           f"GENERATED by tools/rs2lean_fn.py from {src_label} on every ./check run — do not edit.",
           "",
           "One Lean definition per translated Rust function (semantics of the primitive operators: Yuiv/Model/RustArith.lean;",
           "`u64`/`usize` are `Nat` below 2^64, `&mut self` methods return the new struct, panics are `Res.panic`).",
           "`Yuiv/Props/C17Gen.lean` proves each of them equal to the hand-written model `Yuiv/Model/C17.lean`.",
           "", "translated:"]
    hdr += [f"  {f.rust_name}  ->  {tr.lean_fn(f)}" for f in sorted(translated, key=lambda f: tr.lean_fn(f))]
    hdr += ["", "not translated:"]
    hdr += [f"  {f.rust_name}: {reason_clean(r, f)}" for f, r in sorted(skipped, key=lambda x: tr.lean_fn(x[0]))]
    hdr += [f"  {n}" for n in sorted(set(mod.notes))]
    hdr += ["-/", "set_option linter.unusedVariables false", "namespace Yuiv.GenBitSeq", "open Yuiv Yuiv.Rust", "", ""]
    return "\n".join(hdr) + "\n\n".join(parts + fparts) + "\n\nend Yuiv.GenBitSeq\n"


def reason_clean(r, f):
    r = re.sub(r"\s*\(line \d+\)", "", r)
    pre = f.rust_name + ": "
    return r[len(pre):] if r.startswith(pre) else r


def main():
    ap = argparse.ArgumentParser()
    ap.add_argument("--src", default=SRC)
    ap.add_argument("--out", default=OUT)
    a, _ = ap.parse_known_args()
    label = "/repo/yui/src/misc/bitseq.rs" if os.path.abspath(a.src) == SRC else os.path.basename(a.src)
    try:
        text = generate(open(a.src).read(), label)
    except (Unsupported, OSError, RecursionError) as e:
        print(f"rs2lean_fn: cannot translate: {e}")
        sys.exit(1)
    except Exception as e:      # a bug of the translator must not look like a successful run
        print(f"rs2lean_fn: cannot translate: internal error {type(e).__name__}: {e}")
        sys.exit(1)
    os.makedirs(os.path.dirname(os.path.abspath(a.out)), exist_ok=True)
    old = open(a.out).read() if os.path.exists(a.out) else None
    if old != text:
        with open(a.out, "w") as f:
            f.write(text)
        print("rs2lean_fn: regenerated", a.out)
    else:
        print("rs2lean_fn: up to date", os.path.basename(a.out))


if __name__ == "__main__":
    main()
