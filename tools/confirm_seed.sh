#!/bin/sh
# tools/confirm_seed.sh <Cxx> <demo-relative-path> <cargo test args for the demo...>
# Confirms a seeded change produced in /tmp/mut/<Cxx>: (1) the patch is exactly the tracked diff, (2) the repository's own
# suite passes with the change, (3) the demonstration fails with the change and (4) passes without it.
id="$1"; demo="$2"; shift 2
wt=/tmp/mut/$id; out=${MUTOUT:-/tmp/mut/out}/$id
cd "$wt" || exit 2
export CARGO_NET_OFFLINE=true
git diff > $out/confirm.diff
if ! diff -q $out/confirm.diff "$out/patch.diff" >/dev/null; then echo "NOTE: worktree diff differs from patch.diff (using patch.diff on a clean checkout)"; git stash -q; git apply "$out/patch.diff" || { echo "patch does not apply"; exit 2; }; fi
mv "$demo" $out/.demo_aside
suite=$(cargo test --workspace --no-fail-fast --offline 2>&1 | grep -E "^test result" | awk '{p+=$4; f+=$6} END {print p" passed, "f" failed"}')
mv $out/.demo_aside "$demo"
echo "suite with change: $suite"
timeout 900 cargo test --offline "$@" > "$out/confirm_demo_mutant.log" 2>&1; rc1=$?
echo "demo with change: rc=$rc1 ($(grep -E '^test result' "$out/confirm_demo_mutant.log" | tail -1))"
git stash -q
timeout 900 cargo test --offline "$@" > "$out/confirm_demo_clean.log" 2>&1; rc2=$?
echo "demo without change: rc=$rc2 ($(grep -E '^test result' "$out/confirm_demo_clean.log" | tail -1))"
git stash pop -q
if [ "$rc1" -ne 0 ] && [ "$rc2" -eq 0 ] && echo "$suite" | grep -q "610 passed, 0 failed"; then echo "CONFIRMED $id"; else echo "NOT CONFIRMED $id"; fi
