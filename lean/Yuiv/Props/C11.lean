import Yuiv.Proofs.C11Prog
/-
C11 — the parallel pivot search returns an acyclic (triangular) pivot set under every interleaving.

Property theorems only.  Objects (all in `Yuiv/Model/C11.lean`, the same definitions the driver executes when it
replays the traces recorded from the real code):
  `Str`      the matrix structure (`MatrixStr`), `Str.WF`: rows strictly increasing, candidates are entries
  `Pivs`     the shared pivot table, list of `(row, col)` in insertion order
  `PInv s S` distinct rows ∧ distinct columns ∧ every pivot is a candidate entry ∧ `Acyclic s S`
  `State`, `Act`, `step`, `run`   the parallel phase as a transition system: `start` / `search` / `validate` steps
             of any number of workers, in any order (the list of actions IS the schedule, stale snapshots
             included: `start row k` may copy any prefix of the shared table)
  `GInv`     `PInv` of the shared table + bookkeeping of rows + the local invariant of every worker in flight
-/
namespace Yuiv.C11
open Yuiv Res

/-! ### the two graph lemmas every interleaving argument rests on -/

/-- a mark set closed under the pivot rows of the snapshot `P` stays closed when the table grows by pivots
none of whose columns is marked (exactly the `update_diff` / `should_retry` test) -/
theorem closed_stable (s : Str) (P N : Pivs) (M : Nat → Prop)
    (hM : ∀ p ∈ P, M p.2 → ∀ j2 ∈ colsIn s p.1, M j2) (hval : ∀ p ∈ N, ¬ M p.2) :
    ∀ p ∈ P ++ N, M p.2 → ∀ j2 ∈ colsIn s p.1, M j2 :=
  closed_stable_core s P N M hM hval

/-- committing `(i, js)`: if the mark set `M` contains the columns of row `i`, is closed under the pivot rows
and no reached pivot row contains `js`, the enlarged table is acyclic (explicit re-ranking) -/
theorem commit_acyclic (s : Str) (S : Pivs) (i js : Nat) (M : Nat → Prop) [DecidablePred M]
    (hA : Acyclic s S) (hfree : js ∉ S.map (·.2)) (hrow : ∀ j ∈ colsIn s i, M j)
    (hM : ∀ p ∈ S, M p.2 → ∀ j2 ∈ colsIn s p.1, M j2) (hcand : ∀ p ∈ S, M p.2 → js ∉ colsIn s p.1) :
    Acyclic s (S ++ [(i, js)]) :=
  commit_acyclic_core s S i js M hA hfree hrow hM hcand

/-! ### the sequential phases -/

/-- `find_fl_pivots` then `find_fl_col_pivots` never panic and leave a table satisfying the invariant,
with the remaining rows pairwise distinct and not yet pivot rows -/
theorem seq_invariant (s : Str) (hwf : s.WF) :
    initState s ≠ panic ∧ ∀ st, initState s = ok st → GInv s st ∧ PInv s st.S := by
  have h := initState_good s hwf
  refine ⟨h.ne_panic, fun st e => ?_⟩
  have := h.of_ok e
  exact ⟨this, this.pinv⟩

/-! ### the worker's local search -/

/-- `init` + `traverse` on a snapshot `P` (distinct columns): no panic, every column of the row is marked,
and — unless no candidate is left — the marked set is closed: every marked pivot column's row has been
traversed completely, all its columns being `Occupied`.  Hence a column still marked `Candidate` lies in no
reached pivot row, is free in the snapshot and is a candidate entry of the row. -/
theorem bfs_closed (s : Str) (hwf : s.WF) (P : Pivs) (hP : (P.map (·.2)).Nodup) (i : Nat) :
    Worker.init s P i ≠ panic ∧ ∀ w, Worker.init s P i = ok w →
      traverse s P w ≠ panic ∧ ∀ w', traverse s P w = ok w' →
        (∀ j ∈ colsIn s i, w'.mark j ≠ Mark.none) ∧
        (∀ j, w'.mark j = Mark.cand → j ∉ P.map (·.2) ∧ isCand s i j = true) ∧
        (w'.ncand = 0 → ∀ j, w'.mark j ≠ Mark.cand) ∧
        (w'.ncand ≠ 0 → w'.queue = [] ∧
          ∀ p ∈ P, w'.mark p.2 ≠ Mark.none → ∀ j2 ∈ colsIn s p.1, w'.mark j2 = Mark.occ) := by
  have h0 := init_good s hwf P i
  refine ⟨h0.ne_panic, fun w e => ?_⟩
  obtain ⟨hinv, hrm, hr, _, _⟩ := h0.of_ok e
  have h1 := traverse_good s P w hinv
  refine ⟨h1.ne_panic, fun w' e' => ?_⟩
  obtain ⟨hinv', hm, hend⟩ := h1.of_ok e'
  refine ⟨?_, ?_, ?_, ?_⟩
  · intro j hj; exact hm.marked j (hrm j (hr ▸ hj))
  · intro j hj
    have := hinv'.candOk j hj
    rw [hm.row, hr] at this
    exact ⟨hasCol_false_iff.1 this.1, this.2⟩
  · intro h0' j; exact hinv'.count.none_of_zero h0' j
  · intro hn
    have hq : w'.queue = [] := by
      rcases hend with h | h
      · exact absurd h hn
      · exact h
    refine ⟨hq, ?_⟩
    intro p hp hmk j2 hj2
    have hrf : rowFor P p.2 = some p.1 := rowFor_of_mem hP hp
    have hqd := hinv'.q1 p.2 hmk (hasCol_of_rowFor hrf)
    rcases hinv'.q2 with h | h
    · exact absurd h hn
    · rcases h p.2 hqd with hin | hd
      · rw [hq] at hin; simp at hin
      · exact hd p.1 hrf j2 hj2

/-! ### the parallel phase -/

/-- every step of every worker (task start with an arbitrary — possibly stale — snapshot, lock-free search,
critical section with retry or commit) neither panics nor breaks the invariant -/
theorem step_preserves (s : Str) (hwf : s.WF) (st : State) (h : GInv s st) (a : Act) :
    step s st a ≠ panic ∧ ∀ st' o, step s st a = ok (st', o) → GInv s st' := by
  have hg := step_good s hwf st h a
  exact ⟨hg.ne_panic, fun st' o e => hg.of_ok e⟩

/-- MAIN THEOREM.  From the state left by the sequential phases, for every schedule `acts` (any number of
workers, any interleaving, no bound on the number of steps): no step panics (so neither `assert!(!has_col(j))`
in `PivotData::set`, nor `row_for(j).unwrap()`, nor the checked `ncand -= 1` can fire), and in the state
reached the shared table has pairwise distinct rows, pairwise distinct columns, only candidate entries as
pivots, and is acyclic. -/
theorem par_invariant (s : Str) (hwf : s.WF) (st0 : State) (h0 : initState s = ok st0) (acts : List Act) :
    run s st0 acts ≠ panic ∧ ∀ st os, run s st0 acts = ok (st, os) → PInv s st.S ∧ GInv s st := by
  have hg0 : GInv s st0 := (initState_good s hwf).of_ok h0
  have hg := run_good s hwf acts st0 hg0
  refine ⟨hg.ne_panic, fun st os e => ?_⟩
  have := hg.of_ok e
  exact ⟨this.pinv, this⟩

/-- the same from any state satisfying the invariant (e.g. an intermediate state of a run) -/
theorem par_invariant_from (s : Str) (hwf : s.WF) (st0 : State) (h0 : GInv s st0) (acts : List Act) :
    run s st0 acts ≠ panic ∧ ∀ st os, run s st0 acts = ok (st, os) → GInv s st := by
  have hg := run_good s hwf acts st0 h0
  exact ⟨hg.ne_panic, fun st os e => hg.of_ok e⟩

/-- the fuel of the model's `traverse` loop always suffices, so a `search` step can only be refused because it
is not enabled (no such task / already chosen / the chosen column is not a candidate) -/
theorem traverse_terminates (s : Str) (P : Pivs) (w : Worker) : traverse s P w ≠ err :=
  traverse_ne_err s P w

/-- NO LIVELOCK.  Every step strictly decreases the natural number `measure` (a retry is always caused by
another worker's commit), hence every schedule accepted by the model from a state satisfying the invariant
has at most `measure st` steps: the retry loops cannot spin forever. -/
theorem par_terminates (s : Str) (hwf : s.WF) (st : State) (h : GInv s st) :
    (∀ a st' o, step s st a = ok (st', o) → measure st' < measure st) ∧
    (∀ acts st' os, run s st acts = ok (st', os) → acts.length ≤ measure st) :=
  ⟨fun a st' o hs => step_decreases s hwf st h a st' o hs,
   fun acts st' os hr => run_length_le s hwf acts st st' os h hr⟩

/-- NO DEADLOCK (model).  In every state satisfying the invariant that still has a row to start or a task in
flight, some step is enabled and succeeds.  Together with `par_terminates`: every maximal schedule reaches,
after finitely many steps, a state with no row left and no task in flight (all workers done). -/
theorem par_progress (s : Str) (hwf : s.WF) (st : State) (h : GInv s st) (hwork : st.todo ≠ [] ∨ st.ws ≠ []) :
    ∃ a st' o, step s st a = ok (st', o) :=
  progress s hwf st h hwork

/-- the code's own choice policy (`choose_candidate`: lightest column by `cmp_cols`) is admissible: the column
it returns is still marked `Candidate` — so the deterministic code is one of the schedules covered above -/
theorem policy_admissible (s : Str) (w : Worker) (j : Nat) (h : chooseCandidate s w = some j) :
    w.isCandidate j = true := by
  have := chooseCandidate_cand h
  simp [Worker.isCandidate, this]

/-! ### triangular orders, `top_sort`, the checkers applied to the real code's output -/

/-- an acyclic pivot set with distinct columns admits an order in which the leading block of the permuted
matrix is triangular: the row of a later pivot has no entry in the column of an earlier pivot (and the
pivots themselves sit on the diagonal since `isCand` entries are entries) -/
theorem acyclic_triangular (s : Str) (S : Pivs) (h : PInv s S) :
    ∃ L, L.Perm S ∧ Triangular s L ∧ ∀ p ∈ L, isCand s p.1 p.2 = true := by
  obtain ⟨L, hp, ht⟩ := acyclic_triangular_core s S h.cols h.acyc
  exact ⟨L, hp, ht, fun p hpL => h.cand p (hp.mem_iff.1 hpL)⟩

/-- conversely a triangular order witnesses acyclicity -/
theorem triangular_is_acyclic (s : Str) (L : Pivs) (hc : (L.map (·.2)).Nodup) (ht : Triangular s L) :
    Acyclic s L := triangular_acyclic s L hc ht

/-- Kahn's algorithm (`yui::algo::top_sort`) on the dependency graph of an invariant table, for EVERY
iteration order `keys` of the hash map: `top_sort(..).unwrap()` and `row_for(j).unwrap()` in `result()` do not
panic, and the returned list is a permutation of the table in a triangular order -/
theorem kahn_complete (s : Str) (hwf : s.WF) (S : Pivs) (h : PInv s S) (keys : List Nat)
    (hk : keys.Perm (S.map (·.2))) :
    ∃ L, result s S keys = ok L ∧ L.Perm S ∧ Triangular s L :=
  result_spec s hwf S h keys hk

/-- END TO END (model): sequential phases, then ANY schedule of the parallel phase that ends with no task in
flight, then `result()` with any hash order: no panic anywhere, and the returned list has distinct rows,
distinct columns, candidate entries only, and is a triangular order. -/
theorem find_pivots_correct (s : Str) (hwf : s.WF) (st0 : State) (h0 : initState s = ok st0)
    (acts : List Act) (st : State) (os : List Outcome) (hr : run s st0 acts = ok (st, os))
    (keys : List Nat) (hk : keys.Perm (st.S.map (·.2))) :
    ∃ L, result s st.S keys = ok L ∧ PInv s L ∧ Triangular s L := by
  have hg0 : GInv s st0 := (initState_good s hwf).of_ok h0
  have hg : GInv s st := (run_good s hwf acts st0 hg0).of_ok hr
  obtain ⟨L, hL, hp, ht⟩ := result_spec s hwf st.S hg.pinv keys hk
  refine ⟨L, hL, ?_, ht⟩
  have hp' : st.S.Perm L := hp.symm
  exact hg.pinv.perm hp'

/-- `perm_for_indices(n, rows of the pivots)` (resp. columns): for distinct in-range indices it does not panic
(`assert!(i < n)`) and sends the `k`-th pivot's index to position `k` — so after `permute` the pivots of a
list `L` sit at `(0,0), (1,1), …` and entry `(a, b)` of the leading block is the entry `(L[a].1, L[b].2)` of
the matrix, which `Triangular s L` says is absent for `a > b` -/
theorem perm_for_indices_places (n : Nat) (idx : List Nat) (hlt : ∀ i ∈ idx, i < n) (hnd : idx.Nodup) :
    ∃ vec, permVec n idx = ok vec ∧ vec.Nodup ∧ ∀ k (hk : k < idx.length), invAt vec idx[k] = k :=
  permVec_spec n idx hlt hnd

/-- `Triangular` spelled out with positions: for `b < a` the row of the `a`-th pivot has no entry in the column
of the `b`-th pivot -/
theorem triangular_positions (s : Str) (L : List (Nat × Nat)) (h : Triangular s L)
    (a b : Nat) (ha : a < L.length) (hb : b < L.length) (hlt : b < a) : L[b].2 ∉ colsIn s L[a].1 :=
  List.pairwise_iff_getElem.1 h b a hb ha hlt

/-- soundness of the decidable checker the driver applies to the list returned by the REAL `find_pivots`
(and to the model's own `result`): distinct rows/columns, candidate entries, triangular, hence acyclic -/
theorem checkPivots_correct (s : Str) (L : List (Nat × Nat)) (h : checkPivots s L = true) :
    PInv s L ∧ Triangular s L := checkPivots_sound s L h

/-- soundness of the checker the driver applies to the table the REAL code reports after its sequential
phases: it satisfies the global invariant, so `par_invariant_from` covers every replayed trace from there -/
theorem checkInit_correct (s : Str) (S : Pivs) (h : checkInit s S = true) :
    GInv s ⟨S, remainRows s S, []⟩ := checkInit_ginv s S h

/-- soundness of the well-formedness check the driver applies to every structure it receives -/
theorem wfB_correct (s : Str) (h : s.wfB = true) : s.WF := Str.wfB_sound s h

/-! ### non-vacuity -/

/-- rows `[0] [1,2] [0,2] [0,2]` over 3 columns, all entries candidates of weight 1.  The sequential phases
take `(0,0)` and `(1,1)`; rows 2 and 3 go to the parallel phase and both head for column 2: whoever validates
second must retry (trace `started 2, started 2, candidate 2, candidate 2, commit, retry, candidate none`).
The same matrix is in the hand-written corpus of the harness (`c11.rs`, "two rows racing for one column"). -/
def exStr : Str :=
  match Str.build 4 3 [(0,0,1,true), (2,0,1,true), (3,0,1,true), (1,1,1,true), (1,2,1,true), (2,2,1,true),
    (3,2,1,true)] with
  | ok s => s
  | _ => default

/-- the hypothesis `s.WF` of the theorems above is satisfiable by a structure with racing rows -/
example : exStr.WF := wfB_correct exStr (by decide)

/-- … and so is `initState s = ok st0` (the sequential phases never panic on a well-formed structure and
contain no fuel), after which `GInv` holds and `par_invariant` applies to every schedule -/
example : ∃ st0, initState exStr = ok st0 ∧ GInv exStr st0 := by
  have hwf : exStr.WF := wfB_correct exStr (by decide)
  have hg := initState_good exStr hwf
  cases h : initState exStr with
  | ok st0 => exact ⟨st0, rfl, hg.of_ok h⟩
  | err => exact absurd h (initState_ne_err exStr)
  | panic => exact absurd h hg.ne_panic

/-- the hypotheses of `commit_acyclic` are satisfiable: table `[(0,0)]` on `exStr`, committing `(1,1)` with
mark set `{1, 2}` (the columns of row 1; column 0 is not reached) -/
example : Acyclic exStr ([(0, 0)] ++ [(1, 1)]) :=
  commit_acyclic exStr [(0, 0)] 1 1 (fun j => j = 1 ∨ j = 2)
    ⟨fun _ => 0, by simp⟩ (by decide) (by decide) (by decide) (by decide)

end Yuiv.C11
