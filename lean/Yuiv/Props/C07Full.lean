import Yuiv.Proofs.C07Full
/-
C07 END-TO-END over ℤ — property theorems only.

`Props/C07.lean` proves the code model of `HomologyCalc::{calculate, trans}` correct *under the SNF specification*
(the SNF routine is a parameter of the model); `Props/C09Full.lean` proves that the code model of the library's own
SNF over ℤ (`SnfCalc::process`, `C09.snfCalc intOps`) always returns (given enough fuel) and meets that specification.
Here the two executable models are LITERALLY COMPOSED — `calculate (snfC09 fuel) d1 d2 true`, where
`snfC09 fuel : SnfFn` (Proofs/C07Full.lean) converts the `C07.Mat` to a `C09.Mat`, runs `C09.snfCalc intOps true id fuel`
and converts the final state `St = (t, p, pinv, q, qinv)` back into the `Snf` record, handing out the matrices the
flags ask for — and ALL clauses of property C07 are proved for the composite, with no hypothesis besides
`d2·d1 = 0` and the shape condition `d2.ncols = d1.nrows` (which `calculate` asserts).

This is the "literal composition" form of the statement, not the specification-level fall-back.

Not covered (same as in C09Full): the LLL–HNF preprocessing of `snf_in_place` for integer types is the identity in the
C09 model (`pre = fun s => .ok s`); the fuel is existential (`∃ N, ∀ fuel ≥ N`).
-/
namespace Yuiv.C07
open Matrix Yuiv

/-- **the number of non-zero diagonal entries of the library's SNF is the rank.**  For every integer matrix the C09
code model returns (for all `fuel ≥ N`) one final state `st`, and the number of non-zero entries on the diagonal of
its target equals `Matrix.rank` of the input over ℤ (= rank of the free abelian group `im A`). -/
theorem snf_nzCount_eq_rank (A : Mat) :
    ∃ (N : Nat) (st : C09.St Int A.r A.c),
      (∀ fuel, N ≤ fuel → C09.snfCalc C09.intOps true (fun s => .ok s) fuel (toC09 A) = .ok st) ∧
      nzCount st = (A.toM A.r A.c).rank := by
  obtain ⟨N, st, r1, hN, _, hdat, hk, hlen, hz⟩ := snfC09_spec A
  refine ⟨N, st, hN, ?_⟩
  rw [hdat.rank_eq]
  exact diagL_nz _ (fun i => (ofC09 st.t).get i i) r1 _ hlen
    (by have := hdat.r1r; have := hdat.r1c; omega) hk hz hdat.pos

/-- **C07 end-to-end (ℤ).**  For every pair of integer matrices `d1 : n×m`, `d2 : k×n` (`n = d1.r`, `m = d1.c`,
`k = d2.r`) with `d2·d1 = 0` there is a fuel bound `N` such that for every `fuel ≥ N` the code model of
`HomologyCalc::calculate(d1, d2, with_trans = true)` running on the code model of the library's SNF returns — no
panic, no fuel exhaustion — one answer `(rank, tors, T)` with `P = T.forward_mat()`, `Q = T.backward_mat()` and

* `rank + r(d1) + r(d2) = n`, where `r(·)` = number of non-zero diagonal entries of the SNF which the library
  computes for `d1` resp. `d2` (`st1`, `st2`), and `r(·)` = `Matrix.rank` over ℤ;
* `tors` = the non-zero entries `≠ 1` on the Smith diagonal of `d1` (`st1`), in order (they are positive and each
  divides the next by `C09.snf_total_correct`);
* `HomologySpec`: `P·Q = I`; `d2·Q = 0`; every boundary `d1·x` has zero free coordinates and torsion coordinate `u`
  divisible by `tors[u]`; `P·(Q·e_i) = e_i`; torsion orders `> 1`; and completeness — every cycle whose free
  coordinates vanish and whose torsion coordinates are divisible by the orders is a boundary.
  (So `z ↦ P·z` induces `ker d2 / im d1 ≅ ℤ^rank ⊕ ⊕_u ℤ/tors[u]`.) -/
theorem calculate_end_to_end (d1 d2 : Mat) (hsh : d2.c = d1.r)
    (hdd : d2.toM d2.r d1.r * d1.toM d1.r d1.c = 0) :
    ∃ (N : Nat) (st1 : C09.St Int d1.r d1.c) (st2 : C09.St Int d2.r d2.c)
      (rank : Nat) (tors : List Int) (T : Trans) (P Q : Mat),
      (∀ fuel, N ≤ fuel → C09.snfCalc C09.intOps true (fun s => .ok s) fuel (toC09 d1) = .ok st1) ∧
      (∀ fuel, N ≤ fuel → C09.snfCalc C09.intOps true (fun s => .ok s) fuel (toC09 d2) = .ok st2) ∧
      (∀ fuel, N ≤ fuel → calculate (snfC09 fuel) d1 d2 true = .ok (rank, tors, some T)) ∧
      T.forwardMat = .ok P ∧ T.backwardMat = .ok Q ∧
      rank + nzCount st1 + nzCount st2 = d1.r ∧
      nzCount st1 = (d1.toM d1.r d1.c).rank ∧ nzCount st2 = (d2.toM d2.r d1.r).rank ∧
      tors = nonUnitFactors st1 ∧
      HomologySpec d1 d2 d1.r d1.c d2.r rank tors P Q := by
  obtain ⟨N1, st1, r1, hN1, hsnf1, hdat1, hk1, hlen1, hz1⟩ := snfC09_spec d1
  obtain ⟨N3, st3, r3, hN3, _, hdat3, hk3, hlen3, hz3⟩ := snfC09_spec d2
  have hnz1 : nzCount st1 = r1 := diagL_nz _ (fun i => (ofC09 st1.t).get i i) r1 _ hlen1
    (by have := hdat1.r1r; have := hdat1.r1c; omega) hk1 hz1 hdat1.pos
  have hnz3 : nzCount st3 = r3 := diagL_nz _ (fun i => (ofC09 st3.t).get i i) r3 _ hlen3
    (by have := hdat3.r1r; have := hdat3.r1c; omega) hk3 hz3 hdat3.pos
  have hrk1 : (d1.toM d1.r d1.c).rank = r1 := hdat1.rank_eq
  have hrk3 : (d2.toM d2.r d1.r).rank = r3 := by
    have := hdat3.rank_eq
    rw [hsh] at this
    exact this
  have htors1 : nonUnitFactors st1 =
      ((List.range r1).map fun i => (ofC09 st1.t).get i i).filter (fun x => !isUnitZ x) :=
    diagL_filter _ (fun i => (ofC09 st1.t).get i i) r1 _ hlen1
      (by have := hdat1.r1r; have := hdat1.r1c; omega) hk1 hz1 hdat1.pos
  have hassert : Res.assert (d1.r == d2.c) = .ok () := by simp [Res.assert, hsh]
  by_cases htriv : (d1.isZero && d2.isZero) = true
  · -- `trivial_result`
    obtain ⟨hz1', hz2'⟩ := Bool.and_eq_true_iff.1 htriv
    have hd1 : d1.toM d1.r d1.c = 0 := by ext i j; exact isZero_get d1 hz1' _ _
    have hd2 : d2.toM d2.r d1.r = 0 := by ext i j; exact isZero_get d2 hz2' _ _
    have hr1 : r1 = 0 := by rw [← hrk1, hd1, Matrix.rank_zero]
    have hr3 : r3 = 0 := by rw [← hrk3, hd2, Matrix.rank_zero]
    refine ⟨max N1 N3, st1, st3, d1.r, [], Trans.id d1.r, Mat.id d1.r, Mat.id d1.r,
      fun fuel hf => hN1 fuel (by omega), fun fuel hf => hN3 fuel (by omega), ?_, rfl, rfl, by omega,
      by omega, by omega, ?_, trivial_spec d1 d2 _ _ _ hd1 hd2⟩
    · intro fuel _
      unfold calculate
      rw [hassert, Res.bind_ok, if_pos htriv]
      rfl
    · rw [htors1, hr1]; rfl
  · -- the general branch
    have h0 : r1 = 0 → (ofC09 st1.pinv).toM d1.r d1.r = 1 := by
      intro hr
      have hS : (ofC09 st1.t).toM d1.r d1.c = 0 := by
        ext i j
        show (ofC09 st1.t).get i.val j.val = 0
        rw [hdat1.diag]; simp [hr]
      have hA : d1.toM d1.r d1.c = 0 := by
        have ts : C09.TransformSpec (d1.toM d1.r d1.c) ((ofC09 st1.t).toM d1.r d1.c) ((ofC09 st1.p).toM d1.r d1.r)
            ((ofC09 st1.pinv).toM d1.r d1.r) ((ofC09 st1.q).toM d1.c d1.c) ((ofC09 st1.qinv).toM d1.c d1.c) :=
          And.intro hdat1.eqS.symm (And.intro hdat1.pp hdat1.qq)
        rw [ts.two_sided.2.2, hS]; simp
      have hzm : C09.isZeroMat C09.intOps.toROps (toC09 d1) = true := by
        rw [C09.isZeroMat_iff C09.lawful_int, toC09_toM]; exact hA
      have hinit : C09.snfCalc C09.intOps true (fun s => .ok s) N1 (toC09 d1) =
          .ok (C09.St.init C09.intOps.toROps (toC09 d1)) := by
        unfold C09.snfCalc; rw [if_pos hzm]
      rw [hN1 N1 (le_refl _)] at hinit
      injection hinit with hinit
      rw [ofC09_toM, hinit]
      exact C09.toM_idMat C09.lawful_int _
    obtain ⟨hD2r, hD2c, hD2m⟩ := D2_toM d2 (ofC09 st1.pinv) d1.r d2.r r1 hdat1.r1r ⟨rfl, hsh⟩ hdat1.shPi h0
    generalize hD2def : (if 0 < r1 then d2.mul ((ofC09 st1.pinv).cols r1 d1.r) else d2) = D2 at hD2r hD2c hD2m
    obtain ⟨N2, S2, P2, P2i, Q2, Q2i, r2, hsnf2, hdat2⟩ := snfC09_spec' D2 d2.r (d1.r - r1) hD2r hD2c
    obtain ⟨P, Q, hres, htr, hspec⟩ := calc_core d1 d2 D2 (ofC09 st1.t) (ofC09 st1.p) (ofC09 st1.pinv)
      (ofC09 st1.q) (ofC09 st1.qinv) S2 P2 P2i Q2 Q2i d1.r d1.c d2.r r1 r2 hdd hdat1 hdat1.r1r hD2m hdat2
    have hr23 : r2 = r3 := by
      rw [← hdat2.rank_eq, hD2m, rank_d2' hdat1.r1r _ ((ofC09 st1.p).toM d1.r d1.r) _ hdat1.pp
        (fun i j hj => hdat1.d2P1i_cols hdd i j hj), hrk3]
    have hr12 : r1 + r2 ≤ d1.r := by have := hdat2.r1c; have := hdat1.r1r; omega
    refine ⟨max N1 (max N2 N3), st1, st3, d1.r - r1 - r2, _,
      ⟨d1.r, d1.r - r1 - r2 +
        (((List.range r1).map fun i => (ofC09 st1.t).get i i).filter fun x => !isUnitZ x).length, [P], [Q]⟩, P, Q,
      fun fuel hf => hN1 fuel (by omega), fun fuel hf => hN3 fuel (by omega), ?_, rfl, rfl, by omega,
      by omega, by omega, htors1.symm, hspec⟩
    intro fuel hf
    have hp := processSnf_eq (snfC09 fuel) d1 d2 D2 ⟨ofC09 st1.t, some (ofC09 st1.p), some (ofC09 st1.pinv), none, none⟩
      ⟨S2, none, none, some Q2, some Q2i⟩ (ofC09 st1.pinv) r1
      (by rw [hsnf1 fuel (by omega)]; rfl)
      (snf_rank_of_diag _ d1.r d1.c r1 hdat1.shS hdat1.r1r hdat1.r1c hdat1.diag hdat1.pos) rfl hsh hdat1.shPi
      hdat1.r1r hD2def.symm (by rw [hsnf2 fuel (by omega)]; rfl)
    unfold calculate
    rw [hassert, Res.bind_ok, if_neg htriv, hp, Res.bind_ok]
    simp only [hres, htr, Res.bind_ok, if_true, Res.pure_eq]

/-! ### the composite model runs -/

/- `runsTo d1 d2 rank tors` (Proofs/C07Full.lean): run `calculate (snfC09 50) d1 d2 true`, compare `(rank, tors)` and let the
verified checker `check` (Model/C07.lean) confirm `P·Q = I`, `d2·Q = 0` and the boundary clause on the returned maps -/

/-- the cellular chain complex of `RP²` (`rp2` in yui-homology/src/generic/complex.rs), `C₂ → C₁ → C₀` with
`d₂ = (2)`, `d₁ = (0)`:  `H₁ = ℤ/2` — `d1 = (2) : ℤ¹ → ℤ¹`, `d2 = (0) : ℤ¹ → ℤ¹` -/
example : runsTo ⟨1, 1, #[2]⟩ ⟨1, 1, #[0]⟩ 0 [2] = true := by decide +kernel

/-- … `H₀(RP²) = ℤ` (`d1 = (0)`, `d2 : ℤ¹ → 0`) and `H₂(RP²) = 0` (`d1 : 0 → ℤ¹`, `d2 = (2)`) -/
example : runsTo ⟨1, 1, #[0]⟩ ⟨0, 1, #[]⟩ 1 [] = true := by decide +kernel
example : runsTo ⟨1, 0, #[]⟩ ⟨1, 1, #[2]⟩ 0 [] = true := by decide +kernel

/-- a complex with a free part and two torsion orders: `d1 = [[2,0,0],[2,6,0],[0,0,0],[0,0,0]] : ℤ³ → ℤ⁴`,
`d2 = (0,0,0,1) : ℤ⁴ → ℤ¹`;  `H = ℤ³/⟨(2,2,0),(0,6,0)⟩ = ℤ ⊕ ℤ/2 ⊕ ℤ/6` -/
example : runsTo ⟨4, 3, #[2, 0, 0, 2, 6, 0, 0, 0, 0, 0, 0, 0]⟩ ⟨1, 4, #[0, 0, 0, 1]⟩ 1 [2, 6] = true := by
  decide +kernel

/-- the hypotheses of `calculate_end_to_end` are satisfiable non-trivially (the complex above: `d2·d1 = 0`) -/
example : prodZero 0 ⟨1, 4, #[0, 0, 0, 1]⟩ ⟨4, 3, #[2, 0, 0, 2, 6, 0, 0, 0, 0, 0, 0, 0]⟩ = true := by decide +kernel

end Yuiv.C07
