import Yuiv.Proofs.C14GenQ
/-
C14 — the hand-written code model `Yuiv.C14.QI.*` (`Yuiv/Model/C14.lean`) of `QuadInt<I, D>` IS the source text of
`/repo/yui/src/types/qint.rs`, read with `I := Int`, for EVERY value of the const generic `D`.

`Yuiv.GenQInt.*` (file `Yuiv/Gen/QIntFn.lean`) is regenerated from the Rust source by `tools/rs2lean_fn.py fn:qint` on
every `./check` run.  Each theorem states, for all `D` and all arguments, that a generated definition equals the model's
function through `toQ : QuadIntS → QI`, including the panics (`new` when `4 ∣ D`; `conj`/`norm`/`mul` when
`D.rem_euclid(4) = 0`).  Constructors that go through `new` (`zero`, `one`, `omega`, `from`) are `Res`-valued in the
generated code (they carry `new`'s assert); the model's constants are their values when `D % 4 ≠ 0`.
The division / unit-table functions, which exist for `D = -1, -3` only, are in `Yuiv/Props/C15GenQ.lean`.

Property theorems only; helpers are in `Yuiv/Proofs/C14GenQ.lean`.
-/
set_option linter.unusedSimpArgs false
namespace Yuiv.GenQ
open Yuiv Res Yuiv.Rust Yuiv.GenQInt

local macro "qsimp" "[" ts:Lean.Parser.Tactic.simpLemma,* "]" : tactic =>
  `(tactic| simp [mapR_bind, mapR_ite, mapR_ok, mapR_panic, mapR_err, bind_assoc', ite_bind, assert_true, assert_false,
      toQ, rem4, div4, rem_euclid4, unwrap_from, QuadInt.pair, QuadInt.pair_into, RInt.is_zero, RInt.is_one,
      C14.QI.isZero, C14.QI.isOne, $ts,*])

/-! ### constructor and accessors -/

theorem gen_new_eq (D a b : Int) : mapR toQ (QuadInt.new D a b) = C14.QI.new D a b := by
  unfold QuadInt.new C14.QI.new
  by_cases h : D.tmod 4 = 0
  · qsimp [h, bne]
  · have h' : (D.tmod 4 == 0) = false := by simpa using h
    qsimp [h, h', bne]

theorem gen_left_eq (D : Int) (s : QuadIntS) : QuadInt.left D s = (toQ s).l := rfl
theorem gen_right_eq (D : Int) (s : QuadIntS) : QuadInt.right D s = (toQ s).r := rfl
theorem gen_pair_eq (D : Int) (s : QuadIntS) : QuadInt.pair D s = ((toQ s).l, (toQ s).r) := rfl
theorem gen_pair_into_eq (D : Int) (s : QuadIntS) : QuadInt.pair_into D s = ((toQ s).l, (toQ s).r) := rfl
theorem gen_is_rational_eq (D : Int) (s : QuadIntS) : QuadInt.is_rational D s = ((toQ s).r == 0) := rfl

theorem gen_from_eq (D i : Int) : mapR toQ (QuadInt.From_I.from_ D i) = C14.QI.new D i 0 := gen_new_eq D i 0
theorem gen_zero_eq (D : Int) : mapR toQ (QuadInt.Zero.zero D) = C14.QI.new D 0 0 := gen_new_eq D 0 0
theorem gen_one_eq (D : Int) : mapR toQ (QuadInt.One.one D) = C14.QI.new D 1 0 := gen_new_eq D 1 0
theorem gen_omega_eq (D : Int) : mapR toQ (QuadInt.omega D) = C14.QI.new D 0 1 := gen_new_eq D 0 1
/-- … which are the model's constants whenever `new` does not panic -/
theorem gen_constants_eq (D : Int) (h : D.tmod 4 ≠ 0) :
    mapR toQ (QuadInt.Zero.zero D) = ok C14.QI.zero ∧ mapR toQ (QuadInt.One.one D) = ok C14.QI.one ∧
    mapR toQ (QuadInt.omega D) = ok C14.QI.omega := by
  have h' : (D.tmod 4 == 0) = false := by simpa using h
  rw [gen_zero_eq, gen_one_eq, gen_omega_eq]
  simp [C14.QI.new, h, h', bne, assert_true, C14.QI.zero, C14.QI.one, C14.QI.omega]

theorem gen_is_zero_eq (D : Int) (s : QuadIntS) : QuadInt.Zero.is_zero D s = (toQ s).isZero := rfl
theorem gen_is_one_eq (D : Int) (s : QuadIntS) : QuadInt.One.is_one D s = (toQ s).isOne := rfl

/-! ### additive structure (`impl_unop!`, `impl_add_op!`) -/

theorem gen_neg_eq (D : Int) (s : QuadIntS) : toQ (QuadInt.Neg.neg D s) = C14.QI.neg (toQ s) := rfl
theorem gen_neg_ref_eq (D : Int) (s : QuadIntS) : toQ (QuadInt.Neg_ref.neg D s) = C14.QI.neg (toQ s) := rfl
theorem gen_add_eq (D : Int) (x y : QuadIntS) :
    toQ (QuadInt.Add_QuadInt_I_D_ref.add D x y) = C14.QI.add (toQ x) (toQ y) := rfl
theorem gen_sub_eq (D : Int) (x y : QuadIntS) :
    toQ (QuadInt.Sub_QuadInt_I_D_ref.sub D x y) = C14.QI.sub (toQ x) (toQ y) := rfl

/-! ### conjugate, norm, product (the `D ≡ 1` and `D ≡ 2, 3 (mod 4)` formulas) -/

theorem gen_conj_eq (D : Int) (s : QuadIntS) : mapR toQ (QuadInt.conj D s) = C14.QI.conj D (toQ s) := by
  unfold QuadInt.conj C14.QI.conj
  by_cases h1 : D % 4 = 1
  · qsimp [h1]
  · by_cases h2 : D % 4 = 2 ∨ D % 4 = 3 <;> qsimp [h1, h2]

theorem gen_norm_eq (D : Int) (s : QuadIntS) : QuadInt.norm D s = C14.QI.norm D (toQ s) := by
  unfold QuadInt.norm C14.QI.norm
  by_cases h1 : D % 4 = 1
  · qsimp [h1]
  · by_cases h2 : D % 4 = 2 ∨ D % 4 = 3 <;> qsimp [h1, h2]

theorem gen_mul_eq (D : Int) (x y : QuadIntS) :
    mapR toQ (QuadInt.Mul_QuadInt_I_D_ref.mul D x y) = C14.QI.mul D (toQ x) (toQ y) := by
  unfold QuadInt.Mul_QuadInt_I_D_ref.mul C14.QI.mul
  by_cases hb : x.f1 = 0
  · qsimp [hb]
  · by_cases hd : y.f1 = 0
    · qsimp [hb, hd]
    · by_cases h1 : D % 4 = 1
      · qsimp [hb, hd, h1]
      · by_cases h2 : D % 4 = 2 ∨ D % 4 = 3 <;> qsimp [hb, hd, h1, h2]

/-! ### units -/

theorem gen_is_unit_eq (D : Int) (s : QuadIntS) : QuadInt.Ring.is_unit D s = C14.QI.isUnit D (toQ s) := by
  unfold QuadInt.Ring.is_unit C14.QI.isUnit
  rw [gen_norm_eq]; rfl

theorem gen_inv_eq (D : Int) (s : QuadIntS) :
    mapR (Option.map toQ) (QuadInt.Ring.inv D s) = C14.QI.inv D (toQ s) := by
  unfold QuadInt.Ring.inv C14.QI.inv
  rw [gen_norm_eq]
  by_cases h0 : D % 4 = 0
  · -- `norm` panics
    have : C14.QI.norm D (toQ s) = .panic := by
      unfold C14.QI.norm; simp [h0]
    simp [this, mapR_panic]
  · have ht := tmod4_ne D h0
    cases hn : C14.QI.norm D (toQ s) with
    | ok n =>
      have hnew : ∀ a b, QuadInt.new D a b = ok ⟨a, b⟩ := by
        intro a b; unfold QuadInt.new; simp [rem4, ht, assert_true]
      by_cases hu : C14.intIsUnit n = true
      · have hi : RInt.inv n = some n := by
          have : RInt.is_unit n = true := hu
          simp [RInt.inv, this]
        have hi' : C14.intInv n = some n := by simp [C14.intInv, hu]
        rw [← gen_conj_eq]
        simp only [bind_ok, hi, hi', Option.isSome_some, if_true, Opt.unwrap, QuadInt.From_I.from_, hnew]
        cases hc : QuadInt.conj D s with
        | ok c =>
          simp only [bind_ok, mapR_ok]
          rw [show C14.QI.mul D ⟨n, 0⟩ (toQ c) = mapR toQ (QuadInt.Mul_QuadInt_I_D_ref.mul D ⟨n, 0⟩ c) from
            (gen_mul_eq D ⟨n, 0⟩ c).symm]
          cases hm : QuadInt.Mul_QuadInt_I_D_ref.mul D { f0 := n, f1 := 0 } c <;> simp [mapR_ok, mapR_panic, mapR_err]
        | panic => simp [mapR_panic]
        | err => simp [mapR_err]
      · have hu' : C14.intIsUnit n = false := by simpa using hu
        have hi : RInt.inv n = none := by
          have : RInt.is_unit n = false := hu'
          simp [RInt.inv, this]
        have hi' : C14.intInv n = none := by simp [C14.intInv, hu']
        simp [hi, hi', mapR_ok]
    | panic => simp [mapR_panic]
    | err => simp [mapR_err]

/-! ### the statements are not vacuous -/

example : mapR toQ (QuadInt.Mul_QuadInt_I_D_ref.mul (-3) ⟨1, 2⟩ ⟨3, -1⟩) = ok ⟨5, 3⟩ := by rw [gen_mul_eq]; decide
example : mapR toQ (QuadInt.new 8 1 2) = .panic := by rw [gen_new_eq]; decide
example : QuadInt.norm 5 ⟨1, 2⟩ = ok (-1) := by rw [gen_norm_eq]; decide

end Yuiv.GenQ
