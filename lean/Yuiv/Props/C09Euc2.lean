import Yuiv.Props.C09Euc
import Yuiv.Proofs.C09EucPoly
import Yuiv.Proofs.C09EucEis
/-
C09 — two more instances of the abstract Smith-normal-form theorems of `Props/C09Euc.lean`
(`snf_shape_euc`, `snf_terminates_euc`, `snf_never_panics_euc`, `snf_total_correct_euc`):

 * polynomials in one variable over ANY field `F` with decidable equality (`polyOps F`, coefficient lists,
   `Proofs/C09EucPoly.lean`, following `yui/src/types/poly/poly.rs`: long division `div_rem`, `normalizing_unit` =
   inverse of the leading coefficient, units = non-zero constants, `size = deg + 1`), specialised to `ℚ`, `ZMod p`;
 * the Eisenstein integers ℤ[ω] (`eisOps`, `Proofs/C09EucEis.lean`, following `yui/src/types/qint.rs`, `D = -3`:
   coordinatewise rounding division, the sextant `normalizing_unit` table, units = norm 1).
Both use the generic `EucRing::gcdx` (`genGcdx`, `generic_gcdx_lawful`).  Neither record is part of
`Model/C09.lean` / the driver.  Only property theorems here.
-/
namespace Yuiv.C09
open Yuiv Matrix Polynomial

variable {m n : Nat}

/-! ### polynomials over a field -/

section poly
variable {F : Type} [Field F] [DecidableEq F]

/-- `Poly::div_rem` (the `for` loop of single leading-term eliminations) is a Euclidean division: for `g ≠ 0`,
`f = q·g + r` with `r = 0` or `deg r < deg g` (`size = deg + 1`, `size 0 = 0`) -/
theorem poly_div_rem_spec (f g : List F) (hg : pφ g ≠ 0) :
    pφ f = pφ (pDivRem f g).1 * pφ g + pφ (pDivRem f g).2 ∧ pSize (pDivRem f g).2 < pSize g :=
  pDivRem_spec f g hg

/-- the list functions compute degree and leading coefficient of the denoted polynomial -/
theorem poly_size_lead (l : List F) :
    pSize l = (if pφ l = 0 then 0 else (pφ l).natDegree + 1) ∧ pLead l = (pφ l).leadingCoeff :=
  ⟨pSize_eq l, pLead_eq l⟩

/-- polynomials over a field are a lawful Euclidean operation record -/
theorem poly_lawfulEuc : LawfulEuc (polyOps F) (pφ (F := F)) := lawfulEuc_poly

/-- … in particular over ℚ -/
theorem poly_rat_lawfulEuc : LawfulEuc (polyOps ℚ) (pφ (F := ℚ)) := lawfulEuc_poly

/-- … and over 𝔽_p -/
theorem poly_zmod_lawfulEuc (p : Nat) [Fact p.Prime] : LawfulEuc (polyOps (ZMod p)) (pφ (F := ZMod p)) :=
  lawfulEuc_poly

/-- "normalised" for polynomials means zero or monic -/
theorem poly_normalised_iff (a : List F) : pφ ((polyOps F).normUnit a) = 1 ↔ pφ a = 0 ∨ (pφ a).Monic :=
  poly_norm_iff a

/-- **snf_total_correct_poly** — over `F[x]`: with enough fuel the model returns `D = P·A·Q`,
`P·P⁻¹ = Q·Q⁻¹ = 1`, `D` accepted by the checker (diagonal, non-zero entries first, each dividing the next), and
every diagonal entry is zero or monic -/
theorem snf_total_correct_poly (A : Mat (List F) m n) :
    ∃ N s, (∀ fuel, N ≤ fuel → snfCalc (polyOps F) true (fun s => .ok s) fuel A = .ok s) ∧
      (toM pφ s.p * toM pφ A * toM pφ s.q = toM pφ s.t ∧ toM pφ s.p * toM pφ s.pinv = 1 ∧
        toM pφ s.q * toM pφ s.qinv = 1) ∧
      isSnfShape (polyOps F) s.t = true ∧
      ∀ x ∈ diagL s.t, pφ x = 0 ∨ (pφ x).Monic := by
  obtain ⟨N, s, h1, h2, _⟩ := snf_total_correct_euc (lawfulEuc_poly (F := F)) A
  have hs := snf_shape_euc (lawfulEuc_poly (F := F)) true _ N A s (h1 N (Nat.le_refl _))
  refine ⟨N, s, h1, h2, hs, ?_⟩
  simp only [isSnfShape, Bool.and_eq_true] at hs
  intro x hx
  rcases shapeL_mem (lawfulEuc_poly (F := F)).toLawfulEucBase _ hs.2 x hx with h | h
  · exact Or.inl h
  · exact (poly_norm_iff x).1 h

/-- the full mathematical statement over `F[x]` -/
theorem snf_shape_spec_poly (dbg : Bool) (pre : St (List F) m n → Res (St (List F) m n)) (fuel : Nat)
    (A : Mat (List F) m n) (s : St (List F) m n) (h : snfCalc (polyOps F) dbg pre fuel A = .ok s) :
    (∀ (i : Fin m) (j : Fin n), i.1 ≠ j.1 → pφ (s.t.get i j) = 0) ∧
      ShapeSpec (fun x : F[X] => x.Monic) ((diagL s.t).map pφ) := by
  obtain ⟨h1, r, hr, k1, k2, k3⟩ := snf_shape_spec_euc (lawfulEuc_poly (F := F)) dbg pre fuel A s h
  refine ⟨h1, r, hr, ?_, k2, k3⟩
  intro i hi hir
  obtain ⟨a1, a, ha, hn⟩ := k1 i hi hir
  refine ⟨a1, ?_⟩
  rcases (poly_norm_iff a).1 hn with h0 | h0
  · exact absurd (ha ▸ h0) a1
  · exact ha ▸ h0

end poly

/-! ### Eisenstein integers -/

/-- the coordinatewise rounding division of `EisenInt` (`[(x+y)/N], [y/N]` in the basis `1, ω − 1`) IS Euclidean:
`N(z − w·[z/w]) ≤ (3/4)·N(w)` for `w ≠ 0` -/
theorem eisenstein_rem_bound (a b : Int × Int) (hb : 0 < eNorm b) :
    4 * eNorm (eisOps.rem a b) ≤ 3 * eNorm b := eis_rem_norm a b hb

/-- the Eisenstein integers are a lawful Euclidean operation record -/
theorem eisenstein_lawfulEuc : LawfulEuc eisOps eφ := lawfulEuc_eis

/-- "normalised" in ℤ[ω]: the sextant `re > 0, im ≥ 0` (coordinates w.r.t. `1, ω`), or zero -/
theorem eisenstein_normalised_iff (z : Int × Int) :
    eφ (eisOps.normUnit z) = 1 ↔ (0 < z.1 ∧ 0 ≤ z.2) ∨ (z.1 = 0 ∧ z.2 = 0) := eNormUnit_eq_one z

/-- **snf_total_correct_eisenstein** — over ℤ[ω]: with enough fuel the model returns `D = P·A·Q`,
`P·P⁻¹ = Q·Q⁻¹ = 1`, `D` accepted by the checker, with the non-zero diagonal entries in the sextant
`re > 0, im ≥ 0` -/
theorem snf_total_correct_eisenstein (A : Mat (Int × Int) m n) :
    ∃ N s, (∀ fuel, N ≤ fuel → snfCalc eisOps true (fun s => .ok s) fuel A = .ok s) ∧
      (toM eφ s.p * toM eφ A * toM eφ s.q = toM eφ s.t ∧ toM eφ s.p * toM eφ s.pinv = 1 ∧
        toM eφ s.q * toM eφ s.qinv = 1) ∧
      isSnfShape eisOps s.t = true ∧
      ∀ x ∈ diagL s.t, (0 < x.1 ∧ 0 ≤ x.2) ∨ x = (0, 0) := by
  obtain ⟨N, s, h1, h2, _⟩ := snf_total_correct_euc lawfulEuc_eis A
  have hs := snf_shape_euc lawfulEuc_eis true _ N A s (h1 N (Nat.le_refl _))
  refine ⟨N, s, h1, h2, hs, ?_⟩
  simp only [isSnfShape, Bool.and_eq_true] at hs
  intro x hx
  rcases shapeL_mem lawfulEuc_eis.toLawfulEucBase _ hs.2 x hx with h | h
  · exact Or.inr (eφ_inj h)
  · rcases (eNormUnit_eq_one x).1 h with h' | h'
    · exact Or.inl h'
    · exact Or.inr (Prod.ext h'.1 h'.2)

/-! ### non-vacuity -/

/-- over ℚ[x] the model returns on `[[x, 1], [0, x]]`, with diagonal `(1, x²)` -/
example : (match snfCalc (polyOps ℚ) true (fun s => .ok s) 50
      (⟨#v[#v[[0, 1], [1]], #v[[], [0, 1]]]⟩ : Mat (List ℚ) 2 2) with
    | .ok s => diagL s.t == [[1], [0, 0, 1]] && isSnfShape (polyOps ℚ) s.t
    | _ => false) = true := by decide +kernel

/-- a less trivial one: `[[2x, 3x²], [1 + x, x]] ↦ diag(1, x² + x³/3 …)` up to the unit: `(1, x³ + x²/3)` -/
example : (match snfCalc (polyOps ℚ) true (fun s => .ok s) 50
      (⟨#v[#v[[0, 2], [0, 0, 3]], #v[[1, 1], [0, 1]]]⟩ : Mat (List ℚ) 2 2) with
    | .ok s => diagL s.t == [[1], [0, 0, 1 / 3, 1]] && isSnfShape (polyOps ℚ) s.t
    | _ => false) = true := by decide +kernel

/-- over ℤ[ω] the model returns on `[[2+ω, 3], [0, 1−2ω]]`, with diagonal `(1, 1+4ω)` (norm 21 = |det|²-norm) -/
example : (match snfCalc eisOps true (fun s => .ok s) 50
      (⟨#v[#v[(2, 1), (3, 0)], #v[(0, 0), (1, -2)]]⟩ : Mat (Int × Int) 2 2) with
    | .ok s => diagL s.t == [(1, 0), (1, 4)] && isSnfShape eisOps s.t
    | _ => false) = true := by decide +kernel

/-- the division bound is attained up to rounding: `3 / (2 + 0ω)`, remainder of norm `1 ≤ (3/4)·4` -/
example : eisOps.rem (3, 0) (2, 0) = (-1, 0) ∧ eNorm (2, 0) = 4 := by decide

end Yuiv.C09
