import Yuiv.Proofs.NumInteger
/-
num-integer 0.1.47 (external crate) — what yui's integer `EucRing` impls (`/repo/yui/src/misc/int_ext.rs`,
`impl_integer!` for i32 / i64 / i128) delegate `gcd`, `gcdx`, `lcm` to.  Property theorems only; the hand model is
`Yuiv/Model/NumInteger.lean` (Mathlib-free, bit width `w` explicit, panics of a build with overflow checks explicit),
helper lemmas are in `Yuiv/Proofs/NumInteger.lean`.

* N1  `gcd` (Stein's binary algorithm): for ALL representable operands and fuel `≥ 2·w` the result is
      `Int.gcd m n` (non-negative), except that the call panics exactly when that value is `2^(w-1)` (not
      representable: `gcd(MIN, 0)`, `gcd(0, MIN)`, `gcd(MIN, MIN)` — `.abs()` overflows).
* N2  `lcm` / `gcd_lcm`: `|m * (n / gcd)| = Int.lcm m n`; the call returns it when it is `< 2^(w-1)` and panics
      otherwise (checked `*`, `.abs()` of `MIN`); `lcm(0, 0) = 0`.
* N3  `extended_gcd` (over unbounded `Int`, fuel `≥ |n| + 1`): returns `(g, x, y)` with `m·x + n·y = g` and
      `g = Int.gcd m n ≥ 0` (the code negates all three when the last remainder is negative).
* N4  bridge: the primitives ASSUMED for the integer types by the C14 / C15 code models and by the translator
      prelude (`RInt.gcd/lcm`, `C14.intGcd/intLcm`, `C15.zGcd/zLcm`, `I32.gcdx`, `C14.FF.gcdx`) are the results of
      this model on every input on which the machine call does not panic.

Remaining trust: that the hand model reads the crate's source correctly (it is hand-written, not translated; checked
at result level by the differential runs' BigInt oracle), and `num-bigint`'s own `gcd`/`lcm`/`extended_gcd` for
`BigInt`, which is a different implementation and is not modelled.
-/
namespace Yuiv.NumInteger
open Yuiv Res Yuiv.Rust

/-! ## N1 — `gcd` (Stein) -/

/-- the `while m != n` loop on odd positive operands below `2^a`, `2^b` with fuel `≥ a + b` returns their gcd -/
theorem stein_loop_correct (w fuel a b x y : Nat) (hx : x % 2 = 1) (hy : y % 2 = 1) (hxa : x < 2 ^ a)
    (hyb : y < 2 ^ b) (hf : a + b ≤ fuel) :
    steinLoop w fuel (x : Int) (y : Int) = ok ((Nat.gcd x y : Nat) : Int) :=
  steinLoop_nat w fuel a b x y hx hy hxa hyb hf

example : steinLoop 64 12 (45 : Nat) (27 : Nat) = ok 9 := by decide

/-- N1, full strength: on ALL operands representable in the `w`-bit signed type, with fuel `≥ 2·w`, `gcd` returns the
non-negative `Int.gcd m n`, and panics exactly when that is `2^(w-1)` (the `.abs()` overflow at `min_value()`) -/
theorem stein_gcd_correct (w fuel : Nat) (m n : Int) (hw : 1 ≤ w) (hm : inRange w m) (hn : inRange w n)
    (hf : 2 * w ≤ fuel) :
    gcd w fuel m n = if Int.gcd m n = 2 ^ (w - 1) then panic else ok ((Int.gcd m n : Nat) : Int) :=
  gcd_spec w fuel m n hw hm hn hf

example : gcd 64 128 48 (-18) = ok 6 := by decide
example : gcd 8 16 (-128) 96 = ok 32 := by decide
example : inRange 64 48 ∧ inRange 64 (-18) := by decide

/-- N1 away from the special cases: neither operand is `min_value()` ⇒ the result is `ok (Int.gcd m n)` -/
theorem stein_gcd_ok (w fuel : Nat) (m n : Int) (hw : 1 ≤ w) (hm : inRange w m) (hn : inRange w n)
    (hm' : m ≠ minValue w) (hn' : n ≠ minValue w) (hf : 2 * w ≤ fuel) :
    gcd w fuel m n = ok ((Int.gcd m n : Nat) : Int) := by
  rw [gcd_spec w fuel m n hw hm hn hf, if_neg]
  rw [inRange_iff] at hm hn
  rw [minValue_eq] at hm' hn'
  have hP := Nat.two_pow_pos (w - 1)
  intro h
  by_cases h0 : m = 0
  · subst h0; rw [Int.gcd_zero_left] at h; omega
  · have : Int.gcd m n ≤ m.natAbs := Nat.gcd_le_left _ (by omega)
    omega

example : (48 : Int) ≠ minValue 64 ∧ (-18 : Int) ≠ minValue 64 := by decide

/-- N1 at `min_value()`: `gcd(MIN, 0)`, `gcd(0, MIN)`, `gcd(MIN, MIN)` panic (`.abs()` of `MIN`, resp. of
`1 << (w-1)`), for every width and every fuel -/
theorem stein_gcd_min_panics (w fuel : Nat) (hw : 1 ≤ w) :
    gcd w fuel (minValue w) 0 = panic ∧ gcd w fuel 0 (minValue w) = panic ∧
      gcd w fuel (minValue w) (minValue w) = panic := by
  have hP := Nat.two_pow_pos (w - 1)
  have hne : minValue w ≠ 0 := by rw [minValue_eq]; omega
  have habs : absChk w (minValue w) = panic := by unfold absChk; rw [if_pos rfl]
  refine ⟨?_, ?_, ?_⟩
  · unfold gcd orZero; rw [if_pos (Or.inr rfl), if_neg hne, habs]
  · unfold gcd orZero; rw [if_pos (Or.inl rfl), if_pos rfl, habs]
  · unfold gcd
    rw [if_neg (by tauto), if_pos (Or.inl rfl)]
    have : shiftOf w (minValue w) (minValue w) = w - 1 := by
      unfold shiftOf
      obtain ⟨o, ho, _⟩ := natAbs_decomp w (minValue w) hne
      rw [(min_tz w (minValue w) rfl o ho).1]; omega
    rw [this, Int.shiftLeft_eq, Int.one_mul, wrap_min w hw, habs]

example : gcd 64 0 (minValue 64) (minValue 64) = panic := by decide

/-- N1 at `min_value()` with an ordinary second operand: the shift shortcut returns the true gcd -/
theorem stein_gcd_min_ok (w fuel : Nat) (n : Int) (hw : 1 ≤ w) (hn : inRange w n) (hn0 : n ≠ 0)
    (hn' : n ≠ minValue w) (hf : 2 * w ≤ fuel) :
    gcd w fuel (minValue w) n = ok ((Int.gcd (minValue w) n : Nat) : Int) ∧
      gcd w fuel n (minValue w) = ok ((Int.gcd n (minValue w) : Nat) : Int) := by
  have hP := Nat.two_pow_pos (w - 1)
  have hmin : inRange w (minValue w) := by rw [inRange_iff, minValue_eq]; omega
  have hlt : Int.gcd n (minValue w) ≠ 2 ^ (w - 1) := by
    have : Int.gcd n (minValue w) ≤ n.natAbs := Nat.gcd_le_left _ (by omega)
    rw [inRange_iff] at hn; rw [minValue_eq] at hn'
    omega
  constructor
  · rw [gcd_spec w fuel _ n hw hmin hn hf, if_neg (by rw [Int.gcd_comm]; exact hlt)]
  · rw [gcd_spec w fuel n _ hw hn hmin hf, if_neg hlt]

example : gcd 8 0 (minValue 8) 24 = ok 8 := by decide

/-! ## N2 — `lcm`, `gcd_lcm` -/

/-- the value the code computes, `|m * (n / gcd(m, n))|` (truncated division), is `Int.lcm m n`; for `m = n = 0`
both sides are `0` -/
theorem lcm_value_eq (m n : Int) : (m * n.tdiv ((Int.gcd m n : Nat) : Int)).natAbs = Int.lcm m n :=
  lcm_value m n

/-- N2: `gcd_lcm` on ALL representable operands, fuel `≥ 2·w`: `(Int.gcd, Int.lcm)`; panics exactly when the gcd
is `2^(w-1)` or the lcm is `≥ 2^(w-1)` (checked `*`, or `.abs()` of `MIN`) -/
theorem gcd_lcm_correct (w fuel : Nat) (m n : Int) (hw : 1 ≤ w) (hm : inRange w m) (hn : inRange w n)
    (hf : 2 * w ≤ fuel) :
    gcdLcm w fuel m n = if Int.gcd m n = 2 ^ (w - 1) ∨ 2 ^ (w - 1) ≤ Int.lcm m n then panic
      else ok (((Int.gcd m n : Nat) : Int), ((Int.lcm m n : Nat) : Int)) :=
  gcdLcm_spec w fuel m n hw hm hn hf

/-- N2: `lcm` on ALL representable operands (same panic condition) -/
theorem lcm_correct (w fuel : Nat) (m n : Int) (hw : 1 ≤ w) (hm : inRange w m) (hn : inRange w n)
    (hf : 2 * w ≤ fuel) :
    lcm w fuel m n = if Int.gcd m n = 2 ^ (w - 1) ∨ 2 ^ (w - 1) ≤ Int.lcm m n then panic
      else ok ((Int.lcm m n : Nat) : Int) :=
  lcm_spec w fuel m n hw hm hn hf

example : lcm 64 128 48 (-18) = ok 144 := by decide
example : lcm 8 16 64 3 = panic := by decide
example : gcdLcm 64 128 (-4) 6 = ok (2, 12) := by decide

/-- `lcm(0, 0) = 0` (the early return of `gcd_lcm`), any width, any fuel -/
theorem lcm_zero_zero (w fuel : Nat) : lcm w fuel 0 0 = ok 0 ∧ gcdLcm w fuel 0 0 = ok (0, 0) := ⟨rfl, rfl⟩

/-! ## N3 — `extended_gcd` -/

/-- N3: for ALL integers and fuel `≥ |n| + 1`, `extended_gcd(m, n)` returns `(g, x, y)` with the Bézout identity
`m·x + n·y = g` and `g = Int.gcd m n` (non-negative: the code returns `(r, s, t)` if the last remainder `r ≥ 0`
and `(0 - r, 0 - s, 0 - t)` otherwise) -/
theorem extended_gcd_correct (fuel : Nat) (m n : Int) (hf : n.natAbs + 1 ≤ fuel) :
    ∃ g x y, extendedGcd fuel m n = ok (g, x, y) ∧ m * x + n * y = g ∧ g = ((Int.gcd m n : Nat) : Int) :=
  extendedGcd_spec fuel m n hf

example : extendedGcd 19 48 (-18) = ok (6, -1, -3) := by decide
example : extendedGcd 49 (-18) 48 = ok (6, -3, -1) := by decide

/-- `extended_gcd_lcm`: the same triple, plus `Int.lcm m n` when it is `< 2^(w-1)` (panic otherwise) -/
theorem extended_gcd_lcm_correct (w fuel : Nat) (m n : Int) (hf : n.natAbs + 1 ≤ fuel) :
    ∃ x y, extendedGcd fuel m n = ok (((Int.gcd m n : Nat) : Int), x, y) ∧
      m * x + n * y = ((Int.gcd m n : Nat) : Int) ∧
      extendedGcdLcm w fuel m n = if Int.lcm m n < 2 ^ (w - 1)
        then ok ((((Int.gcd m n : Nat) : Int), x, y), ((Int.lcm m n : Nat) : Int)) else panic :=
  extendedGcdLcm_spec w fuel m n hf

example : extendedGcdLcm 64 19 48 (-18) = ok ((6, -1, -3), 144) := by decide

/-! ## N4 — bridge to the code models of C14 / C15 and to the translator prelude -/

/-- the gcd primitive assumed for the integer types (`RInt.gcd` of the translator prelude, `C14.intGcd`,
`C15.zGcd`) IS the result of the num-integer model on every pair of representable operands other than `MIN` -/
theorem gcd_prim_eq_stein (w fuel : Nat) (m n : Int) (hw : 1 ≤ w) (hm : inRange w m) (hn : inRange w n)
    (hm' : m ≠ minValue w) (hn' : n ≠ minValue w) (hf : 2 * w ≤ fuel) :
    gcd w fuel m n = ok (RInt.gcd m n) ∧ gcd w fuel m n = ok (C14.intGcd m n) ∧
      gcd w fuel m n = ok (C15.zGcd m n) :=
  ⟨stein_gcd_ok w fuel m n hw hm hn hm' hn' hf, stein_gcd_ok w fuel m n hw hm hn hm' hn' hf,
    stein_gcd_ok w fuel m n hw hm hn hm' hn' hf⟩

example : gcd 64 128 48 (-18) = ok (RInt.gcd 48 (-18)) := by decide

/-- the lcm primitive assumed for the integer types (`RInt.lcm`, `C14.intLcm`, `C15.zLcm`) IS the result of the
num-integer model whenever the machine call does not panic (gcd and lcm representable) -/
theorem lcm_prim_eq_model (w fuel : Nat) (m n : Int) (hw : 1 ≤ w) (hm : inRange w m) (hn : inRange w n)
    (hg : Int.gcd m n ≠ 2 ^ (w - 1)) (hl : Int.lcm m n < 2 ^ (w - 1)) (hf : 2 * w ≤ fuel) :
    lcm w fuel m n = ok (RInt.lcm m n) ∧ lcm w fuel m n = ok (C14.intLcm m n) ∧
      lcm w fuel m n = ok (C15.zLcm m n) := by
  have h : lcm w fuel m n = ok ((Int.lcm m n : Nat) : Int) := by
    rw [lcm_spec w fuel m n hw hm hn hf, if_neg (by omega)]
  exact ⟨h, h, h⟩

example : lcm 64 128 48 (-18) = ok (RInt.lcm 48 (-18)) := by decide

/-- the `I::gcdx` primitive of the `FF<p>` code models (`I32.gcdx` of the translator prelude, `C14.FF.gcdx`) IS
`extended_gcd` of the num-integer model, run with fuel `|y| + 2`, for ALL operands -/
theorem gcdx_prim_eq_model (x y : Int) :
    I32.gcdx x y = extendedGcd (y.natAbs + 2) x y ∧ C14.FF.gcdx x y = extendedGcd (y.natAbs + 2) x y :=
  ⟨i32_gcdx_eq x y, c14_gcdx_eq x y⟩

/-- hence `I::gcdx` never runs out of fuel, never panics (over unbounded `Int`), and returns the non-negative gcd
with a Bézout pair, for ALL operands -/
theorem gcdx_prim_correct (x y : Int) :
    ∃ s t, I32.gcdx x y = ok (((Int.gcd x y : Nat) : Int), s, t) ∧
      C14.FF.gcdx x y = ok (((Int.gcd x y : Nat) : Int), s, t) ∧ x * s + y * t = ((Int.gcd x y : Nat) : Int) := by
  obtain ⟨g, s, t, he, hb, hg⟩ := extendedGcd_spec (y.natAbs + 2) x y (by omega)
  subst hg
  exact ⟨s, t, by rw [i32_gcdx_eq, he], by rw [c14_gcdx_eq, he], hb⟩

example : I32.gcdx 3 7 = ok (1, -2, 1) := by decide

end Yuiv.NumInteger
