import Yuiv.Model.C03
/-
C03 — tables over ℤ, ℚ, 𝔽₂, 𝔽₃ are mutually consistent.

Proved here (about the code model of `collect_gen_info` / `into_bigraded` and the universal-coefficient
formula): (1) when every reported generator is q-homogeneous the derived bigraded table is exactly the table
that places each generator in its own bidegree; (2) without homogeneity the statement is FALSE: the concrete
complex ℤ² → ℤ², d = diag(2,3), q-degrees (0,2) — total homology merges to ℤ/6 with a non-homogeneous
generator and the code places ℤ/6 in one bidegree where the truth is ℤ/2 ⊕ ℤ/3 in two (this is finding F5,
realised by the torus knot T(6,7) in the real code); (3) for diagonal(ised) complexes the 𝔽_p dimensions
are given by the universal-coefficient count the property states.
The general universal coefficient theorem and "SNF generators are homogeneous" are NOT proved; the
identities are explored on every generated link by the harness.
-/
namespace Yuiv.C03

/-- a generator is q-homogeneous when all terms of its representative have the same quantum degree -/
def Homogeneous (g : GenInfo) : Prop := ∀ q ∈ g.qs, ∀ q' ∈ g.qs, q = q'

theorem qDeg_mem (qs : List Int) (h : qs ≠ []) : qDeg qs ∈ qs := by
  cases qs with
  | nil => exact absurd rfl h
  | cons q rest =>
    simp only [qDeg]
    suffices ∀ (l : List Int) (a : Int), l.foldl min a = a ∨ l.foldl min a ∈ l by
      rcases this rest q with h | h
      · simp [h]
      · simp [h]
    intro l
    induction l with
    | nil => intro a; simp
    | cons b l ih =>
      intro a
      simp only [List.foldl_cons, List.mem_cons]
      rcases ih (min a b) with h | h
      · rw [h]
        rcases Int.le_total a b with hab | hab
        · left; omega
        · right; left; omega
      · right; right; exact h

/-- for a homogeneous generator the code's `q_deg` (minimum) is the common degree of all its terms -/
theorem qDeg_of_homogeneous (g : GenInfo) (hg : Homogeneous g) (q : Int) (hq : q ∈ g.qs) :
    qDeg g.qs = q := by
  have hne : g.qs ≠ [] := by intro h; simp [h] at hq
  exact hg _ (qDeg_mem g.qs hne) _ hq

/-- (1) if every generator is q-homogeneous, the bigraded table derived from the total homology is the
table that places each generator at the degree of (any of) its terms -/
theorem collect_correct_of_homogeneous (h : List (Int × List GenInfo)) (deg : GenInfo → Int)
    (hh : ∀ ig ∈ h, ∀ g ∈ ig.2, Homogeneous g ∧ (∀ q ∈ g.qs, deg g = q) ∧ (g.qs = [] → deg g = 0)) :
    collect h = placeAll h deg := by
  unfold collect placeAll
  suffices ∀ (t : Table), h.foldl (fun t ig => collectAt ig.1 ig.2 t) t =
      h.foldl (fun t ig => ig.2.foldl (fun t g =>
        t.bump (ig.1, deg g) (fun c => match g.order with
          | none => ⟨c.rank + 1, c.tors⟩
          | some a => ⟨c.rank, c.tors ++ [a]⟩)) t) t from this []
  induction h with
  | nil => intro t; rfl
  | cons ig rest ih =>
    intro t
    simp only [List.foldl_cons]
    have hrest : ∀ ig' ∈ rest, ∀ g ∈ ig'.2, Homogeneous g ∧ (∀ q ∈ g.qs, deg g = q) ∧ (g.qs = [] → deg g = 0) :=
      fun ig' hi => hh ig' (List.mem_cons_of_mem _ hi)
    have hig := hh ig (List.mem_cons_self)
    have : collectAt ig.1 ig.2 t = ig.2.foldl (fun t g =>
        t.bump (ig.1, deg g) (fun c => match g.order with
          | none => ⟨c.rank + 1, c.tors⟩
          | some a => ⟨c.rank, c.tors ++ [a]⟩)) t := by
      unfold collectAt
      generalize ig.2 = gs at hig
      induction gs generalizing t with
      | nil => rfl
      | cons g gs ihg =>
        simp only [List.foldl_cons]
        have hg := hig g (List.mem_cons_self)
        have hq : qDeg g.qs = deg g := by
          cases hqs : g.qs with
          | nil => simp [qDeg, hg.2.2 hqs]
          | cons q r =>
            have hm : q ∈ g.qs := by simp [hqs]
            rw [← hqs, qDeg_of_homogeneous g hg.1 q hm, hg.2.1 q hm]
        rw [hq]
        exact ihg _ (fun g' hg' => hig g' (List.mem_cons_of_mem _ hg'))
    rw [this]
    exact ih hrest _

/-- (2) the unrestricted statement is false: d = diag(2,3) with q-degrees (0,2).
Total homology: one torsion generator of order 6 represented by e₁+e₂ (terms in q = 0 and q = 2);
the code puts ℤ/6 at (1,0); the homology of the q-pieces is ℤ/2 at (1,0) and ℤ/3 at (1,2). -/
theorem collect_counterexample :
    let total : List (Int × List GenInfo) := [(1, [⟨some 6, [0, 2]⟩])]
    let pieces : List (Int × List GenInfo) := [(1, [⟨some 2, [0]⟩, ⟨some 3, [2]⟩])]
    collect total = [((1, 0), ⟨0, [6]⟩)] ∧
    collect pieces = [((1, 0), ⟨0, [2]⟩), ((1, 2), ⟨0, [3]⟩)] ∧
    collect total ≠ collect pieces := by
  decide

/-- (3) universal coefficients on diagonal complexes ℤⁿ --diag(a)--> ℤⁿ (degrees 0 → 1): the count the property
states, `rank + #{p | torsion in this degree} + #{p | torsion in the next degree}`, gives
dim H⁰ = dim H¹ = #{k : p ∣ aₖ} = corank of `diag(a)` over 𝔽_p, for every modulus `p ≥ 2` and every `a`. -/
theorem dimFp_diag (p : Int) (hp : 2 ≤ p) (a : List Int) :
    let hz := diagHomologyZ a
    let cnt : List Int → Nat := fun ts => (ts.filter (fun x => x % p == 0)).length
    hz.1.rank + cnt hz.1.tors + cnt hz.2.tors = diagDimFp p a ∧
    hz.2.rank + cnt hz.2.tors + cnt [] = diagDimFp p a := by
  simp only [diagHomologyZ, diagDimFp]
  have key : ∀ l : List Int,
      (l.filter (· == 0)).length + ((l.filter (fun x => x != 0 ∧ x.natAbs != 1)).filter (fun a => a % p == 0)).length
        = (l.filter (fun x => x % p == 0)).length := by
    intro l
    rw [List.filter_filter]
    induction l with
    | nil => rfl
    | cons x l ih =>
      by_cases hx0 : x = 0
      · subst hx0; simp at ih ⊢; omega
      · by_cases hm : x % p = 0
        · have hx1 : x.natAbs ≠ 1 := by
            intro h1
            have hd : p ∣ x := Int.dvd_of_emod_eq_zero hm
            have h2 : p.natAbs ∣ x.natAbs := Int.natAbs_dvd_natAbs.mpr hd
            rw [h1] at h2
            have : p.natAbs = 1 := Nat.dvd_one.mp h2
            omega
          simp [hx0, hx1, hm] at ih ⊢; omega
        · simp [hx0, hm] at ih ⊢; omega
  have := key a
  constructor
  · simp at this ⊢; omega
  · simp at this ⊢; omega

/-- non-vacuity of (1): a table with two homogeneous generators in different bidegrees -/
example : collect [(0, [⟨none, [1, 1]⟩, ⟨some 2, [3]⟩])] = [((0, 1), ⟨1, []⟩), ((0, 3), ⟨0, [2]⟩)] := by decide

end Yuiv.C03
