import Yuiv.Proofs.C03Bridge
import Yuiv.Props.C03Uct
/-
C03Bridge — the counting universal coefficient theorem of `Props/C03Uct.lean`, applied to what the library's CODE
MODEL reports (property theorems only; helper lemmas in `Proofs/C03Bridge.lean`).

Two executable models are involved, both proved total and correct elsewhere:
  * `C09.snfCalc C09.intOps true (fun s => .ok s) fuel A`  — code model of `SnfCalc::process` over ℤ
    (Props/C09Full: `snf_total_correct`);
  * `C07.calculate (C07.snfC09 fuel) d1 d2 true`           — code model of `HomologyCalc::calculate` literally composed
    with that SNF (Props/C07Full: `calculate_end_to_end`).
Convention as in C07: `d1 : n×m` is the INCOMING differential of the group `ℤⁿ` (`n = d1.r`), `d2 : k×n` the outgoing
one, `d2·d1 = 0`; the model reports `(rank, tors)` of `H = ker d2 / im d1`.

What each clause of property C03 now is, at model level:
  * "rank over ℚ = free rank over ℤ"  — `library_model_uct` (b): the `rank` returned by the model of `calculate` over ℤ
    equals `dim_ℚ ker(d2⊗ℚ)/im(d1⊗ℚ)` = `n − rk_ℚ d1 − rk_ℚ d2`;
  * "dim over 𝔽_p = free rank + #{p ∣ torsion here} + #{p ∣ torsion in the next degree}" — `library_model_uct` (c), (d):
    with `(rank, tors)` the model's answer for `(d1, d2)` and `tors'` the model's answer for the next pair `(d2, d3)`,
    the sum equals `dim_𝔽p ker(d2⊗𝔽_p)/im(d1⊗𝔽_p)` = `n − rk_p d1 − rk_p d2`, for EVERY prime `p`; in table form it is
    `C03.dimFp p z i j` for any table `z` holding the two reported cells at `(i,j)`, `(i+1,j)`;
  * what is still connected only by testing: that the 𝔽_p / ℚ tables the library prints are the homology dimensions of
    the reduced complexes (the same `calculate` over a field: C07Euc/C09Euc prove the field models correct, the
    identification "rank reported over the field K = n − rk_K d1 − rk_K d2" is their `rank + r(d1) + r(d2) = n` clause
    with `r = Matrix.rank`, not restated here); the bigraded splitting (`collect_gen_info`, F5) and the 𝔽₂
    reduced/unreduced clause are untouched.
Limitations inherited from C07Full/C09Full: identity preprocessing instead of LLL–HNF, debug build, existential fuel.
-/
namespace Yuiv.C03Bridge
open Matrix Module Yuiv Yuiv.C03 Yuiv.C03Uct

/-! ### (1) C09 → `EquivDiag` -/

/-- whenever the code model of the library's SNF over ℤ returns a state `s`, the diagonal `d` of its target is a
diagonal form of the input in the sense of `C03Uct` (`P·A·Q = rectDiag d` with the model's own `P, P⁻¹, Q, Q⁻¹`),
all `dₖ ≥ 0`, and `d` is a divisibility chain -/
theorem c09_result_equivDiag {m n : ℕ} (fuel : ℕ) (A : C09.Mat Int m n) (s : C09.St Int m n)
    (h : C09.snfCalc C09.intOps true (fun s => .ok s) fuel A = .ok s) :
    EquivDiag (C09.toM id A) (C09.diagL s.t) ∧ (∀ x ∈ C09.diagL s.t, 0 ≤ x) ∧
      (∀ i (hi : i + 1 < (C09.diagL s.t).length), (C09.diagL s.t)[i] ∣ (C09.diagL s.t)[i + 1]) := by
  obtain ⟨⟨hT, hP, hQ⟩, hD, hS⟩ := C09.snf_correct fuel A s h
  refine ⟨?_, shapeSpec_nonneg_chain _ hS⟩
  refine EquivDiag.of_inverses _ _ (C09.toM id s.p) (C09.toM id s.pinv) (C09.toM id s.q) (C09.toM id s.qinv)
    (by rw [diagL_length]) hP hQ ?_
  rw [hT]
  exact toM_eq_rectDiag s.t hD

/-- total form: for every integer matrix the model returns (for all sufficiently large fuel) one state, and its
diagonal is a non-negative divisibility chain which is a diagonal form of the input -/
theorem c09_total_equivDiag {m n : ℕ} (A : C09.Mat Int m n) :
    ∃ (N : ℕ) (s : C09.St Int m n),
      (∀ fuel, N ≤ fuel → C09.snfCalc C09.intOps true (fun s => .ok s) fuel A = .ok s) ∧
      EquivDiag (C09.toM id A) (C09.diagL s.t) ∧ (∀ x ∈ C09.diagL s.t, 0 ≤ x) ∧
      (∀ i (hi : i + 1 < (C09.diagL s.t).length), (C09.diagL s.t)[i] ∣ (C09.diagL s.t)[i + 1]) := by
  obtain ⟨N, s, hN, _⟩ := C09.snf_total_correct A
  exact ⟨N, s, hN, c09_result_equivDiag N A s (hN N (Nat.le_refl _))⟩

/-! ### (2) C07 → `cellOf` -/

/-- the `(rank, tors)` which the code model of `HomologyCalc::calculate` (running on the code model of the library's
SNF) reports for `d1, d2` with `d2·d1 = 0` is EXACTLY `cellOf n dA dB`, where `dA`, `dB` are the Smith diagonals the SNF
model computes for `d1`, `d2` — and these are diagonal forms of `d1`, `d2`.  Moreover the torsion the model reports
for the NEXT group (it depends on `d2` only) is `torsOf dB`. -/
theorem c07_cell_is_cellOf (d1 d2 : C07.Mat) (hsh : d2.c = d1.r)
    (hdd : d2.toM d2.r d1.r * d1.toM d1.r d1.c = 0) :
    ∃ (N : ℕ) (st1 : C09.St Int d1.r d1.c) (st2 : C09.St Int d2.r d2.c) (rank : ℕ) (tors : List ℤ) (T : C07.Trans),
      (∀ fuel, N ≤ fuel → C09.snfCalc C09.intOps true (fun s => .ok s) fuel (C07.toC09 d1) = .ok st1) ∧
      (∀ fuel, N ≤ fuel → C09.snfCalc C09.intOps true (fun s => .ok s) fuel (C07.toC09 d2) = .ok st2) ∧
      (∀ fuel, N ≤ fuel → C07.calculate (C07.snfC09 fuel) d1 d2 true = .ok (rank, tors, some T)) ∧
      EquivDiag (d1.toM d1.r d1.c) (C09.diagL st1.t) ∧ EquivDiag (d2.toM d2.r d1.r) (C09.diagL st2.t) ∧
      (⟨rank, tors⟩ : Cell) = cellOf d1.r (C09.diagL st1.t) (C09.diagL st2.t) ∧
      C07.nonUnitFactors st2 = torsOf (C09.diagL st2.t) := by
  obtain ⟨N, st1, st2, rank, tors, T, P, Q, h1, h2, hcalc, _, _, hrank, _, _, htors, _⟩ :=
    C07.calculate_end_to_end d1 d2 hsh hdd
  obtain ⟨hE1, hnn1, _⟩ := c09_result_equivDiag N _ st1 (h1 N (Nat.le_refl _))
  obtain ⟨hE2, hnn2, _⟩ := c09_result_equivDiag N _ st2 (h2 N (Nat.le_refl _))
  rw [C07.toC09_toM] at hE1 hE2
  refine ⟨N, st1, st2, rank, tors, T, h1, h2, hcalc, hE1, equivDiag_cast d2 _ hsh hE2, ?_,
    nonUnitFactors_eq_torsOf st2 hnn2⟩
  rw [nzCount_eq_nz, nzCount_eq_nz] at hrank
  rw [htors, nonUnitFactors_eq_torsOf st1 hnn1]
  unfold cellOf
  congr 1
  omega

/-! ### (3) the identities of property C03 for the model's answers -/

/-- two consecutive differentials: the model's ℤ-answer `(rank, tors)` for `(d1, d2)` and the torsion `tors'` read off
the model's SNF of `d2` (= what the model reports as torsion of the next group, see `library_model_uct`) satisfy, for
every prime `p`, the identity the C03 oracle evaluates, and `rank` is the rational Betti number -/
theorem library_model_uct_pair (d1 d2 : C07.Mat) (hsh : d2.c = d1.r)
    (hdd : d2.toM d2.r d1.r * d1.toM d1.r d1.c = 0) :
    ∃ (N : ℕ) (st2 : C09.St Int d2.r d2.c) (rank : ℕ) (tors : List ℤ) (T : C07.Trans),
      (∀ fuel, N ≤ fuel → C09.snfCalc C09.intOps true (fun s => .ok s) fuel (C07.toC09 d2) = .ok st2) ∧
      (∀ fuel, N ≤ fuel → C07.calculate (C07.snfC09 fuel) d1 d2 true = .ok (rank, tors, some T)) ∧
      rank = d1.r - (toRat (d1.toM d1.r d1.c)).rank - (toRat (d2.toM d2.r d1.r)).rank ∧
      rank = finrank ℚ (Homology (toRat (d1.toM d1.r d1.c)) (toRat (d2.toM d2.r d1.r))) ∧
      ∀ (p : ℕ) [Fact p.Prime],
        rank + (tors.filter (fun a => a % (p : ℤ) == 0)).length
             + ((C07.nonUnitFactors st2).filter (fun a => a % (p : ℤ) == 0)).length
          = d1.r - (redMod p (d1.toM d1.r d1.c)).rank - (redMod p (d2.toM d2.r d1.r)).rank ∧
        rank + (tors.filter (fun a => a % (p : ℤ) == 0)).length
             + ((C07.nonUnitFactors st2).filter (fun a => a % (p : ℤ) == 0)).length
          = finrank (ZMod p) (Homology (redMod p (d1.toM d1.r d1.c)) (redMod p (d2.toM d2.r d1.r))) := by
  obtain ⟨N, st1, st2, rank, tors, T, _, h2, hcalc, hE1, hE2, hcell, hnext⟩ := c07_cell_is_cellOf d1 d2 hsh hdd
  have hr : rank = (cellOf d1.r (C09.diagL st1.t) (C09.diagL st2.t)).rank := congrArg Cell.rank hcell
  have ht : tors = torsOf (C09.diagL st1.t) := congrArg Cell.tors hcell
  refine ⟨N, st2, rank, tors, T, h2, hcalc, ?_, ?_, ?_⟩
  · rw [hr]; exact (uct_rank_rat _ _ _ _ hE1 hE2).symm
  · rw [hr]; exact (uct_homology_rat _ _ hdd _ _ hE1 hE2).symm
  · intro p _
    rw [hr, ht, hnext]
    exact ⟨(uct_count_fp p _ _ hdd _ _ hE1 hE2).symm, (uct_homology_fp p _ _ hdd _ _ hE1 hE2).symm⟩

/-- **library_model_uct** — three consecutive differentials `d1, d2, d3` of an integer complex (`d2·d1 = 0`,
`d3·d2 = 0`).  There is a fuel bound from which on the code model of `HomologyCalc::calculate` (on the code model of the
library's SNF) returns the ℤ-cells `c = (rank, tors)` of `H = ker d2/im d1` and `c'` of the next group `ker d3/im d2`, and
 (a) both are returned without panic or fuel exhaustion;
 (b) `c.rank` = `dim_ℚ` of the homology of the complex tensored with ℚ  (clause "rank_ℚ = rank_ℤ");
 (c) for every prime `p`: `c.rank + #{a ∈ c.tors : p ∣ a} + #{a ∈ c'.tors : p ∣ a}` = `n − rk_p d1 − rk_p d2`
     = `dim_𝔽p` of the homology of the complex reduced mod `p`  (clause "dim_Fp formula");
 (d) in the vocabulary of `Model/C03`: for every table `z` holding `c` at `(i,j)` and `c'` at `(i+1,j)`,
     `dimFp p z i j` is that dimension and `(z.get (i,j)).rank` is the rational one. -/
theorem library_model_uct (d1 d2 d3 : C07.Mat) (h12 : d2.c = d1.r) (h23 : d3.c = d2.r)
    (hdd : d2.toM d2.r d1.r * d1.toM d1.r d1.c = 0) (hdd' : d3.toM d3.r d2.r * d2.toM d2.r d2.c = 0) :
    ∃ (N : ℕ) (c c' : Cell) (T T' : C07.Trans),
      (∀ fuel, N ≤ fuel → C07.calculate (C07.snfC09 fuel) d1 d2 true = .ok (c.rank, c.tors, some T)) ∧
      (∀ fuel, N ≤ fuel → C07.calculate (C07.snfC09 fuel) d2 d3 true = .ok (c'.rank, c'.tors, some T')) ∧
      c.rank = finrank ℚ (Homology (toRat (d1.toM d1.r d1.c)) (toRat (d2.toM d2.r d1.r))) ∧
      (∀ (p : ℕ) [Fact p.Prime],
        c.rank + (c.tors.filter (fun a => a % (p : ℤ) == 0)).length
               + (c'.tors.filter (fun a => a % (p : ℤ) == 0)).length
          = d1.r - (redMod p (d1.toM d1.r d1.c)).rank - (redMod p (d2.toM d2.r d1.r)).rank ∧
        c.rank + (c.tors.filter (fun a => a % (p : ℤ) == 0)).length
               + (c'.tors.filter (fun a => a % (p : ℤ) == 0)).length
          = finrank (ZMod p) (Homology (redMod p (d1.toM d1.r d1.c)) (redMod p (d2.toM d2.r d1.r)))) ∧
      (∀ (z : Table) (i j : ℤ), z.get (i, j) = c → z.get (i + 1, j) = c' →
        (z.get (i, j)).rank = finrank ℚ (Homology (toRat (d1.toM d1.r d1.c)) (toRat (d2.toM d2.r d1.r))) ∧
        ∀ (p : ℕ) [Fact p.Prime], dimFp (p : ℤ) z i j
          = finrank (ZMod p) (Homology (redMod p (d1.toM d1.r d1.c)) (redMod p (d2.toM d2.r d1.r)))) := by
  obtain ⟨N, st2, rank, tors, T, h2, hcalc, _, hQ, hp⟩ := library_model_uct_pair d1 d2 h12 hdd
  obtain ⟨N', st2', _, rank', tors', T', _, _, h2', _, hcalc', _, _, _, _, _, htors', _⟩ :=
    C07.calculate_end_to_end d2 d3 h23 hdd'
  -- the SNF model is a function: both calls see the same final state for `d2`
  have hst : st2' = st2 := by
    have a := h2 (max N N') (le_max_left _ _)
    have b := h2' (max N N') (le_max_right _ _)
    rw [a] at b
    injection b with b
    exact b.symm
  subst hst
  have hfp : ∀ (p : ℕ) [Fact p.Prime],
      rank + (tors.filter (fun a => a % (p : ℤ) == 0)).length
             + (tors'.filter (fun a => a % (p : ℤ) == 0)).length
          = d1.r - (redMod p (d1.toM d1.r d1.c)).rank - (redMod p (d2.toM d2.r d1.r)).rank ∧
        rank + (tors.filter (fun a => a % (p : ℤ) == 0)).length
             + (tors'.filter (fun a => a % (p : ℤ) == 0)).length
          = finrank (ZMod p) (Homology (redMod p (d1.toM d1.r d1.c)) (redMod p (d2.toM d2.r d1.r))) := by
    intro p _
    rw [htors']
    exact hp p
  refine ⟨max N N', ⟨rank, tors⟩, ⟨rank', tors'⟩, T, T',
    fun fuel hf => hcalc fuel (le_trans (le_max_left _ _) hf),
    fun fuel hf => hcalc' fuel (le_trans (le_max_right _ _) hf), hQ, hfp, ?_⟩
  intro z i j hz hz'
  refine ⟨by rw [hz]; exact hQ, ?_⟩
  intro p _
  unfold dimFp
  rw [hz, hz']
  exact (hfp p).2

/-! ### non-vacuity: the models run on a concrete complex -/

/-- `ℤ³ --d1--> ℤ⁴ --d2--> ℤ¹` of `Props/C07Full.lean` (`H = ℤ ⊕ ℤ/2 ⊕ ℤ/6`): the SNF model's diagonal of `d1` is
`[2, 6, 0]`, and the hypotheses `d2.c = d1.r`, `d2·d1 = 0` of the theorems hold -/
example : (match C09.snfCalc C09.intOps true (fun s => .ok s) 50
      (C07.toC09 ⟨4, 3, #[2, 0, 0, 2, 6, 0, 0, 0, 0, 0, 0, 0]⟩) with
    | .ok s => C09.diagL s.t == [2, 6, 0]
    | _ => false) = true := by decide +kernel

example : C07.runsTo ⟨4, 3, #[2, 0, 0, 2, 6, 0, 0, 0, 0, 0, 0, 0]⟩ ⟨1, 4, #[0, 0, 0, 1]⟩ 1 [2, 6] = true := by
  decide +kernel

/-- … and the count on the reported cell `⟨1, [2, 6]⟩` (next group: no torsion): `dim_𝔽₂ = 3`, `dim_𝔽₃ = 2`, `dim_𝔽₅ = 1` -/
example : dimFp 2 [((0, 0), ⟨1, [2, 6]⟩), ((1, 0), ⟨0, []⟩)] 0 0 = 3 ∧
    dimFp 3 [((0, 0), ⟨1, [2, 6]⟩), ((1, 0), ⟨0, []⟩)] 0 0 = 2 ∧
    dimFp 5 [((0, 0), ⟨1, [2, 6]⟩), ((1, 0), ⟨0, []⟩)] 0 0 = 1 := by decide

end Yuiv.C03Bridge
