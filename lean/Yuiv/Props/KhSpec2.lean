import Yuiv.Proofs.KhSpecRedQ
import Yuiv.Proofs.KhSpecSortInt
import Yuiv.Proofs.KhSpecRowsOK
import Yuiv.Proofs.KhSpecSort
import Yuiv.Proofs.C01SqEx
/-
KhSpec2 — the two gaps left by `Props/KhSpec`.  Property theorems only; proofs in `Proofs/KhSpecRedQ, KhSpecSortInt`
(on top of the modules of `Props/KhSpec`).

 (A) THE ORDER OF THE CELLS IS DETERMINED.  `Array.qsort` sorts for an INTEGER key too (`qsort_sorts_int`), so the
     quantum degrees `qsOf` are listed strictly increasingly (`qsOf_strictly_increasing`) and `qsOf` is THE increasing
     enumeration of the set of quantum degrees of the generators (`qsOf_determined`).  Hence the cell list of the
     bigraded computation is strictly increasing in `(q, h)` lexicographically, every cell is a non-zero group, no
     bidegree occurs twice (`bigraded_cells_ordered`); the unbigraded list is strictly increasing in `h`
     (`unbigraded_cells_ordered`).  So two implementations computing the same groups produce the same LIST, not merely
     the same set.
 (B) THE REDUCED BIGRADED COMPUTATION (`h = t = 0`, `bigraded = true`, any `p.reduced`): `khHomology_spec_reduced_bigraded`
     — success, the cells are slice by slice the cells of the sub-complex of the UNREDUCED cube `cube0 l p` spanned by the
     generators of the reduced cube of quantum degree `q`; unimodular diagonal forms, `d ∘ d = 0`, `cellOf` over ℤ, and
     `dim ker/im` over ℚ and `𝔽_q` exactly as in `khHomology_spec_bigraded`.

With this, of `KhRef.khHomology` only the reduced theory with `t ≠ 0` is not specified (it is not a complex, see
`Props/C01Sq`).
-/
namespace Yuiv.KhSpec
open Yuiv Yuiv.KhRef Matrix Yuiv.KhSnf Yuiv.C03Uct Yuiv.C03 Module
open Yuiv.C02Mirror (cubeOK)

/-! ### (A) order -/

/-- core Lean's `Array.qsort` sorts for comparisons by an INTEGER key -/
theorem qsort_sorts_int {α : Type} (key : α → Int) (as : Array α) :
    ((as.qsort (fun a b => decide (key a < key b))).toList).Pairwise (fun a b => key a ≤ key b) :=
  qsort_sorted_intKey key as

/-- the quantum degrees are listed in strictly increasing order -/
theorem qsOf_strictly_increasing (c : Cube) (q0 : Int) (gens : Array (Array Gen)) :
    (qsOf c q0 gens).toList.Pairwise (· < ·) :=
  qsOf_sorted c q0 gens

/-- `qsOf` is determined by its specification: it is THE strictly increasing list of the quantum degrees of the
generators -/
theorem qsOf_determined (c : Cube) (q0 : Int) (gens : Array (Array Gen)) (L : List Int)
    (hs : L.Pairwise (· < ·))
    (hm : ∀ q, q ∈ L ↔ ∃ gs ∈ gens.toList, ∃ g ∈ gs.toList, c.qDeg q0 g = q) :
    (qsOf c q0 gens).toList = L := by
  have h1 := qsOf_sorted c q0 gens
  have hnd : ∀ {M : List Int}, M.Pairwise (· < ·) → M.Nodup := fun h => h.imp (fun h => by omega)
  refine List.Perm.eq_of_pairwise (le := (· ≤ ·)) (fun a b _ _ h1 h2 => by omega)
    (h1.imp (fun h => by omega)) (hs.imp (fun h => by omega)) ?_
  rw [List.perm_ext_iff_of_nodup (hnd h1) (hnd hs)]
  intro q
  rw [mem_qsOf, hm]

/-- the cells of one table: strictly increasing homological degree, non-zero groups only, each the group at its
position -/
theorem cellsUn_ordered (h0 : Int) (j : Option Int) (hs : Array Group) :
    (cellsUn h0 j hs).Pairwise (fun a b => a.1 < b.1) ∧
    ∀ a ∈ cellsUn h0 j hs, a.2.1 = j ∧ (a.2.2.rank ≠ 0 ∨ a.2.2.tors.size ≠ 0) ∧
      ∃ i : Nat, i < hs.size ∧ a.1 = h0 + i ∧ a.2.2 = hs[i]! := by
  unfold cellsUn
  constructor
  · rw [List.pairwise_filterMap]
    refine (List.pairwise_lt_range (n := hs.size)).imp ?_
    intro a b hab x hx y hy
    split at hx
    · split at hy
      · simp only [Option.mem_def, Option.some.injEq] at hx hy
        subst hx hy
        show h0 + (a : Int) < h0 + (b : Int)
        omega
      · simp at hy
    · simp at hx
  · intro a ha
    rw [List.mem_filterMap] at ha
    obtain ⟨i, hi, h⟩ := ha
    split at h
    · rename_i hc
      simp only [Option.some.injEq] at h
      subst h
      refine ⟨rfl, ?_, i, by simpa using hi, rfl, rfl⟩
      simpa using hc
    · simp at h

/-- THE ORDER OF THE BIGRADED OUTPUT: the list `qs.flatMap (fun q => cellsUn h0 (some q) (T q))` that `khHomology … true`
returns (`qs = qsOf …`, see `khHomology_spec_bigraded` / `khHomology_spec_reduced_bigraded`) is strictly increasing in
`(q, h)` lexicographically; in particular no bidegree occurs twice -/
theorem bigraded_cells_ordered (c : Cube) (q0 : Int) (gens : Array (Array Gen)) (h0 : Int) (T : Int → Array Group) :
    ((qsOf c q0 gens).toList.flatMap (fun q => cellsUn h0 (some q) (T q))).Pairwise
      (fun a b => ∃ qa qb, a.2.1 = some qa ∧ b.2.1 = some qb ∧ (qa < qb ∨ (qa = qb ∧ a.1 < b.1))) := by
  rw [List.pairwise_flatMap]
  constructor
  · intro q _
    have h := cellsUn_ordered h0 (some q) (T q)
    have h2 : (cellsUn h0 (some q) (T q)).Pairwise (fun a b => a.2.1 = some q ∧ b.2.1 = some q) := by
      rw [List.pairwise_iff_forall_sublist]
      intro a b hab
      exact ⟨(h.2 a (hab.subset (by simp))).1, (h.2 b (hab.subset (by simp))).1⟩
    exact (h.1.and h2).imp (fun ⟨h1, h2, h3⟩ => ⟨q, q, h2, h3, Or.inr ⟨rfl, h1⟩⟩)
  · refine (qsOf_sorted c q0 gens).imp ?_
    intro q1 q2 hq a ha b hb
    exact ⟨q1, q2, ((cellsUn_ordered h0 (some q1) (T q1)).2 a ha).1, ((cellsUn_ordered h0 (some q2) (T q2)).2 b hb).1,
      Or.inl hq⟩

/-- the unbigraded output `cellsUn h0 none groups` is strictly increasing in the homological degree -/
theorem unbigraded_cells_ordered (h0 : Int) (hs : Array Group) :
    (cellsUn h0 none hs).Pairwise (fun a b => a.1 < b.1) :=
  (cellsUn_ordered h0 none hs).1

/-! ### (B) reduced, bigraded (`h = t = 0`) -/

/-- END TO END, `bigraded = true`, `h = t = 0`, reduced or not (for `p.reduced = false` this is
`khHomology_spec_bigraded`): the computation succeeds; the cells are, for every quantum degree `q` of a generator of
`mkCube l p` (each once, increasing), the non-zero groups of the slice `G_q`; every slice is a family of generators of
the unreduced cube `cube0 l p` closed under its `Cube.d`, and satisfies the statements of `khHomology_spec` there -/
theorem khHomology_spec_reduced_bigraded (l : Link) (hv : C06Cycle.validK l = true) (hL : (edgeLabels l).size ≤ 64)
    (p : Params) (hh : p.h = 0) (ht : p.t = 0) (hok : cubeOK (mkCube l p)) (signs : Array Int) :
    (∀ k, khHomology l signs p k true =
      .ok ⟨((qsOf (mkCube l p) (q0Of signs p) (gensByWeight (mkCube l p))).toList.flatMap (fun q =>
        cellsUn (h0Of signs) (some q)
          (homologyOf k (gensQ (mkCube l p) (q0Of signs p) (gensByWeight (mkCube l p)) q)
            (dTab (cube0 l p) p (gensByWeight (cube0 l p)))))).toArray⟩) ∧
    (qsOf (mkCube l p) (q0Of signs p) (gensByWeight (mkCube l p))).toList.Pairwise (· < ·) ∧
    (∀ q, q ∈ (qsOf (mkCube l p) (q0Of signs p) (gensByWeight (mkCube l p))).toList ↔
      ∃ gs ∈ (gensByWeight (mkCube l p)).toList, ∃ g ∈ gs.toList, (mkCube l p).qDeg (q0Of signs p) g = q) ∧
    ∀ q : Int,
      let c0 := cube0 l p
      let G := gensQ (mkCube l p) (q0Of signs p) (gensByWeight (mkCube l p)) q
      let dT := dTab c0 p (gensByWeight c0)
      (∀ (i : Nat) (g : Gen), g ∈ (G[i]!).toList ↔
        g ∈ ((gensByWeight (mkCube l p))[i]!).toList ∧ (mkCube l p).qDeg (q0Of signs p) g = q) ∧
      (∀ (i : Nat) (g : Gen), g ∈ (G[i]!).toList → g ∈ ((gensByWeight c0)[i]!).toList) ∧
      (∀ i, i < crossingNum l → EquivDiag (dMat c0 p G i) (diagAt c0 p G i)) ∧
      (∀ i, crossingNum l ≤ i → diagAt c0 p G i = []) ∧
      (∀ i, dMat c0 p G i * dMat c0 p G (i + 1) = 0) ∧
      (∀ i, i ≤ crossingNum l →
        ((homologyOf .Z G dT)[i]!).rank = (cellOf (G[i]!).size (diagIn c0 p G i) (diagAt c0 p G i)).rank ∧
        ((homologyOf .Z G dT)[i]!).tors.toList = (cellOf (G[i]!).size (diagIn c0 p G i) (diagAt c0 p G i)).tors ∧
        ((homologyOf .Q G dT)[i]!).rank = (G[i]!).size - nz (diagIn c0 p G i) - nz (diagAt c0 p G i) ∧
        ((homologyOf .Q G dT)[i]!).tors = #[] ∧
        ∀ q', 2 ≤ q' → ((homologyOf (.Fp q') G dT)[i]!).rank =
            (G[i]!).size - ndiv (q' : ℤ) (diagIn c0 p G i) - ndiv (q' : ℤ) (diagAt c0 p G i) ∧
          ((homologyOf (.Fp q') G dT)[i]!).tors = #[]) ∧
      (∀ j, j < crossingNum l →
        ((homologyOf .Q G dT)[j + 1]!).rank =
          finrank ℚ (Homology (toRat (dMat c0 p G j)ᵀ) (toRat (dMat c0 p G (j + 1))ᵀ)) ∧
        ∀ (q' : ℕ) [Fact q'.Prime], ((homologyOf (.Fp q') G dT)[j + 1]!).rank =
          finrank (ZMod q') (Homology (redMod q' (dMat c0 p G j)ᵀ) (redMod q' (dMat c0 p G (j + 1))ᵀ))) := by
  have H := ctx_cube0 l hv hL p hok
  refine ⟨fun k => khHomology_ok_reduced_bigraded l hv hL p hh ht hok signs k, qsOf_sorted _ _ _,
    fun q => mem_qsOf _ _ _ q, ?_⟩
  intro q
  have F := fam_reduced_gensQ l hv hL p hh ht hok (q0Of signs p) q
  have hR := rowsOK_of_fam normalizeRow_rowOK F
  exact ⟨fun i g => mem_gensQ _ _ q i g, F.sub, fun i hi => diagAt_equivDiag H F hR i hi, fun i hi => diagAt_nil F i hi,
    fun i => dMat_mul H F i, fun i hi => groups_spec F hR i hi, fun j hj => rank_is_homology H F hR j hj⟩

/-! ### non-vacuity -/

open Yuiv.C02Mirror.Ex Yuiv.C01Sq.Ex Yuiv.C04Inv in
/-- the reduced bigraded instance at the trefoil (based at edge `1`, signs `− − −`, ℤ): the hypotheses hold and the
computation succeeds -/
example : cubeOK (mkCube trefoil ⟨0, 0, true⟩) ∧ ∃ res, khHomology trefoil #[-1, -1, -1] ⟨0, 0, true⟩ .Z true = .ok res := by
  have hok : cubeOK (mkCube trefoil ⟨0, 0, true⟩) := by
    unfold mkCube; rw [edgeLabels_trefoil]; decide +kernel
  exact ⟨hok, _, (khHomology_spec_reduced_bigraded trefoil valid_examples.1 trefoil_labels ⟨0, 0, true⟩ rfl rfl hok
    #[-1, -1, -1]).1 .Z⟩

/-- `cellsUn` keeps exactly the non-zero groups, in position order -/
example : (cellsUn (-3) (some 5) #[⟨1, #[]⟩, ⟨0, #[]⟩, ⟨0, #[2]⟩]).map (fun a => (a.1, a.2.1, a.2.2.rank, a.2.2.tors.toList)) =
    [(-3, some 5, 1, []), (-1, some 5, 0, [2])] := by decide +kernel

end Yuiv.KhSpec
