import Yuiv.Proofs.C08Hom
import Yuiv.Props.C08
/-
C08 — a chain homotopy equivalence induces an isomorphism on homology; hence chain reduction preserves homology.

Property theorems only (definitions and helper lemmas live in `Yuiv/Proofs/C08Hom.lean`).  This replaces the entry
"a chain homotopy equivalence induces an isomorphism on homology (standard; not formalised here)" of the trusted base
of C08 by theorems, at the matrix level of `Props/C08.lean`.

Definitions (`Proofs/C08Hom.lean`):
  `Hmod f g`     homology at `B` of `A --f--> B --g--> C` (modules over a ring): the Mathlib quotient
                 `LinearMap.ker g ⧸ bdry f g`, `bdry f g = (LinearMap.range f).comap (ker g).subtype` = the boundaries
                 that are cycles (all of `im f` when `g ∘ f = 0`: `boundaries_le_cycles`);
  `Hmap φA φ φC` the induced map `[z] ↦ [φ z]` of a chain map (`Hmap_class`);
  `HMat dIn dOut = Hmod (toLin' dIn) (toLin' dOut)` for matrices (`A : Matrix p q R` maps `q → R` to `p → R`);
  `Hn d n`       for a complex `… → C_{i+1} --d i--> C_i → … → C_0`, `d i : Matrix (ι i) (ι (i+1)) R`,
                 `d i * d (i+1) = 0` (the convention of `IsReduction`):  `Hn d n = Hmod (toLin' (d n)) (dOut d n)`,
                 `dOut d (i+1) = toLin' (d i)`, `dOut d 0 = 0`; i.e. `H_{i+1} = ker d_i / im d_{i+1}`, `H_0 = C_0 / im d_0`;
  `HnMap F`, `HnMapB B`  the maps induced on `Hn` by chain maps in the `F d = d' F` resp. `d B = B d'` form.
-/
namespace Yuiv.C08
open Matrix

/-! ## 1. modules: three-term pieces -/

section modules
variable {R : Type*} [Ring R]
variable {A B C A' B' C' : Type*}
  [AddCommGroup A] [Module R A] [AddCommGroup B] [Module R B] [AddCommGroup C] [Module R C]
  [AddCommGroup A'] [Module R A'] [AddCommGroup B'] [Module R B'] [AddCommGroup C'] [Module R C']

/-- when `g ∘ f = 0` every boundary is a cycle, so `Hmod f g` is `ker g / im f` -/
theorem boundaries_le_cycles (f : A →ₗ[R] B) (g : B →ₗ[R] C) (h : g ∘ₗ f = 0) :
    LinearMap.range f ≤ LinearMap.ker g := by
  rintro _ ⟨a, rfl⟩
  exact LinearMap.mem_ker.mpr (LinearMap.congr_fun h a)

/-- the class of a cycle `z` vanishes in `Hmod f g` iff `z` is a boundary -/
theorem class_eq_zero_iff (f : A →ₗ[R] B) (g : B →ₗ[R] C) (z : LinearMap.ker g) :
    (Submodule.Quotient.mk z : Hmod f g) = 0 ↔ ∃ a, f a = z.1 := by
  rw [Submodule.Quotient.mk_eq_zero, mem_bdry]

/-- the induced map sends the class of a cycle `z` to the class of the cycle `φ z` -/
theorem Hmap_class {f : A →ₗ[R] B} {g : B →ₗ[R] C} {f' : A' →ₗ[R] B'} {g' : B' →ₗ[R] C'}
    (φA : A →ₗ[R] A') (φ : B →ₗ[R] B') (φC : C →ₗ[R] C')
    (hf : φ ∘ₗ f = f' ∘ₗ φA) (hg : g' ∘ₗ φ = φC ∘ₗ g) (z : LinearMap.ker g) :
    ∃ hz : φ z.1 ∈ LinearMap.ker g',
      Hmap φA φ φC hf hg (Submodule.Quotient.mk z) = Submodule.Quotient.mk ⟨φ z.1, hz⟩ :=
  ⟨(cycMap φ φC hg z).2, rfl⟩

/-- `ψ φ − 1 = f s + t g` (a chain homotopy to the identity) ⟹ `ψ_* ∘ φ_* = 1` on homology -/
theorem homotopic_to_id_induces_id {f : A →ₗ[R] B} {g : B →ₗ[R] C} {f' : A' →ₗ[R] B'} {g' : B' →ₗ[R] C'}
    (φA : A →ₗ[R] A') (φ : B →ₗ[R] B') (φC : C →ₗ[R] C')
    (hf : φ ∘ₗ f = f' ∘ₗ φA) (hg : g' ∘ₗ φ = φC ∘ₗ g)
    (ψA : A' →ₗ[R] A) (ψ : B' →ₗ[R] B) (ψC : C' →ₗ[R] C)
    (hf' : ψ ∘ₗ f' = f ∘ₗ ψA) (hg' : g ∘ₗ ψ = ψC ∘ₗ g')
    (s : B →ₗ[R] A) (t : C →ₗ[R] B) (hh : ψ ∘ₗ φ - LinearMap.id = f ∘ₗ s + t ∘ₗ g) :
    Hmap ψA ψ ψC hf' hg' ∘ₗ Hmap φA φ φC hf hg = LinearMap.id :=
  Hmap_comp_eq_id φA φ φC hf hg ψA ψ ψC hf' hg' s t hh

/-- **a chain homotopy equivalence induces an isomorphism on homology** (three-term form, modules over any ring):
chain maps `φ`, `ψ` with `ψ φ − 1 = f s + t g` and `φ ψ − 1 = f' s' + t' g'` induce mutually inverse `R`-linear
maps `φ_*`, `ψ_*`, i.e. a linear equivalence `Hmod f g ≃ₗ[R] Hmod f' g'`. -/
theorem homology_iso_of_homotopy_equiv {f : A →ₗ[R] B} {g : B →ₗ[R] C} {f' : A' →ₗ[R] B'} {g' : B' →ₗ[R] C'}
    (φA : A →ₗ[R] A') (φ : B →ₗ[R] B') (φC : C →ₗ[R] C')
    (hf : φ ∘ₗ f = f' ∘ₗ φA) (hg : g' ∘ₗ φ = φC ∘ₗ g)
    (ψA : A' →ₗ[R] A) (ψ : B' →ₗ[R] B) (ψC : C' →ₗ[R] C)
    (hf' : ψ ∘ₗ f' = f ∘ₗ ψA) (hg' : g ∘ₗ ψ = ψC ∘ₗ g')
    (s : B →ₗ[R] A) (t : C →ₗ[R] B) (hh : ψ ∘ₗ φ - LinearMap.id = f ∘ₗ s + t ∘ₗ g)
    (s' : B' →ₗ[R] A') (t' : C' →ₗ[R] B') (hh' : φ ∘ₗ ψ - LinearMap.id = f' ∘ₗ s' + t' ∘ₗ g') :
    ∃ e : Hmod f g ≃ₗ[R] Hmod f' g',
      (e : Hmod f g →ₗ[R] Hmod f' g') = Hmap φA φ φC hf hg ∧
      (e.symm : Hmod f' g' →ₗ[R] Hmod f g) = Hmap ψA ψ ψC hf' hg' :=
  ⟨homologyIso φA φ φC hf hg ψA ψ ψC hf' hg' s t hh s' t' hh', rfl, rfl⟩

end modules

/-! ## 2. matrices -/

section matrices
variable {R : Type*} [CommRing R]

/-- the matrix form: `(a → R) --dIn--> (b → R) --dOut--> (c → R)` and its primed copy, transfer matrices `F`, `B` in
the three degrees, homotopies `B F − 1 = dIn s + t dOut`, `F B − 1 = dIn' s' + t' dOut'` -/
theorem homology_iso_of_homotopy_equiv_matrix {a b c a' b' c' : Type*}
    [Fintype a] [DecidableEq a] [Fintype b] [DecidableEq b] [Fintype c] [DecidableEq c]
    [Fintype a'] [DecidableEq a'] [Fintype b'] [DecidableEq b'] [Fintype c'] [DecidableEq c']
    {dIn : Matrix b a R} {dOut : Matrix c b R} {dIn' : Matrix b' a' R} {dOut' : Matrix c' b' R}
    (Fa : Matrix a' a R) (Fb : Matrix b' b R) (Fc : Matrix c' c R)
    (Ba : Matrix a a' R) (Bb : Matrix b b' R) (Bc : Matrix c c' R)
    (hFin : Fb * dIn = dIn' * Fa) (hFout : dOut' * Fb = Fc * dOut)
    (hBin : Bb * dIn' = dIn * Ba) (hBout : dOut * Bb = Bc * dOut')
    (s : Matrix a b R) (t : Matrix b c R) (hh : Bb * Fb - 1 = dIn * s + t * dOut)
    (s' : Matrix a' b' R) (t' : Matrix b' c' R) (hh' : Fb * Bb - 1 = dIn' * s' + t' * dOut') :
    ∃ e : HMat dIn dOut ≃ₗ[R] HMat dIn' dOut',
      (e : HMat dIn dOut →ₗ[R] HMat dIn' dOut')
        = Hmap (toLin' Fa) (toLin' Fb) (toLin' Fc) (toLin'_comm hFin) (toLin'_comm hFout) ∧
      (e.symm : HMat dIn' dOut' →ₗ[R] HMat dIn dOut)
        = Hmap (toLin' Ba) (toLin' Bb) (toLin' Bc) (toLin'_comm hBin) (toLin'_comm hBout) :=
  ⟨homologyIsoMat Fa Fb Fc Ba Bb Bc hFin hFout hBin hBout s t hh s' t' hh', rfl, rfl⟩

end matrices

/-! ## 3. complexes: the C08 data -/

section complexes
variable {R : Type*} [CommRing R] {ι κ μ : ℕ → Type*}
  [∀ i, Fintype (ι i)] [∀ i, DecidableEq (ι i)] [∀ i, Fintype (κ i)] [∀ i, DecidableEq (κ i)]
  [∀ i, Fintype (μ i)] [∀ i, DecidableEq (μ i)]

/-- `Hn d (i+1)` is `ker d_i / im d_{i+1}` and `Hn d 0` is `C_0 / im d_0`: the cycles -/
theorem Hn_cycles (d : ∀ i, Matrix (ι i) (ι (i + 1)) R) :
    LinearMap.ker (dOut d 0) = ⊤ ∧ ∀ i, LinearMap.ker (dOut d (i + 1)) = LinearMap.ker (toLin' (d i)) :=
  ⟨LinearMap.ker_zero, fun _ => rfl⟩

/-- … and, for a complex, all of `im d_n` consists of cycles -/
theorem Hn_boundaries (d : ∀ i, Matrix (ι i) (ι (i + 1)) R) (hd : ∀ i, d i * d (i + 1) = 0) (n : ℕ) :
    LinearMap.range (toLin' (d n)) ≤ LinearMap.ker (dOut d n) := by
  apply boundaries_le_cycles
  cases n with
  | zero => exact LinearMap.zero_comp _
  | succ i =>
    show toLin' (d i) ∘ₗ toLin' (d (i + 1)) = 0
    rw [← Matrix.toLin'_mul, hd, map_zero]

/-- chain maps `F : C → C'`, `B : C' → C` with homotopies `B F − 1 = d h + h d` and `F B − 1 = d' h' + h' d'`
(two-sided homotopy equivalence) induce mutually inverse linear equivalences `F_*`, `B_*` on every `H_n` -/
theorem homotopy_equiv_preserves_homology
    {d : ∀ i, Matrix (ι i) (ι (i + 1)) R} {d' : ∀ i, Matrix (κ i) (κ (i + 1)) R}
    (F : ∀ i, Matrix (κ i) (ι i) R) (B : ∀ i, Matrix (ι i) (κ i) R)
    (hF : ∀ i, F i * d i = d' i * F (i + 1)) (hB : ∀ i, d i * B (i + 1) = B i * d' i)
    (h : ∀ i, Matrix (ι (i + 1)) (ι i) R) (h0 : B 0 * F 0 - 1 = d 0 * h 0)
    (hs : ∀ i, B (i + 1) * F (i + 1) - 1 = d (i + 1) * h (i + 1) + h i * d i)
    (h' : ∀ i, Matrix (κ (i + 1)) (κ i) R) (h0' : F 0 * B 0 - 1 = d' 0 * h' 0)
    (hs' : ∀ i, F (i + 1) * B (i + 1) - 1 = d' (i + 1) * h' (i + 1) + h' i * d' i) (n : ℕ) :
    ∃ e : Hn d n ≃ₗ[R] Hn d' n,
      (e : Hn d n →ₗ[R] Hn d' n) = HnMap F hF n ∧ (e.symm : Hn d' n →ₗ[R] Hn d n) = HnMapB B hB n :=
  ⟨homologyIsoN F B hF hB h h0 hs h' h0' hs' n, rfl, rfl⟩

/-- **`reduction_preserves_homology`**: for every `IsHomotopyEquiv d d' F B h` — the statement proved for one Schur step
(`schur_step_*`, `schur_homotopy_*`) and closed under identity, composition and conjugation by invertible / permutation
matrices (`IsHomotopyEquiv.refl/.comp/.of_iso/.of_perm`), hence valid for any sequence of reduction steps — the transfer
maps induce mutually inverse `R`-linear isomorphisms `H_n(C) ≃ H_n(C')` in every degree `n`. -/
theorem reduction_preserves_homology
    {d : ∀ i, Matrix (ι i) (ι (i + 1)) R} {d' : ∀ i, Matrix (κ i) (κ (i + 1)) R}
    {F : ∀ i, Matrix (κ i) (ι i) R} {B : ∀ i, Matrix (ι i) (κ i) R} {h : ∀ i, Matrix (ι (i + 1)) (ι i) R}
    (e : IsHomotopyEquiv d d' F B h) (n : ℕ) :
    ∃ E : Hn d n ≃ₗ[R] Hn d' n,
      (E : Hn d n →ₗ[R] Hn d' n) = HnMap F e.F_comm n ∧
      (E.symm : Hn d' n →ₗ[R] Hn d n) = HnMapB B e.B_comm n :=
  ⟨e.homologyIso n, rfl, rfl⟩

/-- in particular the homology modules are isomorphic -/
theorem reduction_homology_nonempty_equiv
    {d : ∀ i, Matrix (ι i) (ι (i + 1)) R} {d' : ∀ i, Matrix (κ i) (κ (i + 1)) R}
    {F : ∀ i, Matrix (κ i) (ι i) R} {B : ∀ i, Matrix (ι i) (κ i) R} {h : ∀ i, Matrix (ι (i + 1)) (ι i) R}
    (e : IsHomotopyEquiv d d' F B h) : ∀ n, Nonempty (Hn d n ≃ₗ[R] Hn d' n) :=
  fun n => ⟨e.homologyIso n⟩

/-- two reductions in a row (`IsHomotopyEquiv.comp`): `H_n(C) ≃ H_n(C'')`, induced by `F₂ F₁` and `B₁ B₂` -/
theorem reduction_preserves_homology_comp
    {d : ∀ i, Matrix (ι i) (ι (i + 1)) R} {d' : ∀ i, Matrix (κ i) (κ (i + 1)) R}
    {d'' : ∀ i, Matrix (μ i) (μ (i + 1)) R}
    {F₁ : ∀ i, Matrix (κ i) (ι i) R} {B₁ : ∀ i, Matrix (ι i) (κ i) R}
    {F₂ : ∀ i, Matrix (μ i) (κ i) R} {B₂ : ∀ i, Matrix (κ i) (μ i) R}
    {h₁ : ∀ i, Matrix (ι (i + 1)) (ι i) R} {h₂ : ∀ i, Matrix (κ (i + 1)) (κ i) R}
    (e₁ : IsHomotopyEquiv d d' F₁ B₁ h₁) (e₂ : IsHomotopyEquiv d' d'' F₂ B₂ h₂) (n : ℕ) :
    ∃ E : Hn d n ≃ₗ[R] Hn d'' n,
      (E : Hn d n →ₗ[R] Hn d'' n) = HnMap (fun i => F₂ i * F₁ i) (e₁.comp e₂).F_comm n ∧
      (E.symm : Hn d'' n →ₗ[R] Hn d n) = HnMapB (fun i => B₁ i * B₂ i) (e₁.comp e₂).B_comm n :=
  reduction_preserves_homology (e₁.comp e₂) n

/-- a bare `IsReduction` (no homotopy: `F B = 1` only) makes `H_n(C')` a RETRACT of `H_n(C)`: `F_* ∘ B_* = 1`, so `B_*`
is injective and `F_*` surjective.  (Without the homotopy nothing more is true: `C' = 0` is a reduction of any `C`.) -/
theorem reduction_homology_retract
    {d : ∀ i, Matrix (ι i) (ι (i + 1)) R} {d' : ∀ i, Matrix (κ i) (κ (i + 1)) R}
    {F : ∀ i, Matrix (κ i) (ι i) R} {B : ∀ i, Matrix (ι i) (κ i) R}
    (r : IsReduction d d' F B) (n : ℕ) :
    HnMap F r.F_comm n ∘ₗ HnMapB B r.B_comm n = LinearMap.id ∧
    Function.Injective (HnMapB B r.B_comm n) ∧ Function.Surjective (HnMap F r.F_comm n) := by
  have hid : HnMap F r.F_comm n ∘ₗ HnMapB B r.B_comm n = LinearMap.id :=
    Hmap_comp_eq_id _ _ _ _ _ _ _ _ _ _ (0 : _ →ₗ[R] _) (0 : _ →ₗ[R] _) (by
      rw [← Matrix.toLin'_mul, r.FB, Matrix.toLin'_one, sub_self, LinearMap.comp_zero, LinearMap.zero_comp,
        add_zero])
  have hfun : ∀ y, HnMap F r.F_comm n (HnMapB B r.B_comm n y) = y := fun y => LinearMap.congr_fun hid y
  exact ⟨hid, Function.LeftInverse.injective hfun, Function.RightInverse.surjective hfun⟩

end complexes

/-! ## 4. one Schur step, directly from `schur_step_*` / `schur_homotopy_*`

`N = [x; y]` enters `C_src` (basis `r ⊕ n`), `M = [a b; c d] : C_src → C_tgt` (basis `r ⊕ m`), `L = [z w]` leaves `C_tgt`;
after the step: `y`, `S = d − c a⁻¹ b`, `w`. -/

section schur
variable {R : Type*} [CommRing R] {r m n k l : Type*}
  [Fintype r] [DecidableEq r] [Fintype m] [DecidableEq m] [Fintype n] [DecidableEq n]
  [Fintype k] [DecidableEq k] [Fintype l] [DecidableEq l]

/-- homology at `C_src`: `ker M / im N ≃ ker S / im y`, induced by `F_src`, `B_src` -/
theorem schur_step_homology_src (a ainv : Matrix r r R) (b : Matrix r n R) (c : Matrix m r R) (d : Matrix m n R)
    (x : Matrix r k R) (y : Matrix n k R) (hia : ainv * a = 1) (hai : a * ainv = 1)
    (hMN : fromBlocks a b c d * fromRows x y = 0) :
    Nonempty (HMat (fromRows x y) (fromBlocks a b c d) ≃ₗ[R] HMat y (schurS ainv b c d)) :=
  ⟨homologyIsoMat (1 : Matrix k k R) (Fsrc R r n) (Ftgt ainv c) (1 : Matrix k k R) (Bsrc ainv b) (Btgt R r m)
    (by rw [schur_step_in_F, Matrix.mul_one])
    (schur_step_F_comm a ainv b c d hia).symm
    (by rw [Matrix.mul_one]; exact (schur_step_in_B a ainv b c d x y hia hMN).symm)
    (schur_step_B_comm a ainv b c d hai)
    0 (hmt n m ainv) (by rw [schur_homotopy_src a ainv b c d hia, Matrix.mul_zero, zero_add])
    0 0 (by rw [schur_step_FB_src, sub_self, Matrix.mul_zero, Matrix.zero_mul, add_zero])⟩

/-- homology at `C_tgt`: `ker L / im M ≃ ker w / im S`, induced by `F_tgt`, `B_tgt` -/
theorem schur_step_homology_tgt (a ainv : Matrix r r R) (b : Matrix r n R) (c : Matrix m r R) (d : Matrix m n R)
    (z : Matrix l r R) (w : Matrix l m R) (hia : ainv * a = 1) (hai : a * ainv = 1)
    (hLM : fromCols z w * fromBlocks a b c d = 0) :
    Nonempty (HMat (fromBlocks a b c d) (fromCols z w) ≃ₗ[R] HMat (schurS ainv b c d) w) :=
  ⟨homologyIsoMat (Fsrc R r n) (Ftgt ainv c) (1 : Matrix l l R) (Bsrc ainv b) (Btgt R r m) (1 : Matrix l l R)
    (schur_step_F_comm a ainv b c d hia)
    (by rw [Matrix.one_mul]; exact (schur_step_out_F a ainv b c d z w hai hLM).symm)
    (schur_step_B_comm a ainv b c d hai).symm
    (by rw [schur_step_out_B, Matrix.one_mul])
    (hmt n m ainv) 0 (by rw [schur_homotopy_tgt a ainv b c d hai, Matrix.zero_mul, add_zero])
    0 0 (by rw [schur_step_FB_tgt, sub_self, Matrix.mul_zero, Matrix.zero_mul, add_zero])⟩

end schur

/-! ## the hypotheses are satisfiable by non-trivial values -/

/-- a 2-term complex `ℤ² --diag(1,2)--> ℤ²` (`H_0 = ℤ/2`) and its reduction `ℤ --2--> ℤ`: the data of one Schur step with
`a = [1]`, `b = c = 0`, as hypotheses of `homology_iso_of_homotopy_equiv_matrix` (`c = c' = Fin 0`: nothing below) -/
example : Nonempty (HMat (!![1, 0; 0, 2] : Matrix (Fin 2) (Fin 2) ℤ) (0 : Matrix (Fin 0) (Fin 2) ℤ)
    ≃ₗ[ℤ] HMat (!![2] : Matrix (Fin 1) (Fin 1) ℤ) (0 : Matrix (Fin 0) (Fin 1) ℤ)) := by
  obtain ⟨e, _⟩ := homology_iso_of_homotopy_equiv_matrix
    (dIn := (!![1, 0; 0, 2] : Matrix (Fin 2) (Fin 2) ℤ)) (dOut := (0 : Matrix (Fin 0) (Fin 2) ℤ))
    (dIn' := (!![2] : Matrix (Fin 1) (Fin 1) ℤ)) (dOut' := (0 : Matrix (Fin 0) (Fin 1) ℤ))
    (!![0, 1] : Matrix (Fin 1) (Fin 2) ℤ) (!![0, 1] : Matrix (Fin 1) (Fin 2) ℤ) (0 : Matrix (Fin 0) (Fin 0) ℤ)
    (!![0; 1] : Matrix (Fin 2) (Fin 1) ℤ) (!![0; 1] : Matrix (Fin 2) (Fin 1) ℤ) (0 : Matrix (Fin 0) (Fin 0) ℤ)
    (by decide) (by decide) (by decide) (by decide)
    (!![-1, 0; 0, 0] : Matrix (Fin 2) (Fin 2) ℤ) (0 : Matrix (Fin 2) (Fin 0) ℤ) (by decide)
    (0 : Matrix (Fin 1) (Fin 1) ℤ) (0 : Matrix (Fin 1) (Fin 0) ℤ) (by decide)
  exact ⟨e⟩

/-- … and this homology is not zero: the class of the generator of `ℤ` in `coker (2) = ℤ/2` does not vanish -/
example : (Submodule.Quotient.mk ⟨![1], by simp⟩ :
    HMat (!![2] : Matrix (Fin 1) (Fin 1) ℤ) (0 : Matrix (Fin 0) (Fin 1) ℤ)) ≠ 0 := by
  intro h
  obtain ⟨v, hv⟩ := (class_eq_zero_iff _ _ _).mp h
  have h0 := congrFun hv 0
  simp [Matrix.toLin'_apply, Matrix.mulVec, dotProduct] at h0
  omega

/-- the non-identity homotopy equivalence of the non-zero complex `Ex.dd` from `Props/C08.lean` (hypothesis of
`reduction_preserves_homology`) -/
example (n : ℕ) : Nonempty (Hn Ex.dd n
    ≃ₗ[ℤ] Hn (fun i => (Ex.σ i).permMatrix ℤ * Ex.dd i * (Ex.σ (i + 1))⁻¹.permMatrix ℤ) n) :=
  reduction_homology_nonempty_equiv (IsHomotopyEquiv.of_perm Ex.dd Ex.σ) n

/-- the Schur-step witness `Ex.a … Ex.w` of `Props/C08.lean` (`S = diag(0, 5) ≠ 0`) satisfies the hypotheses of
`schur_step_homology_src` / `_tgt` -/
example : Nonempty (HMat (fromRows Ex.x Ex.y) (fromBlocks Ex.a Ex.b Ex.c Ex.d)
    ≃ₗ[ℤ] HMat Ex.y (schurS Ex.ainv Ex.b Ex.c Ex.d)) :=
  schur_step_homology_src Ex.a Ex.ainv Ex.b Ex.c Ex.d Ex.x Ex.y (by decide) (by decide) (by decide)
example : Nonempty (HMat (fromBlocks Ex.a Ex.b Ex.c Ex.d) (fromCols Ex.z Ex.w)
    ≃ₗ[ℤ] HMat (schurS Ex.ainv Ex.b Ex.c Ex.d) Ex.w) :=
  schur_step_homology_tgt Ex.a Ex.ainv Ex.b Ex.c Ex.d Ex.z Ex.w (by decide) (by decide) (by decide)

end Yuiv.C08
