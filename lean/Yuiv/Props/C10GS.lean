import Yuiv.Proofs.C10GS
/-
C10 — `gs_bookkeeping`: in LLL mode (`setup()` called, rows independent) the fields `det` / `lambda` of `LLLData`
are, after every primitive, the integral Gram–Schmidt data of the CURRENT rows of `target`.

Property theorems only (spec definitions and helper lemmas live in `Yuiv/Proofs/C10GS.lean`).

Specification (`IsGSData m n B bs mu det lam`, `Data.Book d`): with `(bs, mu)` THE Gram–Schmidt decomposition over ℚ of
the rows `b_0 … b_{m-1}` (`IsGS`, unique by `gs_unique`), `d_0 = 1`, `d_k = ∏_{j<k} |b*_j|²` (`gsP n bs k`; equal to the
Gram determinant of `b_0 … b_{k-1}` by `gs_det_is_gram_det`), the model's indexing is
        det[i] = d_{i+1},        lambda[i][j] = d_{j+1}·μ_{ij} = det[j]·μ_{ij}   (j < i)
exactly as in `orthogonalize` / the comments of `LLLData` in `yui-matrix/src/dense/lll.rs`.
`RowsIndep m n B` := a Gram–Schmidt decomposition with non-zero `b*_i` exists (⇔ the rows are linearly independent).

All theorems are about the literal model `Yuiv/Model/C10.lean` (exact `tdiv` divisions, `Res.panic` on a zero divisor):
every division performed by `orthogonalize` and `swap` is proved EXACT (integrality of Gram determinants, via the
adjugate of the integral Gram matrix).
-/
namespace Yuiv.C10
open Yuiv Res Finset

/-! ### the specification is well posed -/

/-- the integral Gram–Schmidt data are uniquely determined by the rows (so `Data.Book` pins `det`, `lambda[i][j]`,
`j < i`, down completely) -/
theorem gs_data_unique (m n : Nat) (B : Nat → Nat → Int) (bs mu bs' mu' : Nat → Nat → ℚ)
    (det det' : Nat → Int) (lam lam' : Nat → Nat → Int)
    (h : IsGSData m n B bs mu det lam) (h' : IsGSData m n B bs' mu' det' lam') :
    (∀ i < m, det i = det' i) ∧ (∀ i < m, ∀ j < i, lam i j = lam' i j) := IsGSData.unique h h'

/-- `d_k = ∏_{j<k} |b*_j|²` is the determinant of the (integral) Gram matrix of `b_0 … b_{k-1}` -/
theorem gs_det_is_gram_det (m n : Nat) (B : Nat → Nat → Int) (bs mu : Nat → Nat → ℚ) (h : IsGS m n B bs mu)
    (k : Nat) (hk : k ≤ m) :
    (((Matrix.of fun (i j : Fin k) => ∑ c : Fin n, B i.val c.val * B j.val c.val).det : ℤ) : ℚ) = gsP n bs k :=
  h.gram_det_cast hk

/-- integrality (what makes the divisions of `orthogonalize` / `swap` exact): `d_k`, `λ_ij = d_{j+1}μ_ij` and
`d_k·(b_i − Σ_{l<k} μ_il b*_l)` (in particular `d_i·b*_i`) are integral -/
theorem gs_data_integral (m n : Nat) (B : Nat → Nat → Int) (bs mu : Nat → Nat → ℚ) (h : IsGS m n B bs mu) :
    (∀ k ≤ m, ∃ z : ℤ, (z : ℚ) = gsP n bs k) ∧
    (∀ i < m, ∀ j < i, ∃ z : ℤ, (z : ℚ) = gsP n bs (j + 1) * mu i j) ∧
    (∀ i < m, ∀ k ≤ i, ∀ c < n,
      ∃ z : ℤ, (z : ℚ) = gsP n bs k * ((B i c : ℚ) - ∑ l ∈ range k, mu i l * bs l c)) :=
  ⟨h.int_D, h.int_L, h.int_V⟩

/-! ### `orthogonalize` / `setup` -/

/-- on independent rows the model of `orthogonalize` does not panic (no zero divisor, `m > 0`) and returns exactly the
integral Gram–Schmidt data of the rows: all its `tdiv`s are exact -/
theorem orthogonalize_spec (m n : Nat) (b : Mat) (bs mu : Nat → Nat → ℚ) (hm : 0 < m)
    (h : IsGS m n (ent b) bs mu) :
    ∃ (l : Mat) (dd : Array Int), orthogonalize m n b = ok (l, dd) ∧ dd.size = m ∧
      IsGSData m n (ent b) bs mu (fun i => dd.getD i 0) (ent l) := orthogonalize_spec' m n b bs mu hm h

/-- `setup()` on independent rows returns and establishes the invariant (only `det`/`lambda` change) -/
theorem setup_bookkeeping (d : Data) (hm : 0 < d.tr.m) (hI : RowsIndep d.tr.m d.tr.n (ent d.tr.target)) :
    ∃ d', d.setup = ok d' ∧ d'.tr = d.tr ∧ d'.step = d.step ∧ d'.Book := Data.setup_book d hm hI

/-! ### the primitives: the update formulas map correct data to correct data -/

/-- `add_row_to(i, k, r)` (`i < k`), formulas: only `λ_{k,·}` changes, `λ_{k,j} += r·λ_{i,j}` (`j < i`),
`λ_{k,i} += r·d_{i+1}`; the `b*` and `det` are unchanged, `μ'_{k,j} = μ_{k,j} + r·μ_{i,j}` (`μ_{i,i} = 1`) -/
theorem add_row_to_formulas (m n : Nat) (B B' : Nat → Nat → Int) (bs mu : Nat → Nat → ℚ) (det : Nat → Int)
    (lam lam' : Nat → Nat → Int) (i k : Nat) (r : Int) (hik : i < k) (hk : k < m)
    (hD : IsGSData m n B bs mu det lam)
    (hB' : ∀ a < m, ∀ c < n, B' a c = if a = k then B a c + B i c * r else B a c)
    (hlam' : ∀ a < m, ∀ b < a, lam' a b =
      if a = k then (if b = i then lam k i + r * det i else if b < i then lam k b + r * lam i b else lam a b)
      else lam a b) :
    IsGSData m n B' bs (addMu mu i k r) det lam' :=
  addgs_data m n B B' bs mu det lam lam' i k r hik hk hD hB' hlam'

/-- `LLLData::add_row_to` keeps the invariant (and does not touch `det`) -/
theorem add_row_to_bookkeeping (d d' : Data) (i k : Nat) (r : Int) (h : d.addRowTo i k r = ok d') (hB : d.Book) :
    d'.Book ∧ i < k ∧ k < d.tr.m ∧ d'.det = d.det :=
  have f := Data.addRowTo_facts d d' i k r h
  ⟨Data.addRowTo_book d d' i k r h hB, f.1, f.2.1, f.2.2.1⟩

/-- `mul_row(i, u)` for a unit `u` (`u² = 1` over ℤ), formulas: row `i` and column `i` of `λ` are multiplied by `u`;
`b*_i ↦ u·b*_i`, `det` unchanged -/
theorem mul_row_formulas (m n : Nat) (B B' : Nat → Nat → Int) (bs mu : Nat → Nat → ℚ) (det : Nat → Int)
    (lam lam' : Nat → Nat → Int) (i : Nat) (u : Int) (hu : u * u = 1)
    (hD : IsGSData m n B bs mu det lam)
    (hB' : ∀ a < m, ∀ c < n, B' a c = if a = i then B a c * u else B a c)
    (hlam' : ∀ a < m, ∀ b < a, lam' a b =
      if b = i then (if a = i then lam a b * u else lam a b) * u else (if a = i then lam a b * u else lam a b)) :
    IsGSData m n B' (mulBs bs i u) (mulMu mu i u) det lam' :=
  mulgs_data m n B B' bs mu det lam lam' i u hu hD hB' hlam'

/-- `LLLData::mul_row` keeps the invariant -/
theorem mul_row_bookkeeping (d d' : Data) (i : Nat) (u : Int) (h : d.mulRow i u = ok d') (hB : d.Book) :
    d'.Book := Data.mulRow_book d d' i u h hB

/-- the classical integral LLL swap formulas (`k = p+1`, rows `p` and `p+1` exchanged; `d0 = d_p`, `det[p] = d_{p+1}`,
`det[p+1] = d_{p+2}`), with the truncating divisions of the code — all three are exact:
  new `det[p] = (d0·det[p+1] + λ_{k,p}²) / det[p]`;
  for `i > k`: new `λ_{i,p} = (λ_{k,p}·λ_{i,p} + λ_{i,k}·d0) / det[p]`, new `λ_{i,k} = (λ_{i,p}·det[k] − λ_{i,k}·λ_{k,p}) / det[p]`;
  rows `p`, `k` of `λ` exchanged on the columns `< p`; `λ_{k,p}` and everything else unchanged.
They map the integral Gram–Schmidt data of the old rows to those of the swapped rows (whose Gram–Schmidt
decomposition is `swapgs_bs`, `swapgs_mu`). -/
theorem swap_formulas (m n : Nat) (B : Nat → Nat → Int) (bs mu : Nat → Nat → ℚ) (det : Nat → Int)
    (lam : Nat → Nat → Int) (hD : IsGSData m n B bs mu det lam) (p : Nat) (hp : p + 1 < m)
    (d0 : Int) (hd0 : (d0 : ℚ) = gsP n bs p) (det' : Nat → Int) (lam' : Nat → Nat → Int)
    (hdet' : ∀ i < m, det' i =
      if i = p then (d0 * det (p + 1) + lam (p + 1) p * lam (p + 1) p).tdiv (det p) else det i)
    (hlam' : ∀ i < m, ∀ j < i, lam' i j =
      if p + 1 < i then
        (if j = p then (lam (p + 1) p * lam i p + lam i (p + 1) * d0).tdiv (det p)
         else if j = p + 1 then (lam i p * det (p + 1) - lam i (p + 1) * lam (p + 1) p).tdiv (det p)
         else lam i j)
      else if j < p then lam (if i = p then p + 1 else if i = p + 1 then p else i) j else lam i j) :
    IsGSData m n (fun r c => B (if r = p then p + 1 else if r = p + 1 then p else r) c)
      (swapgs_bs n bs mu p) (swapgs_mu n bs mu p) det' lam' :=
  swapgs_data hD hp d0 hd0 det' lam' hdet' hlam'

/-- `LLLData::swap(k)` keeps the invariant: its `det`/`lambda` are the data of the rows with `k-1`, `k` exchanged -/
theorem swap_bookkeeping (d d' : Data) (k : Nat) (h : d.swap k = ok d') (hB : d.Book) : d'.Book :=
  Data.swap_book d d' k h hB

/-- `LLLData::reduce(i, k)` keeps the invariant and size-reduces: `|μ_{k,i}| ≤ 1/2` for the new rows -/
theorem reduce_bookkeeping (d d' : Data) (i k : Nat) (h : d.reduce i k = ok d') (hB : d.Book) :
    d'.Book ∧
    ∃ bs mu : Nat → Nat → ℚ,
      IsGSData d'.tr.m d'.tr.n (ent d'.tr.target) bs mu (fun i => d'.det.getD i 0) (ent d'.lam) ∧
      |mu k i| ≤ 1 / 2 :=
  ⟨Data.reduce_book d d' i k h hB, Data.reduce_size d d' i k h hB⟩

/-- under the invariant `lovasz_ok(k)` decides the Lovász condition (α = 3/4) of the current rows -/
theorem lovasz_ok_spec (d : Data) (k : Nat) (b : Bool) (h : d.lovaszOk k = ok b) (hsz : d.det.size = d.tr.m)
    (bs mu : Nat → Nat → ℚ)
    (hD : IsGSData d.tr.m d.tr.n (ent d.tr.target) bs mu (fun i => d.det.getD i 0) (ent d.lam)) :
    0 < k ∧ k < d.tr.m ∧
      (b = true ↔ ((3 : ℚ) / 4 - mu k (k - 1) ^ 2) * nrm d.tr.n bs (k - 1) ≤ nrm d.tr.n bs k) :=
  Data.lovaszOk_book d k b h hsz bs mu hD

/-! ### `gs_bookkeeping` -/

/-- one iteration of `LLLCalc` keeps the invariant -/
theorem lll_iterate_bookkeeping (d d' : Data) (h : lllIterate d = ok d') (hB : d.Book) : d'.Book :=
  lllIterate_book d d' h hB

/-- ANY sequence of the state-changing methods of `LLLData` (`reduce`, `add_row_to`, `swap`, `mul_row`, `next`,
`back`) that returns keeps the invariant -/
theorem gs_bookkeeping_run (ops : List DOp) (d d' : Data) (h : d.runOps ops = ok d') (hB : d.Book) : d'.Book :=
  Data.runOps_book ops d d' h hB

/-- … in particular from `setup()` on independent rows -/
theorem gs_bookkeeping_from_setup (m n : Nat) (A : Mat) (hI : RowsIndep m n (ent A)) (ops : List DOp)
    (d0 d : Data) (h0 : (Data.new m n A).setup = ok d0) (h : d0.runOps ops = ok d) : d.Book :=
  Data.runOps_book ops d0 d h (Data.setup_book' _ d0 h0 hI.init)

/-- `gs_bookkeeping` for the LLL routine: whatever `lll` (model, any fuel) returns on independent rows carries the
integral Gram–Schmidt data of its final rows (and so does every intermediate state: `lll_iterate_bookkeeping`) -/
theorem gs_bookkeeping (fuel m n : Nat) (A : Mat) (d : Data) (hI : RowsIndep m n (ent A))
    (h : lll fuel m n A = ok d) : d.Book := lll_book fuel m n A d hI h

/-! ### the hypotheses are satisfiable by non-trivial values -/

/-- an independent (here: LLL-reduced, certified by the verified checker) 3×3 input -/
example : RowsIndep 3 3 (ent #[#[0, 1, -1], #[1, 0, -1], #[1, 1, 1]]) := by
  have h := reducedWith_sound 3 3 #[#[0, 1, -1], #[1, 0, -1], #[1, 1, 1]] 3 4
    (gramSchmidt 3 3 #[#[0, 1, -1], #[1, 0, -1], #[1, 1, 1]]).1
    (gramSchmidt 3 3 #[#[0, 1, -1], #[1, 0, -1], #[1, 1, 1]]).2 (by decide +kernel)
  exact ⟨_, _, h.1⟩

/-- … on which `setup` followed by a `swap`, a `reduce` and an `add_row_to` returns -/
example : ((Data.new 3 3 #[#[0, 1, -1], #[1, 0, -1], #[1, 1, 1]]).setup >>= fun d =>
    d.runOps [.swap 2, .reduce 1 2, .add 0 2 3, .swap 1, .mul 1 (-1), .reduce 0 1]).isOk = true := by decide +kernel

example : (lll 100 3 3 #[#[1, -1, 3], #[1, 0, 5], #[1, 2, 6]]).isOk = true := by decide +kernel

end Yuiv.C10
