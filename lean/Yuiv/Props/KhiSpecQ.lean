import Yuiv.Proofs.KhiSpecQMain
import Yuiv.Proofs.KhiSpecSortZ
import Yuiv.Props.KhiSpec
/-
KhiSpecQ — END-TO-END STATEMENT ABOUT `C19.khiHomology`, BIGRADED CASE (`bigraded = true`, `h = t = 0`).

Under `khiInstanceOk l p` with `p.h = 0`, `p.t = 0` (unreduced or reduced):
`khiHomology l signs p true = .ok ⟨cells⟩` — never `malformed`, never `notComplex` — and `cells` is exactly, for the quantum
degrees `q` in the order `qList` (the model's `Array.qsort` of the distinct quantum degrees of the cone generators) and the
positions `i = 0..n+1`, the list of `(−n₋ + i, some q, dim_{i,q})` with `dim_{i,q} ≠ 0`, where
    `dim_{i,q} = #gens_{i,q} − rank D_{i,q} − rank D_{i−1,q}`   (`coneDimQ`),
`gens_{i,q}` = the cone generators `B g` (weight `i`) and `Q g` (weight `i − 1`) whose cube generator `g` has quantum degree
`Cube.qDeg q0 g = q` — the model grades `B g` and `Q g` BOTH by the quantum degree of `g`, with ONE shift
`q0 = n₊ − 2n₋ (+1 if reduced)`, there is no extra shift between the two summands — and `D_{i,q} = DmG ic p (sliceQ …) i` the
matrix over `ZMod 2` of the cone differential between these slices.  For every `q`: `D_{i,q} · D_{i+1,q} = 0` and
`dim_{j+1,q} = dim ker D_{j+1,q}ᵀ / im D_{j,q}ᵀ`.
Ingredients: `khi_dI_preserves_qdeg` (`Cube.d` preserves the quantum degree for `h = t = 0`: `Proofs/KhSpecQDeg.qDeg_preserved`
on the cube without base point, of which the reduced differential is a sub-list; τ: `Props/C19Inv.icube_tau_qdeg`), so the
`notComplex` exit of the `q`-loop never fires and every slice is closed under `dI`; the machinery of `Props/KhiSpec` for an
arbitrary closed family (`Proofs/KhiSpecFam`).
`qList` consists exactly of the quantum degrees of the generators, in STRICTLY INCREASING order (`khi_qList_spec`,
`khi_qList_sorted`: core `Array.qsort` sorts for integer keys — `Proofs/KhiSpecSortZ`, a copy of `Proofs/KhSpecSort` with
integer keys).
-/
namespace Yuiv.KhiSpec
open Yuiv Yuiv.KhRef Yuiv.C19 Yuiv.C06Cycle Yuiv.C19Inv Yuiv.C19Comm Yuiv.C19Cone Matrix

/-- for `h = t = 0` the cone differential preserves the quantum degree of the underlying cube generator
(`D(Bg) = B dg + Qg + Qτg`, `D(Qg) = Q dg`: `d` and `τ` preserve `qDeg`) -/
theorem khi_dI_preserves_qdeg (l : InvLink) (p : Params) (hh : p.h = 0) (ht : p.t = 0) (ic : ICube)
    (hic : mkICube l p = some ic) (hok : khiInstanceOk l p = true) (q0 : Int) (i : Nat) (hi : i < ic.cube.n + 2)
    (x : IGen) (hx : x ∈ cgens ic i) (y : IGen) (hy : y ∈ dI ic p x) :
    ic.cube.qDeg q0 y.2 = ic.cube.qDeg q0 x.2 ∧ y ∈ cgens ic (i + 1) := by
  have G : GensOk ic p := gensOk_of_closed ic p (fun i hi =>
    closed_of_instanceOk l p ic hic hok i (by rw [coneGens_size] at hi; exact hi))
  exact ⟨dI_qdeg l p hh ht ic hic hok G q0 i x hx y hy, closed_of_instanceOk l p ic hic hok i hi x hx y hy⟩

/-- the quantum degrees of the output: each quantum degree of a cone generator, once -/
theorem khi_qList_spec (ic : ICube) (q0 : Int) :
    (qList ic q0).Nodup ∧ ∀ q, q ∈ qList ic q0 ↔ ∃ i x, x ∈ cgens ic i ∧ ic.cube.qDeg q0 x.2 = q := by
  obtain ⟨h1, h2⟩ := qsSorted_spec ic.cube q0 (coneGens ic.cube (kgensOf ic.cube))
  refine ⟨h1, fun q => ?_⟩
  unfold qList
  rw [Array.mem_toList_iff, h2 q]
  constructor
  · rintro ⟨gs, hgs, x, hx, e⟩
    obtain ⟨i, hi, rfl⟩ := Array.mem_iff_getElem.1 hgs
    exact ⟨i, x, by unfold cgens; rw [getElem!_pos _ i hi]; exact hx, e⟩
  · rintro ⟨i, x, hx, e⟩
    unfold cgens at hx
    by_cases hi : i < (coneGens ic.cube (kgensOf ic.cube)).size
    · rw [getElem!_pos _ i hi] at hx
      exact ⟨_, Array.getElem_mem hi, x, hx, e⟩
    · rw [getElem!_neg _ i hi] at hx
      exact absurd hx (Array.not_mem_empty x)

/-- the quantum degrees are listed in strictly increasing order (`Array.qsort` sorts) -/
theorem khi_qList_sorted (ic : ICube) (q0 : Int) : (qList ic q0).Pairwise (fun a b => a < b) := by
  have h1 : (qList ic q0).Pairwise (fun a b => a ≤ b) := by
    have := SortZ.qsort_sorted_key (fun x : Int => x) (qsOf ic.cube q0 (coneGens ic.cube (kgensOf ic.cube)))
    exact this
  have h2 := (khi_qList_spec ic q0).1
  rw [List.Nodup] at h2
  exact (h1.and h2).imp (fun {a b} h => by omega)

/-- THE END-TO-END STATEMENT, BIGRADED (`h = t = 0`), under `khiInstanceOk` alone -/
theorem khi_homology_bigraded_of_instanceOk (l : InvLink) (signs : Array Int) (p : Params) (hh : p.h = 0)
    (ht : p.t = 0) (h : khiInstanceOk l p = true) :
    ∃ ic, mkICube l p = some ic ∧
      khiHomology l signs p true = Except.ok { cells :=
        ((qList ic (q0Of signs p)).flatMap (fun q => (List.range (ic.cube.n + 2)).filterMap (fun (i : Nat) =>
          if coneDimQ ic p (q0Of signs p) q i ≠ 0 then
            some (-((signs.filter (· < 0)).size : Int) + (i : Int), some q, coneDimQ ic p (q0Of signs p) q i)
          else none))).toArray } ∧
      ∀ q : Int,
        (∀ (i : Nat) (x : IGen), x ∈ (sliceQ ic (q0Of signs p) q)[i]! ↔
          x ∈ cgens ic i ∧ ic.cube.qDeg (q0Of signs p) x.2 = q) ∧
        (∀ i, i < ic.cube.n + 2 →
          DmG ic p (sliceQ ic (q0Of signs p) q) i * DmG ic p (sliceQ ic (q0Of signs p) q) (i + 1) = 0) ∧
        (∀ j, j < ic.cube.n + 2 →
          Module.finrank (ZMod 2) (C03Uct.Homology (DmG ic p (sliceQ ic (q0Of signs p) q) j)ᵀ
            (DmG ic p (sliceQ ic (q0Of signs p) q) (j + 1))ᵀ) = coneDimQ ic p (q0Of signs p) q (j + 1)) := by
  obtain ⟨_, _, _, _, ic, hic, _, _⟩ := khi_instance_ok_meaning l p h
  have G : GensOk ic p := gensOk_of_closed ic p (fun i hi =>
    closed_of_instanceOk l p ic hic h i (by rw [coneGens_size] at hi; exact hi))
  refine ⟨ic, hic, khi_bigraded_eq l signs p hh ht ic hic h G, fun q => ?_⟩
  have F := fam_sliceQ l p hh ht ic hic h G (q0Of signs p) q
  refine ⟨fun i x => mem_sliceQ ic _ q i x, ?_, ?_⟩
  · intro i hi
    exact DmG_mul ic p _ F i (by rw [sliceQ_size]; exact hi)
  · intro j hj
    rw [homology_dimG ic p _ F j (by rw [sliceQ_size]; exact hj)]
    unfold coneDimQ
    simp
    omega

/-- in membership form: a cell is reported iff it is `(−n₋ + k, some q, dim_{k,q})` for a quantum degree `q` of some
generator and a position `k ≤ n + 1` with `dim_{k,q} ≠ 0` -/
theorem khi_homology_bigraded_cells (l : InvLink) (signs : Array Int) (p : Params) (hh : p.h = 0) (ht : p.t = 0)
    (h : khiInstanceOk l p = true) :
    ∃ ic res, mkICube l p = some ic ∧ khiHomology l signs p true = Except.ok res ∧
      ∀ cell, cell ∈ res.cells ↔ ∃ q ∈ qList ic (q0Of signs p), ∃ k, k < ic.cube.n + 2 ∧
        coneDimQ ic p (q0Of signs p) q k ≠ 0 ∧
        cell = (-((signs.filter (· < 0)).size : Int) + (k : Int), some q, coneDimQ ic p (q0Of signs p) q k) := by
  obtain ⟨ic, hic, he, _⟩ := khi_homology_bigraded_of_instanceOk l signs p hh ht h
  refine ⟨ic, _, hic, he, ?_⟩
  intro cell
  simp only [List.mem_toArray, List.mem_flatMap, List.mem_filterMap, List.mem_range]
  constructor
  · rintro ⟨q, hq, k, hk, e⟩
    split at e
    · rename_i hne
      exact ⟨q, hq, k, hk, hne, (Option.some.inj e).symm⟩
    · cases e
  · rintro ⟨q, hq, k, hk, hne, rfl⟩
    exact ⟨q, hq, k, hk, by rw [if_pos hne]⟩

/-! ### non-vacuity: the strongly invertible trefoil, `h = t = 0` -/

/-- unreduced and reduced: the hypotheses hold and `khiHomology … true` succeeds.  Evaluated (`#eval`, signs `−,−,−`):
unreduced `(i,q):dim` = `(-3,-8):1 (-2,-8):1 (-3,-6):1 (-2,-6):1 (-1,-4):1 (0,-4):1 (-1,-2):1 (0,-2):2 (1,-2):1 (0,0):1 (1,0):1`,
reduced `(-3,-7):1 (-2,-7):1 (-1,-3):1 (0,-3):1 (0,-1):1 (1,-1):1` -/
example (signs : Array Int) :
    (∃ res, khiHomology tref signs ⟨0, 0, false⟩ true = Except.ok res) ∧
    (∃ res, khiHomology tref signs ⟨0, 0, true⟩ true = Except.ok res) := by
  obtain ⟨_, _, e1, _⟩ := khi_homology_bigraded_of_instanceOk tref signs ⟨0, 0, false⟩ rfl rfl (tref_ok_unreduced 0 0)
  obtain ⟨_, _, e2, _⟩ := khi_homology_bigraded_of_instanceOk tref signs ⟨0, 0, true⟩ rfl rfl (tref_ok_reduced 0)
  exact ⟨⟨_, e1⟩, ⟨_, e2⟩⟩

end Yuiv.KhiSpec
