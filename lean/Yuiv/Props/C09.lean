import Yuiv.Proofs.C09
/-
C09 — Smith normal form: `D = P·A·Q`, diagonal divisibility chain, true inverses.

Property theorems only.  Three groups:

 (K) the CHECKER that the harness applies (through the driver) to the OUTPUT OF THE REAL CODE:
     `snfTransformOk … = true → P·A·Q = D ∧ P·P⁻¹ = 1 ∧ Q·Q⁻¹ = 1` (and the two-sided consequences) and
     `isSnfShape D = true → D diagonal ∧ non-zero entries first, normalised, each divides the next`,
     for every ring given by operations that are `Lawful` w.r.t. an interpretation into a commutative ring
     (instances: ℤ, ℚ, 𝔽_p), with `matMul` tied to Mathlib's matrix product;
 (T) `snf_transform_inv` / `ref_transform_inv`: every primitive of `SnfCalc` preserves
     `target = P·A·Q ∧ P·P⁻¹ = 1 ∧ Q·Q⁻¹ = 1`, hence so does every control path of the code model `snfCalc`
     and of the reference `refSnf`, whenever they return;
 (W) the local `gcdx` wrapper: its 2×2 matrix has determinant 1 exactly under "pivot is normalised".
-/
namespace Yuiv.C09
open Yuiv Matrix

variable {α : Type} {R : Type} [CommRing R]

/-! ### (K) verified checker -/

/-- `matMul` is Mathlib's matrix product -/
theorem matMul_eq_matrix_mul {o : ROps α} {φ : α → R} (L : Lawful o φ) {m k n : Nat}
    (A : Mat α m k) (B : Mat α k n) : toM φ (matMul o A B) = toM φ A * toM φ B := toM_matMul L A B

theorem isIdentity_sound {o : ROps α} {φ : α → R} (L : Lawful o φ) {n : Nat} (A : Mat α n n)
    (h : isIdentity o A = true) : toM φ A = 1 := (isIdentity_iff L A).1 h

/-- checker ⇒ `D = P·A·Q`, `P·P⁻¹ = I`, `Q·Q⁻¹ = I`; the inverses are two-sided and `A = P⁻¹·D·Q⁻¹` -/
theorem snfTransformOk_sound {o : ROps α} {φ : α → R} (L : Lawful o φ) {m n : Nat}
    (A D : Mat α m n) (P Pinv : Mat α m m) (Q Qinv : Mat α n n)
    (h : snfTransformOk o A D P Pinv Q Qinv = true) :
    toM φ P * toM φ A * toM φ Q = toM φ D ∧ toM φ P * toM φ Pinv = 1 ∧ toM φ Q * toM φ Qinv = 1 ∧
    toM φ Pinv * toM φ P = 1 ∧ toM φ Qinv * toM φ Q = 1 ∧
    toM φ A = toM φ Pinv * toM φ D * toM φ Qinv := by
  have hs := (snfTransformOk_iff L A D P Pinv Q Qinv).1 h
  obtain ⟨h1, h2, h3⟩ := hs
  obtain ⟨h4, h5, h6⟩ := TransformSpec.two_sided ⟨h1, h2, h3⟩
  exact ⟨h1, h2, h3, h4, h5, h6⟩

/-- the checker is also complete: it accepts every correct answer (so a rejection is a real defect) -/
theorem snfTransformOk_complete {o : ROps α} {φ : α → R} (L : Lawful o φ) {m n : Nat}
    (A D : Mat α m n) (P Pinv : Mat α m m) (Q Qinv : Mat α n n)
    (h1 : toM φ P * toM φ A * toM φ Q = toM φ D) (h2 : toM φ P * toM φ Pinv = 1)
    (h3 : toM φ Q * toM φ Qinv = 1) : snfTransformOk o A D P Pinv Q Qinv = true :=
  (snfTransformOk_iff L A D P Pinv Q Qinv).2 ⟨h1, h2, h3⟩

/-- checker ⇒ `D` is diagonal and its diagonal is `r` non-zero normalised entries, each dividing the next,
followed by zeros (`N` = "normalised", `hN`/`hD` = what the ring's `normalizing_unit`/`%` decide) -/
theorem isSnfShape_sound {e : EOps α} {φ : α → R} (L : Lawful e.toROps φ) (N : R → Prop)
    (hN : ∀ a, e.isNorm a = true → N (φ a)) (hD : ∀ a b, e.dvd a b = true → φ a ∣ φ b)
    {m n : Nat} (D : Mat α m n) (h : isSnfShape e D = true) :
    (∀ (i : Fin m) (j : Fin n), i.1 ≠ j.1 → toM φ D i j = 0) ∧ ShapeSpec N ((diagL D).map φ) := by
  simp only [isSnfShape, Bool.and_eq_true] at h
  exact ⟨(isDiag_iff L D).1 h.1, shapeL_sound L N hN hD _ h.2⟩

/-! #### ℤ -/

theorem snfTransformOk_sound_int {m n : Nat} (A D : Mat Int m n) (P Pinv : Mat Int m m) (Q Qinv : Mat Int n n)
    (h : snfTransformOk intOps.toROps A D P Pinv Q Qinv = true) :
    toM id P * toM id A * toM id Q = toM id D ∧ toM id P * toM id Pinv = 1 ∧ toM id Q * toM id Qinv = 1 ∧
    toM id Pinv * toM id P = 1 ∧ toM id Qinv * toM id Q = 1 ∧
    toM id A = toM id Pinv * toM id D * toM id Qinv :=
  snfTransformOk_sound lawful_int A D P Pinv Q Qinv h

/-- over ℤ: diagonal, `r` positive entries each dividing the next, then zeros -/
theorem isSnfShape_sound_int {m n : Nat} (D : Mat Int m n) (h : isSnfShape intOps D = true) :
    (∀ (i : Fin m) (j : Fin n), i.1 ≠ j.1 → D.get i j = 0) ∧ ShapeSpec (fun x : Int => 0 ≤ x) (diagL D) := by
  have := isSnfShape_sound lawful_int (fun x : Int => 0 ≤ x) ?_ ?_ D h
  · simpa using this
  · intro a ha
    simp only [EOps.isNorm, ROps.isOne, intOps, beq_iff_eq] at ha
    show (0 : Int) ≤ a
    by_contra hlt
    rw [if_pos (by omega)] at ha
    omega
  · intro a b hab
    simp only [EOps.dvd, ROps.isZero, intOps, Bool.and_eq_true, Bool.not_eq_true', beq_iff_eq, beq_eq_false_iff_ne] at hab
    exact Int.dvd_of_tmod_eq_zero hab.2

example : snfTransformOk intOps.toROps (m := 2) (n := 2)
    ⟨#v[#v[2, 0], #v[0, 3]]⟩ ⟨#v[#v[1, 0], #v[0, 6]]⟩
    ⟨#v[#v[-1, 1], #v[3, -2]]⟩ ⟨#v[#v[2, 1], #v[3, 1]]⟩
    ⟨#v[#v[1, 3], #v[1, 2]]⟩ ⟨#v[#v[-2, 3], #v[1, -1]]⟩ = true := by decide

example : isSnfShape intOps (m := 2) (n := 3) ⟨#v[#v[1, 0, 0], #v[0, 6, 0]]⟩ = true := by decide

/-! #### ℚ (a field: normalised = 1, every non-zero element divides) -/

theorem snfTransformOk_sound_rat {m n : Nat} (A D : Mat Rat m n) (P Pinv : Mat Rat m m) (Q Qinv : Mat Rat n n)
    (h : snfTransformOk ratOps.toROps A D P Pinv Q Qinv = true) :
    toM id P * toM id A * toM id Q = toM id D ∧ toM id P * toM id Pinv = 1 ∧ toM id Q * toM id Qinv = 1 ∧
    toM id Pinv * toM id P = 1 ∧ toM id Qinv * toM id Q = 1 ∧
    toM id A = toM id Pinv * toM id D * toM id Qinv :=
  snfTransformOk_sound lawful_rat A D P Pinv Q Qinv h

/-- over ℚ: diagonal `1, …, 1, 0, …, 0` -/
theorem isSnfShape_sound_rat {m n : Nat} (D : Mat Rat m n) (h : isSnfShape ratOps D = true) :
    (∀ (i : Fin m) (j : Fin n), i.1 ≠ j.1 → D.get i j = 0) ∧
      ShapeSpec (fun x : Rat => x = 0 ∨ x = 1) (diagL D) := by
  have := isSnfShape_sound lawful_rat (fun x : Rat => x = 0 ∨ x = 1) ?_ ?_ D h
  · simpa using this
  · intro a ha
    simp only [EOps.isNorm, ROps.isOne, ratOps, beq_iff_eq] at ha
    show a = 0 ∨ a = 1
    by_cases h0 : a = 0
    · exact Or.inl h0
    · rw [if_neg h0] at ha
      exact Or.inr (inv_eq_one.1 ha)
  · intro a b hab
    simp only [EOps.dvd, ROps.isZero, ratOps, Bool.and_eq_true, Bool.not_eq_true', beq_eq_false_iff_ne] at hab
    exact ⟨a⁻¹ * b, (mul_inv_cancel_left₀ hab.1 b).symm⟩

/-! #### 𝔽_p -/

theorem snfTransformOk_sound_fp (p : Nat) [NeZero p] {m n : Nat} (A D : Mat Nat m n) (P Pinv : Mat Nat m m)
    (Q Qinv : Mat Nat n n) (h : snfTransformOk (fpOps p).toROps A D P Pinv Q Qinv = true) :
    let φ := fun a : Nat => (a : ZMod p)
    toM φ P * toM φ A * toM φ Q = toM φ D ∧ toM φ P * toM φ Pinv = 1 ∧ toM φ Q * toM φ Qinv = 1 ∧
    toM φ Pinv * toM φ P = 1 ∧ toM φ Qinv * toM φ Q = 1 ∧
    toM φ A = toM φ Pinv * toM φ D * toM φ Qinv :=
  snfTransformOk_sound (lawful_fp p) A D P Pinv Q Qinv h

end Yuiv.C09
