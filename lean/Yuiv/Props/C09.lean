import Yuiv.Proofs.C09Inv
import Yuiv.Proofs.C09Rel
import Yuiv.Proofs.C09Shape
import Mathlib.Algebra.Field.ZMod
/-
C09 — Smith normal form: `D = P·A·Q`, diagonal divisibility chain, true inverses.

Property theorems only.  Three groups:

 (K) the CHECKER that the harness applies (through the driver) to the OUTPUT OF THE REAL CODE:
     `snfTransformOk … = true → P·A·Q = D ∧ P·P⁻¹ = 1 ∧ Q·Q⁻¹ = 1` (and the two-sided consequences) and
     `isSnfShape D = true → D diagonal ∧ non-zero entries first, normalised, each divides the next`,
     for every ring given by operations that are `Lawful` w.r.t. an interpretation into a commutative ring
     (instances: ℤ, ℚ, 𝔽_p), with `matMul` tied to Mathlib's matrix product;
 (T) `snf_transform_inv` / `ref_transform_inv`: every primitive of `SnfCalc` preserves
     `target = P·A·Q ∧ P·P⁻¹ = 1 ∧ Q·Q⁻¹ = 1`, hence so does every control path of the code model `snfCalc`
     and of the reference `refSnf`, whenever they return;
 (W) the local `gcdx` wrapper: its 2×2 matrix has determinant 1 exactly under "pivot is normalised".
-/
namespace Yuiv.C09
open Yuiv Matrix

variable {α : Type} {R : Type} [CommRing R]

/-! ### (K) verified checker -/

/-- `matMul` is Mathlib's matrix product -/
theorem matMul_eq_matrix_mul {o : ROps α} {φ : α → R} (L : Lawful o φ) {m k n : Nat}
    (A : Mat α m k) (B : Mat α k n) : toM φ (matMul o A B) = toM φ A * toM φ B := toM_matMul L A B

theorem isIdentity_sound {o : ROps α} {φ : α → R} (L : Lawful o φ) {n : Nat} (A : Mat α n n)
    (h : isIdentity o A = true) : toM φ A = 1 := (isIdentity_iff L A).1 h

/-- checker ⇒ `D = P·A·Q`, `P·P⁻¹ = I`, `Q·Q⁻¹ = I`; the inverses are two-sided and `A = P⁻¹·D·Q⁻¹` -/
theorem snfTransformOk_sound {o : ROps α} {φ : α → R} (L : Lawful o φ) {m n : Nat}
    (A D : Mat α m n) (P Pinv : Mat α m m) (Q Qinv : Mat α n n)
    (h : snfTransformOk o A D P Pinv Q Qinv = true) :
    toM φ P * toM φ A * toM φ Q = toM φ D ∧ toM φ P * toM φ Pinv = 1 ∧ toM φ Q * toM φ Qinv = 1 ∧
    toM φ Pinv * toM φ P = 1 ∧ toM φ Qinv * toM φ Q = 1 ∧
    toM φ A = toM φ Pinv * toM φ D * toM φ Qinv := by
  have hs := (snfTransformOk_iff L A D P Pinv Q Qinv).1 h
  obtain ⟨h1, h2, h3⟩ := hs
  obtain ⟨h4, h5, h6⟩ := TransformSpec.two_sided ⟨h1, h2, h3⟩
  exact ⟨h1, h2, h3, h4, h5, h6⟩

/-- the checker is also complete: it accepts every correct answer (so a rejection is a real defect) -/
theorem snfTransformOk_complete {o : ROps α} {φ : α → R} (L : Lawful o φ) {m n : Nat}
    (A D : Mat α m n) (P Pinv : Mat α m m) (Q Qinv : Mat α n n)
    (h1 : toM φ P * toM φ A * toM φ Q = toM φ D) (h2 : toM φ P * toM φ Pinv = 1)
    (h3 : toM φ Q * toM φ Qinv = 1) : snfTransformOk o A D P Pinv Q Qinv = true :=
  (snfTransformOk_iff L A D P Pinv Q Qinv).2 ⟨h1, h2, h3⟩

/-- checker ⇒ `D` is diagonal and its diagonal is `r` non-zero normalised entries, each dividing the next,
followed by zeros (`N` = "normalised", `hN`/`hD` = what the ring's `normalizing_unit`/`%` decide) -/
theorem isSnfShape_sound {e : EOps α} {φ : α → R} (L : Lawful e.toROps φ) (N : R → Prop)
    (hN : ∀ a, e.isNorm a = true → N (φ a)) (hD : ∀ a b, e.dvd a b = true → φ a ∣ φ b)
    {m n : Nat} (D : Mat α m n) (h : isSnfShape e D = true) :
    (∀ (i : Fin m) (j : Fin n), i.1 ≠ j.1 → toM φ D i j = 0) ∧ ShapeSpec N ((diagL D).map φ) := by
  simp only [isSnfShape, Bool.and_eq_true] at h
  exact ⟨(isDiag_iff L D).1 h.1, shapeL_sound L N hN hD _ h.2⟩

/-! #### ℤ -/

theorem snfTransformOk_sound_int {m n : Nat} (A D : Mat Int m n) (P Pinv : Mat Int m m) (Q Qinv : Mat Int n n)
    (h : snfTransformOk intOps.toROps A D P Pinv Q Qinv = true) :
    toM id P * toM id A * toM id Q = toM id D ∧ toM id P * toM id Pinv = 1 ∧ toM id Q * toM id Qinv = 1 ∧
    toM id Pinv * toM id P = 1 ∧ toM id Qinv * toM id Q = 1 ∧
    toM id A = toM id Pinv * toM id D * toM id Qinv :=
  snfTransformOk_sound lawful_int A D P Pinv Q Qinv h

/-- over ℤ: diagonal, `r` positive entries each dividing the next, then zeros -/
theorem isSnfShape_sound_int {m n : Nat} (D : Mat Int m n) (h : isSnfShape intOps D = true) :
    (∀ (i : Fin m) (j : Fin n), i.1 ≠ j.1 → D.get i j = 0) ∧ ShapeSpec (fun x : Int => 0 ≤ x) (diagL D) := by
  have := isSnfShape_sound lawful_int (fun x : Int => 0 ≤ x) ?_ ?_ D h
  · simpa using this
  · intro a ha
    simp only [EOps.isNorm, ROps.isOne, intOps, beq_iff_eq] at ha
    show (0 : Int) ≤ a
    by_contra hlt
    rw [if_pos (by omega)] at ha
    omega
  · intro a b hab
    simp only [EOps.dvd, ROps.isZero, intOps, Bool.and_eq_true, Bool.not_eq_true', beq_iff_eq, beq_eq_false_iff_ne] at hab
    exact Int.dvd_of_tmod_eq_zero hab.2

example : snfTransformOk intOps.toROps (m := 2) (n := 2)
    ⟨#v[#v[2, 0], #v[0, 3]]⟩ ⟨#v[#v[1, 0], #v[0, 6]]⟩
    ⟨#v[#v[-1, 1], #v[3, -2]]⟩ ⟨#v[#v[2, 1], #v[3, 1]]⟩
    ⟨#v[#v[1, 3], #v[1, 2]]⟩ ⟨#v[#v[-2, 3], #v[1, -1]]⟩ = true := by decide

example : isSnfShape intOps (m := 2) (n := 3) ⟨#v[#v[1, 0, 0], #v[0, 6, 0]]⟩ = true := by decide

/-! #### ℚ (a field: normalised = 1, every non-zero element divides) -/

theorem snfTransformOk_sound_rat {m n : Nat} (A D : Mat Rat m n) (P Pinv : Mat Rat m m) (Q Qinv : Mat Rat n n)
    (h : snfTransformOk ratOps.toROps A D P Pinv Q Qinv = true) :
    toM id P * toM id A * toM id Q = toM id D ∧ toM id P * toM id Pinv = 1 ∧ toM id Q * toM id Qinv = 1 ∧
    toM id Pinv * toM id P = 1 ∧ toM id Qinv * toM id Q = 1 ∧
    toM id A = toM id Pinv * toM id D * toM id Qinv :=
  snfTransformOk_sound lawful_rat A D P Pinv Q Qinv h

/-- over ℚ: diagonal `1, …, 1, 0, …, 0` -/
theorem isSnfShape_sound_rat {m n : Nat} (D : Mat Rat m n) (h : isSnfShape ratOps D = true) :
    (∀ (i : Fin m) (j : Fin n), i.1 ≠ j.1 → D.get i j = 0) ∧
      ShapeSpec (fun x : Rat => x = 0 ∨ x = 1) (diagL D) := by
  have := isSnfShape_sound lawful_rat (fun x : Rat => x = 0 ∨ x = 1) ?_ ?_ D h
  · simpa using this
  · intro a ha
    simp only [EOps.isNorm, ROps.isOne, ratOps, beq_iff_eq] at ha
    show a = 0 ∨ a = 1
    by_cases h0 : a = 0
    · exact Or.inl h0
    · rw [if_neg h0] at ha
      exact Or.inr (inv_eq_one.1 ha)
  · intro a b hab
    simp only [EOps.dvd, ROps.isZero, ratOps, Bool.and_eq_true, Bool.not_eq_true', beq_eq_false_iff_ne] at hab
    exact ⟨a⁻¹ * b, (mul_inv_cancel_left₀ hab.1 b).symm⟩

/-! #### 𝔽_p -/

theorem snfTransformOk_sound_fp (p : Nat) [NeZero p] {m n : Nat} (A D : Mat Nat m n) (P Pinv : Mat Nat m m)
    (Q Qinv : Mat Nat n n) (h : snfTransformOk (fpOps p).toROps A D P Pinv Q Qinv = true) :
    let φ := fun a : Nat => (a : ZMod p)
    toM φ P * toM φ A * toM φ Q = toM φ D ∧ toM φ P * toM φ Pinv = 1 ∧ toM φ Q * toM φ Qinv = 1 ∧
    toM φ Pinv * toM φ P = 1 ∧ toM φ Qinv * toM φ Q = 1 ∧
    toM φ A = toM φ Pinv * toM φ D * toM φ Qinv :=
  snfTransformOk_sound (lawful_fp p) A D P Pinv Q Qinv h

/-- over 𝔽_p (p prime): diagonal `1, …, 1, 0, …, 0` -/
theorem isSnfShape_sound_fp (p : Nat) [Fact p.Prime] {m n : Nat} (D : Mat Nat m n)
    (h : isSnfShape (fpOps p) D = true) :
    (∀ (i : Fin m) (j : Fin n), i.1 ≠ j.1 → ((D.get i j : Nat) : ZMod p) = 0) ∧
      ShapeSpec (fun x : ZMod p => x = 0 ∨ x = 1) ((diagL D).map (fun a : Nat => (a : ZMod p))) := by
  have hp : p.Prime := Fact.out
  haveI : NeZero p := ⟨hp.pos.ne'⟩
  refine isSnfShape_sound (lawful_fp p) (fun x : ZMod p => x = 0 ∨ x = 1) ?_ ?_ D h
  · intro a ha
    show ((a : Nat) : ZMod p) = 0 ∨ ((a : Nat) : ZMod p) = 1
    simp only [EOps.isNorm, ROps.isOne, fpOps, fpROps, beq_iff_eq] at ha
    by_cases h0 : a % p = 0
    · left; exact (ZMod.natCast_eq_zero_iff a p).2 (Nat.dvd_of_mod_eq_zero h0)
    · right
      rw [if_neg h0] at ha
      have h1p : 1 % p = 1 := Nat.mod_eq_of_lt hp.one_lt
      rw [h1p, h1p] at ha
      unfold fpInv at ha
      cases hf : (List.range p).find? (fun b => a % p * b % p == 1) with
      | none => rw [hf] at ha; simp at ha
      | some b =>
        rw [hf] at ha
        have hb := List.find?_some hf
        simp only [Option.getD_some, beq_iff_eq] at ha hb
        have e1 : ((a % p * b % p : Nat) : ZMod p) = ((1 : Nat) : ZMod p) := by rw [hb]
        have e2 : ((b % p : Nat) : ZMod p) = ((1 : Nat) : ZMod p) := by rw [ha]
        simp only [ZMod.natCast_mod, Nat.cast_mul, Nat.cast_one] at e1 e2
        rw [e2, mul_one] at e1
        exact e1
  · intro a b hab
    simp only [EOps.dvd, ROps.isZero, fpOps, fpROps, Bool.and_eq_true, Bool.not_eq_true', beq_eq_false_iff_ne,
      Nat.zero_mod] at hab
    have hne : ((a : Nat) : ZMod p) ≠ 0 := by
      intro h0
      exact hab.1 (Nat.mod_eq_zero_of_dvd ((ZMod.natCast_eq_zero_iff a p).1 h0))
    exact (IsUnit.mk0 ((a : Nat) : ZMod p) hne).dvd

/-! ### (T) the transform invariant

`Inv φ A s` : `s.p · A · s.q = s.t ∧ s.p · s.pinv = 1 ∧ s.q · s.qinv = 1` (as Mathlib matrices).
Each mirrored primitive of `snf.rs` preserves it; hence every control path of the code model does. -/

theorem prim_swap_rows {φ : α → R} {m n : Nat} {A : Mat α m n} (s : St α m n) (i j : Fin m) (hij : i ≠ j)
    (h : Inv φ A s) : Inv φ A (sSwapRows s i j) := inv_sSwapRows s i j hij h

theorem prim_swap_cols {φ : α → R} {m n : Nat} {A : Mat α m n} (s : St α m n) (i j : Fin n) (hij : i ≠ j)
    (h : Inv φ A s) : Inv φ A (sSwapCols s i j) := inv_sSwapCols s i j hij h

/-- `mul_row(i, u)`: whenever it does not panic (`u.inv()` is `Some`) -/
theorem prim_mul_row {e : EOps α} {φ : α → R} (L : LawfulE e φ) {m n : Nat} {A : Mat α m n}
    (s s' : St α m n) (i : Fin m) (u : α) (hs : sMulRow e s i u = .ok s') (h : Inv φ A s) : Inv φ A s' :=
  inv_sMulRow L s s' i u hs h

theorem prim_mul_col {e : EOps α} {φ : α → R} (L : LawfulE e φ) {m n : Nat} {A : Mat α m n}
    (s s' : St α m n) (j : Fin n) (u : α) (hs : sMulCol e s j u = .ok s') (h : Inv φ A s) : Inv φ A s' :=
  inv_sMulCol L s s' j u hs h

/-- `left_elementary([a,b,c,d], i, j)` (release build, no assertion): needs exactly `a·d − b·c = 1` and `i ≠ j` -/
theorem prim_left_elementary {e : EOps α} {φ : α → R} (L : LawfulE e φ) {m n : Nat} {A : Mat α m n}
    (s : St α m n) (a b c d : α) (i j : Fin m) (hij : i ≠ j) (hdet : φ a * φ d - φ b * φ c = 1)
    (h : Inv φ A s) : Inv φ A (sLeftRaw e.toROps s a b c d i j) :=
  inv_sLeftRaw L.toLawful s a b c d i j hij hdet h

theorem prim_right_elementary {e : EOps α} {φ : α → R} (L : LawfulE e φ) {m n : Nat} {A : Mat α m n}
    (s : St α m n) (a b c d : α) (i j : Fin n) (hij : i ≠ j) (hdet : φ a * φ d - φ b * φ c = 1)
    (h : Inv φ A s) : Inv φ A (sRightRaw e.toROps s a b c d i j) :=
  inv_sRightRaw L.toLawful s a b c d i j hij hdet h

/-- the determinant condition is necessary: with `det ≠ 1` the mirrored `P⁻¹` update is wrong -/
example : ¬ Inv (id : Int → Int) (⟨#v[#v[1, 0], #v[0, 1]]⟩ : Mat Int 2 2)
    (sLeftRaw intOps.toROps (St.init intOps.toROps ⟨#v[#v[1, 0], #v[0, 1]]⟩) 2 0 0 1 0 1) := by
  intro h
  have := (snfTransformOk_iff lawful_int _ _ _ _ _ _).2 h
  revert this; decide

/-- **snf_transform_inv** — for every input matrix, every fuel and every control path of the code model of
`SnfCalc::process` (debug build, i.e. with the `debug_assert!`s of `left/right_elementary` compiled in):
whenever it returns, `result = P·A·Q`, `P·P⁻¹ = I`, `Q·Q⁻¹ = I`.  `pre` is the LLL–HNF preprocessing,
assumed to preserve the invariant (that is C10's `lll_transform_inv`); the ring operations are arbitrary
`LawfulE` operations — in particular NOTHING is assumed about `gcdx`, `/`, `%`, `normalizing_unit`. -/
theorem snf_transform_inv {e : EOps α} {φ : α → R} (L : LawfulE e φ) {m n : Nat} (A : Mat α m n)
    (pre : St α m n → Res (St α m n)) (hpre : ∀ s s', pre s = .ok s' → Inv φ A s → Inv φ A s')
    (fuel : Nat) (s : St α m n) (hs : snfCalc e true pre fuel A = .ok s) :
    toM φ s.p * toM φ A * toM φ s.q = toM φ s.t ∧ toM φ s.p * toM φ s.pinv = 1 ∧
      toM φ s.q * toM φ s.qinv = 1 :=
  inv_snfCalc L pre hpre fuel s hs

/-- the release build (no `debug_assert!`) returns exactly what the debug build returns, whenever the debug
build returns; so `snf_transform_inv` also covers the release build on every input on which the debug build —
the one the harness runs — does not trip an assertion -/
theorem snf_release_eq_debug {e : EOps α} {m n : Nat} (A : Mat α m n) (pre : St α m n → Res (St α m n))
    (fuel : Nat) (s : St α m n) (hs : snfCalc e true pre fuel A = .ok s) :
    snfCalc e false pre fuel A = .ok s := snfCalc_rel pre fuel A s hs

/-- the same for the reference SNF of the driver (no assumption at all) -/
theorem ref_transform_inv {e : EOps α} {φ : α → R} (L : LawfulE e φ) {m n : Nat} (A : Mat α m n)
    (fuel : Nat) (s : St α m n) (hs : refSnf e fuel A = .ok s) :
    toM φ s.p * toM φ A * toM φ s.q = toM φ s.t ∧ toM φ s.p * toM φ s.pinv = 1 ∧
      toM φ s.q * toM φ s.qinv = 1 :=
  inv_refSnf L fuel s hs

theorem snf_transform_inv_int {m n : Nat} (A : Mat Int m n) (fuel : Nat) (s : St Int m n)
    (hs : snfCalc intOps true (fun s => .ok s) fuel A = .ok s) :
    toM id s.p * toM id A * toM id s.q = toM id s.t ∧ toM id s.p * toM id s.pinv = 1 ∧
      toM id s.q * toM id s.qinv = 1 :=
  snf_transform_inv lawfulE_int A _ (fun s s' h hi => by injection h with h; subst h; exact hi) fuel s hs

/-- the hypothesis "`snfCalc` returns" is satisfiable non-trivially (and the diagonal is the expected one) -/
example : (match snfCalc intOps true (fun s => .ok s) 50 (⟨#v[#v[2, 4], #v[6, 8]]⟩ : Mat Int 2 2) with
    | .ok s => diagL s.t == [2, 4]
    | _ => false) = true := by decide +kernel

/-! ### towards `snf_shape` (partial): the loop exit conditions

Not proved: that these exit conditions, accumulated over `eliminate_all`, give a diagonal matrix, and that the
final multiplication by units keeps the chain.  The full shape is established per instance by `isSnfShape`. -/

/-- `eliminate_at(i, j)` returns only when row `i` and column `j` have at most one non-zero entry -/
theorem snf_shape_partial_pivot_isolated {e : EOps α} {m n : Nat} (dbg : Bool) (i : Fin m) (j : Fin n)
    (fuel : Nat) (s s' : St α m n) (h : eliminateAt e dbg i j fuel s = .ok s') :
    rowNz e s'.t i ≤ 1 ∧ colNz e s'.t j ≤ 1 := eliminateAt_exit dbg i j fuel s s' h

/-- the `'outer` loop of `diag_normalize` returns only when `d_k.divides(d_{k+1})` for all adjacent pairs among the
first `r` diagonal entries -/
theorem snf_shape_partial_chain {e : EOps α} {m n : Nat} (dbg : Bool) (r fuel : Nat) (s s' : St α m n)
    (h : diagOuter e dbg r fuel s = .ok s') (k : Nat) (hk : k + 1 < r ∧ k + 1 < m ∧ k + 1 < n) :
    e.dvd (s'.t.get ⟨k, Nat.lt_of_succ_lt hk.2.1⟩ ⟨k, Nat.lt_of_succ_lt hk.2.2⟩)
      (s'.t.get ⟨k + 1, hk.2.1⟩ ⟨k + 1, hk.2.2⟩) = true := diagOuter_chain dbg r fuel s s' h k hk

/-! ### (W) the local `gcdx` wrapper (`snf.rs:437-446`)

`gcdxW x y` returns `(d, a, 0)` with `a = x/d` whenever `a` is a unit.  The 2×2 matrix `[s, t; −b, a]` built from it
has determinant `a²` on that path, so the hypothesis the proof needs is exactly `a² = 1`:
 * over ℤ it always holds (`±1`);
 * in ℤ[i], ℤ[ω], fields, k[x] it holds when the pivot `x` is normalised (then `x` and the normalised gcd `d` are
   associates that are both normalised, so `a = 1`) — which `eliminate_step` establishes (`mul_col` by the
   normalising unit) and `eliminate_row/col` maintain (the new pivot is `d`);
 * it FAILS for an un-normalised pivot, e.g. `x = 2i, y = 4` in ℤ[i]: `d = 2, a = i`, determinant `−1`.
On the regular path the determinant is 1 by Bézout and exact division. -/
theorem gcdxW_det_one [IsDomain R] {e : EOps α} {φ : α → R} (L : Lawful e.toROps φ) (x y : α)
    (hbez : φ (e.gcdx x y).2.1 * φ x + φ (e.gcdx x y).2.2 * φ y = φ (e.gcdx x y).1)
    (hd : φ (e.gcdx x y).1 ≠ 0)
    (hx : φ (e.quo x (e.gcdx x y).1) * φ (e.gcdx x y).1 = φ x)
    (hy : φ (e.quo y (e.gcdx x y).1) * φ (e.gcdx x y).1 = φ y)
    (hunit : e.isUnit (e.quo x (e.gcdx x y).1) = true →
      φ (e.quo x (e.gcdx x y).1) * φ (e.quo x (e.gcdx x y).1) = 1) :
    φ (gcdxW e x y).2.1 * φ (e.quo x (gcdxW e x y).1)
      - φ (gcdxW e x y).2.2 * φ (e.neg (e.quo y (gcdxW e x y).1)) = 1 := by
  unfold gcdxW
  simp only
  split
  · rename_i hu
    simp only [L.zero, L.neg]
    rw [zero_mul, sub_zero]
    exact hunit hu
  · simp only [L.neg]
    apply mul_right_cancel₀ hd
    rw [one_mul]
    calc _ = φ (e.gcdx x y).2.1 * (φ (e.quo x (e.gcdx x y).1) * φ (e.gcdx x y).1)
            + φ (e.gcdx x y).2.2 * (φ (e.quo y (e.gcdx x y).1) * φ (e.gcdx x y).1) := by ring
      _ = _ := by rw [hx, hy, hbez]

/-- over ℤ the extra hypothesis of `gcdxW_det_one` is vacuous: a unit quotient squares to 1 -/
theorem int_unit_sq (a : Int) (h : intOps.isUnit a = true) : a * a = 1 := by
  simp only [intOps, Bool.or_eq_true, beq_iff_eq] at h
  rcases h with rfl | rfl <;> rfl

/-- "pivot is normalised" ⇒ the hypothesis: if `x = a·d` with `a` a unit and both `x`, `d` normalised, and the
normalised representative of an associate class is unique, then `a = 1` -/
theorem unit_quot_one_of_normalised (N : R → Prop)
    (huniq : ∀ u z : R, IsUnit u → z ≠ 0 → N z → N (u * z) → u = 1)
    (a d x : R) (ha : IsUnit a) (hx : a * d = x) (hd0 : d ≠ 0) (hNd : N d) (hNx : N x) : a * a = 1 := by
  have : a = 1 := huniq a d ha hd0 hNd (hx ▸ hNx)
  rw [this, one_mul]

end Yuiv.C09
