import Yuiv.Proofs.C01SqMain
import Yuiv.Proofs.C01SqEx
import Yuiv.Proofs.C01SqRed
import Yuiv.Proofs.C01SqDec
/-
C01Sq — THE REFERENCE CUBE IS A CHAIN COMPLEX: `Cube.d ∘ Cube.d = 0` for `KhRef.mkCube l p`, all Frobenius parameters
`(h, t)`.  Property theorems only; proofs in `Proofs/C01SqDefs, C01SqBridge, C01SqPatA, C01SqPatB, C01SqAsm,
C01SqGeom1, C01SqGeom2, C01SqGeom3, C01SqMain, C01SqRed, C01SqDec, C01SqEx` (on top of `Proofs/C06Cycle*`,
`Proofs/C02Mirror*`, `Props/C01`).

STATEMENT (`khref_d_squared_zero`).  For every diagram `l` with
  * `validK l`  (decidable: four slots per crossing, every edge label in exactly two slots),
  * `(edgeLabels l).size ≤ 64`  (the reference's `setBit` works on 64-bit masks),
  * `cubeOK (mkCube l p)`  (decidable: every edge of the cube is one merge or one split — exactly the test `Cube.d`
    performs; it does NOT follow from `validK`: the valid but non-planar code `X[1,2,1,2]` has a 1 → 1 edge, see the
    `example` at the end),
every `(h, t)`, UNREDUCED theory, and every generator `g` of a state `< 2^n`: `d g` is defined, `d` is defined on every
generator of `d g`, and the driver's evaluation `dOfChain` of `d` on the chain `d g` (coefficients collected in a hash
map, zeros dropped) returns the zero chain.  REDUCED theory: `khref_d_squared_zero_reduced` for `t = 0` (for `t ≠ 0`
the span of the generators with base circle labelled X is not `d`-invariant: `X·X = hX + t`).

PROOF.  (1) `edge_geometry` / `edge_merge_or_split`: for a valid diagram, flipping one crossing either merges two
classes of the arc relation, or splits one, or (non-planar codes only) leaves the relation unchanged; the slots of the
crossing are the same in all states.  (2) Faces: the unsigned edge maps depend only on the circle NAMES that are
gone/born; a face is classified by how the two flips act on the circles — disjoint (`square_disjoint`), three circles
merged to one (`square_merge_merge`, associativity), one split into three (`square_split_split`, coassociativity),
merge/split sharing a circle (`square_merge_split`, the Frobenius law), split then merge (`square_genus`), same
intermediate circles (`square_same`) — `face_commutes_names` shows that every face of a valid diagram is of one of
these types (relation reasoning by congruence closure on circle names).  (3) `edgeSign_anticomm` (Props/C01) turns
commuting faces into cancelling pairs; the double sum over the edges is antisymmetric (`d_squared_zero_of_faces`).

DECIDABLE CHECK.  `square_commutes_decidable`: an executable test `goodFace` on the four circle lists of a face whose
truth implies that the face commutes; `d_squared_zero_of_goodCube`: if all faces pass, `d ∘ d = 0` — no validity or
planarity assumption, so the per-instance recomputation of `d ∘ d` can be replaced by it.  For valid diagrams it is
not needed: `validK`, the label count and `cubeOK` are themselves cheap decidable checks.
-/
namespace Yuiv.C01Sq
open Yuiv Yuiv.KhRef Yuiv.C04Inv Yuiv.C06Cycle
open Yuiv.C02Mirror (Circ Pair edgeOK cubeOK)

/-! ### (1) one edge -/

/-- the geometry of one cube edge of a valid diagram, with slots `p, q, r, u` of the crossing that do not depend on the
state: `p—q`, `r—u` are its arcs before, `p—u`, `q—r` after the flip, and the arc relation after is the relation before
with the classes of `p`, `r` merged (M), or the other way round (S), or both relations coincide (E) -/
theorem edge_geometry (l : Link) (hv : validK l = true) (k : Nat) (hk : k < crossingNum l) :
    ∃ p q r u, ∀ t, t.testBit k = false →
      EG (edgeLabels l) (statePairs l t) (statePairs l (t ||| 1 <<< k)) p q r u :=
  edge_geom l hv k hk

/-- an edge whose circle lists differ by a merge or a split (`edgeOK`) IS the merge of the circles of `p` and `r`
into the circle of `p`, in one of the two directions, on circle names -/
theorem edge_merge_or_split {L : Array Nat} {P P' : List (Nat × Nat)} {cs cs' : Circ} {p q r u : Nat}
    (g : EG L P P' p q r u) (h : CirclesSpec L P cs) (h' : CirclesSpec L P' cs') (hok : edgeOK cs cs' = true) :
    Mrg L P P' cs cs' p r ∨ Mrg L P' P cs' cs p r :=
  edge_cases g h h' hok

/-! ### (2) faces -/

/-- the two flips act on different circles (all four type combinations) -/
theorem square_disjoint (h t : Int) (cs00 cs10 cs01 cs11 : Circ) (ea eb : Edge)
    (ha0 : IsEdge cs00 cs10 ea) (hb0 : IsEdge cs00 cs01 eb) (hb1 : IsEdge cs10 cs11 eb) (ha1 : IsEdge cs01 cs11 ea)
    (f f'' : Name → Bool) :
    pathF h t cs10 cs11 ea eb f f'' = pathF h t cs01 cs11 eb ea f f'' :=
  face_disjoint h t cs00 cs10 cs01 cs11 ea eb ha0 hb0 hb1 ha1 f f''

/-- merge/merge: three circles become one (associativity and commutativity of the product) -/
theorem square_merge_merge (h t : Int) (cs00 cs10 cs01 cs11 : Circ) (A B C P Q R : Name)
    (ha0 : MergeRel cs00 cs10 A B P) (hb0 : MergeRel cs00 cs01 B C Q)
    (hb1 : MergeRel cs10 cs11 P C R) (ha1 : MergeRel cs01 cs11 A Q R) (f f'' : Name → Bool) :
    pathF h t cs10 cs11 (.merge A B P) (.merge P C R) f f'' = pathF h t cs01 cs11 (.merge B C Q) (.merge A Q R) f f'' :=
  face_31 h t cs00 cs10 cs01 cs11 A B C P Q R ha0 hb0 hb1 ha1 f f''

/-- split/split: one circle becomes three (coassociativity) -/
theorem square_split_split (h t : Int) (cs00 cs10 cs01 cs11 : Circ) (R P C A Q B : Name)
    (ha0 : IsEdge cs00 cs10 (.split R P C)) (hb0 : IsEdge cs00 cs01 (.split R A Q))
    (hb1 : IsEdge cs10 cs11 (.split P A B)) (ha1 : IsEdge cs01 cs11 (.split Q B C)) (f f'' : Name → Bool) :
    pathF h t cs10 cs11 (.split R P C) (.split P A B) f f'' = pathF h t cs01 cs11 (.split R A Q) (.split Q B C) f f'' :=
  face_13 h t cs00 cs10 cs01 cs11 R P C A Q B ha0 hb0 hb1 ha1 f f''

/-- merge/split sharing a circle (the Frobenius law `Δ(x·y) = Σ (x'·y) ⊗ x''`) -/
theorem square_merge_split (h t : Int) (cs00 cs10 cs01 cs11 : Circ) (C1 C2 P D1 D2 F : Name)
    (ha0 : IsEdge cs00 cs10 (.merge C1 C2 P)) (hb0 : IsEdge cs00 cs01 (.split C1 D1 D2))
    (hb1 : IsEdge cs10 cs11 (.split P F D2)) (ha1 : IsEdge cs01 cs11 (.merge D1 C2 F)) (f f'' : Name → Bool) :
    pathF h t cs10 cs11 (.merge C1 C2 P) (.split P F D2) f f'' =
      pathF h t cs01 cs11 (.split C1 D1 D2) (.merge D1 C2 F) f f'' :=
  face_frob h t cs00 cs10 cs01 cs11 C1 C2 P D1 D2 F ha0 hb0 hb1 ha1 f f''

/-- split then merge, two different splittings of one circle (both paths are `m ∘ Δ`; does not occur for planar
diagrams but does for codes of diagrams on surfaces, all of whose edges are merges/splits) -/
theorem square_genus (h t : Int) (cs00 cs10 cs01 cs11 : Circ) (R P1 P2 Q1 Q2 R' : Name)
    (ha0 : IsEdge cs00 cs10 (.split R P1 P2)) (hb0 : IsEdge cs00 cs01 (.split R Q1 Q2))
    (hb1 : IsEdge cs10 cs11 (.merge P1 P2 R')) (ha1 : IsEdge cs01 cs11 (.merge Q1 Q2 R')) (f f'' : Name → Bool) :
    pathF h t cs10 cs11 (.split R P1 P2) (.merge P1 P2 R') f f'' =
      pathF h t cs01 cs11 (.split R Q1 Q2) (.merge Q1 Q2 R') f f'' :=
  face_11 h t cs00 cs10 cs01 cs11 R P1 P2 Q1 Q2 R' ha0 hb0 hb1 ha1 f f''

/-- the two intermediate states have the same circles (e.g. both flips merge the same two circles) -/
theorem square_same (h t : Int) (cs10 cs01 cs11 : Circ) (e1 e2 : Edge) (hmem : ∀ c, c ∈ cs10 ↔ c ∈ cs01)
    (f f'' : Name → Bool) :
    pathF h t cs10 cs11 e1 e2 f f'' = pathF h t cs01 cs11 e1 e2 f f'' :=
  face_same h t cs10 cs01 cs11 e1 e2 hmem f f''

/-- the mask-level path coefficient of the reference is the name-level path functional, for ANY descriptors of the
two edges -/
theorem pathSum_is_pathF {cs0 cs1 cs2 : Circ} (hP01 : Pair cs0 cs1) (hP12 : Pair cs1 cs2) (h t : Int)
    (e1 e2 : Edge) (h1 : IsEdge cs0 cs1 e1) (h2 : IsEdge cs1 cs2 e2) (m m'' : Nat) (hm'' : m'' < 2 ^ cs2.size) :
    pathSum h t cs0 cs1 cs2 m m'' = pathF h t cs1 cs2 e1 e2 (val cs0 m) (val cs2 m'') :=
  pathSum_eq_pathF hP01 hP12 h t e1 e2 h1 h2 m m'' hm''

/-- EVERY FACE with the geometry of a valid diagram (`Sq`: the four circle lists are the classes of four arc relations
related by the edge geometry `EG` of two crossings, and the four edges are merges/splits) COMMUTES -/
theorem face_commutes_names {L : Array Nat} {P00 P10 P01 P11 : List (Nat × Nat)} {cs00 cs10 cs01 cs11 : Circ}
    {a1 a2 a3 a4 b1 b2 b3 b4 : Nat} (q : Sq L P00 P10 P01 P11 cs00 cs10 cs01 cs11 a1 a2 a3 a4 b1 b2 b3 b4) :
    Face cs00 cs10 cs01 cs11 :=
  face_of_sq q

/-- all faces of the reference cube of a valid diagram commute (unsigned edge maps, all `h`, `t`, reduced or not) -/
theorem khref_faces_commute (l : Link) (hv : validK l = true) (hL : (edgeLabels l).size ≤ 64) (p : Params)
    (hok : cubeOK (mkCube l p)) : FaceComm (mkCube l p) p :=
  faceComm_mkCube l hv hL p hok

/-! ### (3) `d ∘ d = 0` -/

/-- ASSEMBLY, for any cube (no diagram): if every edge is a merge/split and every face commutes then `d ∘ d = 0`
(the signs of the two paths around a face are opposite) -/
theorem d_squared_zero_of_face_commutation (c : Cube) (p : Params) (hb : c.base = none) (hok : cubeOK c)
    (hF : FaceComm c p) (g : Gen) (hs : g.s < 2 ^ c.n) :
    ∃ ts, c.d p g = some ts ∧ Yuiv.Drv.C06.dOfChain c p ts.toList = some [] :=
  d_squared_zero_of_faces c p hb hok hF g hs

/-- THE REFERENCE CUBE IS A COMPLEX (unreduced theory, all `h`, `t`) -/
theorem khref_d_squared_zero (l : Link) (hv : validK l = true) (hL : (edgeLabels l).size ≤ 64) (p : Params)
    (hr : p.reduced = false) (hok : cubeOK (mkCube l p)) (g : Gen) (hs : g.s < 2 ^ crossingNum l) :
    ∃ ts, (mkCube l p).d p g = some ts ∧ Yuiv.Drv.C06.dOfChain (mkCube l p) p ts.toList = some [] :=
  d_squared_zero_of_faces (mkCube l p) p (C02Mirror.mkCube_base l p hr) hok (faceComm_mkCube l hv hL p hok) g hs

/-- in coefficients: `d` is defined on `g` and on every generator of `d g`, and every generator `y` has total
coefficient `0` in `d (d g)` -/
theorem khref_d_squared_zero_coefficients (l : Link) (hv : validK l = true) (hL : (edgeLabels l).size ≤ 64)
    (p : Params) (hr : p.reduced = false) (hok : cubeOK (mkCube l p)) (g : Gen) (hs : g.s < 2 ^ crossingNum l) :
    ∃ ts, (mkCube l p).d p g = some ts ∧ (∀ ga ∈ ts.toList, ∃ ts', (mkCube l p).d p ga.1 = some ts') ∧
      ∀ y, chainSum (fun g' => (((mkCube l p).d p g').getD #[]).toList) ts.toList y = 0 := by
  obtain ⟨ts, h1, h2⟩ := khref_d_squared_zero l hv hL p hr hok g hs
  exact ⟨ts, h1, (dOfChain_nil_iff _ _ _).1 h2⟩

/-- REDUCED theory, `t = 0` (any `h`): with `t = 0` the generators whose base circle is labelled `X` span a subcomplex
(`X·1 = X`, `X·X = hX`, `ΔX = X⊗X`), the base-point filter of `Cube.d` is the identity on it, and `d ∘ d = 0` follows
from the unreduced statement.  For `t ≠ 0` it is false, see `Ex.reduced_t1_not_complex` below. -/
theorem khref_d_squared_zero_reduced (l : Link) (hv : validK l = true) (hL : (edgeLabels l).size ≤ 64)
    (p : Params) (hr : p.reduced = true) (ht : p.t = 0) (hok : cubeOK (mkCube l p))
    (g : Gen) (hs : g.s < 2 ^ crossingNum l) (hg : baseKeep (mkCube l p) g = true) :
    ∃ ts, (mkCube l p).d p g = some ts ∧ Yuiv.Drv.C06.dOfChain (mkCube l p) p ts.toList = some [] :=
  d_squared_zero_reduced l hv hL p hr ht hok g hs hg

/-! ### the decidable per-face check -/

/-- THE DECIDABLE SQUARE CHECK: `goodFace` (executable; compares the gone/born circle names of the four edges with the
six commuting patterns, up to order) implies that the face commutes, for all `h`, `t` and all labellings — for ANY four
duplicate-free circle lists of size ≤ 64, no diagram needed.  Soundness only: that every face of a valid diagram
passes is `face_commutes_names` in spirit but is not proved for this particular executable test. -/
theorem square_commutes_decidable {cs00 cs10 cs01 cs11 : Circ} (p0010 : Pair cs00 cs10) (p1011 : Pair cs10 cs11)
    (p0001 : Pair cs00 cs01) (p0111 : Pair cs01 cs11) (h : goodFace cs00 cs10 cs01 cs11 = true)
    (hh t : Int) (m m'' : Nat) :
    pathSum hh t cs00 cs10 cs11 m m'' = pathSum hh t cs00 cs01 cs11 m m'' :=
  Yuiv.C01Sq.square_commutes_decidable' p0010 p1011 p0001 p0111 h hh t m m''

/-- if all faces of a cube pass the check (and all edges are merges/splits), `d ∘ d = 0`: a verified replacement of
the per-instance recomputation of `d ∘ d` -/
theorem d_squared_zero_of_goodCube (c : Cube) (p : Params) (hb : c.base = none) (hok : cubeOK c)
    (hP : ∀ s s', s < 2 ^ c.n → s' < 2 ^ c.n → Pair c.circ[s]! c.circ[s']!) (h : goodCube c = true)
    (g : Gen) (hs : g.s < 2 ^ c.n) :
    ∃ ts, c.d p g = some ts ∧ Yuiv.Drv.C06.dOfChain c p ts.toList = some [] :=
  d_squared_zero_of_faces c p hb hok (faceComm_of_goodCube c p hP h) g hs

/-! ### non-vacuity -/

open Yuiv.C02Mirror.Ex Yuiv.C01Sq.Ex in
/-- trefoil, Hopf link, figure-eight knot and the kink satisfy the hypotheses -/
example : (validK trefoil = true ∧ (edgeLabels trefoil).size ≤ 64 ∧ cubeOK (mkCube trefoil p0)) ∧
    (validK hopf = true ∧ (edgeLabels hopf).size ≤ 64 ∧ cubeOK (mkCube hopf p0)) ∧
    (validK fig8 = true ∧ (edgeLabels fig8).size ≤ 64 ∧ cubeOK (mkCube fig8 p0)) ∧
    (validK kink = true ∧ cubeOK (mkCube kink p0)) :=
  ⟨⟨valid_examples.1, trefoil_labels, trefoil_ok⟩, ⟨valid_examples.2.1, hopf_labels, hopf_ok⟩,
    ⟨valid_examples.2.2.1, fig8_ok.2, fig8_ok.1⟩, ⟨valid_examples.2.2.2.1, kink_ok.1⟩⟩

open Yuiv.C02Mirror.Ex Yuiv.C01Sq.Ex in
/-- the instance at the figure-eight knot, generator `1⊗1⊗1` of the state `0` (three circles, four edges leave it) -/
example : ∃ ts, (mkCube fig8 p0).d p0 ⟨0, 0⟩ = some ts ∧
    Yuiv.Drv.C06.dOfChain (mkCube fig8 p0) p0 ts.toList = some [] :=
  khref_d_squared_zero fig8 valid_examples.2.2.1 fig8_ok.2 p0 rfl fig8_ok.1 ⟨0, 0⟩ (by decide)

open Yuiv.C02Mirror.Ex Yuiv.C01Sq.Ex in
/-- … and `d` of that generator is not zero: it has terms in all four neighbouring states -/
example : (((mkCube fig8 p0).d p0 ⟨0, 0⟩).getD #[]).size = 4 ∧
    (circles fig8 (edgeLabels fig8) 0).size = 3 := by
  rw [mkCube_eq_cubeWith _ _ rfl, edgeLabels_fig8]
  decide +kernel

open Yuiv.C02Mirror.Ex Yuiv.C01Sq.Ex in
/-- `cubeOK` is needed and does not follow from `validK`: the non-planar code `X[1,2,1,2]` is valid, but its only
edge is a 1 → 1 edge and `d` is undefined -/
example : validK virt = true ∧ ¬ cubeOK (mkCube virt p0) ∧ (mkCube virt p0).d p0 ⟨0, 0⟩ = none :=
  ⟨valid_examples.2.2.2.2, virt_not_ok.1, virt_not_ok.2⟩

open Yuiv.C02Mirror.Ex Yuiv.C01Sq.Ex in
/-- the executable check passes on all faces of the cubes of trefoil and figure-eight knot -/
example : goodCube (mkCube trefoil p0) = true ∧ goodCube (mkCube fig8 p0) = true := by
  rw [mkCube_eq_cubeWith _ _ rfl, mkCube_eq_cubeWith _ _ rfl, edgeLabels_trefoil, edgeLabels_fig8]
  decide +kernel

/-- … and rejects the set-theoretically consistent but non-commuting face `A|B|C → AB|C, A|BC → A|B|C` -/
example : goodFace #[#[1], #[2], #[3]] #[#[1, 2], #[3]] #[#[1], #[2, 3]] #[#[1], #[2], #[3]] = false ∧
    goodFace #[#[1], #[2], #[3]] #[#[1, 2], #[3]] #[#[1], #[2, 3]] #[#[1, 2, 3]] = true := by
  decide +kernel

open Yuiv.C02Mirror.Ex Yuiv.C01Sq.Ex in
/-- `t = 0` is needed in the reduced theory: trefoil, `(h, t) = (0, 1)`, generator `X⊗X⊗X` of the state `0` (it lies in
the reduced complex); the generator `⟨0b110, X⊗1⟩` has coefficient `1` in `d (d g)` -/
example : baseKeep (mkCube trefoil pT1) ⟨0, 7⟩ = true ∧
    chainSum (fun g' => (((mkCube trefoil pT1).d pT1 g').getD #[]).toList)
      (((mkCube trefoil pT1).d pT1 ⟨0, 7⟩).getD #[]).toList ⟨6, 1⟩ = 1 :=
  reduced_t1_not_complex

end Yuiv.C01Sq
