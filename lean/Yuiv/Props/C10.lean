import Yuiv.Proofs.C10
import Yuiv.Proofs.C10Q
/-
C10 — LLL and LLL-based Hermite normal form return unimodular, reduced results.

Property theorems only (spec definitions and helper lemmas live in `Yuiv/Proofs/C10.lean`).

(a) Soundness of the executable CHECKERS of `Yuiv/Model/C10.lean`.  The driver applies exactly these functions to
    the `(A, H, P, P⁻¹)` resp. `(A, B, P)` returned by the real Rust code (`chkhnf` / `chklll` requests), so a reply
    `t=1 h=1` / `t=1 r=1` carries the mathematical statements below for that concrete output.
(b) `lll_transform_inv*`: the row primitives of `LLLData` (`swap_rows`, `mul_row` by a unit, `add_row_to`) keep
    `target = P·A` and `P·P⁻¹ = I`; hence so does every sequence of primitives, i.e. every control path of the
    reduce/swap loops of `LLLCalc` / `LLLHNFCalc` that returns.
-/
namespace Yuiv.C10
open Yuiv Res Finset

/-! ### (a) verified checkers -/

/-- `transformOk` decides `P·A = B ∧ P·P⁻¹ = I` (Mathlib matrices over ℤ). -/
theorem transformOk_iff (m n : Nat) (A B P Pinv : Mat) :
    transformOk m n A B P Pinv = true ↔
      toMatrix m m P * toMatrix m n A = toMatrix m n B ∧ toMatrix m m P * toMatrix m m Pinv = 1 := by
  rw [transformOk, Bool.and_eq_true, mulEq_iff, mulEq_iff, PAeq_iff_matrix, PAeq_iff_matrix, toMatrix_idMat]

theorem transformOk_sound (m n : Nat) (A B P Pinv : Mat) (h : transformOk m n A B P Pinv = true) :
    toMatrix m m P * toMatrix m n A = toMatrix m n B ∧ toMatrix m m P * toMatrix m m Pinv = 1 :=
  (transformOk_iff m n A B P Pinv).mp h

/-- an accepted transform is unimodular -/
theorem transformOk_unimodular (m n : Nat) (A B P Pinv : Mat) (h : transformOk m n A B P Pinv = true) :
    IsUnit (toMatrix m m P).det :=
  Matrix.isUnit_det_of_right_inverse (transformOk_sound m n A B P Pinv h).2

example : transformOk 2 2 #[#[0, 1], #[-1, 0]] #[#[1, 0], #[0, 1]] #[#[0, -1], #[1, 0]] #[#[0, 1], #[-1, 0]] = true := by
  decide

/-- `isHnf` accepts only row echelon forms with positive pivots, zeros below each pivot and entries of strictly
smaller norm above each pivot (zero rows last); `leadCol n H i` is the pivot column of row `i`. -/
theorem isHnf_sound (m n : Nat) (H : Mat) (h : isHnf m n H = true) : IsHnf m n (ent H) (leadCol n H) :=
  isHnf_sound' m n H h

/-- … and rejects nothing else: `isHnf` DECIDES the Hermite shape (with `leadCol` as the pivot-column function) -/
theorem isHnf_iff (m n : Nat) (H : Mat) : isHnf m n H = true ↔ IsHnf m n (ent H) (leadCol n H) :=
  ⟨isHnf_sound' m n H, isHnf_complete' m n H⟩

example : isHnf 3 3 #[#[2, 1, 0], #[0, 3, -1], #[0, 0, 0]] = true := by decide
example : isHnf 2 2 #[#[-1, 0], #[0, 1]] = false := by decide

/-- `isLLLReduced` accepts only bases that are size-reduced (`|μ_ij| ≤ 1/2`) and satisfy the Lovász condition
`|b*_k|² ≥ (p/q − μ_{k,k-1}²)|b*_{k-1}|²`, w.r.t. a Gram–Schmidt decomposition over ℚ (orthogonal, non-zero `b*_i`,
unitriangular `μ`) whose defining equations are themselves re-checked by the checker. -/
theorem isLLLReduced_sound (m n : Nat) (B : Mat) (p q : Int) (h : isLLLReduced m n B p q = true) :
    IsLLLReduced m n (ent B) ((p : ℚ) / (q : ℚ)) := by
  unfold isLLLReduced at h
  exact ⟨_, _, reducedWith_sound m n B p q _ _ h⟩

/-- the Gram–Schmidt data the reducedness statement refers to are uniquely determined by `B`
(so `IsLLLReduced` is a statement about THE Gram–Schmidt orthogonalisation of the rows) -/
theorem gs_unique (m n : Nat) (B : Nat → Nat → Int) (bs mu bs' mu' : Nat → Nat → ℚ)
    (h : IsGS m n B bs mu) (h' : IsGS m n B bs' mu') :
    ∀ i < m, (∀ c < n, bs i c = bs' i c) ∧ (∀ j < i, mu i j = mu' i j) := IsGS.unique h h'

example : isLLLReduced 3 3 #[#[0, 1, -1], #[1, 0, -1], #[1, 1, 1]] 3 4 = true := by decide +kernel
example : isLLLReduced 2 2 #[#[1, 0], #[1, 1]] 3 4 = false := by decide +kernel

/-! ### (b) the transform invariant on every control path -/

/-- one primitive keeps the invariant -/
theorem lll_transform_inv_step (A : Mat) (t t' : Tr) (op : Prim) (h : t.apply op = ok t') (hI : t.Inv A) :
    t'.Inv A ∧ t'.m = t.m ∧ t'.n = t.n := Tr.apply_inv A t t' op h hI

/-- the initial state `(A, I, I)` satisfies the invariant -/
theorem lll_transform_inv_init (m n : Nat) (A : Mat) : (Tr.init m n A).Inv A := Tr.init_inv m n A

/-- ANY sequence of primitives that returns keeps `target = P·A ∧ P·P⁻¹ = I` -/
theorem lll_transform_inv (A : Mat) (ops : List Prim) (t t' : Tr) (h : t.run ops = ok t') (hI : t.Inv A) :
    t'.Inv A ∧ t'.m = t.m ∧ t'.n = t.n := Tr.run_inv A ops t t' h hI

/-- … in Mathlib terms, from the initial state: the result is `P·A` with `P` unimodular and `pinv` its inverse -/
theorem lll_transform_inv_matrix (m n : Nat) (A : Mat) (ops : List Prim) (t : Tr)
    (h : (Tr.init m n A).run ops = ok t) :
    toMatrix m m t.p * toMatrix m n A = toMatrix m n t.target ∧
    toMatrix m m t.p * toMatrix m m t.pinv = 1 ∧ IsUnit (toMatrix m m t.p).det := by
  obtain ⟨hI, hm, hn⟩ := Tr.run_inv A ops _ t h (Tr.init_inv m n A)
  have hm' : t.m = m := hm
  have hn' : t.n = n := hn
  have h1 := hI.pa
  have h2 := hI.pp
  rw [hm', hn'] at h1
  rw [hm'] at h2
  have e1 := (PAeq_iff_matrix m m n t.p A t.target).mp h1
  have e2 : toMatrix m m t.p * toMatrix m m t.pinv = 1 := by
    have := (PAeq_iff_matrix m m m t.p t.pinv (idMat m)).mp (by
      intro r hr c hc
      rw [h2 r hr c hc, ent_idMat hr hc]; rfl)
    rw [this, toMatrix_idMat]
  exact ⟨e1, e2, Matrix.isUnit_det_of_right_inverse e2⟩

example : ((Tr.init 2 2 #[#[0, 1], #[-1, 0]]).run [.swap 0 1, .mul 0 (-1), .add 0 1 5]).isOk = true := by decide

/-! ### (c) the literal model of `LLLCalc` / `LLLHNFCalc` (the one the driver runs against the real code) -/

/-- whatever `lll_hnf` (model, any fuel) returns was produced from `(A, I, I)` by row primitives only -/
theorem lllHnf_model_trace (fuel m n : Nat) (A : Mat) (t : Tr) (h : lllHnf fuel m n A = ok t) :
    ∃ ops : List Prim, (Tr.init m n A).run ops = ok t := lllHnf_reach fuel m n A t h

theorem lll_model_trace (fuel m n : Nat) (A : Mat) (d : Data) (h : lll fuel m n A = ok d) :
    ∃ ops : List Prim, (Tr.init m n A).run ops = ok d.tr := lll_reach fuel m n A d h

/-- on every control path of the Hermite routine that returns: `H = P·A`, `P·P⁻¹ = I`, `P` unimodular -/
theorem lllHnf_model_transform (fuel m n : Nat) (A : Mat) (t : Tr) (h : lllHnf fuel m n A = ok t) :
    toMatrix m m t.p * toMatrix m n A = toMatrix m n t.target ∧
    toMatrix m m t.p * toMatrix m m t.pinv = 1 ∧ IsUnit (toMatrix m m t.p).det := by
  obtain ⟨ops, hops⟩ := lllHnf_reach fuel m n A t h
  exact lll_transform_inv_matrix m n A ops t hops

/-- on every control path of the LLL routine that returns: `B = P·A`, `P` unimodular -/
theorem lll_model_transform (fuel m n : Nat) (A : Mat) (d : Data) (h : lll fuel m n A = ok d) :
    toMatrix m m d.tr.p * toMatrix m n A = toMatrix m n d.tr.target ∧
    toMatrix m m d.tr.p * toMatrix m m d.tr.pinv = 1 ∧ IsUnit (toMatrix m m d.tr.p).det := by
  obtain ⟨ops, hops⟩ := lll_reach fuel m n A d h
  exact lll_transform_inv_matrix m n A ops d.tr hops

example : (lllHnf 100 2 2 #[#[0, 1], #[-1, 0]]).isOk = true := by decide
example : (lll 100 2 2 #[#[2, 0], #[1, 1]]).isOk = true := by decide

/-! ### (d) the exact nearest-integer quotient behind size reduction -/

/-- `div_round` (model of the exact integer version in `int_ext.rs`) panics only on a zero divisor and otherwise
returns a nearest integer: `2·|a − q·b| ≤ |b|`.  Hence `reduce(i,k)` leaves `|μ_ki| ≤ 1/2` and the Hermite `reduce`
leaves an entry of absolute value `≤ |pivot|/2 < |pivot|` above the pivot. -/
theorem divRound_spec (a b q : Int) (h : divRound a b = ok q) : b ≠ 0 ∧ 2 * (a - q * b).natAbs ≤ b.natAbs :=
  divRound_spec' a b q h

theorem divRound_total (a b : Int) (hb : b ≠ 0) : ∃ q, divRound a b = ok q := by
  unfold divRound
  rw [if_neg hb]
  dsimp only
  generalize (if 0 < a.tmod b then -a.tmod b else a.tmod b) = nr
  generalize (if 0 < b then -b else b) = nb
  split
  · split <;> exact ⟨_, rfl⟩
  · exact ⟨_, rfl⟩

example : divRound (3 * (2 ^ 53 + 1)) 3 = ok (2 ^ 53 + 1) := by decide
example : divRound (-13) 5 = ok (-3) := by decide

/-! ### (e) the checkers over ℤ[i] and ℤ[ω] (ring `ZK k` = Mathlib's `QuadraticAlgebra ℤ u v`, θ² = u + vθ;
`Q.gauss = ⟨-1, 0⟩`, `Q.eisen = ⟨-1, 1⟩`) -/

open Q in
/-- `transformOkQ` decides `P·A = B ∧ P·P⁻¹ = I` over ℤ[θ] -/
theorem transformOkQ_iff (k : QK) (m n : Nat) (A B P Pinv : MatQ) :
    transformOkQ k m n A B P Pinv = true ↔
      toMatrixQ k m m P * toMatrixQ k m n A = toMatrixQ k m n B ∧ toMatrixQ k m m P * toMatrixQ k m m Pinv = 1 := by
  rw [transformOkQ, Bool.and_eq_true, mulEqQ_iff, mulEqQ_iff]
  have e : (fun i j => toZ k (if i.val = j.val then ((1 : Int), (0 : Int)) else (0, 0)) : Matrix (Fin m) (Fin m) (ZK k))
      = (1 : Matrix (Fin m) (Fin m) (ZK k)) := by
    apply Matrix.ext
    intro i j
    rw [Matrix.one_apply]
    by_cases h : i = j
    · subst h; simp [toZ_one]
    · have : i.val ≠ j.val := fun h' => h (Fin.ext h')
      simp [this, h, toZ_zero]
  rw [e]
  rfl

open Q in
theorem transformOkQ_unimodular (k : QK) (m n : Nat) (A B P Pinv : MatQ) (h : transformOkQ k m n A B P Pinv = true) :
    IsUnit (toMatrixQ k m m P).det :=
  Matrix.isUnit_det_of_right_inverse ((transformOkQ_iff k m n A B P Pinv).mp h).2

open Q in
/-- `isHnfQ` accepts only echelon forms with pivots in the normalised sector (`re > 0`, `im ≥ 0`), zeros below each
pivot and entries of strictly smaller norm above -/
theorem isHnfQ_sound (k : QK) (m n : Nat) (H : MatQ) (h : isHnfQ k m n H = true) :
    IsHnfQ k m n (fun i j => toZ k (entq H i j)) (leadColQ n H) := isHnfQ_sound' k m n H h

open Q in
/-- `isLLLReducedQ` accepts only bases with `N(μ_ij) ≤ rp/rq` and the Lovász condition for `p/q` w.r.t. a
Hermitian Gram–Schmidt decomposition over ℚ(θ) whose defining equations are re-checked -/
theorem isLLLReducedQ_sound (k : QK) (m n : Nat) (B : MatQ) (p q rp rq : Int)
    (h : isLLLReducedQ k m n B p q rp rq = true) :
    IsLLLReducedQ k m n (fun i c => toZ k (entq B i c)) ((p : ℚ) / (q : ℚ)) ((rp : ℚ) / (rq : ℚ)) := by
  unfold isLLLReducedQ at h
  exact ⟨_, _, reducedWithQ_sound k m n B p q rp rq _ _ h⟩

example : Q.transformOkQ Q.gauss 1 1 #[#[(0, -1)]] #[#[(1, 0)]] #[#[(0, 1)]] #[#[(0, -1)]] = true := by decide
example : Q.isHnfQ Q.eisen 2 2 #[#[(2, 1), (1, 0)], #[(0, 0), (3, 0)]] = true := by decide
example : Q.isHnfQ Q.gauss 1 1 #[#[(0, 1)]] = false := by decide
example : Q.isLLLReducedQ Q.gauss 2 2 #[#[(1, 0), (0, 0)], #[(0, 0), (0, 1)]] 3 4 1 2 = true := by decide +kernel

end Yuiv.C10
