import Yuiv.Proofs.C10
/-
C10 — LLL and LLL-based Hermite normal form return unimodular, reduced results.

Property theorems only (spec definitions and helper lemmas live in `Yuiv/Proofs/C10.lean`).

(a) Soundness of the executable CHECKERS of `Yuiv/Model/C10.lean`.  The driver applies exactly these functions to
    the `(A, H, P, P⁻¹)` resp. `(A, B, P)` returned by the real Rust code (`chkhnf` / `chklll` requests), so a reply
    `t=1 h=1` / `t=1 r=1` carries the mathematical statements below for that concrete output.
(b) `lll_transform_inv*`: the row primitives of `LLLData` (`swap_rows`, `mul_row` by a unit, `add_row_to`) keep
    `target = P·A` and `P·P⁻¹ = I`; hence so does every sequence of primitives, i.e. every control path of the
    reduce/swap loops of `LLLCalc` / `LLLHNFCalc` that returns.
-/
namespace Yuiv.C10
open Yuiv Res Finset

/-! ### (a) verified checkers -/

/-- `transformOk` decides `P·A = B ∧ P·P⁻¹ = I` (Mathlib matrices over ℤ). -/
theorem transformOk_iff (m n : Nat) (A B P Pinv : Mat) :
    transformOk m n A B P Pinv = true ↔
      toMatrix m m P * toMatrix m n A = toMatrix m n B ∧ toMatrix m m P * toMatrix m m Pinv = 1 := by
  rw [transformOk, Bool.and_eq_true, mulEq_iff, mulEq_iff, PAeq_iff_matrix, PAeq_iff_matrix, toMatrix_idMat]

theorem transformOk_sound (m n : Nat) (A B P Pinv : Mat) (h : transformOk m n A B P Pinv = true) :
    toMatrix m m P * toMatrix m n A = toMatrix m n B ∧ toMatrix m m P * toMatrix m m Pinv = 1 :=
  (transformOk_iff m n A B P Pinv).mp h

/-- an accepted transform is unimodular -/
theorem transformOk_unimodular (m n : Nat) (A B P Pinv : Mat) (h : transformOk m n A B P Pinv = true) :
    IsUnit (toMatrix m m P).det :=
  Matrix.isUnit_det_of_right_inverse (transformOk_sound m n A B P Pinv h).2

example : transformOk 2 2 #[#[0, 1], #[-1, 0]] #[#[1, 0], #[0, 1]] #[#[0, -1], #[1, 0]] #[#[0, 1], #[-1, 0]] = true := by
  decide

/-- `isHnf` accepts only row echelon forms with positive pivots, zeros below each pivot and entries of strictly
smaller norm above each pivot (zero rows last); `leadCol n H i` is the pivot column of row `i`. -/
theorem isHnf_sound (m n : Nat) (H : Mat) (h : isHnf m n H = true) : IsHnf m n (ent H) (leadCol n H) :=
  isHnf_sound' m n H h

example : isHnf 3 3 #[#[2, 1, 0], #[0, 3, -1], #[0, 0, 0]] = true := by decide
example : isHnf 2 2 #[#[-1, 0], #[0, 1]] = false := by decide

/-- `isLLLReduced` accepts only bases that are size-reduced (`|μ_ij| ≤ 1/2`) and satisfy the Lovász condition
`|b*_k|² ≥ (p/q − μ_{k,k-1}²)|b*_{k-1}|²`, w.r.t. a Gram–Schmidt decomposition over ℚ (orthogonal, non-zero `b*_i`,
unitriangular `μ`) whose defining equations are themselves re-checked by the checker. -/
theorem isLLLReduced_sound (m n : Nat) (B : Mat) (p q : Int) (h : isLLLReduced m n B p q = true) :
    IsLLLReduced m n (ent B) ((p : ℚ) / (q : ℚ)) := by
  unfold isLLLReduced at h
  exact ⟨_, _, reducedWith_sound m n B p q _ _ h⟩

/-! ### (b) the transform invariant on every control path -/

/-- one primitive keeps the invariant -/
theorem lll_transform_inv_step (A : Mat) (t t' : Tr) (op : Prim) (h : t.apply op = ok t') (hI : t.Inv A) :
    t'.Inv A ∧ t'.m = t.m ∧ t'.n = t.n := Tr.apply_inv A t t' op h hI

/-- the initial state `(A, I, I)` satisfies the invariant -/
theorem lll_transform_inv_init (m n : Nat) (A : Mat) : (Tr.init m n A).Inv A := Tr.init_inv m n A

/-- ANY sequence of primitives that returns keeps `target = P·A ∧ P·P⁻¹ = I` -/
theorem lll_transform_inv (A : Mat) (ops : List Prim) (t t' : Tr) (h : t.run ops = ok t') (hI : t.Inv A) :
    t'.Inv A ∧ t'.m = t.m ∧ t'.n = t.n := Tr.run_inv A ops t t' h hI

/-- … in Mathlib terms, from the initial state: the result is `P·A` with `P` unimodular and `pinv` its inverse -/
theorem lll_transform_inv_matrix (m n : Nat) (A : Mat) (ops : List Prim) (t : Tr)
    (h : (Tr.init m n A).run ops = ok t) :
    toMatrix m m t.p * toMatrix m n A = toMatrix m n t.target ∧
    toMatrix m m t.p * toMatrix m m t.pinv = 1 ∧ IsUnit (toMatrix m m t.p).det := by
  obtain ⟨hI, hm, hn⟩ := Tr.run_inv A ops _ t h (Tr.init_inv m n A)
  have hm' : t.m = m := hm
  have hn' : t.n = n := hn
  have h1 := hI.pa
  have h2 := hI.pp
  rw [hm', hn'] at h1
  rw [hm'] at h2
  have e1 := (PAeq_iff_matrix m m n t.p A t.target).mp h1
  have e2 : toMatrix m m t.p * toMatrix m m t.pinv = 1 := by
    have := (PAeq_iff_matrix m m m t.p t.pinv (idMat m)).mp (by
      intro r hr c hc
      rw [h2 r hr c hc, ent_idMat hr hc]; rfl)
    rw [this, toMatrix_idMat]
  exact ⟨e1, e2, Matrix.isUnit_det_of_right_inverse e2⟩

example : ((Tr.init 2 2 #[#[0, 1], #[-1, 0]]).run [.swap 0 1, .mul 0 (-1), .add 0 1 5]).isOk = true := by decide

end Yuiv.C10
