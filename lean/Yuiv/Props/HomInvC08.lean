import Yuiv.Props.HomInvC07
import Yuiv.Props.C08Sched
import Yuiv.Proofs.HomInvC08
/-
C08 ∘ C07 over ℤ — chain reduction does not change the REPORTED homology (property theorems only).

`Props/C08Hom` + `Props/C08Sched`: every run of the reducer (any number of steps, any pivot type / condition, any thread
schedule at every step) is a chain homotopy equivalence and induces linear isomorphisms `H_n(C) ≃ H_n(C')`.
`Props/HomInvC07`: the `(rank, tors)` which the code model of `HomologyCalc::calculate` (on the code model of the library's
SNF) reports are isomorphism invariants of the homology module.  Composed here: for a complex over ℤ, the reported rank and
torsion list of EVERY degree are the same before and after reduction — for every schedule.

The complexes of C08 (`Cpx`: arbitrary finite index types) and the matrices of the C07 code model (`C07.Mat`: row-major
arrays indexed by `Fin r × Fin c`) are tied by numberings `e_j : Fin _ ≃ C.ι j` of the bases:
`d1.toM = (C.d (i+1)).submatrix e_{i+1} e_{i+2}` (the differential INTO degree `i+1`) and
`d2.toM = (C.d i).submatrix e_i e_{i+1}` (the differential OUT of it); in degree `0` the outgoing matrix is any zero matrix
(the library passes a `0 × n` one).
-/
namespace Yuiv.C08
open Matrix Yuiv Yuiv.HomInv Yuiv.C07 Yuiv.C11

/-- **chain homotopy equivalent complexes report the same homology** (degree `i+1`, ℤ).  Let `C'` be a reduction of `C`
with chain homotopy (`HEquiv`, e.g. any run of the reducer).  Let `d1, d2` be C07 matrices of the differentials of `C` into
and out of degree `i+1` (w.r.t. any numberings of the bases), `d1', d2'` the same for `C'`.  Then the code model of
`HomologyCalc::calculate` (on the code model of the library's SNF, enough fuel) returns the same `(rank, tors)` for both. -/
theorem hEquiv_reports_same_invariants {C C' : Cpx ℤ} (h : HEquiv C C') (i : ℕ) (d1 d2 d1' d2' : C07.Mat)
    (hsh : d2.c = d1.r) (hsh' : d2'.c = d1'.r)
    (e0 : Fin d2.r ≃ C.ι i) (e1 : Fin d1.r ≃ C.ι (i + 1)) (e2 : Fin d1.c ≃ C.ι (i + 2))
    (h1 : d1.toM d1.r d1.c = (C.d (i + 1)).submatrix e1 e2) (h2 : d2.toM d2.r d1.r = (C.d i).submatrix e0 e1)
    (e0' : Fin d2'.r ≃ C'.ι i) (e1' : Fin d1'.r ≃ C'.ι (i + 1)) (e2' : Fin d1'.c ≃ C'.ι (i + 2))
    (h1' : d1'.toM d1'.r d1'.c = (C'.d (i + 1)).submatrix e1' e2')
    (h2' : d2'.toM d2'.r d1'.r = (C'.d i).submatrix e0' e1') :
    ∃ (N rank : Nat) (tors : List Int),
      (∀ fuel, N ≤ fuel → ∃ T, calculate (snfC09 fuel) d1 d2 true = .ok (rank, tors, some T)) ∧
      (∀ fuel, N ≤ fuel → ∃ T', calculate (snfC09 fuel) d1' d2' true = .ok (rank, tors, some T')) := by
  have hdd : d2.toM d2.r d1.r * d1.toM d1.r d1.c = 0 := by
    rw [h1, h2, Matrix.submatrix_mul_equiv, C.sq]; rfl
  have hdd' : d2'.toM d2'.r d1'.r * d1'.toM d1'.r d1'.c = 0 := by
    rw [h1', h2', Matrix.submatrix_mul_equiv, C'.sq]; rfl
  obtain ⟨E⟩ := h.homology (i + 1)
  obtain ⟨p⟩ := Hn_succ_numbered C i e0 e1 e2
  obtain ⟨p'⟩ := Hn_succ_numbered C' i e0' e1' e2'
  rw [← h1, ← h2] at p
  rw [← h1', ← h2'] at p'
  exact reported_invariants_iso_invariant d1 d2 d1' d2' hsh hsh' hdd hdd' ((p.symm.trans E).trans p').toAddEquiv

/-- … and in degree `0` (`H_0 = C_0 / im d_0`; the outgoing matrix `d2` is a zero matrix of any height) -/
theorem hEquiv_reports_same_invariants_zero {C C' : Cpx ℤ} (h : HEquiv C C') (d1 d2 d1' d2' : C07.Mat)
    (hsh : d2.c = d1.r) (hsh' : d2'.c = d1'.r)
    (e0 : Fin d1.r ≃ C.ι 0) (e1 : Fin d1.c ≃ C.ι 1)
    (h1 : d1.toM d1.r d1.c = (C.d 0).submatrix e0 e1) (h2 : d2.toM d2.r d1.r = 0)
    (e0' : Fin d1'.r ≃ C'.ι 0) (e1' : Fin d1'.c ≃ C'.ι 1)
    (h1' : d1'.toM d1'.r d1'.c = (C'.d 0).submatrix e0' e1') (h2' : d2'.toM d2'.r d1'.r = 0) :
    ∃ (N rank : Nat) (tors : List Int),
      (∀ fuel, N ≤ fuel → ∃ T, calculate (snfC09 fuel) d1 d2 true = .ok (rank, tors, some T)) ∧
      (∀ fuel, N ≤ fuel → ∃ T', calculate (snfC09 fuel) d1' d2' true = .ok (rank, tors, some T')) := by
  have hdd : d2.toM d2.r d1.r * d1.toM d1.r d1.c = 0 := by rw [h2, Matrix.zero_mul]
  have hdd' : d2'.toM d2'.r d1'.r * d1'.toM d1'.r d1'.c = 0 := by rw [h2', Matrix.zero_mul]
  obtain ⟨E⟩ := h.homology 0
  obtain ⟨p⟩ := Hn_zero_numbered (k := d2.r) C e0 e1
  obtain ⟨p'⟩ := Hn_zero_numbered (k := d2'.r) C' e0' e1'
  rw [← h1, ← h2] at p
  rw [← h1', ← h2'] at p'
  exact reported_invariants_iso_invariant d1 d2 d1' d2' hsh hsh' hdd hdd' ((p.symm.trans E).trans p').toAddEquiv

/-- **reducer_run_reports_same_homology** (C08 ∘ C07, every schedule).  For a complex over ℤ and ANY finite sequence of
reducer steps (`ReducerStep`: each at any degree, with any pivot type / condition, any interleaving of the parallel pivot
search and any hash-map order), the reported rank and torsion list in degree `i+1` of the reduced complex equal those of
the original complex. -/
theorem reducer_run_reports_same_homology {C C' : Cpx ℤ} (h : Relation.ReflTransGen ReducerStep C C') (i : ℕ)
    (d1 d2 d1' d2' : C07.Mat) (hsh : d2.c = d1.r) (hsh' : d2'.c = d1'.r)
    (e0 : Fin d2.r ≃ C.ι i) (e1 : Fin d1.r ≃ C.ι (i + 1)) (e2 : Fin d1.c ≃ C.ι (i + 2))
    (h1 : d1.toM d1.r d1.c = (C.d (i + 1)).submatrix e1 e2) (h2 : d2.toM d2.r d1.r = (C.d i).submatrix e0 e1)
    (e0' : Fin d2'.r ≃ C'.ι i) (e1' : Fin d1'.r ≃ C'.ι (i + 1)) (e2' : Fin d1'.c ≃ C'.ι (i + 2))
    (h1' : d1'.toM d1'.r d1'.c = (C'.d (i + 1)).submatrix e1' e2')
    (h2' : d2'.toM d2'.r d1'.r = (C'.d i).submatrix e0' e1') :
    ∃ (N rank : Nat) (tors : List Int),
      (∀ fuel, N ≤ fuel → ∃ T, calculate (snfC09 fuel) d1 d2 true = .ok (rank, tors, some T)) ∧
      (∀ fuel, N ≤ fuel → ∃ T', calculate (snfC09 fuel) d1' d2' true = .ok (rank, tors, some T')) :=
  hEquiv_reports_same_invariants (reflTransGen_hEquiv h) i d1 d2 d1' d2' hsh hsh' e0 e1 e2 h1 h2 e0' e1' e2' h1' h2'

/-- … in degree `0` -/
theorem reducer_run_reports_same_homology_zero {C C' : Cpx ℤ} (h : Relation.ReflTransGen ReducerStep C C')
    (d1 d2 d1' d2' : C07.Mat) (hsh : d2.c = d1.r) (hsh' : d2'.c = d1'.r)
    (e0 : Fin d1.r ≃ C.ι 0) (e1 : Fin d1.c ≃ C.ι 1)
    (h1 : d1.toM d1.r d1.c = (C.d 0).submatrix e0 e1) (h2 : d2.toM d2.r d1.r = 0)
    (e0' : Fin d1'.r ≃ C'.ι 0) (e1' : Fin d1'.c ≃ C'.ι 1)
    (h1' : d1'.toM d1'.r d1'.c = (C'.d 0).submatrix e0' e1') (h2' : d2'.toM d2'.r d1'.r = 0) :
    ∃ (N rank : Nat) (tors : List Int),
      (∀ fuel, N ≤ fuel → ∃ T, calculate (snfC09 fuel) d1 d2 true = .ok (rank, tors, some T)) ∧
      (∀ fuel, N ≤ fuel → ∃ T', calculate (snfC09 fuel) d1' d2' true = .ok (rank, tors, some T')) :=
  hEquiv_reports_same_invariants_zero (reflTransGen_hEquiv h) d1 d2 d1' d2' hsh hsh' e0 e1 h1 h2 e0' e1' h1' h2'

/-- two complete runs from the same complex (different schedules, different numbers of steps, different reduced matrices)
report the same rank and torsion list in degree `i+1` -/
theorem two_runs_report_same_homology {C C₁ C₂ : Cpx ℤ} (r₁ : Relation.ReflTransGen ReducerStep C C₁)
    (r₂ : Relation.ReflTransGen ReducerStep C C₂) (i : ℕ)
    (d1 d2 d1' d2' : C07.Mat) (hsh : d2.c = d1.r) (hsh' : d2'.c = d1'.r)
    (e0 : Fin d2.r ≃ C₁.ι i) (e1 : Fin d1.r ≃ C₁.ι (i + 1)) (e2 : Fin d1.c ≃ C₁.ι (i + 2))
    (h1 : d1.toM d1.r d1.c = (C₁.d (i + 1)).submatrix e1 e2) (h2 : d2.toM d2.r d1.r = (C₁.d i).submatrix e0 e1)
    (e0' : Fin d2'.r ≃ C₂.ι i) (e1' : Fin d1'.r ≃ C₂.ι (i + 1)) (e2' : Fin d1'.c ≃ C₂.ι (i + 2))
    (h1' : d1'.toM d1'.r d1'.c = (C₂.d (i + 1)).submatrix e1' e2')
    (h2' : d2'.toM d2'.r d1'.r = (C₂.d i).submatrix e0' e1') :
    ∃ (N rank : Nat) (tors : List Int),
      (∀ fuel, N ≤ fuel → ∃ T, calculate (snfC09 fuel) d1 d2 true = .ok (rank, tors, some T)) ∧
      (∀ fuel, N ≤ fuel → ∃ T', calculate (snfC09 fuel) d1' d2' true = .ok (rank, tors, some T')) := by
  have hdd : d2.toM d2.r d1.r * d1.toM d1.r d1.c = 0 := by
    rw [h1, h2, Matrix.submatrix_mul_equiv, C₁.sq]; rfl
  have hdd' : d2'.toM d2'.r d1'.r * d1'.toM d1'.r d1'.c = 0 := by
    rw [h1', h2', Matrix.submatrix_mul_equiv, C₂.sq]; rfl
  obtain ⟨E⟩ := two_runs_same_homology r₁ r₂ (i + 1)
  obtain ⟨p⟩ := Hn_succ_numbered C₁ i e0 e1 e2
  obtain ⟨p'⟩ := Hn_succ_numbered C₂ i e0' e1' e2'
  rw [← h1, ← h2] at p
  rw [← h1', ← h2'] at p'
  exact reported_invariants_iso_invariant d1 d2 d1' d2' hsh hsh' hdd hdd' ((p.symm.trans E).trans p').toAddEquiv

/-! ### the hypotheses are satisfiable by non-trivial values -/

/-- the complex `… → 0 → ℤ --2--> ℤ` (`H_0 = ℤ/2`) -/
def exCpx : Cpx ℤ where
  ι := fun _ => Fin 1
  d := fun i => if i = 0 then !![2] else 0
  sq := fun i => by rw [if_neg (Nat.succ_ne_zero i), Matrix.mul_zero]

/-- … with the C07 matrices `d1 = (2)`, `d2 : ℤ¹ → 0` satisfies every hypothesis of
`reducer_run_reports_same_homology_zero` (empty run; a non-empty run needs a schedule of the pivot search — those hypotheses
are shown satisfiable in `Props/C08Sched.lean`), and the model reports `rank 0`, `tors [2]` for it -/
example : ∃ (e0 : Fin (⟨1, 1, #[2]⟩ : C07.Mat).r ≃ exCpx.ι 0) (e1 : Fin (⟨1, 1, #[2]⟩ : C07.Mat).c ≃ exCpx.ι 1),
    (⟨1, 1, #[2]⟩ : C07.Mat).toM 1 1 = (exCpx.d 0).submatrix e0 e1 ∧ (⟨0, 1, #[]⟩ : C07.Mat).toM 0 1 = 0 ∧
    Relation.ReflTransGen ReducerStep exCpx exCpx :=
  ⟨Equiv.refl _, Equiv.refl _, by ext i j; fin_cases i; fin_cases j; rfl, by ext i j; exact i.elim0,
    Relation.ReflTransGen.refl⟩
example : runsTo ⟨1, 1, #[2]⟩ ⟨0, 1, #[]⟩ 0 [2] = true := by decide +kernel

end Yuiv.C08
