import Yuiv.Proofs.C01
/-
C01 — Khovanov homology equals the cube-of-resolutions definition.

What is PROVED here (for all h, t): the tables `prod`/`coprod` that define the edge maps of the
reference cube form a commutative Frobenius algebra with counit ε(1)=0, ε(X)=1 — the algebraic facts
that make the cube a complex and a TQFT.  What ties the library to the definition is the
correspondence run: the library's tables are compared with `KhRef.khHomology` (executable definition)
on every generated diagram; that equality is explored, not proved (see props/C01.json `partial`).
-/
namespace Yuiv.KhRef

theorem mul_comm' (h t : Int) (a b : A) : mul h t a b = mul h t b a := by
  simp [mul, add, smul, vecOf, prod]; constructor <;> ring

theorem mul_assoc' (h t : Int) (a b c : A) : mul h t (mul h t a b) c = mul h t a (mul h t b c) := by
  simp [mul, add, smul, vecOf, prod]; constructor <;> ring

theorem mul_one' (h t : Int) (a : A) : mul h t a one = a := by
  simp [mul, add, smul, vecOf, prod, one]

/-- `X² = h·X + t·1` -/
theorem X_sq (h t : Int) : mul h t X X = (t, h) := by
  simp [mul, add, smul, vecOf, prod, X]

theorem mul_add' (h t : Int) (a b c : A) : mul h t a (add b c) = add (mul h t a b) (mul h t a c) := by
  simp [mul, add, smul, vecOf, prod]; constructor <;> ring

/-- cocommutativity: the coefficients of `1⊗X` and `X⊗1` agree -/
theorem comul_cocomm (h t : Int) (a : A) : (comul h t a).2.1 = (comul h t a).2.2.1 := by
  simp [comul, add4, smul4, tenOf, coprod]

/-- counit law `(ε ⊗ id) ∘ Δ = id`: ε kills `1⊗_`, keeps `X⊗_` -/
theorem counit_comul (h t : Int) (a : A) :
    ((comul h t a).2.2.1, (comul h t a).2.2.2) = a := by
  simp [comul, add4, smul4, tenOf, coprod]

/-- coassociativity `(Δ ⊗ id) ∘ Δ = (id ⊗ Δ) ∘ Δ` -/
theorem comul_coassoc (h t : Int) (a : A) : comulId h t (comul h t a) = idComul h t (comul h t a) := by
  simp [comulId, idComul, comul, add4, smul4, tenOf, coprod, one, X]

/-- the Frobenius relation `Δ(a·b) = (m ⊗ id)(a ⊗ Δ b)` -/
theorem frobenius (h t : Int) (a b : A) : comul h t (mul h t a b) = mulLeft h t a (comul h t b) := by
  simp [comul, mulLeft, mul, add, smul, add4, smul4, vecOf, tenOf, prod, coprod, one, X]
  refine ⟨?_, ?_, ?_, ?_⟩ <;> ring

/-- ε(1) = 0, ε(X) = 1, and ε ∘ m is the nondegenerate pairing with Gram matrix [[0,1],[1,h]] -/
theorem counit_values (h t : Int) :
    counit one = 0 ∧ counit X = 1 ∧ counit (mul h t X X) = h := by
  simp [counit, one, X, mul, add, smul, vecOf, prod]

end Yuiv.KhRef

namespace Yuiv.KhRef

/-- the sign rule of the cube makes every square anticommute: for two distinct positions `i ≠ j` that are 0 in
`s`, going `i` then `j` carries the opposite sign of going `j` then `i` (this is what turns the commuting
faces of the TQFT cube into d∘d = 0). -/
theorem edgeSign_anticomm (s i j : Nat) (hij : i ≠ j) (hi : s.testBit i = false) (hj : s.testBit j = false) :
    edgeSign s i * edgeSign (s ||| (1 <<< i)) j = - (edgeSign s j * edgeSign (s ||| (1 <<< j)) i) := by
  rcases Nat.lt_or_gt_of_ne hij with h | h
  · rw [edgeSign_or_gt s i j hi h, edgeSign_or_le s j i (Nat.le_of_lt h)]; ring
  · rw [edgeSign_or_gt s j i hj h, edgeSign_or_le s i j (Nat.le_of_lt h)]; ring

end Yuiv.KhRef
