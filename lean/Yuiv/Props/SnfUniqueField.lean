import Yuiv.Proofs.SnfUniqueField
/-
UNIQUENESS OF THE SMITH NORMAL FORM over a FIELD (ℚ, 𝔽_p: the other coefficient rings the library's `snf` is run on) —
property theorems only (definitions and lemmas: `Proofs/SnfUniqueField.lean`).  Companion of `Props/SnfUnique.lean` (ℤ).

Vocabulary: `dgK D k` is the `k`-th diagonal entry (`0` outside the matrix); `IsDiagK D`: off-diagonal entries vanish;
`IsSmithK c D`: diagonal, `dgK D k ∣ dgK D (k+1)` for all `k`, and every non-zero diagonal entry equals `c` (the normalised
representative of the units; `c = 1` for the library's `normalizing_unit a = a⁻¹`, see `normOne_rat`, `normOne_fp`).

(F1) Mathlib matrices over any field `K`; (F2) the framework's objects: `IsSnfOfE e φ A T` is literally the conclusion of
`C09.snf_total_correct_euc` about the final target `T` for an operation record `e : EOps α` read through `φ : α → K`
(`ℚ`: `ratOps`, `φ = id`; `𝔽_p`: `fpOps p` on residues in `ℕ`, `φ a = (a : ZMod p)` — NOT injective on `ℕ`, so the `𝔽_p`
statements are about the image `(diagL T).map φ` in `ZMod p`; over `ℚ` they are about `diagL T` itself).
-/
namespace Yuiv.SnfField
open Matrix Finset

variable {K : Type} [Field K] {m n : ℕ}

/-! ### (F1) Mathlib matrices over a field -/

/-- the rank of a rectangular diagonal matrix is the number of its non-zero diagonal entries (wherever they stand) -/
theorem field_diag_rank [DecidableEq K] (D : Matrix (Fin m) (Fin n) K) (hD : IsDiagK D) :
    D.rank = #{k ∈ range (min m n) | dgK D k ≠ 0} := rank_diagK D hD

/-- **the number of non-zero diagonal entries is an invariant.**  `D`, `D'` diagonal, `D' = U·D·V` with `U`, `V`
invertible: both have the same number of non-zero diagonal entries, namely the rank -/
theorem field_diag_count_unique [DecidableEq K] (D D' : Matrix (Fin m) (Fin n) K) (hD : IsDiagK D) (hD' : IsDiagK D')
    (U : Matrix (Fin m) (Fin m) K) (V : Matrix (Fin n) (Fin n) K) (hU : IsUnit U.det) (hV : IsUnit V.det)
    (h : D' = U * D * V) :
    #{k ∈ range (min m n) | dgK D k ≠ 0} = #{k ∈ range (min m n) | dgK D' k ≠ 0} ∧
      #{k ∈ range (min m n) | dgK D k ≠ 0} = D.rank := by
  rw [← rank_diagK D hD, ← rank_diagK D' hD', h, rank_equiv D U V hU hV]
  exact ⟨rfl, rfl⟩

/-- over a field the divisibility chain `d_k ∣ d_{k+1}` says exactly that a zero is followed by a zero -/
theorem field_chain_iff_zeros_last (d : ℕ → K) : (∀ k, d k ∣ d (k + 1)) ↔ ∀ k, d k = 0 → d (k + 1) = 0 :=
  chain_iff_zeros_last d

/-- **the normalised Smith shape over a field.**  Chain + normalisation (`d_k ≠ 0 → d_k = c`) force the diagonal
`c, …, c, 0, …, 0` with exactly `rank D` entries `c` -/
theorem field_smith_shape (c : K) (D : Matrix (Fin m) (Fin n) K) (hD : IsDiagK D)
    (hc : ∀ k, dgK D k ∣ dgK D (k + 1)) (hn : ∀ k, dgK D k ≠ 0 → dgK D k = c) (k : ℕ) :
    dgK D k = if k < D.rank then c else 0 := smithK_dg c D ⟨hD, hc, hn⟩ k

/-- **normalised Smith forms over a field are equal** (`c = 1`: non-zero entries first and all `1`).  If `D`, `D'` are
diagonal with `d_k ∣ d_{k+1}` and non-zero entries equal to `1`, and `D' = U·D·V` with `U`, `V` invertible, then `D = D'` -/
theorem field_smith_unique_normalised (D D' : Matrix (Fin m) (Fin n) K) (hD : IsSmithK 1 D) (hD' : IsSmithK 1 D')
    (U : Matrix (Fin m) (Fin m) K) (V : Matrix (Fin n) (Fin n) K) (hU : IsUnit U.det) (hV : IsUnit V.det)
    (h : D' = U * D * V) : D = D' :=
  eq_of_dgK_eq D D' hD.diag hD'.diag fun k => by
    rw [smithK_dg 1 D hD, smithK_dg 1 D' hD', h, rank_equiv D U V hU hV]

/-- the same for any normalisation constant `c` (both forms normalised to the same `c`) -/
theorem field_smith_unique (c : K) (D D' : Matrix (Fin m) (Fin n) K) (hD : IsSmithK c D) (hD' : IsSmithK c D')
    (U : Matrix (Fin m) (Fin m) K) (V : Matrix (Fin n) (Fin n) K) (hU : IsUnit U.det) (hV : IsUnit V.det)
    (h : D' = U * D * V) : D = D' :=
  eq_of_dgK_eq D D' hD.diag hD'.diag fun k => by
    rw [smithK_dg c D hD, smithK_dg c D' hD', h, rank_equiv D U V hU hV]

/-- a normalised Smith form `D = U·A·V` of `A` is `diag(1^r, 0, …)` with `r = rank A` -/
theorem field_smith_diag_of_matrix (c : K) (A D : Matrix (Fin m) (Fin n) K) (hD : IsSmithK c D)
    (U : Matrix (Fin m) (Fin m) K) (V : Matrix (Fin n) (Fin n) K) (hU : IsUnit U.det) (hV : IsUnit V.det)
    (h : D = U * A * V) (k : ℕ) : dgK D k = if k < A.rank then c else 0 := by
  rw [smithK_dg c D hD, h, rank_equiv A U V hU hV]

/-- two Smith forms `U·A·V = D`, `U'·A·V' = D'` of the SAME matrix (transforms with explicit right inverses, as the code
hands them out) are equal -/
theorem field_smith_of_same_matrix_unique (c : K) (A D D' : Matrix (Fin m) (Fin n) K) (hD : IsSmithK c D)
    (hD' : IsSmithK c D') (U Ui U' Ui' : Matrix (Fin m) (Fin m) K) (V Vi V' Vi' : Matrix (Fin n) (Fin n) K)
    (hU : U * Ui = 1) (hV : V * Vi = 1) (hU' : U' * Ui' = 1) (hV' : V' * Vi' = 1)
    (h : U * A * V = D) (h' : U' * A * V' = D') : D = D' :=
  eq_of_dgK_eq D D' hD.diag hD'.diag fun k => by
    rw [field_smith_diag_of_matrix c A D hD U V (Matrix.isUnit_det_of_right_inverse hU)
        (Matrix.isUnit_det_of_right_inverse hV) h.symm,
      field_smith_diag_of_matrix c A D' hD' U' V' (Matrix.isUnit_det_of_right_inverse hU')
        (Matrix.isUnit_det_of_right_inverse hV') h'.symm]

/-! ### non-vacuity: over ℚ, `A = [[2,4],[1,3]]` (rank 2) and `B = [[2,4],[1,2]]` (rank 1) -/

example : IsSmithK (1 : ℚ) !![1, 0; 0, 0] := by
  refine ⟨?_, ?_, ?_⟩
  · intro i j hij
    fin_cases i <;> fin_cases j <;> simp_all
  · intro k
    rcases k with _ | k
    · simp [dgK]
    · rw [dgK_out _ (k + 1 + 1) (by omega)]; exact dvd_zero _
  · intro k hk
    rcases k with _ | _ | k
    · simp [dgK]
    · exact absurd (by simp [dgK]) hk
    · exact absurd (dgK_out _ (k + 1 + 1) (by omega)) hk

/-- `B` has the normalised Smith form `diag(1, 0)` through two different transform pairs -/
example : !![(1 : ℚ) / 2, 0; -1, 2] * !![2, 4; 1, 2] * !![1, -2; 0, 1] = !![1, 0; 0, 0] ∧
    !![(0 : ℚ), 1; 1, -2] * !![2, 4; 1, 2] * !![1, -2; 0, 1] = !![1, 0; 0, 0] ∧
    IsUnit (!![(1 : ℚ) / 2, 0; -1, 2]).det ∧ IsUnit (!![(1 : ℚ), -2; 0, 1]).det ∧
    IsUnit (!![(0 : ℚ), 1; 1, -2]).det := by
  refine ⟨?_, ?_, ?_, ?_, ?_⟩
  · ext i j; fin_cases i <;> fin_cases j <;> norm_num [Matrix.mul_apply, Fin.sum_univ_two]
  · ext i j; fin_cases i <;> fin_cases j <;> norm_num [Matrix.mul_apply, Fin.sum_univ_two]
  all_goals (rw [isUnit_iff_ne_zero, Matrix.det_fin_two]; norm_num)

end Yuiv.SnfField

namespace Yuiv.C09
open Yuiv Matrix Yuiv.SnfField

variable {α K : Type} [Field K] {e : EOps α} {φ : α → K} {m n : Nat}

/-! ### (F2) the framework's objects, any lawful operation record over a field -/

/-- over a field "normalised and non-zero" pins the element: it is the constant `normOne e φ` (the normalised
associate of `1`), by the law `norm_unique` — all non-zero elements are associated -/
theorem normalised_nonzero_unique_field (L : LawfulEuc e φ) (x : K) (hx : x ≠ 0) (hn : NormalisedIn e φ x) :
    x = normOne e φ := normalised_eq_normOne L x hx hn

/-- **snf_diag_is_rank_field.**  For every lawful operation record over a field: any `T` satisfying the conclusion of
`snf_total_correct_euc` for `A` has the diagonal `c^r 0^(min m n − r)` with `r = Matrix.rank` of (the image of) `A` -/
theorem snf_diag_is_rank_field (L : LawfulEuc e φ) (A T : Mat α m n) (h : IsSnfOfE e φ A T) :
    (diagL T).map φ = List.replicate (toM φ A).rank (normOne e φ) ++
      List.replicate (min m n - (toM φ A).rank) 0 := diagL_of_isSnfOfE L A T h

/-- **snf_diag_unique_field.**  Any two results satisfying the conclusion of `snf_total_correct_euc` for the same `A`
have the same diagonal and the same target (as matrices over `K`) -/
theorem snf_diag_unique_field (L : LawfulEuc e φ) (A T T' : Mat α m n) (h : IsSnfOfE e φ A T)
    (h' : IsSnfOfE e φ A T') : (diagL T).map φ = (diagL T').map φ ∧ toM φ T = toM φ T' := by
  refine ⟨by rw [diagL_of_isSnfOfE L A T h, diagL_of_isSnfOfE L A T' h'], ?_⟩
  have hd : ∀ k, dgK (toM φ T) k = dgK (toM φ T') k := fun k => by
    rw [dgK_of_isSnfOfE L A T h, dgK_of_isSnfOfE L A T' h']
  obtain ⟨P, Pi, Q, Qi, w⟩ := h
  obtain ⟨P', Pi', Q', Qi', w'⟩ := h'
  exact eq_of_dgK_eq _ _ (w.isSmithK L).diag (w'.isSmithK L).diag hd

/-- **the code model's diagonal over a field is determined by the input.**  The code model of `SnfCalc::process` returns
(for all `fuel ≥ N`) one state `s` whose target is a Smith form of `A`; its diagonal is `c^r 0^…`, `r = rank A`, and EVERY
Smith form `T` of `A` — however obtained — has the same diagonal -/
theorem snf_model_diag_field (L : LawfulEuc e φ) (A : Mat α m n) :
    ∃ N s, (∀ fuel, N ≤ fuel → snfCalc e true (fun s => .ok s) fuel A = .ok s) ∧ IsSnfOfE e φ A s.t ∧
      (diagL s.t).map φ = List.replicate (toM φ A).rank (normOne e φ) ++
        List.replicate (min m n - (toM φ A).rank) 0 ∧
      ∀ T, IsSnfOfE e φ A T → (diagL T).map φ = (diagL s.t).map φ := by
  obtain ⟨N, s, hN, hs⟩ := snf_total_correct_euc L A
  have hsn : IsSnfOfE e φ A s.t := ⟨s.p, s.pinv, s.q, s.qinv, hs⟩
  exact ⟨N, s, hN, hsn, diagL_of_isSnfOfE L A s.t hsn, fun T hT => (snf_diag_unique_field L A T s.t hT hsn).1⟩

/-- whenever the code model returns (any fuel), its diagonal is `c^r 0^…` with `r = rank A` -/
theorem snf_result_diag_field (L : LawfulEuc e φ) (fuel : Nat) (A : Mat α m n) (s : St α m n)
    (h : snfCalc e true (fun s => .ok s) fuel A = .ok s) :
    (diagL s.t).map φ = List.replicate (toM φ A).rank (normOne e φ) ++
      List.replicate (min m n - (toM φ A).rank) 0 :=
  diagL_of_isSnfOfE L A s.t ⟨s.p, s.pinv, s.q, s.qinv, snf_correct_euc L fuel A s h⟩

/-- the diagonal is an invariant of the equivalence class: if (the image of) `A'` is `U·A·V` with `U`, `V` invertible
over `K` then the code model computes the same diagonal for `A` and `A'` -/
theorem snf_diag_equiv_invariant_field (L : LawfulEuc e φ) (fuel fuel' : Nat) (A A' : Mat α m n) (s s' : St α m n)
    (h : snfCalc e true (fun s => .ok s) fuel A = .ok s) (h' : snfCalc e true (fun s => .ok s) fuel' A' = .ok s')
    (U : Matrix (Fin m) (Fin m) K) (V : Matrix (Fin n) (Fin n) K) (hU : IsUnit U.det) (hV : IsUnit V.det)
    (hA : toM φ A' = U * toM φ A * V) : (diagL s.t).map φ = (diagL s'.t).map φ := by
  rw [snf_result_diag_field L fuel A s h, snf_result_diag_field L fuel' A' s' h', hA, rank_equiv _ U V hU hV]

/-! ### ℚ (`ratOps`, `φ = id`: the model's entries ARE Mathlib rationals) -/

/-- over ℚ the normalised non-zero element is `1` -/
theorem rat_normOne : normOne ratOps (id : Rat → Rat) = 1 := normOne_rat

/-- two results satisfying the conclusion of `snf_total_correct_euc` over ℚ for the same `A` have the same diagonal,
which is `1^r 0^(min m n − r)` with `r = Matrix.rank A`, and are equal entry by entry -/
theorem snf_diag_unique_rat (A T T' : Mat Rat m n) (h : IsSnfOfE ratOps id A T) (h' : IsSnfOfE ratOps id A T') :
    diagL T = diagL T' ∧ (∀ i j, T.get i j = T'.get i j) ∧
      diagL T = List.replicate (toM id A).rank 1 ++ List.replicate (min m n - (toM id A).rank) 0 := by
  have h1 := snf_diag_unique_field lawfulEuc_rat A T T' h h'
  have h2 := snf_diag_is_rank_field lawfulEuc_rat A T h
  rw [List.map_id] at h1 h2
  rw [List.map_id] at h1
  rw [normOne_rat] at h2
  exact ⟨h1.1, fun i j => congrFun (congrFun h1.2 i) j, h2⟩

/-- the code model's diagonal over ℚ is `1^r 0^…`, `r = rank A`, for ALL sufficiently large fuel, and every Smith form
of `A` has this diagonal -/
theorem snf_model_diag_rat (A : Mat Rat m n) :
    ∃ N s, (∀ fuel, N ≤ fuel → snfCalc ratOps true (fun s => .ok s) fuel A = .ok s) ∧
      diagL s.t = List.replicate (toM id A).rank 1 ++ List.replicate (min m n - (toM id A).rank) 0 ∧
      ∀ T, IsSnfOfE ratOps id A T → diagL T = diagL s.t := by
  obtain ⟨N, s, hN, hsn, _, _⟩ := snf_model_diag_field lawfulEuc_rat A
  exact ⟨N, s, hN, (snf_diag_unique_rat A s.t s.t hsn hsn).2.2, fun T hT => (snf_diag_unique_rat A T s.t hT hsn).1⟩

/-- whenever the ℚ code model returns (any fuel) its diagonal is `1^r 0^…` with `r = rank A` -/
theorem snf_result_diag_rat (fuel : Nat) (A : Mat Rat m n) (s : St Rat m n)
    (h : snfCalc ratOps true (fun s => .ok s) fuel A = .ok s) :
    diagL s.t = List.replicate (toM id A).rank 1 ++ List.replicate (min m n - (toM id A).rank) 0 := by
  have := snf_result_diag_field lawfulEuc_rat fuel A s h
  rwa [List.map_id, normOne_rat] at this

/-! ### 𝔽_p (`fpOps p`: residues as natural numbers, read through `a ↦ (a : ZMod p)`) -/

/-- over 𝔽_p the normalised non-zero element is `1` -/
theorem fp_normOne (p : Nat) [Fact p.Prime] : normOne (fpOps p) (fun a : Nat => (a : ZMod p)) = 1 := normOne_fp p

/-- two results satisfying the conclusion of `snf_total_correct_euc` over 𝔽_p for the same `A` have the same diagonal in
`ZMod p`, which is `1^r 0^(min m n − r)` with `r = Matrix.rank` of `A` over `ZMod p`, and the same target over `ZMod p` -/
theorem snf_diag_unique_fp (p : Nat) [Fact p.Prime] (A T T' : Mat Nat m n)
    (h : IsSnfOfE (fpOps p) (fun a : Nat => (a : ZMod p)) A T)
    (h' : IsSnfOfE (fpOps p) (fun a : Nat => (a : ZMod p)) A T') :
    (diagL T).map (fun a : Nat => (a : ZMod p)) = (diagL T').map (fun a : Nat => (a : ZMod p)) ∧
      toM (fun a : Nat => (a : ZMod p)) T = toM (fun a : Nat => (a : ZMod p)) T' ∧
      (diagL T).map (fun a : Nat => (a : ZMod p)) =
        List.replicate (toM (fun a : Nat => (a : ZMod p)) A).rank 1 ++
          List.replicate (min m n - (toM (fun a : Nat => (a : ZMod p)) A).rank) 0 := by
  have h1 := snf_diag_unique_field (lawfulEuc_fp p) A T T' h h'
  have h2 := snf_diag_is_rank_field (lawfulEuc_fp p) A T h
  rw [normOne_fp] at h2
  exact ⟨h1.1, h1.2, h2⟩

/-- the code model's diagonal over 𝔽_p is (in `ZMod p`) `1^r 0^…`, `r = rank A`, for all sufficiently large fuel, and
every Smith form of `A` has this diagonal -/
theorem snf_model_diag_fp (p : Nat) [Fact p.Prime] (A : Mat Nat m n) :
    ∃ N s, (∀ fuel, N ≤ fuel → snfCalc (fpOps p) true (fun s => .ok s) fuel A = .ok s) ∧
      (diagL s.t).map (fun a : Nat => (a : ZMod p)) =
        List.replicate (toM (fun a : Nat => (a : ZMod p)) A).rank 1 ++
          List.replicate (min m n - (toM (fun a : Nat => (a : ZMod p)) A).rank) 0 ∧
      ∀ T, IsSnfOfE (fpOps p) (fun a : Nat => (a : ZMod p)) A T →
        (diagL T).map (fun a : Nat => (a : ZMod p)) = (diagL s.t).map (fun a : Nat => (a : ZMod p)) := by
  obtain ⟨N, s, hN, _, hd, hT⟩ := snf_model_diag_field (lawfulEuc_fp p) A
  rw [normOne_fp] at hd
  exact ⟨N, s, hN, hd, hT⟩

/-- whenever the 𝔽_p code model returns (any fuel) its diagonal is (in `ZMod p`) `1^r 0^…` with `r = rank A` -/
theorem snf_result_diag_fp (p : Nat) [Fact p.Prime] (fuel : Nat) (A : Mat Nat m n) (s : St Nat m n)
    (h : snfCalc (fpOps p) true (fun s => .ok s) fuel A = .ok s) :
    (diagL s.t).map (fun a : Nat => (a : ZMod p)) =
      List.replicate (toM (fun a : Nat => (a : ZMod p)) A).rank 1 ++
        List.replicate (min m n - (toM (fun a : Nat => (a : ZMod p)) A).rank) 0 := by
  have := snf_result_diag_field (lawfulEuc_fp p) fuel A s h
  rwa [normOne_fp] at this

/-! ### non-vacuity in the framework -/

/-- over ℚ the code model returns `diag(1, 0)` on the rank-1 matrix `[[2,4],[1,2]]` … -/
example : (match snfCalc ratOps true (fun s => .ok s) 50 (⟨#v[#v[2, 4], #v[1, 2]]⟩ : Mat Rat 2 2) with
    | .ok s => diagL s.t == [1, 0]
    | _ => false) = true := by decide +kernel

/-- … and `IsSnfOfE` is inhabited: the model's own result is a Smith form of its input (for every input) -/
example (A : Mat Rat 2 2) : ∃ T, IsSnfOfE ratOps id A T := by
  obtain ⟨N, s, _, hs⟩ := snf_total_correct_euc lawfulEuc_rat A
  exact ⟨s.t, s.p, s.pinv, s.q, s.qinv, hs⟩

/-- over 𝔽_5 the code model returns `diag(1, 1)` on a rank-2 matrix -/
example : (match snfCalc (fpOps 5) true (fun s => .ok s) 50 (⟨#v[#v[2, 3, 0], #v[1, 4, 2]]⟩ : Mat Nat 2 3) with
    | .ok s => diagL s.t == [1, 1]
    | _ => false) = true := by decide +kernel

end Yuiv.C09
