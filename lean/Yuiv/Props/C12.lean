import Yuiv.Proofs.C12
namespace Yuiv.C12
theorem placeholder_enumFrom_length {α : Type} (k : Nat) (l : List α) : (enumFrom k l).length = l.length := by
  induction l generalizing k with
  | nil => rfl
  | cons a l ih => simp [enumFrom, ih]
end Yuiv.C12
