import Yuiv.Proofs.C12
import Yuiv.Proofs.C12Rings
import Yuiv.Proofs.C12Schur
import Yuiv.Proofs.C12Left
import Yuiv.Proofs.C12SchurModel
import Yuiv.Proofs.C12UF
import Yuiv.Proofs.C12Group
import Yuiv.Proofs.C12Check
/-
C12 — sparse kernels (triangular solve, Schur complement, block splitting) are exact.

Property theorems only; definitions and lemmas are in `Yuiv/Proofs/C12*.lean`, the code model in
`Yuiv/Model/C12.lean` (the driver `yuivd_c12` runs exactly these definitions against the Rust code).

Scalars: any commutative ring `R` whose model operations (`Scal R`: what the Rust code calls `+ - * neg
is_zero inv`) are lawful (`LawfulScal R`); lawful instances are proved for `Int` (i64), core `Rat`
(`Ratio<i64>`), `Fin 5` (`FF<5>`) and `GI` (`GaussInt<i64>`) in `Proofs/C12Rings.lean`.

`UnitTriang upper A n u v` : `A` is n×n, every stored NON-ZERO entry lies on the right side (stored zeros
anywhere), every column stores exactly one diagonal entry `u j`, and `inv (u j) = some (v j)`.
`WFY Y n` : CSC well-formedness of a right-hand side (rows `< n`, no row stored twice in a column).
-/
namespace Yuiv.C12
open Yuiv Matrix

section solve
variable {R : Type} [CommRing R] [Scal R] [LawfulScal R]
variable {upper : Bool} {A : SpMat R} {n : Nat} {u v : Nat → R}

/-- **solve_invariant.** Every run of the outer loop of `_solve_triangular` (any order `js` of pivots, any
diagonal values, any buffer, no triangularity needed) preserves the quantity `A·x_partial + b`. -/
theorem solve_invariant (A : SpMat R) (hA : WF A) (n : Nat) (hn : A.nrows = n)
    (js : List (Nat × R)) (hjs : ∀ ju ∈ js, ju.1 < n) (b : Array R) (hb : b.size = n)
    (es : List (Nat × R)) (b' : Array R) (es' : List (Nat × R))
    (h : outer A b es js = .ok (b', es')) :
    b'.size = n ∧ ∀ i, axAt A n es' i + bget b' i = axAt A n es i + bget b i :=
  outer_invariant A hA n hn js hjs b hb es b' es' h

/-- **solve_buffer_zero.** On a unit-triangular matrix `_solve_triangular` does not panic (`inv().unwrap()`,
the `debug_assert!`, `from_sorted_entries`), leaves the scratch buffer ALL ZERO whatever it contained at
entry, and returns `x` with `A·x = b` (`b` = buffer content at entry). -/
theorem solve_buffer_zero (hA : UnitTriang upper A n u v) (b : Array R) (hb : b.size = n) :
    ∃ es, solveBuf upper A (collectDiag A) b = .ok (zeroBuf n, es) ∧ (∀ e ∈ es, e.1 < n) ∧
      ∀ i, axAt A n es i = bget b i :=
  solveBuf_spec hA b hb

/-- **parallel = sequential (history independence).** For ANY assignment of columns to worker buffers
(`evs` = list of `(worker, column)` events, every worker owning one buffer that starts all-zero and is
reused for all its columns) every column gets exactly the result a fresh zero buffer gives. -/
theorem solve_schedule_independent (hA : UnitTriang upper A n u v) {Y : SpMat R} (hY : WFY Y n)
    (evs : List (Nat × Nat)) :
    runSched upper A (collectDiag A) Y (fun _ => zeroBuf n) evs =
      .ok (evs.map fun wj => (wj.2, freshCol upper A Y n wj.2)) :=
  runSched_spec hA hY evs _ (fun _ => rfl)

/-- the sequential column loop (one buffer, any list of columns) is the special case of one worker, and it
hands back a zero buffer -/
theorem solve_cols_reused_buffer (hA : UnitTriang upper A n u v) {Y : SpMat R} (hY : WFY Y n) (js : List Nat) :
    solveCols upper A (collectDiag A) Y (zeroBuf n) js = .ok (zeroBuf n, js.map (freshCol upper A Y n)) :=
  solveCols_spec hA hY js

/-- **A·X = Y.** `solve_triangular(t, a, y)` returns (no panic) the `n × k` matrix `X` whose `j`-th column is
the fresh-buffer result, and `A·X = Y` as matrices over `R`. -/
theorem solve_correct' (hA : UnitTriang upper A n u v) {Y : SpMat R} (hY : WFY Y n) :
    ∃ X, solve upper A Y = .ok X ∧ X.nrows = n ∧ X.ncols = Y.ncols ∧ (∀ j, ∀ e ∈ col X j, e.1 < n) ∧
      (∀ j, j < Y.ncols → col X j = freshCol upper A Y n j) ∧
      toMatrix A n n * toMatrix X n Y.ncols = toMatrix Y n Y.ncols := by
  obtain ⟨X, h1, h2, h3, h4, h5⟩ := solve_correct hA hY
  refine ⟨X, h1, h2, h3, h4, fun j hj => ?_, h5⟩
  rw [solve_eq hA hY] at h1
  cases h1
  exact col_mk _ _ _ _ hj

/-- the hypotheses are satisfiable by a non-trivial value: an upper triangular 2×2 integer matrix with
diagonal `1, -1`, a stored zero BELOW the diagonal, and a right-hand side with a stored zero -/
example : ∃ (A Y : SpMat Int) (u v : Nat → Int), UnitTriang true A 2 u v ∧ WFY Y 2 := by
  refine ⟨⟨2, 2, #[[(0, 1), (1, 0)], [(0, 2), (1, -1)]]⟩, ⟨2, 1, #[[(0, 1), (1, 3)]]⟩,
    fun j => if j = 0 then 1 else -1, fun j => if j = 0 then 1 else -1, ?_, ?_⟩
  · refine ⟨⟨rfl, ?_⟩, rfl, rfl, ?_, ?_, ?_⟩
    · intro j e he
      match j with
      | 0 => simp [col] at he; rcases he with rfl | rfl <;> decide
      | 1 => simp [col] at he; rcases he with rfl | rfl <;> decide
      | j + 2 => simp [col] at he
    · intro j hj e he hz
      match j with
      | 0 => simp [col] at he; rcases he with rfl | rfl <;> simp_all [Scal.isZero]
      | 1 => simp [col] at he; rcases he with rfl | rfl <;> simp_all [Scal.isZero]
    · intro j hj
      match j with
      | 0 => decide
      | 1 => decide
    · intro j hj
      match j with
      | 0 => decide
      | 1 => decide
  · refine ⟨rfl, rfl, ?_, ?_⟩
    · intro j e he
      match j with
      | 0 => simp [col] at he; rcases he with rfl | rfl <;> decide
      | j + 1 => simp [col] at he
    · intro j
      match j with
      | 0 => decide
      | j + 1 => simp [col]

/-- **`solve_triangular_vec`**: `A·x = b` for a sparse right-hand side vector given by its stored entries -/
theorem solve_vec_correct (hA : UnitTriang upper A n u v) (vec : List (Nat × R))
    (hrows : ∀ e ∈ vec, e.1 < n) (hnd : (vec.map (·.1)).Nodup) :
    ∃ es, solveVec upper A n vec = .ok es ∧ (∀ e ∈ es, e.1 < n) ∧ ∀ i, axAt A n es i = colSum vec i :=
  solveVec_correct hA vec hrows hnd

/-- **`inv_triangular`** returns a right inverse `A·Z = 1` (hence `A` is invertible and `Z = A⁻¹`) -/
theorem inv_triangular_correct (hA : UnitTriang upper A n u v) :
    ∃ Z, invTriangular upper A = .ok Z ∧ Z.nrows = n ∧ Z.ncols = n ∧ toMatrix A n n * toMatrix Z n n = 1 ∧
      IsUnit (toMatrix A n n).det ∧ (toMatrix A n n)⁻¹ = toMatrix Z n n := by
  obtain ⟨Z, h1, h2, h3, h4⟩ := invTriangular_correct hA
  exact ⟨Z, h1, h2, h3, h4, (isUnit_of_right_inv _ _ h4).1, (isUnit_of_right_inv _ _ h4).2⟩

/-- **X·A = Y.** `solve_triangular_left` (solve with the transposed matrices, transpose back) -/
theorem solve_left_correct (hA : UnitTriang upper A n u v) {Y : SpMat R} (hY : WFYL Y n) :
    ∃ X, solveLeft upper A Y = .ok X ∧ X.nrows = Y.nrows ∧ X.ncols = n ∧
      toMatrix X Y.nrows n * toMatrix A n n = toMatrix Y Y.nrows n :=
  solveLeft_correct hA hY

/-- transposition of the CSC model transposes entries and keeps unit-triangularity (other side) -/
theorem transpose_entry (A : SpMat R) (k i : Nat) (hi : i < A.nrows) :
    entry (transpose A) k i = if k < A.ncols then entry A i k else 0 := entry_transpose A k i hi
theorem transpose_unit_triang (hA : UnitTriang upper A n u v) : UnitTriang (!upper) (transpose A) n u v :=
  hA.transpose

end solve

/-! ### `Schur::from_partial_triangular` (code model) -/

section schurModel
variable {R : Type} [CommRing R] [Scal R] [LawfulScal R] [Nontrivial R]
variable {upper : Bool} {M : SpMat R} {r : Nat} {u v : Nat → R}

/-- **S = D − C·A⁻¹·B** for the blocks `A = M[..r, ..r]`, `B = M[..r, r..]`, `C = M[r.., ..r]`, `D = M[r.., r..]`
of any CSC matrix `M` (stored zeros allowed) whose leading block is unit triangular; no panic; transfer maps
present iff requested.  Includes `r = 0` and `r = min(m,n)`. -/
theorem schur_complement_correct (h : SchurInput upper M r u v) (wt : Bool) :
    ∃ o, schur upper M r wt = .ok o ∧ IsUnit (blkA M r).det ∧
      toMatrix o.s (M.nrows - r) (M.ncols - r) =
        blkD M r (M.nrows - r) (M.ncols - r) - blkC M r (M.nrows - r) * (blkA M r)⁻¹ * blkB M r (M.ncols - r) ∧
      o.src.isSome = wt ∧ o.tgt.isSome = wt :=
  schur_S h wt

/-- **F_tgt·M·B_src = S, F_src·B_src = 1, F_tgt·B_tgt = 1** for the four matrices the code assembles
(`proj`, `(-a⁻¹b).stack(id)`, `(-c·a⁻¹).extend_cols(id)`, `incl`), read as block matrices over
`Fin r ⊕ Fin (m-r)` / `Fin r ⊕ Fin (n-r)` (`bothSplit M = fromBlocks A B C D`). -/
theorem schur_transfer_maps_correct (h : SchurInput upper M r u v) :
    ∃ S fs bs ft bt, schur upper M r true = .ok ⟨S, some (fs, bs), some (ft, bt)⟩ ∧
      colsSplit ft (M.nrows - r) r (M.nrows - r) * bothSplit M r (M.nrows - r) (M.ncols - r) *
          rowsSplit bs r (M.ncols - r) (M.ncols - r) = toMatrix S (M.nrows - r) (M.ncols - r) ∧
      colsSplit fs (M.ncols - r) r (M.ncols - r) * rowsSplit bs r (M.ncols - r) (M.ncols - r) = 1 ∧
      colsSplit ft (M.nrows - r) r (M.nrows - r) * rowsSplit bt r (M.nrows - r) (M.nrows - r) = 1 ∧
      toMatrix S (M.nrows - r) (M.ncols - r) =
        blkD M r (M.nrows - r) (M.ncols - r) - blkC M r (M.nrows - r) * (blkA M r)⁻¹ * blkB M r (M.ncols - r) :=
  schur_transfer_model h

theorem schur_blocks_of_model (M : SpMat R) (r p q : Nat) :
    bothSplit M r p q = fromBlocks (blkA M r) (blkB M r q) (blkC M r p) (blkD M r p q) := bothSplit_eq M r p q

/-- the hypotheses are satisfiable: a 2×3 integer matrix with leading 1×1 block `[-1]` and a stored zero -/
example : SchurInput (R := Int) true ⟨2, 3, #[[(0, -1), (1, 2)], [(0, 0), (1, 3)], [(1, 5)]]⟩ 1
    (fun _ => -1) (fun _ => -1) := by
  refine ⟨by decide, by decide, ?_, ?_, ?_, ?_, ?_⟩
  · intro j e he
    match j with
    | 0 => simp [col] at he; rcases he with rfl | rfl <;> decide
    | 1 => simp [col] at he; rcases he with rfl | rfl <;> decide
    | 2 => simp [col] at he; subst he; decide
    | j + 3 => simp [col] at he
  · intro j
    match j with
    | 0 => decide
    | 1 => decide
    | 2 => decide
    | j + 3 => simp [col]
  · intro j hj e he h1 hz
    have : j = 0 := by omega
    subst this
    simp [col] at he
    rcases he with rfl | rfl <;> simp_all
  · intro j hj
    have : j = 0 := by omega
    subst this; decide
  · intro j hj; decide

end schurModel

/-! ### lawful scalar instances (the rings the harness exercises) -/

theorem lawful_int : LawfulScal Int := inferInstance
theorem lawful_rat : LawfulScal Rat := inferInstance
theorem lawful_gauss : LawfulScal GI := inferInstance
open Fin.CommRing in
theorem lawful_f5 : LawfulScal (Fin 5) := inferInstance

/-! ### Schur complement: block-matrix identities (any commutative ring, any finite block sizes) -/

section schur
variable {R : Type} [CommRing R]
variable {r p q : Type} [Fintype r] [Fintype p] [Fintype q] [DecidableEq r] [DecidableEq p] [DecidableEq q]

/-- **F_tgt · M · B_src = S** with `S = D − C·X`, for the maps the code assembles from `X` (`A·X = B`, by
`solve_triangular`) and `W` (`W·A = C`, by `solve_triangular_left`). -/
theorem schur_transfer_identity (A : Matrix r r R) (B : Matrix r q R) (C : Matrix p r R) (D : Matrix p q R)
    (X : Matrix r q R) (W : Matrix p r R) (hX : A * X = B) (hW : W * A = C) :
    fromCols (-W) (1 : Matrix p p R) * fromBlocks A B C D * fromRows (-X) (1 : Matrix q q R) = D - C * X :=
  schur_transfer A B C D X W hX hW

/-- **F·B = I** for both transfer maps -/
theorem schur_transfer_FB_src (X : Matrix r q R) :
    fromCols (0 : Matrix q r R) (1 : Matrix q q R) * fromRows (-X) (1 : Matrix q q R) = 1 := schur_src_id X
theorem schur_transfer_FB_tgt (W : Matrix p r R) :
    fromCols (-W) (1 : Matrix p p R) * fromRows (0 : Matrix r p R) (1 : Matrix p p R) = 1 := schur_tgt_id W

/-- **S = D − C·A⁻¹·B** when `A` is invertible (`X` the solution of `A·X = B`) -/
theorem schur_complement_inv (A : Matrix r r R) (B : Matrix r q R) (C : Matrix p r R) (D : Matrix p q R)
    (X : Matrix r q R) (hA : IsUnit A.det) (hX : A * X = B) :
    X = A⁻¹ * B ∧ D - C * X = D - C * A⁻¹ * B := schur_eq_inv A B C D X hA hX

/-- a matrix with a right inverse (what `inv_triangular` returns) is invertible and that is its inverse -/
theorem right_inverse_is_inverse (A Z : Matrix r r R) (h : A * Z = 1) : IsUnit A.det ∧ A⁻¹ = Z :=
  isUnit_of_right_inv A Z h

example : ∃ (A : Matrix (Fin 1) (Fin 1) ℤ) (X : Matrix (Fin 1) (Fin 2) ℤ), A * X = !![2, -3] ∧ IsUnit A.det :=
  ⟨!![1], !![2, -3], by decide, by simp⟩

end schur

/-! ### union-find -/

section uf
open UF Relation

/-- `p[i] ≤ i` holds initially and is preserved by `union`; `union` never panics on indices in range -/
theorem uf_inv_new (n : Nat) : Good (UF.new n) n := new_good n
theorem uf_inv_union {u : UF} {n : Nat} (hG : Good u n) (i j : Nat) (hi : i < n) (hj : j < n) :
    ∃ u', UF.union u i j = .ok u' ∧ Good u' n := by
  obtain ⟨u', _, _, h, hG', _⟩ := union_spec hG i j hi hj
  exact ⟨u', h, hG'⟩

/-- `root` terminates (the fuel of the model is never exhausted, i.e. the Rust recursion returns) and yields a
fixed point not above `i` -/
theorem uf_root_terminates {u : UF} {n : Nat} (hG : Good u n) (i : Nat) (hi : i < n) :
    ∃ r, UF.root u i = .ok r ∧ IsRoot u.p i r ∧ r ≤ i := by
  obtain ⟨r, h, hr⟩ := root_ok hG.inv i (by rw [hG.size]; exact hi)
  exact ⟨r, h, hr, hr.le hG.inv⟩

/-- **after any sequence of unions `is_same i j ↔` the equivalence closure of the united pairs** -/
theorem uf_same_iff_closure (n : Nat) (es : List (Nat × Nat)) (hes : ∀ e ∈ es, e.1 < n ∧ e.2 < n)
    (i j : Nat) (hi : i < n) (hj : j < n) :
    ∃ u b, unions (UF.new n) es = .ok u ∧ UF.isSame u i j = .ok b ∧
      (b = true ↔ EqvGen (fun a b => (a, b) ∈ es) i j) := by
  obtain ⟨u, hu, hrep⟩ := unions_rep (new_rep n) es hes
  have hrep' : Rep u n (fun a b => (a, b) ∈ es) := hrep.congr (by simp)
  obtain ⟨b, hb, hiff⟩ := hrep'.isSame_iff i j hi hj
  exact ⟨u, b, hu, hb, hiff⟩

/-- every root is the MINIMUM of its class -/
theorem uf_root_is_class_min (n : Nat) (es : List (Nat × Nat)) (hes : ∀ e ∈ es, e.1 < n ∧ e.2 < n)
    (x : Nat) (hx : x < n) :
    ∃ u r, unions (UF.new n) es = .ok u ∧ UF.root u x = .ok r ∧ r < n ∧
      EqvGen (fun a b => (a, b) ∈ es) x r ∧ ∀ y, y < n → EqvGen (fun a b => (a, b) ∈ es) x y → r ≤ y := by
  obtain ⟨u, hu, hrep⟩ := unions_rep (new_rep n) es hes
  have hrep' : Rep u n (fun a b => (a, b) ∈ es) := hrep.congr (by simp)
  obtain ⟨r, h, hr⟩ := root_ok hrep'.good.inv x (by rw [hrep'.good.size]; exact hx)
  obtain ⟨a1, a2, a3⟩ := hrep'.root_min x hx r hr
  exact ⟨u, r, hu, h, a1, a2, a3⟩

/-- **the grouping is independent of the order (and multiplicity) in which the unions happen**: two union
sequences generating the same equivalence give the same `root`, `is_same` and `group()` -/
theorem uf_order_independent (n : Nat) (es es' : List (Nat × Nat))
    (hes : ∀ e ∈ es, e.1 < n ∧ e.2 < n) (hes' : ∀ e ∈ es', e.1 < n ∧ e.2 < n)
    (hsame : ∀ a b, EqvGen (fun a b => (a, b) ∈ es) a b ↔ EqvGen (fun a b => (a, b) ∈ es') a b) :
    ∃ u u', unions (UF.new n) es = .ok u ∧ unions (UF.new n) es' = .ok u' ∧
      UF.group u = UF.group u' ∧ (∀ x, x < n → UF.root u x = UF.root u' x) ∧
      ∀ x y, x < n → y < n → UF.isSame u x y = UF.isSame u' x y := by
  obtain ⟨u, hu, hrep⟩ := unions_rep (new_rep n) es hes
  obtain ⟨u', hu', hrep'⟩ := unions_rep (new_rep n) es' hes'
  have h1 : Rep u n (fun a b => (a, b) ∈ es) := hrep.congr (by simp)
  have h2 : Rep u' n (fun a b => (a, b) ∈ es') := hrep'.congr (by simp)
  exact ⟨u, u', hu, hu', group_determined h1 h2 hsame, fun x hx => root_determined h1 h2 hsame x hx,
    fun x y hx hy => isSame_determined h1 h2 hsame x y hx hy⟩

/-- in particular for a permutation of the union list (the mutex-protected unions of `group_cols` happen in
an arbitrary order) -/
theorem uf_perm_independent (n : Nat) (es es' : List (Nat × Nat)) (hp : es.Perm es')
    (hes : ∀ e ∈ es, e.1 < n ∧ e.2 < n) :
    ∃ u u', unions (UF.new n) es = .ok u ∧ unions (UF.new n) es' = .ok u' ∧ UF.group u = UF.group u' := by
  obtain ⟨u, u', h1, h2, h3, _⟩ := uf_order_independent n es es' hes (fun e he => hes e (hp.mem_iff.2 he))
    (fun a b => eqvGen_congr (fun a b => hp.mem_iff) a b)
  exact ⟨u, u', h1, h2, h3⟩

/-- `group()` lists the classes keyed by root (= class minimum) in ascending order, members ascending -/
theorem uf_group_classes (n : Nat) (es : List (Nat × Nat)) (hes : ∀ e ∈ es, e.1 < n ∧ e.2 < n) :
    ∃ u rt, unions (UF.new n) es = .ok u ∧ (∀ x, x < n → UF.root u x = .ok (rt x)) ∧
      UF.group u = .ok (classesOf n rt) := by
  obtain ⟨u, hu, hrep⟩ := unions_rep (new_rep n) es hes
  obtain ⟨rt, h1, h2⟩ := hrep.group_eq
  exact ⟨u, rt, hu, fun x hx => (h1 x hx).1, h2⟩

example : unions (UF.new 4) [(0, 1), (2, 3), (1, 3)] = .ok ⟨#[0, 0, 0, 2]⟩ ∧
    UF.group ⟨#[0, 0, 0, 2]⟩ = .ok [[0, 1, 2, 3]] := by decide +kernel

end uf

/-! ### `group_cols` (decomp.rs) -/

section group
variable {α : Type} [Scal α]
open UF Relation

/-- `col_intersects` (merge walk over two strictly increasing row-index lists) decides "share a row index" -/
theorem col_intersects_correct (l1 l2 : List Nat) (h1 : l1.Pairwise (· < ·)) (h2 : l2.Pairwise (· < ·)) :
    intersects l1 l2 = true ↔ ∃ x, x ∈ l1 ∧ x ∈ l2 := intersects_iff l1 l2 h1 h2

/-- the double loop of `group_cols` never panics; its final union-find state represents exactly the
equivalence closure of "columns `cols[a]`, `cols[b]` store a common row" (pairs skipped because
`is_same` already held do not change the closure) -/
theorem group_cols_closure (A : SpMat α) :
    ∃ u, unionLoop A ((List.range A.ncols).filter fun j => !(col A j).isEmpty).toArray
        (UF.new ((List.range A.ncols).filter fun j => !(col A j).isEmpty).length)
        (allPairs ((List.range A.ncols).filter fun j => !(col A j).isEmpty).length) = .ok u ∧
      Rep u ((List.range A.ncols).filter fun j => !(col A j).isEmpty).length
        (fun a b => (a, b) ∈ allPairs ((List.range A.ncols).filter fun j => !(col A j).isEmpty).length ∧
          intersects (rowIdx A (((List.range A.ncols).filter fun j => !(col A j).isEmpty).toArray.getD a 0))
            (rowIdx A (((List.range A.ncols).filter fun j => !(col A j).isEmpty).toArray.getD b 0)) = true) :=
  groupCols_closure A

/-- **the grouping of `group_cols` is independent of the order in which the (mutex-protected, parallel) loop
bodies run**: any two orders/multiplicities of the same set of `(i,j)` bodies give the same groups -/
theorem group_cols_order_independent (A : SpMat α) (pairs pairs' : List (Nat × Nat))
    (hmem : ∀ e, e ∈ pairs ↔ e ∈ pairs')
    (hp : ∀ e ∈ pairs, e.1 < ((List.range A.ncols).filter fun j => !(col A j).isEmpty).length ∧
      e.2 < ((List.range A.ncols).filter fun j => !(col A j).isEmpty).length) :
    groupColsWith A pairs = groupColsWith A pairs' := groupColsWith_perm A pairs pairs' hmem hp

end group

/-! ### block decomposition: verified checker applied to every real output -/

section decomp
variable {R : Type} [CommRing R] [Scal R] [LawfulScal R]

/-- **decomp_blocks (checker form).** `checkDecomp` is the executable check the driver runs on the REAL output
`(p, q, blocks)` of `dir_sum_decomp` for every explored input (request `chkdecomp`) and on the model's own
output (request `decompchk`).  If it accepts, `p` and `q` are permutations, the blocks fit, and the permuted
matrix is entrywise the block-diagonal sum of the blocks, zero outside (= zero rows/columns).
NOT proved: that the code model `dirSumDecomp` always produces an accepted output, and that blocks do not
split further (both explored by the harness only). -/
theorem decomp_checker_sound (A : SpMat R) (p q : Array Nat) (blocks : List (SpMat R))
    (h : checkDecomp A p q blocks = true) :
    ∃ (σ : Equiv.Perm (Fin A.nrows)) (τ : Equiv.Perm (Fin A.ncols)),
      (∀ i, (σ i : Nat) = p.getD i 0) ∧ (∀ j, (τ j : Nat) = q.getD j 0) ∧
      (blocks.map (·.nrows)).sum ≤ A.nrows ∧ (blocks.map (·.ncols)).sum ≤ A.ncols ∧
      ∀ (i : Fin A.nrows) (j : Fin A.ncols), entry A i j = bdEntry blocks (σ i) (τ j) :=
  checkDecomp_sound A p q blocks h

/-- **no block splits further (checker form).** `connectedBlk` is run by the driver on every REAL block returned
for an input without stored zeros (request `chkconn`).  If it accepts, there is no set `S` of rows/columns of
the block, non-empty with non-empty complement, such that no stored non-zero entry joins `S` with its
complement — i.e. the block is not a direct sum of two smaller blocks (nor has a zero row/column). -/
theorem block_connected_checker_sound {α : Type} [Scal α] (B : SpMat α) (hc : connectedBlk B = true)
    (S : Nat → Prop) : ¬ Splits B S := connectedBlk_sound B hc S

example : checkDecomp (α := Int) ⟨2, 2, #[[(1, 5)], [(0, 7)]]⟩ #[1, 0] #[0, 1] [⟨1, 1, #[[(0, 5)]]⟩, ⟨1, 1, #[[(0, 7)]]⟩] = true := by
  decide +kernel

end decomp
end Yuiv.C12
