import Yuiv.Proofs.C10Gen
/-
C10 — the hand-written model of `LLLData` / `LLLCalc` / `LLLHNFCalc` over ℤ (`Yuiv/Model/C10.lean`, about which
Props/C10GS + C10Term prove bookkeeping, termination and reducedness) IS the source text of
`/repo/yui-matrix/src/dense/lll.rs`.

`Yuiv.GenLll.*` (file `Yuiv/Gen/LllFn.lean`) is regenerated from the Rust source by `tools/rs2lean_fn.py fn:lll` on every
`./check` run (`R := Int`).  Each theorem states, for every model state `d` with `WF d` (`det` has one entry per row) —
embedded by `ofData`, both transforms tracked — that a generated definition equals the model's function, including the
panics (`assert!`s, nalgebra / `Vec` index checks, division by zero, a non-unit in `mul_row`) and fuel exhaustion.

Property theorems only; helpers are in `Yuiv/Proofs/C10Gen.lean`.
-/
set_option linter.unusedSimpArgs false
namespace Yuiv.C10Gen
open Yuiv Res Yuiv.Rust Yuiv.GenLll Yuiv.C10

local macro "lsimp" "[" ts:Lean.Parser.Tactic.simpLemma,* "]" : tactic =>
  `(tactic| simp [mapR_ok, mapR_panic, mapR_err, bind_assoc', assert_true, assert_false, pure_eq_ok, ofData, lm,
      Opt.unwrap, LMat.get, LMat.set, LMat.swap_rows, LMat.swap_cols, LMat.mul_row, LMat.mul_col, LMat.add_row_to,
      LMat.add_col_to, LVec.get, LVec.set, U64.sub, $ts,*])

/-! ### the `LLLRing` items of `impl_for_int!` are what the prelude assumes -/

theorem gen_int_lllring_eq (a : Int) :
    i32.LLLRing.alpha = RInt.alpha ∧ i64.LLLRing.alpha = RInt.alpha ∧ i128.LLLRing.alpha = RInt.alpha ∧
    BigInt.LLLRing.alpha = RInt.alpha ∧ RInt.alpha = C10.alphaZ ∧
    i64.LLLRing.as_int a = RInt.as_int a ∧ i64.LLLRing.conj a = RInt.conj a ∧ LLLRing.norm a = a * a :=
  ⟨rfl, rfl, rfl, rfl, rfl, rfl, rfl, rfl⟩

/-! ### `LLLData`: step counter, size -/

theorem gen_next_eq (d : Data) : LLLData.next (ofData d) = ofData d.next := rfl
theorem gen_nrows_eq (d : Data) : LLLData.nrows (ofData d) = d.tr.m := rfl
theorem gen_back_eq (d : Data) : LLLData.back (ofData d) = ok (ofData d.back) := by
  unfold LLLData.back Data.back
  by_cases h : d.step > 1
  · have : 1 ≤ d.step := by omega
    lsimp [h, this]
  · lsimp [h]

/-! ### `lovasz_ok` -/

theorem gen_lovasz_ok_eq (d : Data) (hw : WF d) (k : Nat) :
    LLLData.lovasz_ok (ofData d) k = d.lovaszOk k := by
  unfold LLLData.lovasz_ok Data.lovaszOk detPrev detAt
  unfold WF at hw
  by_cases hk : k > 0
  · have hk0 : 0 < k := hk
    have hk1 : 1 ≤ k := hk
    by_cases hkm : k < d.tr.m
    · have h1 : k - 1 < d.det.size := by omega
      have h2 : k < d.det.size := by omega
      have h3 : k - 1 < d.tr.m := by omega
      by_cases hk2 : k ≥ 2
      · have h0 : k - 2 < d.det.size := by omega
        have h22 : 2 ≤ k := hk2
        lsimp [hk, hk0, hk1, hk2, h22, h0, h1, h2, h3, hkm, RInt.alpha, alphaZ, LLLRing.norm, RInt.conj, RInt.as_int]
        rfl
      · lsimp [hk, hk0, hk1, hk2, h1, h2, h3, hkm, RInt.alpha, alphaZ, LLLRing.norm, RInt.conj, RInt.as_int]
    · have h2 : ¬ k < d.det.size := by omega
      by_cases hk2 : k ≥ 2
      · have h22 : 2 ≤ k := hk2
        by_cases h0 : k - 2 < d.det.size
        · by_cases h1 : k - 1 < d.det.size
          · lsimp [hk, hk0, hk1, hk2, h22, h0, h1, h2, RInt.alpha, alphaZ]
          · lsimp [hk, hk0, hk1, hk2, h22, h0, h1, RInt.alpha, alphaZ]
        · lsimp [hk, hk0, hk1, hk2, h22, h0, RInt.alpha, alphaZ]
      · by_cases h1 : k - 1 < d.det.size
        · lsimp [hk, hk0, hk1, hk2, h1, h2, RInt.alpha, alphaZ]
        · lsimp [hk, hk0, hk1, hk2, h1, RInt.alpha, alphaZ]
  · have : ¬ 0 < k := hk
    lsimp [hk, this]

/-! ### `mul_row` -/

theorem gen_mul_row_eq (d : Data) (i : Nat) (r : Int) :
    LLLData.mul_row (ofData d) i r = mapR ofData (d.mulRow i r) := by
  unfold LLLData.mul_row Data.mulRow Tr.mulRow
  have hu : RInt.is_unit r = isUnitZ r := rfl
  cases hr : isUnitZ r
  · lsimp [hu, hr]
  · have hinv : RInt.inv r = some r := by simp [RInt.inv, hu, hr]
    by_cases hi : i < d.tr.m
    · lsimp [hu, hr, hi, hinv, RInt.conj]
    · lsimp [hu, hr, hi]

/-! ### `nz_col_in` -/

theorem gen_nz_col_in_eq (d : Data) (i : Nat) (hi : i < d.tr.m) :
    LLLData.nz_col_in (ofData d) i = ok (d.nzColIn i) := by
  unfold LLLData.nz_col_in Data.nzColIn
  simp only [ofData, lm, LMat.row, hi, if_true, bind_ok, Iter.enumerate, List.range_eq_range']
  rw [nz_list (fun j => ent d.tr.target i j) d.tr.n 0]

/-! ### `add_row_to`, `reduce` -/

theorem gen_add_row_to_eq (d : Data) (hw : WF d) (i k : Nat) (r : Int) :
    LLLData.add_row_to (ofData d) i k r = mapR ofData (d.addRowTo i k r) := by
  unfold LLLData.add_row_to Data.addRowTo Tr.addRowTo detAt
  unfold WF at hw
  by_cases hik : i < k
  · by_cases hk : k < d.tr.m
    · have him : i < d.tr.m := by omega
      have hid : i < d.det.size := by omega
      have h0 : (mkMat d.tr.m d.tr.m fun a b => if a = k ∧ b = i then ent d.lam k i + r * d.det[i] else ent d.lam a b) =
          addLam d.tr.m d.lam i k r d.det[i] 0 := by
        unfold addLam
        apply mkMat_ext
        intro a b _ _
        by_cases ha : a = k <;> by_cases hb : b = i <;> simp [ha, hb]
      lsimp [hik, hk, him, hid, Loop.forRange]
      rw [h0]
      have := add_loop d.tr.m d.lam i k r d.det[i] hik hk ⟨d.tr.m, d.tr.n, mAddRowTo d.tr.m d.tr.n d.tr.target i k r⟩
        (some ⟨d.tr.m, d.tr.m, mAddRowTo d.tr.m d.tr.m d.tr.p i k r⟩)
        (some ⟨d.tr.m, d.tr.m, mAddColTo d.tr.m d.tr.m d.tr.pinv k i (-r)⟩) d.det d.step i 0 (by omega)
      simp only [lm] at this
      rw [this]
      simp [addLam]
    · lsimp [hik, hk]
  · lsimp [hik]

theorem gen_reduce_eq (d : Data) (hw : WF d) (i k : Nat) :
    LLLData.reduce (ofData d) i k = mapR ofData (d.reduce i k) := by
  unfold LLLData.reduce Data.reduce detAt
  have hw' : d.det.size = d.tr.m := hw
  by_cases hik : i < k
  · by_cases hk : k < d.tr.m
    · have him : i < d.tr.m := by omega
      have hid : i < d.det.size := by omega
      have hl : LMat.get (ofData d).lambda k i = ok (ent d.lam k i) := by simp [ofData, lm, LMat.get, hk, him]
      have hd : LVec.get (ofData d).det i = ok (d.det.getD i 0) := by simp [ofData, LVec.get, hid]
      simp only [hik, hk, hid, decide_true, assert_true, bind_ok, hl, hd, if_true, div_round_eq, pure_eq_ok]
      cases hq : divRound (ent d.lam k i) (d.det.getD i 0) with
      | ok q =>
        by_cases hq0 : q = 0
        · simp [RInt.is_zero, hq0, mapR_ok]
        · simp [RInt.is_zero, hq0, gen_add_row_to_eq d hw]
      | panic => rfl
      | err => rfl
    · lsimp [hik, hk]
  · lsimp [hik]

/-! ### `swap` (both loops, the three exact divisions) -/

theorem gen_swap_eq (d : Data) (hw : WF d) (k : Nat) :
    LLLData.swap (ofData d) k = mapR ofData (d.swap k) := by
  unfold LLLData.swap Data.swap Tr.swapRows detPrev detAt
  have hw' : d.det.size = d.tr.m := hw
  by_cases hk0 : 0 < k
  · by_cases hk : k < d.tr.m
    · have hk1 : k - 1 < d.tr.m := by omega
      have h1k : 1 ≤ k := hk0
      have hkd : k < d.det.size := by omega
      have hk1d : k - 1 < d.det.size := by omega
      have hk2d : k - 2 < d.det.size := by omega
      obtain ⟨L1, h1, hL1⟩ := swap_loop1 d.tr.m d.lam k hk0 hk ⟨d.tr.m, d.tr.n, mSwapRows d.tr.m d.tr.n d.tr.target (k - 1) k⟩
        (some ⟨d.tr.m, d.tr.m, mSwapRows d.tr.m d.tr.m d.tr.p (k - 1) k⟩)
        (some ⟨d.tr.m, d.tr.m, mSwapCols d.tr.m d.tr.m d.tr.pinv (k - 1) k⟩) d.det d.step (k - 1) 0 d.lam (by omega)
        (by intro a b _ _; simp [swapLam1])
      have key : ∀ D0 : Int, _ = _ := fun D0 => swap_tail d.tr.m (swapLam1 d.lam k (k - 1)) k D0 (d.det.getD (k - 1) 0) (d.det.getD k 0) hk0 hk
        ⟨d.tr.m, d.tr.n, mSwapRows d.tr.m d.tr.n d.tr.target (k - 1) k⟩
        (some ⟨d.tr.m, d.tr.m, mSwapRows d.tr.m d.tr.m d.tr.p (k - 1) k⟩)
        (some ⟨d.tr.m, d.tr.m, mSwapCols d.tr.m d.tr.m d.tr.pinv (k - 1) k⟩) d.det hw' d.step L1 hL1
      have fin : ∀ D0 : Int, mkMat d.tr.m d.tr.m (swapLamFin (swapLam1 d.lam k (k - 1)) k D0 (d.det.getD (k - 1) 0) (d.det.getD k 0)) = 
          mkMat d.tr.m d.tr.m fun a b =>
                if k < a then
                  if b = k - 1 then
                    (ent (mkMat d.tr.m d.tr.m fun a b => if b < k - 1 then ent d.lam (if a = k - 1 then k else if a = k then k - 1 else a) b else ent d.lam a b) k (k - 1) *
                     ent (mkMat d.tr.m d.tr.m fun a b => if b < k - 1 then ent d.lam (if a = k - 1 then k else if a = k then k - 1 else a) b else ent d.lam a b) a (k - 1) +
                     ent (mkMat d.tr.m d.tr.m fun a b => if b < k - 1 then ent d.lam (if a = k - 1 then k else if a = k then k - 1 else a) b else ent d.lam a b) a k * D0).tdiv (d.det.getD (k - 1) 0)
                  else if b = k then
                    (ent (mkMat d.tr.m d.tr.m fun a b => if b < k - 1 then ent d.lam (if a = k - 1 then k else if a = k then k - 1 else a) b else ent d.lam a b) a (k - 1) * d.det.getD k 0 -
                     ent (mkMat d.tr.m d.tr.m fun a b => if b < k - 1 then ent d.lam (if a = k - 1 then k else if a = k then k - 1 else a) b else ent d.lam a b) a k *
                     ent (mkMat d.tr.m d.tr.m fun a b => if b < k - 1 then ent d.lam (if a = k - 1 then k else if a = k then k - 1 else a) b else ent d.lam a b) k (k - 1)).tdiv (d.det.getD (k - 1) 0)
                  else ent (mkMat d.tr.m d.tr.m fun a b => if b < k - 1 then ent d.lam (if a = k - 1 then k else if a = k then k - 1 else a) b else ent d.lam a b) a b
                else ent (mkMat d.tr.m d.tr.m fun a b => if b < k - 1 then ent d.lam (if a = k - 1 then k else if a = k then k - 1 else a) b else ent d.lam a b) a b := by
        intro D0
        apply mkMat_ext
        intro a b ha hb
        rw [ent_mkMat _ hk hk1, ent_mkMat _ ha hk1, ent_mkMat _ ha hk, ent_mkMat _ ha hb]
        rfl
      simp only [gt_iff_lt, hk0, hk, hk1, decide_true, assert_true, bind_ok, U64.sub, h1k, if_true, ofData, lm,
        LMat.swap_rows, LMat.swap_cols, and_self, Option.isSome_some, Opt.unwrap, Loop.forRange, Nat.sub_zero, h1,
        LVec.get, hkd, hk1d, hk2d, Bool.and_self, pure_eq_ok]
      have e0 : ent (mkMat d.tr.m d.tr.m fun a b => if b < k - 1 then ent d.lam (if a = k - 1 then k else if a = k then k - 1 else a) b else ent d.lam a b) k (k - 1) =
          swapLam1 d.lam k (k - 1) k (k - 1) := ent_mkMat _ hk hk1
      by_cases hk2 : k ≥ 2
      · have h2k : 2 ≤ k := hk2
        simp only [hk2, h2k, decide_true, if_true, bind_ok, hk2d]
        rw [key, ← fin, e0]
        by_cases hd : d.det.getD (k - 1) 0 = 0
        · have hb : (d.det.getD (k - 1) 0 != 0) = false := by rw [hd]; rfl
          rw [if_pos hd, hb]
          rfl
        · have hb : (d.det.getD (k - 1) 0 != 0) = true := bne_iff_ne.mpr hd
          rw [if_neg hd, hb]
          simp [mapR_ok, assert_true, ofData, lm, swapLam1]
      · simp only [hk2, decide_false, if_false, bind_ok, Bool.false_eq_true]
        rw [key, ← fin, e0]
        by_cases hd : d.det.getD (k - 1) 0 = 0
        · have hb : (d.det.getD (k - 1) 0 != 0) = false := by rw [hd]; rfl
          rw [if_pos hd, hb]
          rfl
        · have hb : (d.det.getD (k - 1) 0 != 0) = true := bne_iff_ne.mpr hd
          rw [if_neg hd, hb]
          simp [mapR_ok, assert_true, ofData, lm, swapLam1]
    · simp [hk0, hk, assert_true, assert_false, U64.sub, ofData, lm, LMat.swap_rows, mapR_panic, Nat.one_le_iff_ne_zero, Nat.pos_iff_ne_zero.mp hk0]
  · simp [hk0, assert_false, mapR_panic]
/-! ### `LLLCalc`: `iterate`, the `while` loop of `process` -/

theorem gen_lll_iterate_eq (d : Data) (hw : WF d) :
    LLLCalc.iterate (calcOf d) = mapR calcOf (lllIterate d) := by
  unfold LLLCalc.iterate lllIterate
  by_cases hs : 1 ≤ d.step
  · have e1 : (calcOf d).data.step = d.step := rfl
    have e2 : (calcOf d).data = ofData d := rfl
    have e3 : (ofData d).step = d.step := rfl
    simp only [e1, e2, e3, U64.sub, hs, if_true, bind_ok, gen_reduce_eq d hw]
    rw [bind_mapR, mapR_bind]
    refine bind_congr_post (reduce_same d _ _) (fun d1 h1 => ?_)
    have hw1 := h1.wf hw
    simp only [gen_lovasz_ok_eq d1 hw1]
    rw [mapR_bind]
    refine bind_congr' _ (fun b => ?_)
    cases b
    · simp only [Bool.false_eq_true, if_false, gen_swap_eq d1 hw1]
      rw [bind_mapR, mapR_bind]
      refine bind_congr' _ (fun d2 => ?_)
      simp only [gen_back_eq, bind_ok]
      rfl
    · simp only [if_true, Loop.forRangeRev, Nat.sub_zero]
      generalize d.step = k
      have := revLoop_eq calcOf (LLLCalc.iterate_rfor1 k) (fun d i => d.reduce i k)
        (fun i d hw => by
          unfold LLLCalc.iterate_rfor1
          show (LLLData.reduce (ofData d) i _ >>= _) = _
          rw [gen_reduce_eq d hw, bind_mapR]
          generalize d.reduce i k = x
          cases x <;> rfl)
        (fun d i => reduce_same d i _) (k - 1) d1 hw1
      show (Loop.forRangeRev.go 0 _ _ (calcOf d1) >>= _) = _
      rw [this, bind_mapR, mapR_bind]
      refine bind_congr' _ (fun d2 => ?_)
      rfl
  · have : d.step = 0 := by omega
    have e1 : (calcOf d).data.step = 0 := this
    simp [e1, this, U64.sub, Data.reduce, assert_false, mapR_panic]

/-- generated fuel `fuel + 1` = model fuel `fuel` (the generated loop tests the fuel before the loop condition) -/
theorem gen_lll_process_eq (fuel : Nat) (d : Data) (hw : WF d) (h : loopWhile lllIterate fuel d ≠ err) :
    LLLCalc.process (fuel + 1) (calcOf d) =
      if d.step = 1 then mapR calcOf (loopWhile lllIterate fuel d) else Res.panic := by
  unfold LLLCalc.process
  have e1 : (calcOf d).data.step = d.step := rfl
  by_cases hs : d.step = 1
  · simp only [e1, hs, decide_true, assert_true, bind_ok, if_true]
    exact loopWhile_eq calcOf (fun s => s.data.step) (fun _ => rfl) LLLCalc.process_loop1 LLLCalc.iterate lllIterate
      (fun f m s => by rw [LLLCalc.process_loop1]; simp) gen_lll_iterate_eq lllIterate_same fuel d hw h
  · simp [e1, hs, assert_false]

/-- conversely, whenever the generated `process` does not run out of fuel -/
theorem gen_lll_process_eq' (fuel : Nat) (d : Data) (hw : WF d) (hs : d.step = 1)
    (h : LLLCalc.process fuel (calcOf d) ≠ err) :
    LLLCalc.process fuel (calcOf d) = mapR calcOf (loopWhile lllIterate fuel d) := by
  unfold LLLCalc.process at h ⊢
  have e1 : (calcOf d).data.step = d.step := rfl
  simp only [e1, hs, decide_true, assert_true, bind_ok] at h ⊢
  exact loopWhile_eq' calcOf (fun s => s.data.step) (fun _ => rfl) LLLCalc.process_loop1 LLLCalc.iterate lllIterate
    (fun m s => by rw [LLLCalc.process_loop1]) (fun f m s => by rw [LLLCalc.process_loop1]; simp)
    gen_lll_iterate_eq lllIterate_same fuel d hw h

theorem gen_lll_result_eq (d : Data) :
    LLLCalc.result (calcOf d) = (lm d.tr.m d.tr.n d.tr.target, some (lm d.tr.m d.tr.m d.tr.p)) := rfl

/-! ### `LLLHNFCalc`: `reduce`, `is_ok`, `iterate`, `process` (loop + normalisation of the last row), `result` (row reversal) -/

/-- `if !u.is_one() { self.data.mul_row(i, &u) }` (in `reduce` and at the end of `process`) -/
theorem gen_mul_row_if_eq (d : Data) (i : Nat) (u : Int) :
    (if (!(RInt.is_one u)) = true then (LLLData.mul_row (ofData d) i u >>= fun r => ok (⟨r⟩ : LLLHNFCalcS)) else ok (hnfOf d)) =
      mapR hnfOf (d.mulRowIf i u) := by
  unfold Data.mulRowIf
  by_cases hu : u = 1
  · simp [RInt.is_one, hu]; rfl
  · simp only [RInt.is_one, hu, decide_false, Bool.not_false, if_true, ne_eq, not_false_eq_true, gen_mul_row_eq, bind_mapR]
    generalize d.mulRow i u = x
    cases x <;> rfl

theorem gen_hnf_reduce_eq (d : Data) (hw : WF d) (i k : Nat) :
    LLLHNFCalc.reduce (hnfOf d) i k = mapR hnfOf (hnfReduce d i k) := by
  unfold LLLHNFCalc.reduce hnfReduce
  have e2 : (hnfOf d).data = ofData d := rfl
  by_cases hik : i < k
  · by_cases him : i < d.tr.m
    · simp only [hik, decide_true, assert_true, bind_ok, e2, gen_nz_col_in_eq d i him]
      cases hj : d.nzColIn i with
      | none =>
        simp only [Option.isSome_none, Bool.false_eq_true, if_false, gen_reduce_eq d hw, bind_mapR]
        by_cases hk : k < d.tr.m
        · simp only [hk, decide_true, assert_true, bind_ok]
          generalize d.reduce i k = x
          cases x <;> rfl
        · simp [hk, assert_false, Data.reduce, hik, mapR_panic]
          rfl
      | some j =>
        have hjn := nzColIn_lt hj
        simp only [Option.isSome_some, if_true, Opt.unwrap, bind_ok, get_target d him hjn]
        by_cases hk : k < d.tr.m
        · simp only [hk, decide_true, assert_true, bind_ok]
          rw [gen_mul_row_if_eq, norm_unit_eq, bind_mapR, mapR_bind]
          refine bind_congr_post (mulRowIf_same d i _) (fun d1 h1 => ?_)
          have hw1 := h1.wf hw
          have e3 : (hnfOf d1).data = ofData d1 := rfl
          have g1 := get_target d1 (i := i) (j := j) (by rw [h1.1]; exact him) (by rw [h1.2.1]; exact hjn)
          have g2 := get_target d1 (i := k) (j := j) (by rw [h1.1]; exact hk) (by rw [h1.2.1]; exact hjn)
          simp only [e3, g1, g2, bind_ok, div_round_eq]
          rw [mapR_bind]
          refine bind_congr' _ (fun q => ?_)
          by_cases hq : q = 0
          · simp [RInt.is_zero, hq, mapR_ok]
          · simp only [RInt.is_zero, hq, decide_false, Bool.not_false, if_true, ne_eq, not_false_eq_true,
              gen_add_row_to_eq d1 hw1, bind_mapR]
            generalize d1.addRowTo i k (-q) = x
            cases x <;> rfl
        · simp only [hk, decide_false, assert_false, mapR_panic]
          rw [norm_unit_eq]
          by_cases ha : ent d.tr.target i j < 0
          · obtain ⟨d1, hd1, hm1⟩ : ∃ d1, d.mulRow i (-1) = ok d1 ∧ d1.tr.m = d.tr.m :=
              ⟨{ d with tr := { d.tr with target := mMulRow d.tr.m d.tr.n d.tr.target i (-1),
                                          p := mMulRow d.tr.m d.tr.m d.tr.p i (-1),
                                          pinv := mMulCol d.tr.m d.tr.m d.tr.pinv i (-1) },
                        lam := mMulCol d.tr.m d.tr.m (mMulRow d.tr.m d.tr.m d.lam i (-1)) i (-1) },
                by simp [Data.mulRow, Tr.mulRow, isUnitZ, him, assert_true, pure_eq_ok], rfl⟩
            have hk1 : ¬ k < d1.tr.m := by rw [hm1]; exact hk
            have : (!RInt.is_one (-1 : Int)) = true := by decide
            simp only [ha, if_true, this, gen_mul_row_eq, hd1, mapR_ok, bind_ok]
            simp only [ofData, lm, LMat.get, hk1, false_and, if_false]
            by_cases hc : i < d1.tr.m ∧ j < d1.tr.n
            · simp only [hc, and_self, if_true]; rfl
            · simp only [hc, if_false]; rfl
          · simp [ha, RInt.is_one, hnfOf, ofData, lm, LMat.get, hk, hjn, him]
            rfl
    · have hk : ¬ k < d.tr.m := by omega
      simp [hik, him, hk, assert_true, assert_false, e2, LLLData.nz_col_in, ofData, lm, LMat.row, mapR_panic]
  · simp [hik, assert_false, mapR_panic]

/-- the model's `hnfIsOk` does not panic on a row index `k ≥ m` (`nz_col_in(k)` does); inside `iterate` this is
unreachable: `reduce(k-1, k)` has panicked before -/
theorem gen_hnf_is_ok_eq (d : Data) (hw : WF d) (k : Nat) (hk : k < d.tr.m) :
    LLLHNFCalc.is_ok (hnfOf d) k = hnfIsOk d k := by
  unfold LLLHNFCalc.is_ok hnfIsOk
  have e2 : (hnfOf d).data = ofData d := rfl
  by_cases hk0 : 0 < k
  · have h1k : 1 ≤ k := hk0
    have hk1 : k - 1 < d.tr.m := by omega
    simp only [gt_iff_lt, hk0, decide_true, assert_true, bind_ok, U64.sub, h1k, if_true, e2,
      gen_nz_col_in_eq d _ hk1, gen_nz_col_in_eq d _ hk, gen_lovasz_ok_eq d hw]
    cases d.nzColIn (k - 1) <;> cases d.nzColIn k <;> simp
    all_goals rfl
  · simp [hk0, assert_false]

theorem gen_hnf_iterate_eq (d : Data) (hw : WF d) :
    LLLHNFCalc.iterate (hnfOf d) = mapR hnfOf (hnfIterate d) := by
  unfold LLLHNFCalc.iterate hnfIterate
  by_cases hs : 1 ≤ d.step
  · have e1 : (hnfOf d).data.step = d.step := rfl
    simp only [e1, U64.sub, hs, if_true, bind_ok, gen_hnf_reduce_eq d hw]
    rw [bind_mapR, mapR_bind]
    refine bind_congr_post (hnfReduce_lt d _ _) (fun d1 h1 => ?_)
    have hw1 := h1.1.wf hw
    have e3 : (hnfOf d1).data = ofData d1 := rfl
    rw [gen_hnf_is_ok_eq d1 hw1 d.step (by rw [h1.1.1]; exact h1.2), mapR_bind]
    refine bind_congr' _ (fun b => ?_)
    cases b
    · simp only [Bool.false_eq_true, if_false, e3, gen_swap_eq d1 hw1]
      rw [bind_mapR, mapR_bind]
      refine bind_congr' _ (fun d2 => ?_)
      simp only [gen_back_eq, bind_ok]
      rfl
    · simp only [if_true, Loop.forRangeRev, Nat.sub_zero]
      generalize d.step = k
      have := revLoop_eq hnfOf (LLLHNFCalc.iterate_rfor1 k) (fun d i => hnfReduce d i k)
        (fun i d hw => by
          unfold LLLHNFCalc.iterate_rfor1
          exact gen_hnf_reduce_eq d hw i k)
        (fun d i => hnfReduce_same d i _) (k - 1) d1 hw1
      show (Loop.forRangeRev.go 0 _ _ (hnfOf d1) >>= _) = _
      rw [this, bind_mapR, mapR_bind]
      refine bind_congr' _ (fun d2 => ?_)
      rfl
  · have : d.step = 0 := by omega
    have e1 : (hnfOf d).data.step = 0 := this
    simp [e1, this, U64.sub, hnfReduce, assert_false, mapR_panic]

theorem gen_hnf_process_eq (fuel : Nat) (d : Data) (hw : WF d) (h : loopWhile hnfIterate fuel d ≠ err) :
    LLLHNFCalc.process (fuel + 1) (hnfOf d) =
      if 0 < d.step then mapR hnfOf (loopWhile hnfIterate fuel d >>= hnfNormalizeLast) else Res.panic := by
  unfold LLLHNFCalc.process
  have e1 : (hnfOf d).data.step = d.step := rfl
  have e2 : LLLData.nrows (hnfOf d).data = d.tr.m := rfl
  by_cases hs : 0 < d.step
  · have := loopWhile_eq hnfOf (fun s => s.data.step) (fun _ => rfl) LLLHNFCalc.process_loop1 LLLHNFCalc.iterate hnfIterate
      (fun f m s => by rw [LLLHNFCalc.process_loop1]; simp) gen_hnf_iterate_eq hnfIterate_same fuel d hw h
    simp only [gt_iff_lt, e1, e2, hs, decide_true, assert_true, bind_ok, if_true, this]
    rw [bind_mapR, mapR_bind]
    refine bind_congr_post (loopWhile_same _ hnfIterate_same fuel d) (fun d1 h1 => ?_)
    have hw1 := h1.wf hw
    rw [← h1.1]
    unfold hnfNormalizeLast
    have e3 : (hnfOf d1).data = ofData d1 := rfl
    by_cases hm : 0 < d1.tr.m
    · have h1m : 1 ≤ d1.tr.m := hm
      have hi : d1.tr.m - 1 < d1.tr.m := by omega
      simp only [hm, decide_true, if_true, U64.sub, h1m, bind_ok, e3, gen_nz_col_in_eq d1 _ hi]
      cases hj : d1.nzColIn (d1.tr.m - 1) with
      | none => rfl
      | some j =>
        have hjn := nzColIn_lt hj
        simp only [Option.isSome_some, if_true, Opt.unwrap, bind_ok, get_target d1 hi hjn]
        rw [gen_mul_row_if_eq, norm_unit_eq]
    · simp [hm]; rfl
  · simp [e1, hs, assert_false]

theorem gen_hnf_result_eq (d : Data) :
    LLLHNFCalc.result (hnfOf d) = mapR trOut (reverseRows d.tr (d.tr.m / 2) 0) := by
  unfold LLLHNFCalc.result
  have e2 : LLLData.nrows (hnfOf d).data = d.tr.m := rfl
  have e3 : LLLData.result (hnfOf d).data = trOut d.tr := rfl
  simp only [e2, e3, Loop.forRange, Nat.sub_zero]
  have := reverse_loop (d.tr.m / 2) 0 d.tr (by omega)
  simp only [trOut] at this ⊢
  rw [this, bind_mapR]
  generalize reverseRows d.tr (d.tr.m / 2) 0 = x
  cases x <;> rfl

/-- conversely, whenever the generated `process` does not run out of fuel -/
theorem gen_hnf_process_eq' (fuel : Nat) (d : Data) (hw : WF d) (hs : 0 < d.step)
    (h : LLLHNFCalc.process_loop1 fuel d.tr.m (hnfOf d) ≠ err) :
    LLLHNFCalc.process_loop1 fuel d.tr.m (hnfOf d) = mapR hnfOf (loopWhile hnfIterate fuel d) :=
  loopWhile_eq' hnfOf (fun s => s.data.step) (fun _ => rfl) LLLHNFCalc.process_loop1 LLLHNFCalc.iterate hnfIterate
    (fun m s => by rw [LLLHNFCalc.process_loop1]) (fun f m s => by rw [LLLHNFCalc.process_loop1]; simp)
    gen_hnf_iterate_eq hnfIterate_same fuel d hw h

/-! ### the hypotheses are satisfiable: the state built by `LLLData::new` is `WF`, and runs terminate -/

example : WF (Data.new 2 2 #[#[1, 2], #[3, 4]]) := by show Array.size _ = _; decide
example : (Data.new 2 2 #[#[1, 2], #[3, 4]]).step = 1 := rfl
def notErr {α : Type} : Res α → Bool
  | .err => false
  | _ => true
example : loopWhile hnfIterate 20 (Data.new 2 2 #[#[1, 2], #[3, 4]]) ≠ err := by
  intro h
  have : notErr (loopWhile hnfIterate 20 (Data.new 2 2 #[#[1, 2], #[3, 4]])) = true := by decide +kernel
  rw [h] at this
  cases this
example : ((Data.new 2 2 #[#[1, 2], #[3, 4]]).setup >>= loopWhile lllIterate 20) ≠ err := by
  intro h
  have : notErr ((Data.new 2 2 #[#[1, 2], #[3, 4]]).setup >>= loopWhile lllIterate 20) = true := by decide +kernel
  rw [h] at this
  cases this

end Yuiv.C10Gen
