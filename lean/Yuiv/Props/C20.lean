import Yuiv.Proofs.C20
/-
C20 — the `ykh` command reports the library's result for every option combination.

Property theorems only.  They are about the decision logic of the command line as modelled in
`Yuiv/Model/C20.lean` (dispatch tables of `dispatch.rs`, `poly_vars`, `parse_pair`, the pre-checks and the
bigraded switch of `kh.rs`/`ckh.rs`, the panic guard and the exit status of `main.rs`) and about the text of a
table cell (`rmod_str`).  The finite tables are checked exhaustively (`decide`/case analysis); everything that
involves the `-c` text holds for *all* strings.

What is not a theorem here: that the table content equals the library's result — that is compared on the real
binary by the harness (cells parsed back and compared with the library called in-process).
-/
namespace Yuiv.C20
open Yuiv

/-! ### P0 — the dispatch table -/

/-- Every `(command, features, -t, variables)` is mapped to exactly one of: a ring whose base type is the
requested `-t` and whose variables are exactly the ones detected in `-c`; a "build with `--features`" error;
or "not supported". In particular the ring never silently differs from the request. -/
theorem dispatch_total (c : Cmd) (f : Feat) (ct : CType) (v : PolyVars) :
    dispatch c f ct v = none ∨ dispatch c f ct v = some .needQint ∨ dispatch c f ct v = some .needPoly ∨
    ∃ r, dispatch c f ct v = some (.run r) ∧ r.base = ct ∧ r.vars = v := by
  obtain ⟨p, q⟩ := f
  cases c <;> cases ct <;> cases v <;> cases p <;> cases q <;> simp [dispatch, tryEucRing, tryRing, tryStd, tryQint,
    tryEucPoly, tryNonEucPoly, eucPolyTable, nonEucPolyTable, Ring.base, Ring.vars, Option.orElse]

/-- The two polynomial tables never both have an entry, so the order of `try_euc_poly!(..).or_else(try_noneuc_poly!(..))`
does not matter: the ring is determined by the pair, not by the cascade. -/
theorem poly_tables_disjoint (ct : CType) (v : PolyVars) :
    eucPolyTable ct v = none ∨ nonEucPolyTable ct v = none := by
  cases ct <;> cases v <;> simp [eucPolyTable, nonEucPolyTable]

/-- With the default features (`poly` on) the supported set of `kh` is exactly: the standard types
(ℤ[i], ℤ[ω] only with `qint`) without variables, and one variable `H` or `T` over a field. -/
theorem kh_supported_iff (q : Bool) (ct : CType) (v : PolyVars) :
    (∃ r, dispatch .kh ⟨true, q⟩ ct v = some (.run r)) ↔
      (v = .none ∧ (ct = .Z ∨ isField ct = true ∨ q = true)) ∨ ((v = .H ∨ v = .T) ∧ isField ct = true) := by
  cases ct <;> cases v <;> cases q <;> simp [dispatch, tryEucRing, tryStd, tryQint, tryEucPoly, eucPolyTable, isField]

/-- With `poly` on, `ckh` supports in addition exactly `ℤ[H]`, `ℤ[T]` and `R[H,T]` for `R ∈ {ℤ, ℚ, 𝔽₂, 𝔽₃}`. -/
theorem ckh_supported_iff (q : Bool) (ct : CType) (v : PolyVars) :
    (∃ r, dispatch .ckh ⟨true, q⟩ ct v = some (.run r)) ↔
      (v = .none ∧ (ct = .Z ∨ isField ct = true ∨ q = true)) ∨ (v ≠ .none ∧ (ct = .Z ∨ isField ct = true)) := by
  cases ct <;> cases v <;> cases q <;> simp [dispatch, tryRing, tryStd, tryQint, tryEucPoly, tryNonEucPoly,
    eucPolyTable, nonEucPolyTable, isField, Option.orElse]

/-- `kh` (homology, needs a Euclidean ring) never selects a non-Euclidean ring: no `ℤ[H]`, no two-variable ring. -/
theorem kh_ring_euclidean (f : Feat) (ct : CType) (v : PolyVars) (r : Ring)
    (h : dispatch .kh f ct v = some (.run r)) : r.isEuclidean = true := by
  obtain ⟨p, q⟩ := f
  revert h
  cases ct <;> cases v <;> cases p <;> cases q <;> simp [dispatch, tryEucRing, tryStd, tryQint, tryEucPoly,
    eucPolyTable] <;> (intro h; subst h; rfl)

example : dispatch .kh ⟨true, false⟩ .Q .H = some (.run (.polyH .Q)) := by decide

/-- whatever `kh` runs, `ckh` runs with the same ring -/
theorem ckh_extends_kh (f : Feat) (ct : CType) (v : PolyVars) (r : Ring)
    (h : dispatch .kh f ct v = some (.run r)) : dispatch .ckh f ct v = some (.run r) := by
  obtain ⟨p, q⟩ := f
  revert h
  cases ct <;> cases v <;> cases p <;> cases q <;> simp [dispatch, tryEucRing, tryRing, tryStd, tryQint, tryEucPoly,
    tryNonEucPoly, eucPolyTable, nonEucPolyTable, Option.orElse]

/-! ### P0 — errors are errors -/

/-- The exit-status contract of `main.rs`: an error outcome has a non-zero exit status, a message on stderr and
no table on stdout; a table outcome has exit status 0. -/
theorem error_contract (o : Outcome) :
    (∀ k, o = .error k → (mainRs o).exit ≠ 0 ∧ (mainRs o).messageOnStderr = true ∧ (mainRs o).tableOnStdout = false) ∧
    (∀ r b, o = .table r b → (mainRs o).exit = 0 ∧ (mainRs o).tableOnStdout = true) := by
  constructor
  · intro k h; subst h; cases k <;> simp [mainRs]
  · intro r b h; subst h; simp [mainRs]

/-- An unsupported combination is an error for every `-c` text, flag setting and link argument. -/
theorem unsupported_is_error (f : Feat) (c : Cmd) (ct : CType) (o : Opts) (lk : LinkClass)
    (h : dispatch c f ct (polyVars o.cval) = none) :
    runParsed f c ct o lk = .error .unsupported ∧ (mainRs (runParsed f c ct o lk)).exit ≠ 0 ∧
      (mainRs (runParsed f c ct o lk)).tableOnStdout = false := by
  simp [runParsed, h, mainRs]

example : dispatch .kh ⟨true, false⟩ .Z (polyVars "H") = none := by decide

/-- A combination that needs a cargo feature that is off is an error as well. -/
theorem missing_feature_is_error (f : Feat) (c : Cmd) (ct : CType) (o : Opts) (lk : LinkClass)
    (h : dispatch c f ct (polyVars o.cval) = some .needQint ∨ dispatch c f ct (polyVars o.cval) = some .needPoly) :
    runParsed f c ct o lk = .error .feature := by
  rcases h with h | h <;> simp [runParsed, h]

example : dispatch .ckh ⟨true, false⟩ .Gauss (polyVars "0") = some .needQint := by decide

/-- Unknown commands / `-t` values never reach the dispatch. -/
theorem usage_error (f : Feat) (cmd ctype : String) (o : Opts) (lk : LinkClass)
    (h : parseCmd cmd = none ∨ parseCType ctype = none) : run f cmd ctype o lk = .error .usage := by
  unfold run
  rcases h with h | h
  · simp [h]
  · rw [h]; cases parseCmd cmd <;> rfl

/-- Pre-check: `-r` with `t ≠ 0` is an error (`"`t` must be zero for reduced."`) for every ring the dispatch can
select, every `-c` text that denotes such a pair, and every link argument — the library is never called. -/
theorem precheck_error (f : Feat) (c : Cmd) (ct : CType) (o : Opts) (lk : LinkClass) (r : Ring) (h t : Val)
    (hd : dispatch c f ct (polyVars o.cval) = some (.run r))
    (hp : parsePair r o.cval.toList = .ok (h, t)) (hr : o.reduced = true) (ht : t.isZero = false) :
    runParsed f c ct o lk = .error .precheck := by
  cases c <;> simp [runParsed, hd, appRun, khRun, ckhRun, hp, hr, ht, guardPanic]

example : parsePair (.std .Z) "1,2".toList = .ok (⟨false, true⟩, ⟨false, false⟩) := by decide

/-- Pre-check of `-a`: `t` must be zero. -/
theorem alpha_precheck_error (f : Feat) (c : Cmd) (ct : CType) (o : Opts) (lk : LinkClass) (r : Ring) (h t : Val)
    (hd : dispatch c f ct (polyVars o.cval) = some (.run r))
    (hp : parsePair r o.cval.toList = .ok (h, t)) (ha : o.alpha = true) (ht : t.isZero = false) :
    runParsed f c ct o lk = .error .precheck := by
  cases c <;> simp [runParsed, hd, appRun, khRun, ckhRun, hp, ha, ht, guardPanic]

/-- Pre-check of `-s` (`kh` only): `h` must be non-zero and non-invertible, `t` must be zero. -/
theorem ss_precheck_error (f : Feat) (ct : CType) (o : Opts) (lk : LinkClass) (r : Ring) (h t : Val)
    (hd : dispatch .kh f ct (polyVars o.cval) = some (.run r))
    (hp : parsePair r o.cval.toList = .ok (h, t)) (hs : o.ss = true)
    (hb : h.isZero = true ∨ h.isUnit = true ∨ t.isZero = false) :
    runParsed f .kh ct o lk = .error .precheck := by
  rcases hb with hb | hb | hb <;>
    (cases hz : h.isZero <;> cases hu : h.isUnit <;> cases htz : t.isZero <;>
      simp_all [runParsed, appRun, khRun, guardPanic])

/-- A `-c` text that is not a value (pair) of the selected ring is an error. -/
theorem parse_error (f : Feat) (c : Cmd) (ct : CType) (o : Opts) (lk : LinkClass) (r : Ring)
    (hd : dispatch c f ct (polyVars o.cval) = some (.run r))
    (hp : parsePair r o.cval.toList = .err) : runParsed f c ct o lk = .error .parse := by
  cases c <;> simp [runParsed, hd, appRun, khRun, ckhRun, hp, guardPanic]

example : parsePair (.std .Q) "x".toList = .err := by decide

/-- A panic while reading the coefficient (e.g. `1/0` over ℚ) is caught by the panic guard. -/
theorem parse_panic_is_error (f : Feat) (c : Cmd) (ct : CType) (o : Opts) (lk : LinkClass) (r : Ring)
    (hd : dispatch c f ct (polyVars o.cval) = some (.run r))
    (hp : parsePair r o.cval.toList = .panic) : runParsed f c ct o lk = .error .panic := by
  cases c <;> simp [runParsed, hd, appRun, khRun, ckhRun, hp, guardPanic]

example : parsePair (.std .Q) "1/0".toList = .panic := by decide

/-- A table comes out only if everything was in order: the dispatch selected the ring `r` (base type = `-t`,
variables = those in `-c`), the `-c` text denotes a pair `(h, t)` of that ring, the pre-checks hold, the link
argument loads and the library returns.  Malformed input and internal failures (`lk ≠ ok`) never give a table. -/
theorem table_only_if (f : Feat) (c : Cmd) (ct : CType) (o : Opts) (lk : LinkClass) (r : Ring) (b : Bool)
    (h : runParsed f c ct o lk = .table r b) :
    dispatch c f ct (polyVars o.cval) = some (.run r) ∧ r.base = ct ∧ r.vars = polyVars o.cval ∧ lk = .ok ∧
    ∃ hh tt, parsePair r o.cval.toList = .ok (hh, tt) ∧ (o.reduced = true → tt.isZero = true) ∧
      (o.alpha = true → tt.isZero = true) := by
  have key := table_only_if_aux f c ct o lk r b h
  obtain ⟨hd, rest⟩ := key
  refine ⟨hd, ?_, ?_, rest⟩
  · rcases dispatch_total c f ct (polyVars o.cval) with h1 | h1 | h1 | ⟨r', h1, hb, _⟩
    all_goals (rw [hd] at h1; simp at h1)
    subst h1; exact hb
  · rcases dispatch_total c f ct (polyVars o.cval) with h1 | h1 | h1 | ⟨r', h1, _, hv⟩
    all_goals (rw [hd] at h1; simp at h1)
    subst h1; exact hv

example : runParsed ⟨true, false⟩ .kh .Q ⟨"H", true, true, false, false⟩ .ok = .table (.polyH .Q) true := by decide

/-- A link argument that does not load, or on which the library fails (malformed PD code → panic, caught by the
guard), is an error for every option combination — never a table. -/
theorem bad_link_is_error (f : Feat) (c : Cmd) (ct : CType) (o : Opts) (lk : LinkClass) (h : lk ≠ .ok) :
    ∃ k, runParsed f c ct o lk = .error k := by
  cases hr : runParsed f c ct o lk with
  | error k => exact ⟨k, rfl⟩
  | table r b => exact absurd (table_only_if f c ct o lk r b hr).2.2.2.1 h

example : runParsed ⟨true, false⟩ .kh .Z ⟨"0", false, false, false, false⟩ .panics = .error .panic := by decide
example : runParsed ⟨true, false⟩ .ckh .Q ⟨"H,T", false, false, false, false⟩ .invalid = .error .link := by decide

/-- The bigraded switch of `kh`: a two-dimensional table is printed iff `h = t = 0` or the `-c` text is literally
`H` or `0,T`; otherwise the one-row sequence. -/
theorem kh_bigraded_iff (f : Feat) (ct : CType) (o : Opts) (lk : LinkClass) (r : Ring) (b : Bool) (hh tt : Val)
    (h : runParsed f .kh ct o lk = .table r b) (hp : parsePair r o.cval.toList = .ok (hh, tt)) :
    b = true ↔ ((hh.isZero = true ∧ tt.isZero = true) ∨ o.cval = "H" ∨ o.cval = "0,T") :=
  kh_bigraded_aux f ct o lk r b hh tt h hp

/-- `poly_vars` looks only at whole `,`-separated pieces. -/
theorem polyVars_spec (c : String) :
    (polyVars c = .H ∨ polyVars c = .HT ↔ ['H'] ∈ splitOnChar ',' c.toList) ∧
    (polyVars c = .T ∨ polyVars c = .HT ↔ ['T'] ∈ splitOnChar ',' c.toList) := by
  unfold polyVars
  constructor <;>
  · cases h1 : (splitOnChar ',' c.toList).contains ['H'] <;> cases h2 : (splitOnChar ',' c.toList).contains ['T'] <;>
      simp_all

/-! ### P1 — a printed cell determines the group -/

/-- A verified reader inverts `rmod_str`: for a ring symbol that does not start with `(` or `0` and texts without
`⊕` (all symbols `Z, Q, F₂, F₃, Z[i], Z[√-3], R[H], R[T], R[H, T]` and all coefficient texts are such),
`readCell` recovers the rank and the run-length encoding of the sorted torsion texts from the cell text.
The harness applies the same reading to the cells of the real tables, and the driver runs `rmodStr` against the
real `rmod_str`. -/
theorem rmodStr_readback (sym : List Char) (rank : Nat) (tors : List (List Char))
    (hs : SymOK sym) (ht : ∀ t ∈ tors, TorOK t) :
    readCell sym (rmodStr sym rank tors) = some (rank, runs tors) :=
  readCell_rmodStr sym rank tors hs ht

/-- `rmod_str` is injective on (rank, sorted torsion multiset): a printed cell determines the group. -/
theorem rmodStr_injective (sym : List Char) (r1 r2 : Nat) (t1 t2 : List (List Char))
    (hs : SymOK sym) (h1 : ∀ t ∈ t1, TorOK t) (h2 : ∀ t ∈ t2, TorOK t)
    (h : rmodStr sym r1 t1 = rmodStr sym r2 t2) : r1 = r2 ∧ t1 = t2 := by
  have e1 := readCell_rmodStr sym r1 t1 hs h1
  have e2 := readCell_rmodStr sym r2 t2 hs h2
  rw [h, e2] at e1
  injection e1 with e1
  injection e1 with ha hb
  exact ⟨ha.symm, runs_injective _ _ hb.symm⟩

/-- a zero group is printed as `0` (which the table shows as `.`), and nothing else is -/
theorem rmodStr_zero_iff (sym : List Char) (rank : Nat) (tors : List (List Char))
    (hs : SymOK sym) (ht : ∀ t ∈ tors, TorOK t) :
    rmodStr sym rank tors = ['0'] ↔ rank = 0 ∧ tors = [] := by
  constructor
  · intro h
    have e := readCell_rmodStr sym rank tors hs ht
    rw [h] at e
    simp [readCell] at e
    refine ⟨e.1.symm, ?_⟩
    have := expand_runs tors
    rw [e.2] at this
    exact this.symm
  · intro ⟨h1, h2⟩; simp [rmodStr, h1, h2]

example : SymOK "Z".toList ∧ SymOK "F₂[H]".toList ∧ TorOK "H²".toList :=
  ⟨⟨⟨'Z', [], rfl, by decide, by decide⟩, by decide⟩, ⟨⟨'F', _, rfl, by decide, by decide⟩, by decide⟩, by unfold TorOK; decide⟩

end Yuiv.C20
