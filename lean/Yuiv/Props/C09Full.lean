import Yuiv.Proofs.C09Shape2
import Yuiv.Proofs.C09Term
/-
C09 — Smith normal form, the two clauses that `Props/C09.lean` left partial, for the code model of `SnfCalc`
(`Model/C09.lean`) over ℤ (`intOps`: `+ * -`, `==`, `normalizing_unit = sign`, `/ %` truncated,
`gcdx` = `num_integer::extended_gcd` normalised):

 (S) `snf_shape`      — whenever `SnfCalc::process` returns, its target has the full Smith shape: diagonal, the
                        non-zero entries first, each `≥ 0`, each dividing the next.  For ANY preprocessing `pre`
                        (nothing is assumed about LLL–HNF), any fuel, debug or release build.
                        Built from the loop invariant of `eliminate_all` (clearing pivot `i` never re-fills the
                        rows/columns of the pivots `< i`), the post-condition of `eliminate_at` (a non-zero pivot
                        stays non-zero and ends up isolated) and the invariants of `diag_normalize`.
 (T) `snf_terminates` — every `while`/`loop` of the code model has an explicit decreasing measure, and for every
                        input there is a fuel bound from which on the model never reports fuel exhaustion;
                        fuel is monotone (more fuel never changes a result).

Only property theorems here; definitions and lemmas are in `Proofs/C09Shape2.lean`, `Proofs/C09Term.lean`.
-/
namespace Yuiv.C09
open Yuiv Matrix

variable {m n : Nat}

/-! ### the ring: `gcdx` over ℤ is an extended gcd -/

/-- `intGcdx x y = (g, s, t)`: Bézout `g = s·x + t·y`, `g ≥ 0`, `g ∣ x`, `g ∣ y` (so `g = gcd(x, y)`) -/
theorem int_gcdx_bezout (x y : Int) :
    (intGcdx x y).1 = (intGcdx x y).2.1 * x + (intGcdx x y).2.2 * y ∧ 0 ≤ (intGcdx x y).1 ∧
      (intGcdx x y).1 ∣ x ∧ (intGcdx x y).1 ∣ y := intGcdx_spec x y

/-- the local wrapper `SnfCalc::gcdx` on a non-zero pivot `x`: `d > 0` divides both, Bézout holds for the
coefficients it hands out, and either the second coefficient is `0` (pivot divides `y`: the opposite line is not
re-filled) or `d < |x|` (the pivot strictly shrinks) -/
theorem int_gcdx_wrapper (x y : Int) (hx : x ≠ 0) :
    0 < (gcdxW intOps x y).1 ∧ (gcdxW intOps x y).1 ∣ x ∧ (gcdxW intOps x y).1 ∣ y ∧
      (gcdxW intOps x y).2.1 * x + (gcdxW intOps x y).2.2 * y = (gcdxW intOps x y).1 ∧
      ((gcdxW intOps x y).2.2 = 0 ∨ (gcdxW intOps x y).1 < |x|) := gcdxW_int_spec x y hx

/-! ### (S) shape -/

/-- `eliminate_at(i, j)` on a non-zero pivot, whenever it returns: the pivot is non-zero, divides the old pivot,
and is the only non-zero entry of its row and of its column -/
theorem eliminateAt_isolates_pivot (dbg : Bool) (i : Fin m) (j : Fin n) (fuel : Nat) (s s' : St Int m n)
    (h : eliminateAt intOps dbg i j fuel s = .ok s') (hp : s.t.get i j ≠ 0) :
    s'.t.get i j ≠ 0 ∧ s'.t.get i j ∣ s.t.get i j ∧
      (∀ c, c ≠ j → s'.t.get i c = 0) ∧ (∀ r, r ≠ i → s'.t.get r j = 0) :=
  (eliminateAt_post (frameOK_true i j) dbg fuel s s' h trivial hp).2

/-- the loop invariant of `eliminate_all` is kept by `eliminate_at(i, i)`: with the pivots `< i` isolated and
non-zero and the columns `i < c ≤ j` zero, clearing pivot `i` does not re-fill any of them -/
theorem eliminateAt_keeps_processed_pivots (dbg : Bool) (i : Fin m) (hi : i.1 < n) (j fuel : Nat)
    (s s' : St Int m n) (h : eliminateAt intOps dbg i ⟨i.1, hi⟩ fuel s = .ok s') (hp : s.t.get i ⟨i.1, hi⟩ ≠ 0)
    (hinv : EAinv i.1 (i.1 + 1) (j + 1) s.t) : EAinv i.1 (i.1 + 1) (j + 1) s'.t :=
  (eliminateAt_post (frameOK_EAinv i ⟨i.1, hi⟩ rfl j) dbg fuel s s' h hinv hp).1

/-- `eliminate_all`, from ANY start state, whenever it returns: the target is diagonal and its non-zero diagonal
entries come first -/
theorem eliminateAll_diagonal (dbg : Bool) (fuel : Nat) (s s' : St Int m n)
    (h : eliminateAll intOps dbg fuel s = .ok s') :
    (∀ (r : Fin m) (c : Fin n), r.1 ≠ c.1 → s'.t.get r c = 0) ∧
      (∀ k l, k ≤ l → dg intOps.toROps s'.t k = 0 → dg intOps.toROps s'.t l = 0) :=
  eliminateAll_post dbg fuel s s' h

/-- one step of `diag_normalize` on a diagonal matrix, whenever it returns: the matrix stays diagonal, only
`d_i, d_{i+1}` change, both stay non-zero, and when the step answers `false` (the pass restarts)
`|d_i|` strictly decreases while `|d_i · d_{i+1}|` is unchanged — `(x, y) ↦ (gcd, lcm)` up to sign -/
theorem diagNormalizeStep_gcd_lcm (dbg : Bool) (s : St Int m n) (i : Nat) (hm : i + 1 < m) (hn : i + 1 < n)
    (r : St Int m n × Bool) (h : diagNormalizeStep intOps dbg s i hm hn = .ok r)
    (hD : ∀ (r : Fin m) (c : Fin n), r.1 ≠ c.1 → s.t.get r c = 0) :
    (∀ (R : Fin m) (C : Fin n), R.1 ≠ C.1 → r.1.t.get R C = 0) ∧
    (∀ k, k ≠ i → k ≠ i + 1 → dgz r.1.t k = dgz s.t k) ∧
    dgz s.t i ≠ 0 ∧ dgz s.t (i + 1) ≠ 0 ∧ dgz r.1.t i ≠ 0 ∧ dgz r.1.t (i + 1) ≠ 0 ∧
    (r.2 = false → |dgz r.1.t i| < |dgz s.t i| ∧
      |dgz r.1.t i| * |dgz r.1.t (i + 1)| = |dgz s.t i| * |dgz s.t (i + 1)|) :=
  diagStep_dg dbg s i hm hn r h hD

/-- `diag_normalize` on a diagonal matrix whose non-zero diagonal entries come first, whenever it returns:
the checker accepts the result (diagonality and normalisation are kept, the chain is established) -/
theorem diagNormalize_shape (dbg : Bool) (fuel : Nat) (s s' : St Int m n)
    (h : diagNormalize intOps dbg fuel s = .ok s')
    (hD : ∀ (r : Fin m) (c : Fin n), r.1 ≠ c.1 → s.t.get r c = 0)
    (hN : ∀ k l, k ≤ l → dg intOps.toROps s.t k = 0 → dg intOps.toROps s.t l = 0) :
    isSnfShape intOps s'.t = true := diagNormalize_post dbg fuel s s' h hD hN

/-- **snf_shape** (ℤ) — for every matrix, every preprocessing `pre`, every fuel, debug or release build: whenever
the code model of `SnfCalc::process` returns, the verified checker accepts its target -/
theorem snf_shape (dbg : Bool) (pre : St Int m n → Res (St Int m n)) (fuel : Nat) (A : Mat Int m n)
    (s : St Int m n) (h : snfCalc intOps dbg pre fuel A = .ok s) : isSnfShape intOps s.t = true :=
  snfCalc_shape_int dbg pre fuel A s h

/-- **snf_shape**, the mathematical statement: the result is diagonal and its diagonal consists of `r` positive
entries, each dividing the next, followed by zeros -/
theorem snf_shape_spec (dbg : Bool) (pre : St Int m n → Res (St Int m n)) (fuel : Nat) (A : Mat Int m n)
    (s : St Int m n) (h : snfCalc intOps dbg pre fuel A = .ok s) :
    (∀ (i : Fin m) (j : Fin n), i.1 ≠ j.1 → s.t.get i j = 0) ∧
      ShapeSpec (fun x : Int => 0 ≤ x) (diagL s.t) := by
  have hs := snfCalc_shape_int dbg pre fuel A s h
  simp only [isSnfShape, Bool.and_eq_true] at hs
  refine ⟨(isDiag_iff lawful_int s.t).1 hs.1, ?_⟩
  have := shapeL_sound lawful_int (fun x : Int => 0 ≤ x) ?_ ?_ _ hs.2
  · simpa using this
  · intro a ha
    simp only [EOps.isNorm, int_isOne, int_normUnit] at ha
    show (0 : Int) ≤ a
    by_contra hlt
    rw [if_pos (by omega)] at ha
    omega
  · intro a b hab
    exact ((int_dvd a b).1 hab).2

/-- shape and transform together (debug build, identity preprocessing): `D = P·A·Q` with `P·P⁻¹ = Q·Q⁻¹ = I` and
`D` in Smith normal form -/
theorem snf_correct (fuel : Nat) (A : Mat Int m n) (s : St Int m n)
    (h : snfCalc intOps true (fun s => .ok s) fuel A = .ok s) :
    (toM id s.p * toM id A * toM id s.q = toM id s.t ∧ toM id s.p * toM id s.pinv = 1 ∧
      toM id s.q * toM id s.qinv = 1) ∧
    (∀ (i : Fin m) (j : Fin n), i.1 ≠ j.1 → s.t.get i j = 0) ∧ ShapeSpec (fun x : Int => 0 ≤ x) (diagL s.t) :=
  ⟨inv_snfCalc lawfulE_int _ (fun s s' h hi => by injection h with h; subst h; exact hi) fuel s h,
    snf_shape_spec true _ fuel A s h⟩

/-- the hypothesis of `snf_shape` is satisfiable non-trivially -/
example : (match snfCalc intOps true (fun s => .ok s) 50 (⟨#v[#v[4, 6, 0], #v[6, 10, 2]]⟩ : Mat Int 2 3) with
    | .ok s => diagL s.t == [2, 2]
    | _ => false) = true := by decide +kernel

/-! ### (T) termination -/

/-- **eliminateAt_terminates** — the `while` loop of `eliminate_at(i, j)` on a non-zero pivot never runs out of
fuel when `fuel ≥ |pivot| + 2`: an iteration (`eliminate_col`; `eliminate_row`) either leaves the pivot isolated,
so that the next test exits, or strictly decreases `|pivot|` -/
theorem eliminateAt_terminates (dbg : Bool) (i : Fin m) (j : Fin n) (fuel : Nat) (s : St Int m n)
    (hp : s.t.get i j ≠ 0) (hf : (s.t.get i j).natAbs + 2 ≤ fuel) : eliminateAt intOps dbg i j fuel s ≠ .err :=
  eliminateAt_fuel_ok dbg i j fuel s hp hf

/-- **eliminateAll_terminates** — `eliminate_all` is a `for` loop over the columns (no fuel of its own; the row
counter only increases); the fuel is handed to `eliminate_at`, whose pivot `eliminate_step` has asserted to be
non-zero.  Hence for every start state there is a bound (the largest `|pivot| + 2` met) from which on it never
reports exhaustion -/
theorem eliminateAll_terminates (dbg : Bool) (s : St Int m n) :
    ∃ N, ∀ fuel, N ≤ fuel → eliminateAll intOps dbg fuel s ≠ .err := eliminateAll_exists_fuel dbg s

/-- **diagNormalize_terminates** — on a diagonal matrix, `diag_normalize` never runs out of fuel when
`fuel ≥ Σ_{k<r} Π_{l<k} |d_l| + 1`, `r` the number of leading non-zero diagonal entries: every pass of the
`'outer` loop that does not go through strictly decreases that sum -/
theorem diagNormalize_terminates (dbg : Bool) (fuel : Nat) (s : St Int m n)
    (hD : ∀ (r : Fin m) (c : Fin n), r.1 ≠ c.1 → s.t.get r c = 0)
    (hf : diagMeasure (firstZeroDiag intOps s.t) s.t + 1 ≤ fuel) : diagNormalize intOps dbg fuel s ≠ .err :=
  diagNormalize_fuel_ok dbg fuel s hD hf

/-- the measure is what the comment says: `Σ_{j<k} Π_{l<j} f l`, e.g. for `d = (6, 4, 10)`: `1 + 6 + 24` -/
example : sumPref (fun l => [6, 4, 10].getD l 0) 3 = 31 := by decide

/-- fuel is monotone: a result other than fuel exhaustion is not changed by more fuel (any ring operations) -/
theorem snf_fuel_mono {α : Type} (e : EOps α) (dbg : Bool) (pre : St α m n → Res (St α m n)) (fuel : Nat)
    (A : Mat α m n) (h : snfCalc e dbg pre fuel A ≠ .err) (fuel' : Nat) (hle : fuel ≤ fuel') :
    snfCalc e dbg pre fuel' A = snfCalc e dbg pre fuel A := snfCalc_mono e dbg pre fuel A h fuel' hle

/-- **snf_terminates** (ℤ) — for every matrix and every preprocessing that does not itself report an error there
is a fuel bound from which on the code model of `SnfCalc::process` never reports fuel exhaustion -/
theorem snf_terminates (dbg : Bool) (pre : St Int m n → Res (St Int m n)) (A : Mat Int m n)
    (hpre : pre (St.init intOps.toROps A) ≠ .err) :
    ∃ N, ∀ fuel, N ≤ fuel → snfCalc intOps dbg pre fuel A ≠ .err := snfCalc_exists_fuel dbg pre A hpre

/-! ### (T′) totality: over ℤ no assertion of `snf.rs` can fire -/

/-- `eliminate_at` on a non-zero pivot never panics: the `debug_assert!((a*d - b*c).is_one())` of
`left/right_elementary` hold (Bézout), and `assert!(modified)` cannot fire while the loop condition is true -/
theorem eliminateAt_never_panics (dbg : Bool) (i : Fin m) (j : Fin n) (fuel : Nat) (s : St Int m n)
    (hp : s.t.get i j ≠ 0) : eliminateAt intOps dbg i j fuel s ≠ .panic := eliminateAt_ne_panic dbg i j fuel s hp

/-- over ℤ the code model of `SnfCalc::process` never panics unless the preprocessing does: `mul_row/mul_col` are
only called with `±1`, `eliminate_at` only on a non-zero pivot, `diag_normalize` only on a diagonal matrix (its
`debug_assert!(is_diag)`) and `diag_normalize_step` only on non-zero entries -/
theorem snf_never_panics (dbg : Bool) (pre : St Int m n → Res (St Int m n)) (fuel : Nat) (A : Mat Int m n)
    (hpre : pre (St.init intOps.toROps A) ≠ .panic) : snfCalc intOps dbg pre fuel A ≠ .panic :=
  snfCalc_ne_panic dbg pre fuel A hpre

/-- **snf_total** (ℤ) — if the preprocessing returns, there are a fuel bound `N` and a state `s` such that the code
model returns exactly `s` for every `fuel ≥ N` -/
theorem snf_total (dbg : Bool) (pre : St Int m n → Res (St Int m n)) (A : Mat Int m n) (s1 : St Int m n)
    (hpre : pre (St.init intOps.toROps A) = .ok s1) :
    ∃ N s, ∀ fuel, N ≤ fuel → snfCalc intOps dbg pre fuel A = .ok s := snfCalc_total dbg pre A s1 hpre

/-- everything together for the model the driver runs (identity preprocessing, debug build): with enough fuel it
returns a state with `D = P·A·Q`, `P·P⁻¹ = Q·Q⁻¹ = I`, and `D` in Smith normal form -/
theorem snf_total_correct (A : Mat Int m n) :
    ∃ N s, (∀ fuel, N ≤ fuel → snfCalc intOps true (fun s => .ok s) fuel A = .ok s) ∧
      (toM id s.p * toM id A * toM id s.q = toM id s.t ∧ toM id s.p * toM id s.pinv = 1 ∧
        toM id s.q * toM id s.qinv = 1) ∧
      (∀ (i : Fin m) (j : Fin n), i.1 ≠ j.1 → s.t.get i j = 0) ∧
      ShapeSpec (fun x : Int => 0 ≤ x) (diagL s.t) := by
  obtain ⟨N, s, h⟩ := snfCalc_total true (fun s => .ok s) A _ rfl
  exact ⟨N, s, h, snf_correct N A s (h N (Nat.le_refl _))⟩

end Yuiv.C09
