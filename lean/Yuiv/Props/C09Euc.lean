import Yuiv.Proofs.C09EucTotal
import Yuiv.Proofs.C09EucInst
import Yuiv.Proofs.C09EucGauss
/-
C09 — Smith normal form, clauses (S) shape and (T) termination/totality of the code model of `SnfCalc::process`
(`Model/C09.lean`) for ANY lawful Euclidean operation record `e : EOps α` (`LawfulEuc e φ`, `φ : α → K` an
interpretation in a commutative domain `K`; see `Proofs/C09Euc.lean` for the fields), generalising
`Props/C09Full.lean` (ℤ only):

 (S) `snf_shape_euc`        — whenever the model returns, the verified checker accepts its target: diagonal, the
                              non-zero entries first, each normalised (`normalizing_unit = 1`), each dividing the
                              next.  ANY preprocessing, any fuel, debug or release build.
 (T) `snf_terminates_euc`   — for every input there is a fuel bound from which on the model never reports fuel
                              exhaustion (measures: Euclidean size of the pivot in `eliminate_at`; the tuple of
                              sizes of the diagonal in the lexicographic order in `diag_normalize`).
     `snf_never_panics_euc` — no assertion of `snf.rs` can fire (unless the preprocessing panics).
     `snf_total_correct_euc`— with enough fuel the model returns `D = P·A·Q`, `P·P⁻¹ = Q·Q⁻¹ = 1`, `D` in Smith form.

Instances proved: ℤ (`intOps`; the results of `Props/C09Full.lean` are recovered), ℚ (`ratOps`), 𝔽_p (`fpOps p`,
`p` prime) — these are all the operation records of `Model/C09.lean` / `Drv/C09.lean` — and the Gaussian integers
(`gaussOps`, `Proofs/C09EucGauss.lean`, following `qint.rs`; with the generic `EucRing::gcdx` of `euc_ring.rs`).
Not done: Eisenstein integers, polynomials over a field (no operation record in the model; see the report).
Only property theorems here; definitions and lemmas are in `Proofs/C09Euc*.lean`.
-/
namespace Yuiv.C09
open Yuiv Matrix

variable {α K : Type} [CommRing K] [IsDomain K] {e : EOps α} {φ : α → K} {m n : Nat}

/-! ### the ring -/

/-- `EucRing::divides` decides divisibility by a non-zero element (from `a = (a/b)·b + a%b`, `size(a%b) < size b`,
`size a ≤ size b` for `a ∣ b ≠ 0`) -/
theorem euc_divides_iff (L : LawfulEuc e φ) (a b : α) : e.dvd a b = true ↔ φ a ≠ 0 ∧ φ a ∣ φ b := L.dvd_iff a b

/-- the local wrapper `SnfCalc::gcdx` on a non-zero pivot `x` that is normalised (inside `eliminate_at`) or does
not divide `y` (in `diag_normalize_step`): `d ≠ 0` normalised, `x = a·d`, `y = b·d` for the quotients the code
computes, `s·a + t·b = 1` (so the `debug_assert!` on the determinant holds), and either the second coefficient is
`0` (the opposite line is not re-filled) or `d` is strictly smaller than `x` -/
theorem gcdx_wrapper_euc (L : LawfulEuc e φ) (x y : α) (hx : φ x ≠ 0)
    (hn : φ (e.normUnit x) = 1 ∨ ¬ φ x ∣ φ y) :
    φ (gcdxW e x y).1 ≠ 0 ∧ φ (e.normUnit (gcdxW e x y).1) = 1 ∧
    φ x = φ (e.quo x (gcdxW e x y).1) * φ (gcdxW e x y).1 ∧
    φ y = φ (e.quo y (gcdxW e x y).1) * φ (gcdxW e x y).1 ∧
    φ (gcdxW e x y).2.1 * φ (e.quo x (gcdxW e x y).1) + φ (gcdxW e x y).2.2 * φ (e.quo y (gcdxW e x y).1) = 1 ∧
    (φ (gcdxW e x y).2.2 = 0 ∨ e.size (gcdxW e x y).1 < e.size x) := L.gcdxW_data x y hx hn

/-! ### (S) shape -/

/-- `eliminate_at(i, j)` on a non-zero normalised pivot, whenever it returns: the pivot is non-zero, normalised,
divides the old pivot, and is the only non-zero entry of its row and of its column -/
theorem eliminateAt_isolates_pivot_euc (L : LawfulEuc e φ) (dbg : Bool) (i : Fin m) (j : Fin n) (fuel : Nat)
    (s s' : St α m n) (h : eliminateAt e dbg i j fuel s = .ok s') (hp : φ (s.t.get i j) ≠ 0)
    (hn : φ (e.normUnit (s.t.get i j)) = 1) :
    φ (s'.t.get i j) ≠ 0 ∧ φ (e.normUnit (s'.t.get i j)) = 1 ∧ φ (s'.t.get i j) ∣ φ (s.t.get i j) ∧
      (∀ c, c ≠ j → φ (s'.t.get i c) = 0) ∧ (∀ r, r ≠ i → φ (s'.t.get r j) = 0) :=
  (Euc.eliminateAt_post L (Euc.frameOK_true i j) dbg fuel s s' h trivial hp hn).2

/-- the loop invariant of `eliminate_all` is kept by `eliminate_at(i, i)`: clearing pivot `i` does not re-fill the
rows/columns of the isolated pivots `< i` nor the zero columns `i < c ≤ j` -/
theorem eliminateAt_keeps_processed_pivots_euc (L : LawfulEuc e φ) (dbg : Bool) (i : Fin m) (hi : i.1 < n)
    (j fuel : Nat) (s s' : St α m n) (h : eliminateAt e dbg i ⟨i.1, hi⟩ fuel s = .ok s')
    (hp : φ (s.t.get i ⟨i.1, hi⟩) ≠ 0) (hn : φ (e.normUnit (s.t.get i ⟨i.1, hi⟩)) = 1)
    (hinv : Euc.EAinv φ i.1 (i.1 + 1) (j + 1) s.t) : Euc.EAinv φ i.1 (i.1 + 1) (j + 1) s'.t :=
  (Euc.eliminateAt_post L (Euc.frameOK_EAinv L i ⟨i.1, hi⟩ rfl j) dbg fuel s s' h hinv hp hn).1

/-- `eliminate_all`, from ANY start state, whenever it returns: the target is diagonal and its non-zero diagonal
entries come first -/
theorem eliminateAll_diagonal_euc (L : LawfulEuc e φ) (dbg : Bool) (fuel : Nat) (s s' : St α m n)
    (h : eliminateAll e dbg fuel s = .ok s') :
    (∀ (r : Fin m) (c : Fin n), r.1 ≠ c.1 → φ (s'.t.get r c) = 0) ∧
      (∀ k l, k ≤ l → φ (dg e.toROps s'.t k) = 0 → φ (dg e.toROps s'.t l) = 0) :=
  Euc.eliminateAll_post L dbg fuel s s' h

/-- one step of `diag_normalize` on a diagonal matrix, whenever it returns: the matrix stays diagonal, only
`d_i, d_{i+1}` change, both stay non-zero, and when the step answers `false` (the pass restarts) the Euclidean
size of `d_i` strictly decreases — `(x, y) ↦ (gcd, lcm)` up to units -/
theorem diagNormalizeStep_gcd_lcm_euc (L : LawfulEuc e φ) (dbg : Bool) (s : St α m n) (i : Nat) (hm : i + 1 < m)
    (hn : i + 1 < n) (r : St α m n × Bool) (h : diagNormalizeStep e dbg s i hm hn = .ok r)
    (hD : ∀ (r : Fin m) (c : Fin n), r.1 ≠ c.1 → φ (s.t.get r c) = 0) :
    (∀ (R : Fin m) (C : Fin n), R.1 ≠ C.1 → φ (r.1.t.get R C) = 0) ∧
    (∀ k, k ≠ i → k ≠ i + 1 → φ (dg e.toROps r.1.t k) = φ (dg e.toROps s.t k)) ∧
    φ (dg e.toROps s.t i) ≠ 0 ∧ φ (dg e.toROps s.t (i + 1)) ≠ 0 ∧
    φ (dg e.toROps r.1.t i) ≠ 0 ∧ φ (dg e.toROps r.1.t (i + 1)) ≠ 0 ∧
    (r.2 = false → e.size (dg e.toROps r.1.t i) < e.size (dg e.toROps s.t i)) :=
  Euc.diagStep_dg L dbg s i hm hn r h hD

/-- `diag_normalize` on a diagonal matrix whose non-zero diagonal entries come first, whenever it returns: the
checker accepts the result -/
theorem diagNormalize_shape_euc (L : LawfulEuc e φ) (dbg : Bool) (fuel : Nat) (s s' : St α m n)
    (h : diagNormalize e dbg fuel s = .ok s')
    (hD : ∀ (r : Fin m) (c : Fin n), r.1 ≠ c.1 → φ (s.t.get r c) = 0)
    (hN : ∀ k l, k ≤ l → φ (dg e.toROps s.t k) = 0 → φ (dg e.toROps s.t l) = 0) :
    isSnfShape e s'.t = true := Euc.diagNormalize_post L dbg fuel s s' h hD hN

/-- **snf_shape_euc** — for every lawful Euclidean operation record, every matrix, every preprocessing `pre`,
every fuel, debug or release build: whenever the code model of `SnfCalc::process` returns, the verified checker
accepts its target -/
theorem snf_shape_euc (L : LawfulEuc e φ) (dbg : Bool) (pre : St α m n → Res (St α m n)) (fuel : Nat)
    (A : Mat α m n) (s : St α m n) (h : snfCalc e dbg pre fuel A = .ok s) : isSnfShape e s.t = true :=
  Euc.snfCalc_shape L dbg pre fuel A s h

/-- **snf_shape_euc**, the mathematical statement: the result is diagonal and its diagonal consists of `r`
non-zero normalised entries, each dividing the next, followed by zeros -/
theorem snf_shape_spec_euc (L : LawfulEuc e φ) (dbg : Bool) (pre : St α m n → Res (St α m n)) (fuel : Nat)
    (A : Mat α m n) (s : St α m n) (h : snfCalc e dbg pre fuel A = .ok s) :
    (∀ (i : Fin m) (j : Fin n), i.1 ≠ j.1 → φ (s.t.get i j) = 0) ∧
      ShapeSpec (NormalisedIn e φ) ((diagL s.t).map φ) := by
  have hs := Euc.snfCalc_shape L dbg pre fuel A s h
  simp only [isSnfShape, Bool.and_eq_true] at hs
  refine ⟨(isDiag_iff L.lawful s.t).1 hs.1, ?_⟩
  exact shapeL_sound L.lawful (NormalisedIn e φ) (fun a ha => ⟨a, rfl, (L.isNorm_iff a).1 ha⟩)
    (fun a b hab => ((L.dvd_iff a b).1 hab).2) _ hs.2

/-- shape and transform together (debug build, identity preprocessing): `D = P·A·Q` with `P·P⁻¹ = Q·Q⁻¹ = 1` and
`D` in Smith normal form -/
theorem snf_correct_euc (L : LawfulEuc e φ) (fuel : Nat) (A : Mat α m n) (s : St α m n)
    (h : snfCalc e true (fun s => .ok s) fuel A = .ok s) :
    (toM φ s.p * toM φ A * toM φ s.q = toM φ s.t ∧ toM φ s.p * toM φ s.pinv = 1 ∧
      toM φ s.q * toM φ s.qinv = 1) ∧
    (∀ (i : Fin m) (j : Fin n), i.1 ≠ j.1 → φ (s.t.get i j) = 0) ∧
      ShapeSpec (NormalisedIn e φ) ((diagL s.t).map φ) :=
  ⟨inv_snfCalc L.toLawfulE _ (fun s s' h hi => by injection h with h; subst h; exact hi) fuel s h,
    snf_shape_spec_euc L true _ fuel A s h⟩

/-! ### (T) termination -/

/-- **eliminateAt_terminates_euc** — the `while` loop of `eliminate_at(i, j)` on a non-zero normalised pivot never
runs out of fuel when `fuel ≥ size(pivot) + 2`: an iteration either leaves the pivot isolated, so that the next
test exits, or strictly decreases `size(pivot)` -/
theorem eliminateAt_terminates_euc (L : LawfulEuc e φ) (dbg : Bool) (i : Fin m) (j : Fin n) (fuel : Nat)
    (s : St α m n) (hp : φ (s.t.get i j) ≠ 0) (hn : φ (e.normUnit (s.t.get i j)) = 1)
    (hf : e.size (s.t.get i j) + 2 ≤ fuel) : eliminateAt e dbg i j fuel s ≠ .err :=
  Euc.eliminateAt_fuel_ok L dbg i j fuel s hp hn hf

/-- **eliminateAll_terminates_euc** — `eliminate_all` is a `for` loop; the fuel is handed to `eliminate_at`, whose
pivot `eliminate_step` has normalised and asserted to be non-zero -/
theorem eliminateAll_terminates_euc (L : LawfulEuc e φ) (dbg : Bool) (s : St α m n) :
    ∃ N, ∀ fuel, N ≤ fuel → eliminateAll e dbg fuel s ≠ .err := Euc.eliminateAll_exists_fuel L dbg s

/-- **diagNormalize_terminates_euc** — on a diagonal matrix `diag_normalize` has a fuel bound: every pass of the
`'outer` loop that does not go through strictly decreases `(size d_0, …, size d_{r-1})` lexicographically -/
theorem diagNormalize_terminates_euc (L : LawfulEuc e φ) (dbg : Bool) (s : St α m n)
    (hD : ∀ (r : Fin m) (c : Fin n), r.1 ≠ c.1 → φ (s.t.get r c) = 0) :
    ∃ N, ∀ fuel, N ≤ fuel → diagNormalize e dbg fuel s ≠ .err := Euc.diagNormalize_exists_fuel L dbg s hD

/-- **snf_terminates_euc** — for every matrix and every preprocessing that does not itself report an error there
is a fuel bound from which on the code model of `SnfCalc::process` never reports fuel exhaustion -/
theorem snf_terminates_euc (L : LawfulEuc e φ) (dbg : Bool) (pre : St α m n → Res (St α m n)) (A : Mat α m n)
    (hpre : pre (St.init e.toROps A) ≠ .err) :
    ∃ N, ∀ fuel, N ≤ fuel → snfCalc e dbg pre fuel A ≠ .err := Euc.snfCalc_exists_fuel L dbg pre A hpre

/-! ### (T′) totality: no assertion of `snf.rs` can fire -/

/-- `eliminate_at` on a non-zero normalised pivot never panics -/
theorem eliminateAt_never_panics_euc (L : LawfulEuc e φ) (dbg : Bool) (i : Fin m) (j : Fin n) (fuel : Nat)
    (s : St α m n) (hp : φ (s.t.get i j) ≠ 0) (hn : φ (e.normUnit (s.t.get i j)) = 1) :
    eliminateAt e dbg i j fuel s ≠ .panic := Euc.eliminateAt_ne_panic L dbg i j fuel s hp hn

/-- **snf_never_panics_euc** — the code model of `SnfCalc::process` never panics unless the preprocessing does -/
theorem snf_never_panics_euc (L : LawfulEuc e φ) (dbg : Bool) (pre : St α m n → Res (St α m n)) (fuel : Nat)
    (A : Mat α m n) (hpre : pre (St.init e.toROps A) ≠ .panic) : snfCalc e dbg pre fuel A ≠ .panic :=
  Euc.snfCalc_ne_panic L dbg pre fuel A hpre

/-- **snf_total_euc** — if the preprocessing returns, there are a fuel bound `N` and a state `s` such that the code
model returns exactly `s` for every `fuel ≥ N` -/
theorem snf_total_euc (L : LawfulEuc e φ) (dbg : Bool) (pre : St α m n → Res (St α m n)) (A : Mat α m n)
    (s1 : St α m n) (hpre : pre (St.init e.toROps A) = .ok s1) :
    ∃ N s, ∀ fuel, N ≤ fuel → snfCalc e dbg pre fuel A = .ok s := Euc.snfCalc_total L dbg pre A s1 hpre

/-- **snf_total_correct_euc** — everything together for the model the driver runs (identity preprocessing, debug
build): with enough fuel it returns a state with `D = P·A·Q`, `P·P⁻¹ = Q·Q⁻¹ = 1`, and `D` in Smith normal form -/
theorem snf_total_correct_euc (L : LawfulEuc e φ) (A : Mat α m n) :
    ∃ N s, (∀ fuel, N ≤ fuel → snfCalc e true (fun s => .ok s) fuel A = .ok s) ∧
      (toM φ s.p * toM φ A * toM φ s.q = toM φ s.t ∧ toM φ s.p * toM φ s.pinv = 1 ∧
        toM φ s.q * toM φ s.qinv = 1) ∧
      (∀ (i : Fin m) (j : Fin n), i.1 ≠ j.1 → φ (s.t.get i j) = 0) ∧
      ShapeSpec (NormalisedIn e φ) ((diagL s.t).map φ) := by
  obtain ⟨N, s, h⟩ := Euc.snfCalc_total L true (fun s => .ok s) A _ rfl
  exact ⟨N, s, h, snf_correct_euc L N A s (h N (Nat.le_refl _))⟩

/-! ### instances: every operation record of the driver -/

/-- ℤ (`intOps`: truncated `/ %`, `normalizing_unit = sign`, `gcdx = extended_gcd` normalised) is lawful -/
theorem int_lawfulEuc : LawfulEuc intOps (id : Int → Int) := lawfulEuc_int

/-- ℚ (`ratOps`) is lawful -/
theorem rat_lawfulEuc : LawfulEuc ratOps (id : Rat → Rat) := lawfulEuc_rat

/-- 𝔽_p (`fpOps p`, residues as natural numbers) is lawful for every prime `p` -/
theorem fp_lawfulEuc (p : Nat) [Fact p.Prime] : LawfulEuc (fpOps p) (fun a : Nat => (a : ZMod p)) := lawfulEuc_fp p

/-- sanity of the abstraction: the ℤ result `snf_shape` of `Props/C09Full.lean` is the ℤ instance -/
theorem snf_shape_int_of_euc (dbg : Bool) (pre : St Int m n → Res (St Int m n)) (fuel : Nat) (A : Mat Int m n)
    (s : St Int m n) (h : snfCalc intOps dbg pre fuel A = .ok s) : isSnfShape intOps s.t = true :=
  snf_shape_euc lawfulEuc_int dbg pre fuel A s h

/-- … and so is the ℤ totality result `snf_total` -/
theorem snf_total_int_of_euc (dbg : Bool) (pre : St Int m n → Res (St Int m n)) (A : Mat Int m n)
    (s1 : St Int m n) (hpre : pre (St.init intOps.toROps A) = .ok s1) :
    ∃ N s, ∀ fuel, N ≤ fuel → snfCalc intOps dbg pre fuel A = .ok s := snf_total_euc lawfulEuc_int dbg pre A s1 hpre

/-- over ℚ: with enough fuel the model returns a correct Smith normal form (entries `0` or `1`: over a field
"normalised and non-zero" means `= 1`) -/
theorem snf_total_correct_rat (A : Mat Rat m n) :
    ∃ N s, (∀ fuel, N ≤ fuel → snfCalc ratOps true (fun s => .ok s) fuel A = .ok s) ∧
      (toM id s.p * toM id A * toM id s.q = toM id s.t ∧ toM id s.p * toM id s.pinv = 1 ∧
        toM id s.q * toM id s.qinv = 1) ∧
      (∀ (i : Fin m) (j : Fin n), i.1 ≠ j.1 → s.t.get i j = 0) ∧
      ShapeSpec (fun x : Rat => x = 1) (diagL s.t) := by
  obtain ⟨N, s, h1, h2, h3, r, hr, k1, k2, k3⟩ := snf_total_correct_euc lawfulEuc_rat A
  refine ⟨N, s, h1, h2, h3, r, by simpa using hr, ?_, ?_, ?_⟩
  · intro i hi hir
    obtain ⟨a1, a, ha, hn⟩ := k1 i (by simpa using hi) hir
    simp only [List.getElem_map, id] at a1 ha hn
    refine ⟨a1, ?_⟩
    subst ha
    simp only [ratOps] at hn
    split at hn
    · rename_i h0; exact absurd (by simpa using h0) a1
    · exact inv_eq_one.1 hn
  · intro i hi hri
    simpa using k2 i (by simpa using hi) hri
  · intro i hi hir
    simpa using k3 i (by simpa using hi) hir

/-- over 𝔽_p (`p` prime): with enough fuel the model returns a correct Smith normal form -/
theorem snf_total_correct_fp (p : Nat) [Fact p.Prime] (A : Mat Nat m n) :
    ∃ N s, (∀ fuel, N ≤ fuel → snfCalc (fpOps p) true (fun s => .ok s) fuel A = .ok s) ∧
      (toM (fun a : Nat => (a : ZMod p)) s.p * toM (fun a : Nat => (a : ZMod p)) A *
          toM (fun a : Nat => (a : ZMod p)) s.q = toM (fun a : Nat => (a : ZMod p)) s.t ∧
        toM (fun a : Nat => (a : ZMod p)) s.p * toM (fun a : Nat => (a : ZMod p)) s.pinv = 1 ∧
        toM (fun a : Nat => (a : ZMod p)) s.q * toM (fun a : Nat => (a : ZMod p)) s.qinv = 1) ∧
      isSnfShape (fpOps p) s.t = true := by
  obtain ⟨N, s, h1, h2, _⟩ := snf_total_correct_euc (lawfulEuc_fp p) A
  exact ⟨N, s, h1, h2, snf_shape_euc (lawfulEuc_fp p) true _ N A s (h1 N (Nat.le_refl _))⟩

/-- the generic `EucRing::gcdx` (`euc_ring.rs`: early returns, extended Euclidean loop, final normalisation) over
lawful base operations is an extended gcd with a normalised result — so every ring that uses the default `gcdx`
only has to establish the base laws -/
theorem generic_gcdx_lawful (L : LawfulEucBase e φ) (x y : α) :
    φ (genGcdx e x y).1 = φ (genGcdx e x y).2.1 * φ x + φ (genGcdx e x y).2.2 * φ y ∧
    (φ (genGcdx e x y).1 ∣ φ x ∧ φ (genGcdx e x y).1 ∣ φ y) ∧ φ (e.normUnit (genGcdx e x y).1) = 1 :=
  genGcdx_spec L x y

/-- the Gaussian integers (`gaussOps`: rounding division, quadrant normalisation, generic `gcdx`) are lawful -/
theorem gauss_lawfulEuc : LawfulEuc gaussOps gφ := lawfulEuc_gauss

/-- over ℤ[i]: with enough fuel the model returns `D = P·A·Q`, `P·P⁻¹ = Q·Q⁻¹ = 1`, `D` in Smith normal form with
the non-zero diagonal entries in the quadrant `re > 0, im ≥ 0` -/
theorem snf_total_correct_gauss (A : Mat (Int × Int) m n) :
    ∃ N s, (∀ fuel, N ≤ fuel → snfCalc gaussOps true (fun s => .ok s) fuel A = .ok s) ∧
      (toM gφ s.p * toM gφ A * toM gφ s.q = toM gφ s.t ∧ toM gφ s.p * toM gφ s.pinv = 1 ∧
        toM gφ s.q * toM gφ s.qinv = 1) ∧
      isSnfShape gaussOps s.t = true ∧
      ∀ x ∈ diagL s.t, (0 < x.1 ∧ 0 ≤ x.2) ∨ x = (0, 0) := by
  obtain ⟨N, s, h1, h2, _⟩ := snf_total_correct_euc lawfulEuc_gauss A
  have hs := snf_shape_euc lawfulEuc_gauss true _ N A s (h1 N (Nat.le_refl _))
  refine ⟨N, s, h1, h2, hs, ?_⟩
  simp only [isSnfShape, Bool.and_eq_true] at hs
  have key : ∀ l : List (Int × Int), shapeL gaussOps l = true → ∀ x ∈ l, (0 < x.1 ∧ 0 ≤ x.2) ∨ x = (0, 0) := by
    intro l
    induction l with
    | nil => intro _ x hx; cases hx
    | cons a rest ih =>
      intro h x hx
      unfold shapeL at h
      split at h
      · rename_i hz
        have hx0 : gaussOps.isZero x = true := by
          rcases List.mem_cons.1 hx with rfl | hx
          · exact hz
          · exact List.all_eq_true.1 h x hx
        have := (lawfulEuc_gauss.isZero_iff x).1 hx0
        right
        exact gφ_inj this
      · simp only [Bool.and_eq_true] at h
        rcases List.mem_cons.1 hx with rfl | hx
        · have := (gNormUnit_eq_one x).1 ((lawfulEuc_gauss.isNorm_iff x).1 h.1.1)
          rcases this with h' | h'
          · exact Or.inl h'
          · exact Or.inr (Prod.ext h'.1 h'.2)
        · exact ih h.2 x hx
  exact key _ hs.2

/-! ### non-vacuity -/

/-- the hypotheses are satisfiable: over 𝔽_5 the model returns on a rank-2 matrix, with diagonal `(1, 1)` -/
example : (match snfCalc (fpOps 5) true (fun s => .ok s) 50 (⟨#v[#v[2, 3, 0], #v[1, 4, 2]]⟩ : Mat Nat 2 3) with
    | .ok s => diagL s.t == [1, 1]
    | _ => false) = true := by decide +kernel

/-- … and over ℤ through the abstract theorem: the result of the model on a concrete matrix is accepted -/
example : ∀ s, snfCalc intOps true (fun s => .ok s) 50 (⟨#v[#v[4, 6, 0], #v[6, 10, 2]]⟩ : Mat Int 2 3) = .ok s →
    isSnfShape intOps s.t = true := fun s h => snf_shape_euc lawfulEuc_int true _ 50 _ s h

/-- the pivot hypotheses of `eliminateAt_isolates_pivot_euc` are satisfiable non-trivially: pivot `2 > 0` over ℤ -/
example : ∃ s : St Int 2 2, id (s.t.get 0 0) ≠ 0 ∧ id (intOps.normUnit (s.t.get 0 0)) = 1 ∧
    (eliminateAt intOps true 0 0 10 s matches .ok _) :=
  ⟨St.init intOps.toROps ⟨#v[#v[2, 3], #v[4, 5]]⟩, by decide, by decide, by decide +kernel⟩

/-- over ℤ[i] the model returns on a concrete matrix: `[[1+i, 2], [0, 3+i]] ↦ diag(1+i, 3+i)` -/
example : (match snfCalc gaussOps true (fun s => .ok s) 50
      (⟨#v[#v[(1, 1), (2, 0)], #v[(0, 0), (3, 1)]]⟩ : Mat (Int × Int) 2 2) with
    | .ok s => diagL s.t == [(1, 1), (3, 1)] && isSnfShape gaussOps s.t
    | _ => false) = true := by decide +kernel

/-- the hypothesis "pivot normalised" of `eliminateAt_never_panics_euc` is NOT an artefact: over ℤ[i],
`eliminate_at` on the non-normalised pivot `i` (column `(i, 1)ᵀ`) trips the `debug_assert!` on the determinant —
the wrapper `SnfCalc::gcdx` hands out `(d, s, t) = (1, i, 0)` with `s·x + t·y = -1 ≠ d`.  (`eliminate_step`
always normalises the pivot before calling `eliminate_at`, so `SnfCalc::process` never gets there.) -/
example : (match eliminateAt gaussOps true (0 : Fin 2) (0 : Fin 1) 10
      (St.init gaussOps.toROps ⟨#v[#v[(0, 1)], #v[(1, 0)]]⟩) with
    | .panic => true
    | _ => false) = true := by decide +kernel

/-- … and in a release build (no `debug_assert!`) the same call returns with `P·P⁻¹ ≠ 1` -/
example : (match eliminateAt gaussOps false (0 : Fin 2) (0 : Fin 1) 10
      (St.init gaussOps.toROps ⟨#v[#v[(0, 1)], #v[(1, 0)]]⟩) with
    | .ok s => !isIdentity gaussOps.toROps (matMul gaussOps.toROps s.p s.pinv)
    | _ => false) = true := by decide +kernel

local instance : Fact (Nat.Prime 5) := ⟨Nat.prime_five⟩

/-- `LawfulEuc` is inhabited by four different rings -/
example : LawfulEuc intOps (id : Int → Int) ∧ LawfulEuc ratOps (id : Rat → Rat) ∧
    LawfulEuc (fpOps 5) (fun a : Nat => (a : ZMod 5)) ∧ LawfulEuc gaussOps gφ :=
  ⟨lawfulEuc_int, lawfulEuc_rat, lawfulEuc_fp 5, lawfulEuc_gauss⟩

end Yuiv.C09
