import Yuiv.Proofs.C05EngineLc
/-
C05 (engine) — how far the REAL edge algebra `lcOps h t : EdgeOps (LcCob R)` (any commutative coefficient ring with
lawful `Coef` operations; ℤ is an instance) satisfies the ring-like hypotheses `RingEdgeOps`, `RingDeloopOps`,
`RingTensorOps` of the `d ∘ d = 0` theorems.

`LcCob R` is not a ring, so the statements are made for EVERY semantics `φ : Cob → S` (an `R`-module valued invariant of
cobordisms that respects the Rust `Eq` of `Cob`), with `lcVal φ f = Σ r • φ(cob)`:

 PROVED (all consequences of the `Lc` combinators):
  * `+`, `−`, unary `−`, scalar multiplication, `collect()` and `Lc::sum` are linear (`lc_combinators_linear`);
  * `*` (`Lc::combine` with `Mul for Cob` = stacking) is the bilinear extension of stacking, additive in either
    argument (`lc_mul_is_bilinear_extension`, `lc_mul_additive`);
  * `connected(&c)` and `cap_off(b, c, dot)` (`modify` + zeroing of `is_zero_cob` terms) are the linear extensions of
    `Cob::connect(·, c)` / `Cob::cap_off` (`lc_connected_capoff_are_linear_extensions`);
  * `part_eval` on a linear combination keeps the value as soon as `Cob::part_eval` does on single cobordisms
    (`lc_part_eval_keeps_value`);
  * hence `lcOps.sub`, `lcOps.neg` are the ring operations, `lcOps.cab` is the value of `(c·a⁻¹)·b`, `lcOps.hcompL/R`
    are `±` the linear extension of `connect(·, id)`, `lcOps.capOff` the linear extension of `cap_off`
    (`lcOps_in_terms_of_values`).

 REMAIN AS HYPOTHESES (identities about SINGLE cobordisms, none of them about linear combinations):
  (C1) `cobEq` is an equivalence and `Cob::stack`, `Cob::connect`, `Cob::cap_off` are well defined on its classes
       (this is what makes the partially applied semantics `x ↦ φ(stack y x)` respect `Eq`);
  (C2) associativity of `Cob::stack`, (C3) `Cob::id` is a two-sided unit and `Cob::inv` a two-sided inverse on whole
       cobordisms (proved for cylinder components in `Props/C05Tng.inv_two_sided`, `stack_id_cyl`);
  (C4) interchange: `stack(connect(a, c), connect(b, d)) = connect(stack(a, b), stack(c, d))`, in particular
       `D(f, 1)·D(1, g) = D(1, g)·D(f, 1)`;
  (C5) `Cob::part_eval` keeps the value `φ` (for the TQFT-type `φ`: `Props/C05.part_eval` soundness per component plus
       multiplicativity of `φ` under disjoint union, the `combine(…, connected)` of `Cob::part_eval`);
  (C6) the delooping decomposition `cup_X ∘ cap + cup ∘ cap_Y = id` for a circle inside a component with further
       boundary (`Props/C05Deloop.deloop_iso` proves it for the circle alone);
  (C7) no panic on composable inputs (stackability / genus assertions — characterised in `Props/C05Tng`).
-/
namespace Yuiv.C05.Engine
open Yuiv Yuiv.C05 Yuiv.C05.Tng

section
variable {R S : Type} [CommRing R] [CoefU R] [LawfulCoef R] [AddCommGroup S] [Module R S]

/-- the `Lc` combinators are linear for every `Eq`-respecting semantics -/
theorem lc_combinators_linear (φ : Cob → S) (hφ : Respects φ) (a b : LcCob R) (r : R) (ps : List (Cob × R))
    (ls : List (LcCob R)) :
    lcVal φ (lcAdd a b) = lcVal φ a + lcVal φ b ∧
    lcVal φ (lcSub a b) = lcVal φ a - lcVal φ b ∧
    lcVal φ (lcNeg a) = - lcVal φ a ∧
    lcVal φ (lcSmul a r) = r • lcVal φ a ∧
    lcVal φ (lcCollect ps) = lcVal φ ps ∧
    lcVal φ (lcSum ls) = (ls.map (lcVal φ)).sum :=
  ⟨lcVal_add φ hφ a b, lcVal_sub φ hφ a b, lcVal_neg φ hφ a, lcVal_smul φ a r, lcVal_collect φ hφ ps,
    lcVal_sum φ hφ ls⟩

/-- `&a * &b` on linear combinations: the bilinear extension of stacking (`G x y` = `y` stacked under `x`, wherever
`Cob::stack` does not panic) -/
theorem lc_mul_is_bilinear_extension (φ : Cob → S) (hφ : Respects φ) (G : Cob → Cob → Cob) (a b c : LcCob R)
    (hG : ∀ x ∈ a, ∀ y ∈ b, Cob.stack y.1 x.1 = .ok (G x.1 y.1)) (h : lcMul a b = .ok c) :
    lcVal φ c = bilVal φ G a b :=
  lcVal_combine φ hφ (fun x y => Cob.stack y x) G a b c hG h

/-- the bilinear extension is additive in each argument — in the first one GIVEN (C1): `x ↦ Σ_b s·φ(G x y)` respects `Eq` -/
theorem lc_mul_additive (φ : Cob → S) (G : Cob → Cob → Cob) (a a' b b' : LcCob R)
    (h1 : Respects (fun x => lcVal (fun y => φ (G x y)) b))
    (h2 : ∀ x, Respects (fun y => φ (G x y))) :
    bilVal φ G (lcAdd a a') b = bilVal φ G a b + bilVal φ G a' b ∧
    bilVal φ G a (lcAdd b b') = bilVal φ G a b + bilVal φ G a b' := by
  refine ⟨lcVal_add _ h1 a a', ?_⟩
  unfold bilVal
  have : (fun x => lcVal (fun y => φ (G x y)) (lcAdd b b')) =
      fun x => lcVal (fun y => φ (G x y)) b + lcVal (fun y => φ (G x y)) b' := by
    funext x; exact lcVal_add _ (h2 x) b b'
  rw [this]
  induction a with
  | nil => simp
  | cons p a ih => simp only [lcVal_cons, ih, smul_add]; abel

/-- `connected(&c)` and `cap_off(bottom, circle, dot)` are the linear extensions of the operations on cobordisms
(`cap_off` zeroes the coefficient of a term with `is_zero_cob`, which is invisible when `φ` vanishes on those) -/
theorem lc_connected_capoff_are_linear_extensions (φ : Cob → S) (hφ : Respects φ) (G : Cob → Cob) (a r : LcCob R) :
    (∀ c, (∀ p ∈ a, Cob.connect p.1 c = .ok (G p.1)) → lcConnected a c = .ok r →
      lcVal φ r = lcVal (fun k => φ (G k)) a) ∧
    (∀ bt circ dot, (∀ p ∈ a, Cob.capOff p.1 bt circ dot = .ok (G p.1)) →
      (∀ k, Cob.isZeroCob k = true → φ k = 0) → lcCapOff bt circ dot a = .ok r →
      lcVal φ r = lcVal (fun k => φ (G k)) a) :=
  ⟨fun c hG h => lcVal_mapGens φ hφ false _ G a r hG (fun hf => by cases hf) h,
   fun bt circ dot hG hz h => lcVal_mapGens φ hφ true _ G a r hG (fun _ => hz) h⟩

/-- `part_eval` on a linear combination keeps the value, GIVEN (C5): `Cob::part_eval` keeps it on single cobordisms -/
theorem lc_part_eval_keeps_value (φ : Cob → S) (hφ : Respects φ) (h t : R) (a e : LcCob R)
    (hC5 : ∀ k e', Cob.partEval h t k = .ok e' → lcVal φ e' = φ k)
    (he : lcPartEval h t a = .ok e) : lcVal φ e = lcVal φ a := by
  have key : ∀ (a : LcCob R) (ls : List (LcCob R)),
      mapMRes (fun (p : Cob × R) =>
        match Cob.partEval h t p.1 with
        | .ok e => .ok (lcSmul e p.2)
        | .panic => .panic
        | .err => .err) a = .ok ls → (ls.map (lcVal φ)).sum = lcVal φ a := by
    intro a
    induction a with
    | nil => intro ls hm; simp [mapMRes] at hm; subst hm; rfl
    | cons p a ih =>
      intro ls hm
      obtain ⟨q, qs, hq, hqs, rfl⟩ := (mapMRes_cons_ok _ p a ls).1 hm
      rcases hp : Cob.partEval h t p.1 with e' | _ | _
      · simp only [hp, Res.ok.injEq] at hq
        rw [List.map_cons, List.sum_cons, lcVal_cons, ih qs hqs, ← hq, lcVal_smul, hC5 p.1 e' hp]
      · simp [hp] at hq
      · simp [hp] at hq
  unfold lcPartEval at he
  split at he
  · split at he
    · rename_i ls hls
      cases he
      rw [lcVal_sum φ hφ]
      exact key a ls hls
    · cases he
    · cases he
  · cases he; rfl

/-- the operations of the real edge algebra in terms of values: `sub`/`neg` are the ring operations; `cab` is the
value of the product `(c · a⁻¹) · b`; `hcompL` is the linear extension of `connect(·, id_w)`, `hcompR` the same with
the sign; `capOff` the linear extension of `Cob::cap_off` — the last three GIVEN (C5) -/
theorem lcOps_in_terms_of_values (φ : Cob → S) (hφ : Respects φ) (h t : R)
    (hC5 : ∀ k e', Cob.partEval h t k = .ok e' → lcVal φ e' = φ k) :
    (∀ d x : LcCob R, lcVal φ ((lcOps h t).sub d x) = lcVal φ d - lcVal φ x) ∧
    (∀ x : LcCob R, lcVal φ ((lcOps h t).neg x) = - lcVal φ x) ∧
    (∀ c ainv b r : LcCob R, (lcOps h t).cab c ainv b = .ok r →
      ∃ x y, lcMul c ainv = .ok x ∧ lcMul x b = .ok y ∧ lcVal φ r = lcVal φ y) ∧
    (∀ (f r : LcCob R) (w : Tng) (G : Cob → Cob), (∀ p ∈ f, Cob.connect p.1 (Cob.idFor w) = .ok (G p.1)) →
      (lcOps h t).hcompL f w = .ok r → lcVal φ r = lcVal (fun k => φ (G k)) f) ∧
    (∀ (neg : Bool) (f r : LcCob R) (v : Tng) (G : Cob → Cob), (∀ p ∈ f, Cob.connect p.1 (Cob.idFor v) = .ok (G p.1)) →
      (lcOps h t).hcompR neg f v = .ok r →
      lcVal φ r = (if neg then (-1 : R) else 1) • lcVal (fun k => φ (G k)) f) := by
  refine ⟨fun d x => lcVal_sub φ hφ d x, fun x => lcVal_neg φ hφ x, ?_, ?_, ?_⟩
  · intro c ainv b r hr
    simp only [lcOps] at hr
    rcases hx : lcMul c ainv with x | _ | _
    · simp only [hx] at hr
      rcases hy : lcMul x b with y | _ | _
      · simp only [hy] at hr
        exact ⟨x, y, rfl, hy, lc_part_eval_keeps_value φ hφ h t y r hC5 hr⟩
      · simp [hy] at hr
      · simp [hy] at hr
    · simp [hx] at hr
    · simp [hx] at hr
  · intro f r w G hG hr
    simp only [lcOps] at hr
    rcases hg : lcConnected f (Cob.idFor w) with g | _ | _
    · simp only [hg] at hr
      rw [lc_part_eval_keeps_value φ hφ h t g r hC5 hr]
      exact lcVal_mapGens φ hφ false _ G f g hG (fun hf => by cases hf) hg
    · simp [hg] at hr
    · simp [hg] at hr
  · intro neg f r v G hG hr
    simp only [lcOps] at hr
    rcases hg : lcConnected f (Cob.idFor v) with g | _ | _
    · simp only [hg] at hr
      rw [lc_part_eval_keeps_value φ hφ h t _ r hC5 hr, lcVal_smul,
        lcVal_mapGens φ hφ false _ G f g hG (fun hf => by cases hf) hg]
      cases neg <;> simp [LawfulCoef.neg_eq, LawfulCoef.one_eq]
    · simp [hg] at hr
    · simp [hg] at hr

/-- non-vacuity: the constant semantics and the "number of components" semantics respect `Eq`; a concrete sum over ℤ -/
example : Respects (fun (_ : Cob) => (1 : Int)) ∧ Respects (fun (k : Cob) => (k.length : Int)) := by
  refine ⟨fun _ _ _ => rfl, ?_⟩
  intro k k' h
  unfold cobEq at h
  simp only [Bool.and_eq_true, beq_iff_eq] at h
  simp [h.1]

example : lcVal (fun (_ : Cob) => (1 : Int)) (lcAdd [(([] : Cob), (2 : Int))] [(([] : Cob), 3)]) = 5 := by decide

end
end Yuiv.C05.Engine
