import Yuiv.Proofs.C12Decomp
import Yuiv.Proofs.C12Rings
/-
C12 — `dir_sum_decomp` (decomp.rs): the code model `dirSumDecomp` of `Yuiv/Model/C12.lean` ALWAYS produces an
output that the verified checkers `checkDecomp` / `connectedBlk` accept (closing the `partial` clause of
`props/C12.json` "…is tested through the checkers on every explored input, not proved").

Property theorems only; lemmas are in `Yuiv/Proofs/C12Decomp.lean`.

Input well-formedness `WFC A` = the CSC storage invariant of nalgebra-sparse, and nothing else:
  * `rows`   : every stored row index of every column is `< A.nrows`;
  * `sorted` : the stored row indices of every column are strictly increasing (so no row is stored twice).
(Columns beyond `A.cols.size` read as empty; no relation between `A.cols.size` and `A.ncols` is needed.)
Stored values may be zero except where `NoZero A` (no explicit zero stored) is assumed.
Scalars: any commutative ring with lawful model operations (`LawfulScal R`; instances proved for `Int`, `Rat`,
`Fin 5`, `GI` in `Proofs/C12Rings.lean`); the no-panic theorem needs no law at all.
-/
namespace Yuiv.C12
open Yuiv Relation

section anyScalar
variable {α : Type} [Scal α]

/-- **`group_cols` partitions the non-empty columns into the classes of "share a stored row index".**
No panic; the groups are disjoint, non-empty, consist of non-empty columns `< ncols`, cover every non-empty
column; a column sharing a row with a member of a group is in that group (`sep`), and any two members of a
group are linked by a chain of columns sharing rows (`conn`). -/
theorem groupCols_partition (A : SpMat α) (hA : WFC A) :
    ∃ cols, groupCols A = .ok cols ∧ cols.flatten.Nodup ∧
      (∀ g ∈ cols, g ≠ [] ∧ ∀ j ∈ g, j < A.ncols ∧ col A j ≠ []) ∧
      (∀ j, j < A.ncols → col A j ≠ [] → ∃ g ∈ cols, j ∈ g) ∧
      (∀ g ∈ cols, ∀ j ∈ g, ∀ j', Share A j j' → j' ∈ g) ∧
      (∀ g ∈ cols, ∀ j ∈ g, ∀ j' ∈ g, EqvGen (Share A) j j') := by
  obtain ⟨cols, h, hG⟩ := groupCols_grouping A hA
  exact ⟨cols, h, hG.nodup, fun g hg => ⟨hG.ne g hg, fun j hj => ⟨hG.lt g hg j hj, hG.colne g hg j hj⟩⟩,
    hG.cover, hG.sep, hG.conn⟩

/-- **dirSumDecomp_ok.** On every CSC-well-formed input the model of `dir_sum_decomp` does not panic (no
`perm_for_indices` assert, no `usize` underflow, no out-of-block entry, no row without a group) and does not
run out of fuel (`UnionFind::root` terminates) — for ANY scalar type, lawful or not. -/
theorem dirSumDecomp_ok (A : SpMat α) (hA : WFC A) : ∃ o, dirSumDecomp A = .ok o :=
  dirSumDecomp_noPanic A hA

end anyScalar

section ring
variable {R : Type} [CommRing R] [Scal R] [LawfulScal R]

/-- **dirSumDecomp_block_diagonal.** The decomposition checker accepts the model's own output, for every
CSC-well-formed input (stored zeros allowed).  Hence (by `decomp_checker_sound`, unfolded here) `p` and `q`
are permutations of the rows / columns, the blocks fit, and the permuted matrix is entrywise the
block-diagonal sum of the returned blocks — zero outside the blocks, i.e. plus zero rows / columns. -/
theorem dirSumDecomp_block_diagonal (A : SpMat R) (hA : WFC A) :
    ∃ o, dirSumDecomp A = .ok o ∧ checkDecomp A o.p o.q o.blocks = true ∧
      ∃ (σ : Equiv.Perm (Fin A.nrows)) (τ : Equiv.Perm (Fin A.ncols)),
        (∀ i, (σ i : Nat) = o.p.getD i 0) ∧ (∀ j, (τ j : Nat) = o.q.getD j 0) ∧
        (o.blocks.map (·.nrows)).sum ≤ A.nrows ∧ (o.blocks.map (·.ncols)).sum ≤ A.ncols ∧
        ∀ (i : Fin A.nrows) (j : Fin A.ncols), entry A i j = bdEntry o.blocks (σ i) (τ j) := by
  obtain ⟨o, h1, h2⟩ := dirSumDecomp_spec A hA
  exact ⟨o, h1, h2, checkDecomp_sound A o.p o.q o.blocks h2⟩

/-- **dirSumDecomp_blocks_connected.** When the input stores no explicit zero, every returned block passes the
connectivity check, hence (by `block_connected_checker_sound`, unfolded here) no block is a direct sum of two
smaller blocks and no block has a zero row or column: there is no set `S` of its rows/columns, non-empty with
non-empty complement, that no stored non-zero entry leaves. -/
theorem dirSumDecomp_blocks_connected (A : SpMat R) (hA : WFC A) (hnz : NoZero A) :
    ∃ o, dirSumDecomp A = .ok o ∧
      ∀ B ∈ o.blocks, connectedBlk B = true ∧ ∀ S : Nat → Prop, ¬ Splits B S := by
  obtain ⟨o, h1, h2⟩ := dirSumDecomp_conn A hA hnz
  exact ⟨o, h1, fun B hB => ⟨h2 B hB, connectedBlk_sound B (h2 B hB)⟩⟩

/-- the two outputs of the theorems above are the same `o` (the model is a function) -/
theorem dirSumDecomp_full (A : SpMat R) (hA : WFC A) :
    ∃ o, dirSumDecomp A = .ok o ∧ checkDecomp A o.p o.q o.blocks = true ∧
      (NoZero A → ∀ B ∈ o.blocks, connectedBlk B = true) := by
  obtain ⟨o, h1, h2⟩ := dirSumDecomp_spec A hA
  refine ⟨o, h1, h2, fun hnz => ?_⟩
  obtain ⟨o', h1', h2'⟩ := dirSumDecomp_conn A hA hnz
  rw [h1] at h1'
  cases h1'
  exact h2'

/-- the connectivity check is also COMPLETE (used above): a block in which every edge-closed set containing
vertex 0 is everything is accepted by `connectedBlk` -/
theorem block_connected_checker_complete {α : Type} [Scal α] (B : SpMat α)
    (hrows : ∀ j, j < B.ncols → ∀ e ∈ col B j, e.1 < B.nrows) (hn : 0 < B.nrows + B.ncols)
    (H : ∀ P : Nat → Prop, P 0 →
      (∀ j, j < B.ncols → ∀ e ∈ col B j, isZero e.2 = false → (P e.1 ↔ P (B.nrows + j))) →
      ∀ v, v < B.nrows + B.ncols → P v) :
    connectedBlk B = true := connectedBlk_complete B hrows hn H

end ring

/-- the hypotheses are satisfiable by a non-trivial value: a 3×4 integer matrix with two blocks
(columns {0,2} sharing row 0, column {1}), an empty column and no stored zero -/
example : ∃ A : SpMat Int, WFC A ∧ NoZero A ∧ A.ncols = 4 ∧ col A 0 ≠ [] :=
  ⟨⟨3, 4, #[[(0, 2), (2, 5)], [(1, 7)], [(0, 1)], []]⟩, by
    refine ⟨⟨?_, ?_⟩, ?_, rfl, by decide⟩
    · intro j e he
      match j with
      | 0 => simp [col] at he; rcases he with rfl | rfl <;> decide
      | 1 => simp [col] at he; subst he; decide
      | 2 => simp [col] at he; subst he; decide
      | 3 => simp [col] at he
      | j + 4 => simp [col] at he
    · intro j
      match j with
      | 0 => decide
      | 1 => decide
      | 2 => decide
      | 3 => simp [rowIdx, col]
      | j + 4 => simp [rowIdx, col]
    · intro j e he
      match j with
      | 0 => simp [col] at he; rcases he with rfl | rfl <;> decide
      | 1 => simp [col] at he; subst he; decide
      | 2 => simp [col] at he; subst he; decide
      | 3 => simp [col] at he
      | j + 4 => simp [col] at he⟩

/-- the model on that value: two blocks, accepted by both checkers (evaluated by the kernel) -/
example : (match dirSumDecomp (α := Int) ⟨3, 4, #[[(0, 2), (2, 5)], [(1, 7)], [(0, 1)], []]⟩ with
    | .ok o => o.blocks.length == 2 &&
        checkDecomp (α := Int) ⟨3, 4, #[[(0, 2), (2, 5)], [(1, 7)], [(0, 1)], []]⟩ o.p o.q o.blocks &&
        o.blocks.all connectedBlk
    | _ => false) = true := by decide +kernel

end Yuiv.C12
