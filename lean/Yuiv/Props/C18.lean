import Yuiv.Proofs.C18
import Yuiv.Proofs.C18Orbit
import Yuiv.Proofs.C18Check
import Yuiv.Proofs.C18Closure
import Yuiv.Proofs.C18Resolve
import Yuiv.Proofs.C18Renumber
/-
C18 — link diagrams: components, signs, resolutions and braid closures.

Property theorems only.  Part A: the finite tables of `crossing.rs` / `link.rs` (by `decide`).
Part B: mirror image, for ALL links (valid or not).  Part C: braid closure.
-/
namespace Yuiv.C18
open Yuiv

/-! ### A. finite tables -/

/-- `pass` maps slots to slots -/
theorem pass_lt : ∀ t : CType, ∀ j, j < 4 → t.pass j < 4 := by decide
/-- `pass` is an involution on `{0,1,2,3}` for each crossing type … -/
theorem pass_pass : ∀ t : CType, ∀ j, j < 4 → t.pass (t.pass j) = j := by decide
/-- … without fixed points -/
theorem pass_ne : ∀ t : CType, ∀ j, j < 4 → t.pass j ≠ j := by decide

/-- `arcs` pairs exactly `{j, pass j}`: the two index pairs are `pass`-partners and cover the four slots -/
theorem arcs_pass : ∀ t : CType,
    t.pass t.arcs.1.1 = t.arcs.1.2 ∧ t.pass t.arcs.2.1 = t.arcs.2.2 ∧
    [t.arcs.1.1, t.arcs.1.2, t.arcs.2.1, t.arcs.2.2].Perm [0, 1, 2, 3] := by decide

/-- resolution table: `X`/`Xm` resolve to `H`/`V` as in Bar-Natan's convention, resolved types panic -/
theorem resolve_table :
    CType.X.resolve false = some .H ∧ CType.X.resolve true = some .V ∧
    CType.Xm.resolve false = some .V ∧ CType.Xm.resolve true = some .H ∧
    (∀ b, CType.V.resolve b = none) ∧ (∀ b, CType.H.resolve b = none) := by decide

/-- a crossing can be resolved iff it is not yet resolved, and the result is resolved -/
theorem resolve_isResolved : ∀ t : CType, ∀ b : Bool,
    (t.isResolved = true ↔ t.resolve b = none) ∧ (∀ t', t.resolve b = some t' → t'.isResolved = true) := by decide

/-- the 0- and the 1-resolution of a crossing differ (one is `V`, the other `H`) -/
theorem resolve_ne : ∀ t : CType, t.isResolved = false → t.resolve false ≠ t.resolve true := by decide

/-- the strand through a resolved crossing joins the slots that `arcs` joins: `V` = {0,3},{1,2}; `H` = {0,1},{2,3} -/
theorem pass_resolved :
    (List.range 4).map CType.V.pass = [3, 2, 1, 0] ∧ (List.range 4).map CType.H.pass = [1, 0, 3, 2] ∧
    (List.range 4).map CType.X.pass = [2, 3, 0, 1] ∧ (List.range 4).map CType.Xm.pass = [2, 3, 0, 1] := by decide

theorem ctype_mirror_mirror : ∀ t : CType, t.mirror.mirror = t := by decide
theorem ctype_mirror_pass : ∀ t : CType, ∀ j, j < 4 → t.mirror.pass j = t.pass j := by decide
theorem ctype_mirror_isResolved : ∀ t : CType, t.mirror.isResolved = t.isResolved := by decide

/-- mirroring negates the sign table -/
theorem signAt_mirror : ∀ t : CType, ∀ j, j < 4 → signAt t.mirror j = (signAt t j).map Sign.flip := by decide

/-- reversing the strand on which a sign is read (entering at the other end `pass j`) negates it;
signs exist exactly at the slots 1, 3 of unresolved crossings -/
theorem signAt_reverse : ∀ t : CType, ∀ j, j < 4 → signAt t (t.pass j) = (signAt t j).map Sign.flip := by decide
theorem signAt_isSome : ∀ t : CType, ∀ j, j < 4 →
    ((signAt t j).isSome = true ↔ (t.isResolved = false ∧ (j = 1 ∨ j = 3))) := by decide

/-- the `b`-smoothing of a crossing is the `(!b)`-smoothing of its mirror image -/
theorem resolve_mirror : ∀ t : CType, ∀ b : Bool, t.mirror.resolve (!b) = t.resolve b := by decide

/-! ### B. mirror image of a link (all links) -/

theorem mirror_mirror (l : Link) : mirror (mirror l) = l := mirror_mirror' l

/-- the walk, hence the components, ignore over/under information -/
theorem components_mirror (l : Link) : components (mirror l) = components l := components_mirror' l

/-- `crossing_signs` of the mirror image are the negated signs (and it panics iff the original does) -/
theorem crossingSigns_mirror (l : Link) :
    crossingSigns (mirror l) = resMap (List.map Sign.flip) (crossingSigns l) := crossingSigns_mirror' l

/-- signed crossing numbers swap and the writhe negates under mirroring -/
theorem writhe_mirror (l : Link) (s : List Sign) (h : crossingSigns l = .ok s) :
    signedCrossingNums (mirror l) = .ok (s.count .neg, s.count .pos) ∧
    signedCrossingNums l = .ok (s.count .pos, s.count .neg) ∧
    writhe (mirror l) = .ok (-((s.count .pos : Int) - (s.count .neg : Int))) ∧
    writhe l = .ok ((s.count .pos : Int) - (s.count .neg : Int)) := by
  have hm : crossingSigns (mirror l) = .ok (s.map Sign.flip) := by
    rw [crossingSigns_mirror', h]; rfl
  have hc := count_flip s
  refine ⟨?_, ?_, ?_, ?_⟩
  · simp only [signedCrossingNums, hm, Res.bind_ok, Res.pure_eq, hc.1, hc.2]
  · simp only [signedCrossingNums, h, Res.bind_ok, Res.pure_eq]
  · simp only [writhe, signedCrossingNums, hm, Res.bind_ok, Res.pure_eq, hc.1, hc.2]
    congr 1; omega
  · simp only [writhe, signedCrossingNums, h, Res.bind_ok, Res.pure_eq]

example : crossingSigns (fromPD [[1,4,2,5],[3,6,4,1],[5,2,6,3]]) = .ok [.neg, .neg, .neg] := by decide

/-- a crossing and its mirror image have the same smoothings, with the roles of 0 and 1 exchanged -/
theorem crossing_resolve_mirror (c : Crossing) (b : Bool) : c.mirror.resolve (!b) = c.resolve b :=
  Crossing.resolve_mirror c b

/-! ### D. valid PD codes: the walk enumerates an orbit and returns (no panic)

`Valid l`: every label occurs in exactly two slots.  `HE l h`: `h = (i, j)` is a slot (`i < n`, `j < 4`).
`step l h`: through the crossing (`pass`), then to the other end of the edge (`pass_edge`). -/

/-- on a valid code `pass_edge` is a fixed-point-free, label-preserving involution of the slots -/
theorem passEdge_valid (l : Link) (hv : Valid l) (h : Nat × Nat) (hh : HE l h) :
    ∃ h', passEdge l h.1 h.2 = some h' ∧ HE l h' ∧ h' ≠ h ∧
      edgeAt l h'.1 h'.2 = edgeAt l h.1 h.2 ∧ passEdge l h'.1 h'.2 = some h :=
  passEdge_valid' l hv h hh

/-- the half-edge map sends slots to slots and is injective on them (so it permutes the `4n` slots) -/
theorem step_injective (l : Link) (hv : Valid l) (a b : Nat × Nat) (ha : HE l a) (hb : HE l b) :
    HE l (step l a) ∧ (step l a = step l b → a = b) :=
  ⟨(step_spec l hv a ha).2.1, step_inj l hv a b ha hb⟩

/-- `traverse_edges` on a valid code never reaches the `4·n` bound: it reports the slots
`s, step s, step² s, …` (here `v`, most recent first) without repetition, all of them slots of `l`,
closes up (`step` of the last one is `s`) after at most `4·n` steps and reports `s` once more. -/
theorem traverse_orbit (l : Link) (hv : Valid l) (s : Nat × Nat) (hs : HE l s) :
    ∃ v, traverse l s = .ok (v.reverse ++ [s]) ∧ RChain (step l) s v ∧ v.Nodup ∧
      step l (v.headD s) = s ∧ 0 < v.length ∧ v.length ≤ 4 * l.length ∧ (∀ h ∈ v, HE l h) := by
  obtain ⟨v, h1, h2, h3, h4, h5, _⟩ :=
    traverseLoop_valid l hv s hs (4 * l.length) s [] rfl (by simp) (by simp)
  refine ⟨v, h1, h2, h3, h4, ?_, h5, ?_⟩
  · cases v with
    | nil => exact h2.elim
    | cons a r => simp
  · exact RChain.all_mem (HE l) hs (fun x hx => (step_spec l hv x hx).2.1) h2

example : Valid (fromPD [[4,2,5,1],[8,6,1,5],[6,3,7,4],[2,7,3,8]]) := by decide
example : traverse (fromPD [[0,0,1,1]]) (0, 0) = .ok [(0,0),(0,3),(0,0)] := by decide
/-- the bound is sharp for malformed codes: a label occurring three times makes the walk panic -/
example : traverse (fromPD [[1,2,1,1]]) (0, 1) = .panic := by decide

/-! ### G. edge renumbering (all links, valid or not)

`renumber f l` renames every label by `f`; `Inj f`: `f` is injective. -/

/-- the walks of a renumbered diagram are literally the same slot sequences -/
theorem traverse_renumber_eq (f : Nat → Nat) (hf : Inj f) (l : Link) (s : Nat × Nat) (hs : s.1 < l.length) :
    traverse (renumber f l) s = traverse l s := traverse_renumber f hf l s hs

/-- components commute with renumbering (same order, same direction, labels renamed; same panics) -/
theorem components_renumber (f : Nat → Nat) (hf : Inj f) (l : Link) :
    components (renumber f l) = resMap (List.map (Path.ren f)) (components l) := components_renumber' f hf l

/-- crossing signs — hence writhe and signed crossing numbers — are invariant under renumbering -/
theorem crossingSigns_renumber (f : Nat → Nat) (hf : Inj f) (l : Link) :
    crossingSigns (renumber f l) = crossingSigns l ∧
    signedCrossingNums (renumber f l) = signedCrossingNums l ∧
    writhe (renumber f l) = writhe l := by
  have h := crossingSigns_renumber' f hf l
  refine ⟨h, ?_, ?_⟩
  · unfold signedCrossingNums; rw [h]
  · unfold writhe signedCrossingNums; rw [h]

example : Inj (fun x => 3 * x + 7) := by intro a b h; simp only at h; omega

/-! ### F. resolution states

`smoothAll l s` (spec): go along the crossings and smooth the `k`-th unresolved one by the `k`-th bit
(`X`,0 ↦ `H`; `X`,1 ↦ `V`; `Xm`,0 ↦ `V`; `Xm`,1 ↦ `H`), resolved crossings are skipped. -/

/-- `resolved_by` with a state of the right length never panics, equals the spec, leaves no crossing and
keeps every edge array; with a state of the wrong length it panics (debug assertion) -/
theorem resolvedBy_spec (l : Link) (s : List Bool) :
    (s.length = crossingNum l →
      resolvedBy l s = .ok (smoothAll l s) ∧ crossingNum (smoothAll l s) = 0 ∧
      (smoothAll l s).map Crossing.edges = l.map Crossing.edges) ∧
    (s.length ≠ crossingNum l → resolvedBy l s = .panic) := by
  constructor
  · intro h
    obtain ⟨h1, h2⟩ := foldlM_resolveFirst s l h
    exact ⟨by unfold resolvedBy; rw [if_pos h]; exact h1, h2, smoothAll_edges l s⟩
  · intro h
    unfold resolvedBy; rw [if_neg h]

example : resolvedBy (fromPD [[1,4,2,5],[3,6,4,1],[5,2,6,3]]) [false, true, false]
    = .ok [⟨.H,1,4,2,5⟩, ⟨.V,3,6,4,1⟩, ⟨.H,5,2,6,3⟩] := by decide

/-! ### E. verified checker for component lists

`checkComps l comps` is evaluated by the driver on the component list of every compared case (`L`, `C` lines,
every resolution state of the `R` lines, the Seifert resolution), and the component lists of the real code
are compared with the model's; so the statement below applies to the outputs of the real code on all
generated inputs.  `Conn l` is the equivalence generated by `joined l e e'` = "e and e' are the labels at
the two ends of a strand through some crossing" (`joined_spec`); for a fully resolved diagram this is the
edge-identification relation, so the number of circles is the number of its classes. -/

theorem joined_spec (l : Link) (e e' : Nat) :
    joined l e e' = true ↔ ∃ c ∈ l, ∃ j, j < 4 ∧ c.edge j = e ∧ c.edge (c.ctype.pass j) = e' :=
  joined_iff l e e'

/-- an accepted component list is a partition of the edge set into the classes of `Conn`:
every label lies in exactly one component and is listed once; every component is closed, non-empty and
is exactly the `Conn`-class of each of its labels -/
theorem checkComps_sound (l : Link) (comps : List Path) (h : checkComps l comps = true) :
    (∀ e, e ∈ allEdges l ↔ ∃ p ∈ comps, e ∈ p.edges) ∧
    (comps.flatMap (·.edges)).Nodup ∧
    (∀ p ∈ comps, p.closed = true ∧ p.edges ≠ [] ∧ ∀ e ∈ p.edges, ∀ e', Conn l e e' ↔ e' ∈ p.edges) :=
  checkComps_sound' l comps h

example : (components (fromPD [[4,1,3,2],[2,3,1,4]])).isOk = true ∧
    (match components (fromPD [[4,1,3,2],[2,3,1,4]]) with | .ok cs => checkComps (fromPD [[4,1,3,2],[2,3,1,4]]) cs | _ => false) = true := by
  decide

/-! ### C. braid closure -/

/-- the closure of a word of length `n` has `n` crossings (all of type `X`) and `4n` slots -/
theorem closure_counts (strands : Nat) (w : List Int) (l : Link) (h : closure strands w = .ok l) :
    l.length = w.length ∧ crossingNum l = w.length ∧ (allEdges l).length = 4 * w.length := by
  unfold closure at h
  cases hp : closurePD strands w with
  | panic => rw [hp] at h; cases h
  | err => rw [hp] at h; cases h
  | ok pd =>
    rw [hp] at h
    simp only [bind, Res.bind, pure] at h
    cases h
    have hl := closurePD_length hp
    refine ⟨by simp [fromPD4, hl], ?_, by rw [allEdges_fromPD4_length, hl]⟩
    unfold crossingNum fromPD4
    rw [List.filter_map, List.length_map]
    have : ∀ l : List (Nat × Nat × Nat × Nat),
        (l.filter ((fun c => !Crossing.isResolved c) ∘ fun x => Crossing.ofPD x.1 x.2.1 x.2.2.1 x.2.2.2)) = l := by
      intro l; apply List.filter_eq_self.2; intro x _; rfl
    rw [this, hl]

/-- the closure of a braid word (whenever `closure` returns, i.e. every strand is used and every letter is in
range) is a valid PD code: every label occurs in exactly two slots.  Together with `closure_counts` (4n slots)
the closure uses 2n labels. -/
theorem closure_valid (strands : Nat) (w : List Int) (l : Link) (h : closure strands w = .ok l) : Valid l :=
  closure_valid' strands w l h

/-- the closure of a word of length `n` uses exactly `2n` distinct edge labels -/
theorem closure_labels (strands : Nat) (w : List Int) (l : Link) (h : closure strands w = .ok l) :
    (allEdges l).eraseDups.length = 2 * w.length := by
  have h1 := twice_labels _ (allEdges l) rfl (closure_valid strands w l h)
  have h2 := (closure_counts strands w l h).2.2
  omega

/-- hence no walk on a braid closure can hit the `4·n` bound -/
theorem closure_traverse (strands : Nat) (w : List Int) (l : Link) (h : closure strands w = .ok l)
    (s : Nat × Nat) (hs : HE l s) : ∃ path, traverse l s = .ok path :=
  let ⟨v, hv, _⟩ := traverse_orbit l (closure_valid strands w l h) s hs
  ⟨_, hv⟩

example : closure 2 [1, 1, 1] = .ok (fromPD [[0,2,3,1],[2,4,5,3],[4,0,1,5]]) := by decide

end Yuiv.C18
