import Yuiv.Proofs.C06Gen
import Yuiv.Model.C19
/-
C06 — the hand-written model `Yuiv.C06.{div, divVec, ss}` (`Yuiv/Model/C06.lean`) and `Yuiv.C19.ssi` ARE the source
text of `/repo/yui-khovanov/src/misc.rs` (`div`, `div_vec`) and of the closing arithmetic of `ss_invariant`
(kh/ss.rs) / `ssi_invariants` (khi/ssi.rs).

`Yuiv.GenMisc.*` (file `Yuiv/Gen/MiscFn.lean`) is regenerated from the Rust sources by `tools/rs2lean_fn.py fn:misc` on
every `./check` run (`R := Int`; the counter `k` an `i32` with overflow check; the `while` loop on explicit fuel).
The model fixes the fuel `|a| + 1` and counts in `Nat`; the theorems hold for EVERY fuel above `|a|` and below
`2^31 - 1` (the only thing the model leaves out is the `i32` overflow of the counter, which needs `|a| ≥ 2^(2^31-2)`),
including the panic for `c = 0` and the divergence (`err`) for a unit `c`.

Property theorems only; helpers are in `Yuiv/Proofs/C06Gen.lean`.
-/
set_option linter.unusedSimpArgs false
namespace Yuiv.C06Gen
open Yuiv Res Yuiv.Rust Yuiv.GenMisc

/-- `misc::div`, for every sufficient fuel -/
theorem gen_div_eq (fuel : Nat) (a c : Int) (hf : a.natAbs < fuel) (hm : (fuel : Int) ≤ I32.MAX) :
    misc.div fuel a c = mapR (Option.map fun k : Nat => (k : Int)) (C06.div a c) := div_eq' fuel a c hf hm

/-- `misc::div_vec` (the sparse vector as the list of its entries in iteration order), for every fuel that suffices for
every entry: `filter_map(div).min()` is the model's fold — same value, same first panic / divergence -/
theorem gen_div_vec_eq (fuel : Nat) (v : List (Nat × Int)) (c : Int) (hf : ∀ x ∈ v, x.2.natAbs < fuel)
    (hm : (fuel : Int) ≤ I32.MAX) :
    misc.div_vec fuel v c = mapR (Option.map fun k : Nat => (k : Int)) (C06.divVec (v.map Prod.snd) c) := by
  unfold misc.div_vec C06.divVec
  have h := fold_eq fuel c hm v none hf
  simp only [Option.map_none, comb_none] at h
  rw [h]
  rfl

/-- `ss_invariant`: `let ss = 2 * d + w - r + 1` -/
theorem gen_ss_eq (d w r : Int) : ss.ss_invariant.ss d w r = C06.ss d w r := rfl

/-- `ssi_invariants`: `let ss0 = …; let ss1 = …` -/
theorem gen_ssi_eq (d0 d1 w r : Int) :
    (ssi.ssi_invariants.ss0 d0 w r, ssi.ssi_invariants.ss1 d1 w r) = C19.ssi d0 d1 w r := rfl

example : misc.div_vec 100 [(0, 24), (3, 0), (5, -20)] 2 = ok (some 2) := by
  rw [gen_div_vec_eq 100 _ 2 (by decide) (by decide)]; decide
example : misc.div 100 24 2 = ok (some 3) := by rw [gen_div_eq 100 24 2 (by decide) (by decide)]; decide
example : misc.div 100 24 0 = .panic := by rw [gen_div_eq 100 24 0 (by decide) (by decide)]; decide
example : misc.div 100 24 (-1) = .err := by rw [gen_div_eq 100 24 (-1) (by decide) (by decide)]; decide

end Yuiv.C06Gen
