import Yuiv.Proofs.C04Euler
import Yuiv.Proofs.C01SqEx
import Yuiv.Props.C04Inv
/-
C04Euler — THE EULER–POINCARÉ STEP of property C04: the (graded) Euler characteristic of the HOMOLOGY that the reference
`KhRef.khHomology` reports equals the (graded) Euler characteristic of the cube's CHAIN GROUPS, hence the model's
unnormalised Jones polynomial (`C04.chiChain = C04.jones`).  Property theorems only; proofs in `Proofs/C04Euler.lean` on top
of `Props/KhSpec`, `Props/KhSpec2` (what `khHomology` returns), `Proofs/C03Uct` (diagonal forms, `dim ker/im`),
`Proofs/C18BridgeCube` (`chainRank`, `chainRankH`) and `Props/C04`, `Props/C04Inv` (`chiChain = jones`).

(E1) ABSTRACT.  `altSum N f = Σ_{i ≤ N} (−1)^i f i`; `rIn r i = r (i − 1)` (`0` at `i = 0`).
   * `euler_poincare_arith`   : `r N = 0`, `r_{i−1} + r_i ≤ n_i`  ⟹  `Σ (−1)^i (n_i − r_{i−1} − r_i) = Σ (−1)^i n_i`
                                (the shape `|G_i| − nz dIn − nz dOut` of the cells in `KhSpec.khHomology_spec`);
   * `euler_poincare_rank`    : for matrices `D_i` over a field (rows = sources, as `KhSpec.dMat`) with `D_i · D_{i+1} = 0`
                                and `n_{N+1} = 0`, with `r_i = rank D_i` (the inequalities are rank–nullity);
   * `euler_poincare_finrank` : the same with `finrank (ker / im)` in the convention of
                                `KhSpec.khHomology_ranks_are_homology`.
(E2) THE REFERENCE.  Hypotheses exactly those of `KhSpec.khHomology_spec…`: `validK l`, at most 64 edge labels,
   `cubeOK (mkCube l p)`; `signs` is ANY array (it enters through `h0Of signs = −n₋`, `q0Of signs p = n₊ − 2n₋ (+1)`).
   Coefficients `k` with `CoeffOK k`: ℤ (the reported rank = rank of the free part, torsion does not contribute), ℚ, and
   `𝔽_q` for every `q ≥ 2`.  `cellRank cells i j` = the rank of the cell `(i, j)` of the returned list, `0` if absent.
   * `khHomology_euler_bigraded` (`h = t = 0`, unreduced): success; every cell is `(h0 + i, some q, _)` with `i ≤ n`; for
     every `j` and `i ≤ n` the rank read off at `(h0 + i, j)` is the rank of `homologyOf` of the slice `j`; and
     `Σ_i (−1)^i rank H^{h0+i, j} = Σ_i (−1)^i chainRank (h0 + i) j`.
   * `khHomology_cellRank_is_dim` : over ℚ and `𝔽_q` (`q` prime) that rank IS `finrank (ker / im)` of the slice.
   * `chiChain_coeff_chainRank`   : the coefficient of `q^j` in `C04.chiChain` is `(−1)^{n₋} Σ_i (−1)^i chainRank (h0+i) j`.
   * `khHomology_chi_eq_jones`    : `chiHom cells` — the coefficient list `Σ (−1)^i q^j rank H^{i,j}` built from the returned
     cells — is LITERALLY `C04.jones l signs` (and `C04.chiChain l signs`).
   * `jones_coeff_eq_euler`       : coefficientwise form of the same.
   * `khHomology_euler_unbigraded` (any `h, t`, unreduced), `khHomology_euler_reduced` (`t = 0`),
     `khHomology_euler_reduced_bigraded` (`h = t = 0`): total / slicewise Euler characteristic of the reported homology =
     that of the chain groups `chainRankH` / `chainRank` of `mkCube l p`.
NOT proved here (the differential run's job): that the LIBRARY's `KhComplexBigraded::homology()` equals the reference's
cells, and that the library's `jones_polynomial` equals the model `C04.jones` — both are compared on every harness case.
-/
namespace Yuiv.C04Euler
open Yuiv Yuiv.KhRef Matrix Yuiv.KhSnf Yuiv.C03Uct Yuiv.C03 Yuiv.KhSpec Module
open Yuiv.C02Mirror (cubeOK)
open Yuiv.C18Bridge (chainRank chainRankH)

/-! ### (E1) abstract Euler–Poincaré -/

/-- EULER–POINCARÉ, arithmetic form (the shape of the cells in `KhSpec`): if the last outgoing rank vanishes and
`r_{i−1} + r_i ≤ n_i`, then `Σ_{i ≤ N} (−1)^i (n_i − r_{i−1} − r_i) = Σ_{i ≤ N} (−1)^i n_i` -/
theorem euler_poincare_arith (N : Nat) (n r : Nat → Nat) (hr : r N = 0) (hle : ∀ i, i ≤ N → rIn r i + r i ≤ n i) :
    altSum N (fun i => ((n i - rIn r i - r i : Nat) : Int)) = altSum N (fun i => (n i : Int)) :=
  euler_telescope N n r hr hle

/-- the trefoil over ℚ: `|G_i| = 8, 12, 6, 4`, ranks of the differentials `7, 4, 2`; both sides are `−2` -/
example : altSum 3 (fun i => (([8, 12, 6, 4].getD i 0 - rIn (fun i => [7, 4, 2, 0].getD i 0) i - [7, 4, 2, 0].getD i 0 : Nat) : Int)) = -2 ∧
    altSum 3 (fun i => (([8, 12, 6, 4].getD i 0 : Nat) : Int)) = -2 ∧
    ∀ i, i ≤ 3 → rIn (fun i => [7, 4, 2, 0].getD i 0) i + [7, 4, 2, 0].getD i 0 ≤ [8, 12, 6, 4].getD i 0 := by
  refine ⟨by decide, by decide, ?_⟩
  intro i hi
  interval_cases i <;> decide

/-- EULER–POINCARÉ for a finite complex of matrices over a field `K^{n 0} → K^{n 1} → … → K^{n N} → 0`, `D i` the matrix of
the differential out of position `i` (rows = sources), `D i * D (i + 1) = 0` -/
theorem euler_poincare_rank {K : Type*} [Field K] (N : Nat) (n : Nat → Nat)
    (D : ∀ i, Matrix (Fin (n i)) (Fin (n (i + 1))) K) (hDD : ∀ i, D i * D (i + 1) = 0) (hN : n (N + 1) = 0) :
    altSum N (fun i => ((n i - rIn (fun i => (D i).rank) i - (D i).rank : Nat) : Int)) =
      altSum N (fun i => (n i : Int)) :=
  euler_poincare_matrices N n D hDD hN

/-- EULER–POINCARÉ: `Σ (−1)^i dim H_i = Σ (−1)^i dim C_i`, with `H_0 = ker (D 0)ᵀ`,
`H_{j+1} = ker (D (j+1))ᵀ / im (D j)ᵀ` (`hdim`; matrices acting on column vectors — the convention of
`KhSpec.khHomology_ranks_are_homology`) -/
theorem euler_poincare_finrank {K : Type*} [Field K] (N : Nat) (n : Nat → Nat)
    (D : ∀ i, Matrix (Fin (n i)) (Fin (n (i + 1))) K) (hDD : ∀ i, D i * D (i + 1) = 0) (hN : n (N + 1) = 0) :
    altSum N (fun i => (hdim n D i : Int)) = altSum N (fun i => (n i : Int)) ∧
    hdim n D 0 = finrank K (Homology (0 : Matrix (Fin (n 0)) (Fin 0) K) (D 0)ᵀ) ∧
    ∀ j, hdim n D (j + 1) = finrank K (Homology (D j)ᵀ (D (j + 1))ᵀ) :=
  ⟨euler_poincare_homology N n D hDD hN, rfl, fun _ => rfl⟩

/-- a two-step complex `ℚ² → ℚ² → 0` with `D 0 = [[1, 0], [0, 0]]` : `(2 − 0 − 1) − (2 − 1 − 0) = 2 − 2` -/
example : ∃ (n : Nat → Nat) (D : ∀ i, Matrix (Fin (n i)) (Fin (n (i + 1))) ℚ),
    (∀ i, D i * D (i + 1) = 0) ∧ n 2 = 0 ∧ n 0 = 2 ∧ D 0 ≠ 0 := by
  refine ⟨fun i => if i < 2 then 2 else 0, fun i => if h : i = 0 then Matrix.of (fun a b => if a.val = 0 ∧ b.val = 0 then 1 else 0) else 0, ?_, rfl, rfl, ?_⟩
  · intro i
    beta_reduce
    rw [dif_neg (Nat.succ_ne_zero i)]
    exact Matrix.mul_zero _
  · intro h
    have := congrFun (congrFun h ⟨0, by decide⟩) ⟨0, by decide⟩
    simp at this

/-! ### (E2) the reference computation -/

/-- the coefficient of `q^j` in the graded Euler characteristic `C04.chiChain` of the chain groups is the alternating sum of
the chain ranks `chainRank` (the ranks of the cube's chain groups in bidegree `(−n₋ + i, j)`, `Proofs/C18BridgeCube`) — for
ALL inputs -/
theorem chiChain_coeff_chainRank (l : Link) (signs : Array Int) (j : Int) :
    C04Inv.coeffAt (C04.chiChain l signs) j =
      sgn (h0Of signs) * altSum (crossingNum l) (fun i =>
        (chainRank l ⟨0, 0, false⟩ (nPosOf signs) (nNegOf signs) (h0Of signs + (i : Int)) j : Int)) :=
  coeffAt_chiChain_chainRank l signs j

/-- BIGRADED, `h = t = 0`, unreduced, coefficients ℤ / ℚ / `𝔽_q`: the computation succeeds; every returned cell is
`(h0 + i, some q, _)` with `i ≤ n`; the rank read off the cells at `(h0 + i, j)` (`0` if there is no cell) is the rank at
position `i` of `homologyOf` of the slice `j`; and for EVERY quantum degree `j`
`Σ_i (−1)^i rank H^{h0+i, j} = Σ_i (−1)^i rank C^{h0+i, j}` -/
theorem khHomology_euler_bigraded (l : Link) (hv : C06Cycle.validK l = true) (hL : (edgeLabels l).size ≤ 64)
    (p : Params) (hr : p.reduced = false) (hh : p.h = 0) (ht : p.t = 0) (hok : cubeOK (mkCube l p))
    (signs : Array Int) (k : Coeff) (hk : CoeffOK k) :
    ∃ res, khHomology l signs p k true = .ok res ∧
      (∀ a ∈ res.cells.toList, ∃ (i : Nat) (q : Int), i ≤ crossingNum l ∧ a.1 = h0Of signs + (i : Int) ∧ a.2.1 = some q) ∧
      ∀ j : Int,
        (∀ i : Nat, i ≤ crossingNum l → cellRank res.cells.toList (h0Of signs + (i : Int)) (some j) =
          ((homologyOf k (gensQ (mkCube l p) (q0Of signs p) (gensByWeight (mkCube l p)) j)
            (dTab (mkCube l p) p (gensByWeight (mkCube l p))))[i]!).rank) ∧
        altSum (crossingNum l) (fun i => (cellRank res.cells.toList (h0Of signs + (i : Int)) (some j) : Int)) =
          altSum (crossingNum l) (fun i =>
            (chainRank l p (nPosOf signs) (nNegOf signs) (h0Of signs + (i : Int)) j : Int)) := by
  have H := ctx_mkCube l hv hL p hr hok
  have F := fun q => fam_gensQ H hh ht (q0Of signs p) q
  obtain ⟨c1, c2, _⟩ := bigraded_core H (q0Of signs p) (h0Of signs) F k hk
  refine ⟨_, khHomology_ok_bigraded H hh ht signs k, ?_, fun j => ⟨fun i hi => c1 i hi j, ?_⟩⟩
  · intro a ha
    change a ∈ List.flatMap _ _ at ha
    rw [List.mem_flatMap] at ha
    obtain ⟨q, _, ha⟩ := ha
    obtain ⟨h1, i, hi, h2, _⟩ := mem_cellsUn _ _ _ a ha
    rw [homologyOf_size, (F q).size] at hi
    exact ⟨i, q, Nat.lt_succ_iff.mp hi, h2, h1⟩
  · refine (c2 j).trans (altSum_congr _ _ _ ?_)
    intro i _
    exact congrArg Nat.cast (size_gensQ l p (nPosOf signs) (nNegOf signs) i j)

/-- … and over ℚ and `𝔽_q` (`q` prime) the rank read off the cells IS the dimension of `ker / im` of the slice of the complex
tensored with the field: position `i + 1` is the homology of `K^{G_i} --(dMat i)ᵀ--> K^{G_{i+1}} --(dMat (i+1))ᵀ--> K^{G_{i+2}}`
(`G` the generators of quantum degree `j`) -/
theorem khHomology_cellRank_is_dim (l : Link) (hv : C06Cycle.validK l = true) (hL : (edgeLabels l).size ≤ 64)
    (p : Params) (hr : p.reduced = false) (hh : p.h = 0) (ht : p.t = 0) (hok : cubeOK (mkCube l p))
    (signs : Array Int) (j : Int) (i : Nat) (hi : i < crossingNum l) :
    let c := mkCube l p
    let G := gensQ c (q0Of signs p) (gensByWeight c) j
    (∃ res, khHomology l signs p .Q true = .ok res ∧
      cellRank res.cells.toList (h0Of signs + ((i + 1 : Nat) : Int)) (some j) =
        finrank ℚ (Homology (toRat (dMat c p G i)ᵀ) (toRat (dMat c p G (i + 1))ᵀ))) ∧
    ∀ (q : ℕ) [Fact q.Prime], ∃ res, khHomology l signs p (.Fp q) true = .ok res ∧
      cellRank res.cells.toList (h0Of signs + ((i + 1 : Nat) : Int)) (some j) =
        finrank (ZMod q) (Homology (redMod q (dMat c p G i)ᵀ) (redMod q (dMat c p G (i + 1))ᵀ)) := by
  intro c G
  have H := ctx_mkCube l hv hL p hr hok
  have F := fun q => fam_gensQ H hh ht (q0Of signs p) q
  have hR := rowsOK_of_fam normalizeRow_rowOK (F j)
  have hd := rank_is_homology H (F j) hR i hi
  constructor
  · obtain ⟨c1, _, _⟩ := bigraded_core H (q0Of signs p) (h0Of signs) F .Q trivial
    exact ⟨_, khHomology_ok_bigraded H hh ht signs .Q, (c1 (i + 1) (Nat.succ_le_of_lt hi) j).trans hd.1⟩
  · intro q hq
    obtain ⟨c1, _, _⟩ := bigraded_core H (q0Of signs p) (h0Of signs) F (.Fp q) hq.out.two_le
    exact ⟨_, khHomology_ok_bigraded H hh ht signs (.Fp q), (c1 (i + 1) (Nat.succ_le_of_lt hi) j).trans (hd.2 q)⟩

open Yuiv.C04 Yuiv.C04Inv in
/-- PROPERTY C04 FOR THE REFERENCE: the graded Euler characteristic `Σ_{i,j} (−1)^i q^j rank H^{i,j}` of the homology that
`khHomology` reports for Khovanov homology proper (`h = t = 0`, unreduced; coefficients ℤ — free ranks —, ℚ or `𝔽_q`),
assembled from the returned cells as a coefficient list (`chiHom`), is LITERALLY the model's unnormalised Jones
polynomial `C04.jones l signs` (= `C04.chiChain l signs`) — for every valid diagram and every sign array -/
theorem khHomology_chi_eq_jones (l : Link) (hv : C06Cycle.validK l = true) (hL : (edgeLabels l).size ≤ 64)
    (hok : cubeOK (mkCube l ⟨0, 0, false⟩)) (signs : Array Int) (k : Coeff) (hk : CoeffOK k) :
    ∃ res, khHomology l signs ⟨0, 0, false⟩ k true = .ok res ∧
      chiHom res.cells.toList = jones l signs ∧ chiHom res.cells.toList = chiChain l signs := by
  have H := ctx_mkCube l hv hL ⟨0, 0, false⟩ rfl hok
  have F := fun q => fam_gensQ H rfl rfl (q0Of signs ⟨0, 0, false⟩) q
  obtain ⟨_, _, c3⟩ := bigraded_core H (q0Of signs ⟨0, 0, false⟩) (h0Of signs) F k hk
  have e : chiHom ((qsOf (mkCube l ⟨0, 0, false⟩) (q0Of signs ⟨0, 0, false⟩) (gensByWeight (mkCube l ⟨0, 0, false⟩))).toList.flatMap
      (fun q => cellsUn (h0Of signs) (some q)
        (homologyOf k (gensQ (mkCube l ⟨0, 0, false⟩) (q0Of signs ⟨0, 0, false⟩) (gensByWeight (mkCube l ⟨0, 0, false⟩)) q)
          (dTab (mkCube l ⟨0, 0, false⟩) ⟨0, 0, false⟩ (gensByWeight (mkCube l ⟨0, 0, false⟩)))))) = chiChain l signs := by
    apply canon_ext _ _ (canon_chiHom _) (canon_chiChain _ _)
    intro j
    rw [c3 j, coeffAt_chiChain_chainRank]
    congr 1
    apply altSum_congr
    intro i _
    exact congrArg Nat.cast (size_gensQ l ⟨0, 0, false⟩ (nPosOf signs) (nNegOf signs) i j)
  exact ⟨_, khHomology_ok_bigraded H rfl rfl signs k, e.trans (chiChain_eq_jones_literal l signs), e⟩

open Yuiv.C04 Yuiv.C04Inv in
/-- coefficientwise: for every quantum degree `j`, the coefficient of `q^j` in the model's unnormalised Jones polynomial is
`Σ_i (−1)^{h0 + i} rank H^{h0+i, j}`, the ranks read off the cells that `khHomology` returns (absent cells count `0`) -/
theorem jones_coeff_eq_euler (l : Link) (hv : C06Cycle.validK l = true) (hL : (edgeLabels l).size ≤ 64)
    (hok : cubeOK (mkCube l ⟨0, 0, false⟩)) (signs : Array Int) (k : Coeff) (hk : CoeffOK k) :
    ∃ res, khHomology l signs ⟨0, 0, false⟩ k true = .ok res ∧
      ∀ j : Int, coeffAt (jones l signs) j =
        ∑ i ∈ Finset.range (crossingNum l + 1),
          sgn (h0Of signs + (i : Int)) * (cellRank res.cells.toList (h0Of signs + (i : Int)) (some j) : Int) := by
  obtain ⟨res, h1, _, h3⟩ := khHomology_euler_bigraded l hv hL ⟨0, 0, false⟩ rfl rfl rfl hok signs k hk
  refine ⟨res, h1, fun j => ?_⟩
  rw [← chiChain_eq_jones_literal, coeffAt_chiChain_chainRank, sum_sgn, (h3 j).2]

/-- UNBIGRADED, any `(h, t)`, unreduced: the total Euler characteristic of the reported homology equals that of the chain
groups, `Σ_i (−1)^i rank H^{h0+i} = Σ_i (−1)^i rank C^{h0+i}` (`chainRankH` = number of generators of the cube in
homological degree `h0 + i`) -/
theorem khHomology_euler_unbigraded (l : Link) (hv : C06Cycle.validK l = true) (hL : (edgeLabels l).size ≤ 64)
    (p : Params) (hr : p.reduced = false) (hok : cubeOK (mkCube l p)) (signs : Array Int) (k : Coeff) (hk : CoeffOK k) :
    ∃ res, khHomology l signs p k false = .ok res ∧
      (∀ a ∈ res.cells.toList, ∃ i : Nat, i ≤ crossingNum l ∧ a.1 = h0Of signs + (i : Int) ∧ a.2.1 = none) ∧
      (∀ i : Nat, i ≤ crossingNum l → cellRank res.cells.toList (h0Of signs + (i : Int)) none =
        ((homologyOf k (gensByWeight (mkCube l p)) (dTab (mkCube l p) p (gensByWeight (mkCube l p))))[i]!).rank) ∧
      altSum (crossingNum l) (fun i => (cellRank res.cells.toList (h0Of signs + (i : Int)) none : Int)) =
        altSum (crossingNum l) (fun i => (chainRankH l p (nNegOf signs) (h0Of signs + (i : Int)) : Int)) := by
  have H := ctx_mkCube l hv hL p hr hok
  have F := fam_all H
  obtain ⟨c1, c2⟩ := unbigraded_core H (h0Of signs) F k hk
  refine ⟨_, khHomology_ok H signs k, ?_, c1, ?_⟩
  · intro a ha
    change a ∈ cellsUn _ _ _ at ha
    obtain ⟨h1, i, hi, h2, _⟩ := mem_cellsUn _ _ _ a ha
    rw [homologyOf_size, F.size] at hi
    exact ⟨i, Nat.lt_succ_iff.mp hi, h2, h1⟩
  · refine c2.trans (altSum_congr _ _ _ ?_)
    intro i _
    exact congrArg Nat.cast (size_gbw l p (nNegOf signs) i)

/-- REDUCED theory, `t = 0`, unbigraded (any `p.reduced`): the same, the chain groups being those of the reduced cube
`mkCube l p` -/
theorem khHomology_euler_reduced (l : Link) (hv : C06Cycle.validK l = true) (hL : (edgeLabels l).size ≤ 64)
    (p : Params) (ht : p.t = 0) (hok : cubeOK (mkCube l p)) (signs : Array Int) (k : Coeff) (hk : CoeffOK k) :
    ∃ res, khHomology l signs p k false = .ok res ∧
      altSum (crossingNum l) (fun i => (cellRank res.cells.toList (h0Of signs + (i : Int)) none : Int)) =
        altSum (crossingNum l) (fun i => (chainRankH l p (nNegOf signs) (h0Of signs + (i : Int)) : Int)) := by
  have H := ctx_cube0 l hv hL p hok
  have F := fam_reduced l hv hL p ht hok
  obtain ⟨_, c2⟩ := unbigraded_core H (h0Of signs) F k hk
  refine ⟨_, khHomology_ok_reduced l hv hL p ht hok signs k, ?_⟩
  refine c2.trans (altSum_congr _ _ _ ?_)
  intro i _
  exact congrArg Nat.cast (size_gbw l p (nNegOf signs) i)

/-- REDUCED theory, `h = t = 0`, bigraded (any `p.reduced`): for every quantum degree `j`,
`Σ_i (−1)^i rank H^{h0+i, j} = Σ_i (−1)^i chainRank (h0 + i) j` for the reduced cube (`q0 = n₊ − 2n₋ + 1`) -/
theorem khHomology_euler_reduced_bigraded (l : Link) (hv : C06Cycle.validK l = true) (hL : (edgeLabels l).size ≤ 64)
    (p : Params) (hh : p.h = 0) (ht : p.t = 0) (hok : cubeOK (mkCube l p)) (signs : Array Int) (k : Coeff)
    (hk : CoeffOK k) :
    ∃ res, khHomology l signs p k true = .ok res ∧
      ∀ j : Int,
        altSum (crossingNum l) (fun i => (cellRank res.cells.toList (h0Of signs + (i : Int)) (some j) : Int)) =
          altSum (crossingNum l) (fun i =>
            (chainRank l p (nPosOf signs) (nNegOf signs) (h0Of signs + (i : Int)) j : Int)) := by
  have H := ctx_cube0 l hv hL p hok
  have F := fun q => fam_reduced_gensQ l hv hL p hh ht hok (q0Of signs p) q
  obtain ⟨_, c2, _⟩ := bigraded_core H (q0Of signs p) (h0Of signs) F k hk
  refine ⟨_, khHomology_ok_reduced_bigraded l hv hL p hh ht hok signs k, fun j => ?_⟩
  refine (c2 j).trans (altSum_congr _ _ _ ?_)
  intro i _
  exact congrArg Nat.cast (size_gensQ l p (nPosOf signs) (nNegOf signs) i j)

/-! ### non-vacuity -/

open Yuiv.C02Mirror.Ex Yuiv.C01Sq.Ex Yuiv.C04Inv in
/-- the left-handed trefoil (signs `− − −`): the hypotheses hold, the computation succeeds over ℤ, ℚ and `𝔽_2`, and the graded
Euler characteristic of the returned cells is literally the `jones` list, which the kernel evaluates to
`−q⁻⁹ + q⁻⁵ + q⁻³ + q⁻¹`.  (`khHomology` itself — hash maps — is not evaluated by the kernel; `#eval` of `chiHom` of its
cells gives the same list.  The concrete ranks of this instance are in the example after `euler_poincare_arith`.) -/
example : ∀ k, k = Coeff.Z ∨ k = Coeff.Q ∨ k = Coeff.Fp 2 →
    ∃ res, khHomology trefoil #[-1, -1, -1] ⟨0, 0, false⟩ k true = .ok res ∧
      chiHom res.cells.toList = [(-9, -1), (-5, 1), (-3, 1), (-1, 1)] := by
  intro k hk
  have hk' : CoeffOK k := by
    rcases hk with rfl | rfl | rfl
    · trivial
    · trivial
    · exact Nat.le_refl 2
  obtain ⟨res, h1, h2, _⟩ := khHomology_chi_eq_jones trefoil valid_examples.1 trefoil_labels trefoil_ok #[-1, -1, -1] k hk'
  have e : C04.jones trefoil #[-1, -1, -1] = [(-9, -1), (-5, 1), (-3, 1), (-1, 1)] := by
    unfold C04.jones C04.circleCount
    rw [edgeLabels_trefoil]
    decide +kernel
  exact ⟨res, h1, h2.trans e⟩

/-- `CoeffOK` : ℤ, ℚ, `𝔽_2`, `𝔽_3` are covered -/
example : CoeffOK .Z ∧ CoeffOK .Q ∧ CoeffOK (.Fp 2) ∧ CoeffOK (.Fp 3) := ⟨trivial, trivial, Nat.le_refl 2, Nat.le_succ 2⟩

/-- `cellRank` and `chiHom` on a small cell list: ranks read off, absent cells count `0`, torsion does not contribute -/
example : cellRank [(-3, some (-9), ⟨1, #[]⟩), (-2, some (-7), ⟨0, #[2]⟩), (-2, some (-5), ⟨1, #[]⟩)] (-2) (some (-5)) = 1 ∧
    cellRank [(-3, some (-9), ⟨1, #[]⟩), (-2, some (-7), ⟨0, #[2]⟩), (-2, some (-5), ⟨1, #[]⟩)] (-1) (some (-5)) = 0 ∧
    chiHom [(-3, some (-9), ⟨1, #[]⟩), (-2, some (-7), ⟨0, #[2]⟩), (-2, some (-5), ⟨1, #[]⟩), (0, some (-3), ⟨1, #[]⟩),
      (0, some (-1), ⟨1, #[]⟩)] = [(-9, -1), (-5, 1), (-3, 1), (-1, 1)] := by
  decide

end Yuiv.C04Euler
