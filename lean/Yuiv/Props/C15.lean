import Yuiv.Proofs.C15
/-
C15 — Euclidean-domain operations: property theorems.
-/
namespace Yuiv.C15
open Yuiv

/-! ### integers: `/`, `%` (truncating), `div_round` -/

/-- `a = (a/b)·b + a%b` (Rust's truncating `/`, `%`) -/
theorem int_div_rem (a b : Int) : a = zDivT a b * b + zRemT a b := zdiv_rem a b

/-- the remainder is strictly smaller than the divisor in absolute value -/
theorem int_rem_lt (a b : Int) (hb : b ≠ 0) : |zRemT a b| < |b| := by
  have := zrem_lt a b hb
  rwa [iabs_eq_abs, iabs_eq_abs] at this

/-- `div_round` is exact for operands of any size: `2·|a − q·b| ≤ |b|` -/
theorem int_divRound_exact (a b : Int) (hb : b ≠ 0) : 2 * |a - zDivRoundT a b * b| ≤ |b| := by
  have := (zdivround_exact a b hb).1
  rwa [iabs_eq_abs, iabs_eq_abs] at this

/-- ties are rounded away from zero -/
theorem int_divRound_tie_away (a b : Int) (hb : b ≠ 0)
    (h : 2 * |a - zDivRoundT a b * b| = |b|) : |a| < |zDivRoundT a b * b| := by
  have := (zdivround_exact a b hb).2
  rw [iabs_eq_abs, iabs_eq_abs, iabs_eq_abs, iabs_eq_abs] at this
  exact this h

example : zDivRoundT 5 2 = 3 ∧ zDivRoundT (-5) 2 = -3 ∧ zDivRoundT 27021597764222979 3 = 9007199254740993 := by decide

end Yuiv.C15
