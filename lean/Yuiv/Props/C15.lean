import Yuiv.Proofs.C15Quad
import Yuiv.Proofs.C15Field
/-
C15 — Euclidean-domain operations: property theorems (about the code model `Yuiv/Model/C15.lean`).

* integers: `a = (a/b)·b + a%b`, `|a%b| < |b|`; `div_round` exact for operands of any size, ties away from zero;
* Z[i], Z[ω]: division identity and `N(a % b) < N(b)` (indeed `2N(r) ≤ N(b)` resp. `4N(r) ≤ 3N(b)`);
* the generic `EucRing::{gcd, gcdx, lcm}` + `Ring::normalized` of `euc_ring.rs`/`ring.rs`, for every type whose
  operations satisfy `LawfulEuc` (a commutative ring with Euclidean `/`, `%` and a normalising unit that is
  compatible with associates): termination, `gcd ∣ a`, `gcd ∣ b`, greatest, Bezout with the returned `s, t`,
  normalised on all paths (early returns included), independent of the argument order, `lcm·gcd ~ a·b`;
* `LawfulEuc` holds for the models of Z, Z[i] (4 units, quadrant table) and Z[ω] (6 units, sextant table);
* units: `is_unit a ↔ inv a ≠ none`, `inv a = some u → a·u = 1` for Z, Z[i], Z[ω], F_p (p = 2,3,5,7);
* F_p (p = 2,3,5,7): all of the above by exhaustive evaluation of the model.
* Q (canonical fractions): units, inverse, normalisation, gcd.
Division identity, Bezout, lcm for Q and everything for F_p with an arbitrary prime p: Props/C15Fields.lean;
F[x] and homogeneous polynomials: Props/C15Poly.lean (see props/C15.json for what remains).
-/
namespace Yuiv.C15
open Yuiv

/-! ### integers: `/`, `%` (truncating), `div_round` -/

/-- `a = (a/b)·b + a%b` (Rust's truncating `/`, `%`) -/
theorem int_div_rem (a b : Int) : a = zDivT a b * b + zRemT a b := zdiv_rem a b

/-- the remainder is strictly smaller than the divisor in absolute value -/
theorem int_rem_lt (a b : Int) (hb : b ≠ 0) : |zRemT a b| < |b| := by
  have := zrem_lt a b hb
  rwa [iabs_eq_abs, iabs_eq_abs] at this

/-- `div_round` is exact for operands of any size: `2·|a − q·b| ≤ |b|` -/
theorem int_divRound_exact (a b : Int) (hb : b ≠ 0) : 2 * |a - zDivRoundT a b * b| ≤ |b| := by
  have := (zdivround_exact a b hb).1
  rwa [iabs_eq_abs, iabs_eq_abs] at this

/-- ties are rounded away from zero -/
theorem int_divRound_tie_away (a b : Int) (hb : b ≠ 0)
    (h : 2 * |a - zDivRoundT a b * b| = |b|) : |a| < |zDivRoundT a b * b| := by
  have := (zdivround_exact a b hb).2
  rw [iabs_eq_abs, iabs_eq_abs, iabs_eq_abs, iabs_eq_abs] at this
  exact this h

example : zDivRoundT 5 2 = 3 ∧ zDivRoundT (-5) 2 = -3 ∧ zDivRoundT 27021597764222979 3 = 9007199254740993 := by decide

/-- the Rust-level operators panic exactly on a zero divisor -/
theorem int_ops_panic_iff (a b : Int) :
    (zDiv a b = .panic ↔ b = 0) ∧ (zRem a b = .panic ↔ b = 0) ∧ (zDivRound a b = .panic ↔ b = 0) := by
  unfold zDiv zRem zDivRound
  refine ⟨?_, ?_, ?_⟩ <;> (split <;> simp_all)

/-- Z: `is_unit a ↔ inv a ≠ none`, `inv a = some u → a·u = 1`, and `is_unit` is invertibility in ℤ -/
theorem int_units (a : Int) :
    (zIsUnit a = true ↔ zInv a ≠ none) ∧ (∀ u, zInv a = some u → a * u = 1) ∧ (zIsUnit a = true ↔ IsUnit a) :=
  int_units' a

/-- the model of the integer operations satisfies the assumptions of the generic theorems
(so `normalized` is idempotent / constant on associates, the normalising unit `±1` is a unit, …) -/
theorem int_lawful : LawfulEuc (α := Int) intOps := int_lawful'

/-! ### Gaussian integers -/

/-- `a = (a/b)·b + a%b` in Z[i] -/
theorem gauss_div_rem (x y : QInt) : x = QInt.add (QInt.gMul (QInt.gDiv x y) y) (QInt.gRem x y) := QInt.g_div_rem x y

/-- `2·N(a % b) ≤ N(b)` -/
theorem gauss_rem_bound (x y : QInt) (hy : y ≠ QInt.zero) : 2 * QInt.gNorm (QInt.gRem x y) ≤ QInt.gNorm y :=
  QInt.g_rem_bound x y hy

/-- the remainder has strictly smaller norm -/
theorem gauss_rem_lt (x y : QInt) (hy : y ≠ QInt.zero) : QInt.gNorm (QInt.gRem x y) < QInt.gNorm y := by
  have := QInt.g_rem_bound x y hy
  have := QInt.gNorm_pos y hy
  have := GInt.norm_nonneg (QInt.gRem x y)
  omega

/-- `is_unit a ↔ inv a ≠ none`, `inv a = some u → a·u = 1` -/
theorem gauss_units (x : QInt) :
    (QInt.gIsUnit x = true ↔ QInt.gInv x ≠ none) ∧ (∀ u, QInt.gInv x = some u → QInt.gMul x u = QInt.one) :=
  QInt.g_units x

/-- `is_unit` is invertibility in the ring Z[i]; there are exactly four units -/
theorem gauss_isUnit_iff (x : GInt) : QInt.gIsUnit x = true ↔ IsUnit x := by
  constructor
  · intro h
    refine GInt.isUnit_of_norm_one x ?_
    have := (int_units' (QInt.gNorm x)).2.2.1 h
    rcases Int.isUnit_iff.1 this with h1 | h1
    · exact h1
    · have := GInt.norm_nonneg x; omega
  · intro h
    have := GInt.norm_one_of_isUnit x h
    unfold QInt.gIsUnit; rw [this]; rfl

/-- Z[i] with `gaussOps` is a lawful Euclidean structure: ring operations, Euclidean division, the quadrant
table gives a unit, and `normalizing_unit (a·u)·u = normalizing_unit a` for each of the four units -/
theorem gauss_lawful : LawfulEuc (α := GInt) gaussOps := GInt.lawful

/-! ### Eisenstein integers -/

theorem eisen_div_rem (x y : QInt) : x = QInt.add (QInt.eMul (QInt.eDiv x y) y) (QInt.eRem x y) := QInt.e_div_rem x y

/-- `4·N(a % b) ≤ 3·N(b)` -/
theorem eisen_rem_bound (x y : QInt) (hy : y ≠ QInt.zero) : 4 * QInt.eNorm (QInt.eRem x y) ≤ 3 * QInt.eNorm y :=
  QInt.e_rem_bound x y hy

theorem eisen_rem_lt (x y : QInt) (hy : y ≠ QInt.zero) : QInt.eNorm (QInt.eRem x y) < QInt.eNorm y := by
  have := QInt.e_rem_bound x y hy
  have := QInt.eNorm_pos y hy
  have := EInt.norm_nonneg (QInt.eRem x y)
  omega

theorem eisen_units (x : QInt) :
    (QInt.eIsUnit x = true ↔ QInt.eInv x ≠ none) ∧ (∀ u, QInt.eInv x = some u → QInt.eMul x u = QInt.one) :=
  QInt.e_units x

theorem eisen_isUnit_iff (x : EInt) : QInt.eIsUnit x = true ↔ IsUnit x := by
  constructor
  · intro h
    refine EInt.isUnit_of_norm_one x ?_
    have := (int_units' (QInt.eNorm x)).2.2.1 h
    rcases Int.isUnit_iff.1 this with h1 | h1
    · exact h1
    · have := EInt.norm_nonneg x; omega
  · intro h
    have := EInt.norm_one_of_isUnit x h
    unfold QInt.eIsUnit; rw [this]; rfl

/-- Z[ω] with `eisenOps` is a lawful Euclidean structure (six units, sextant table) -/
theorem eisen_lawful : LawfulEuc (α := EInt) eisenOps := EInt.lawful

/-! ### the generic code of `euc_ring.rs` / `ring.rs` over any lawful structure -/

section generic
variable {α : Type} [CommRing α] {E : EucOps α} (L : LawfulEuc E)
include L

/-- `gcd` terminates (the fuel `norm y + 1` is never exhausted) and never panics; its result divides both
arguments, is divisible by every common divisor, and is normalised — on all paths incl. the early returns -/
theorem gcd_total (x y : α) :
    ∃ d, E.gcd x y = .ok d ∧ d ∣ x ∧ d ∣ y ∧ (∀ c, c ∣ x → c ∣ y → c ∣ d) ∧ E.normalized d = d := by
  obtain ⟨d, h, hc, hn⟩ := L.gcd_spec x y
  exact ⟨d, h, ((hc d).1 dvd_rfl).1, ((hc d).1 dvd_rfl).2, fun c h1 h2 => (hc c).2 ⟨h1, h2⟩, hn⟩

/-- `gcdx` returns `(d, s, t)` with `s·x + t·y = d` and `d` is what `gcd` returns -/
theorem gcdx_bezout (x y : α) :
    ∃ d s t, E.gcdx x y = .ok (d, s, t) ∧ s * x + t * y = d ∧ E.gcd x y = .ok d := L.gcdx_spec x y

/-- the gcd does not depend on the order of the arguments -/
theorem gcd_symm [IsDomain α] (x y d d' : α) (h : E.gcd x y = .ok d) (h' : E.gcd y x = .ok d') : d = d' :=
  L.gcd_comm x y d d' h h'

/-- `lcm·gcd` is an associate of `x·y` and the lcm is normalised (`x`, `y` not both zero) -/
theorem lcm_gcd_assoc (x y : α) (hxy : ¬(x = 0 ∧ y = 0)) :
    ∃ l g, E.lcm x y = .ok l ∧ E.gcd x y = .ok g ∧ Associated (l * g) (x * y) ∧ E.normalized l = l :=
  L.lcm_spec x y hxy

/-- `lcm(0,0)` panics (division by the gcd `0`) -/
theorem lcm_zero_zero_panics : E.lcm 0 0 = .panic := L.lcm_zero_zero

/-- multiplying by the normalising unit is idempotent -/
theorem normalized_idempotent (x : α) : E.normalized (E.normalized x) = E.normalized x := L.normalized_idem x

/-- … and constant on associates -/
theorem normalized_const_on_associates (x u : α) (hu : IsUnit u) : E.normalized (x * u) = E.normalized x :=
  L.normalized_assoc x u hu

/-- `normalized x` is `x` times a unit -/
theorem normalized_is_associate (x : α) : E.normalized x = x * E.normUnit x ∧ IsUnit (E.normUnit x) :=
  ⟨L.normalized_eq x, L.normUnit_isUnit x⟩

/-- `divides` is sound -/
theorem divides_sound (x y : α) (h : E.divides x y = true) : x ≠ 0 ∧ x ∣ y := L.divides_imp x y h

end generic

/-- the hypotheses of the generic theorems are satisfiable: e.g. in Z[i], `gcd(-2, 4)` — the witness of the
un-normalised early return (F4) — is `2` -/
example : gaussOps.gcd ⟨-2, 0⟩ ⟨4, 0⟩ = .ok ⟨2, 0⟩ ∧ gaussOps.gcdx ⟨11, 3⟩ ⟨1, 8⟩ = .ok (⟨2, 1⟩, ⟨1, 2⟩, ⟨-3, 0⟩) := by
  decide +kernel

/-! ### Q (canonical fractions `num/den`, `den > 0`, lowest terms — the form `Ratio::new` produces) -/

/-- the constructor and the product produce canonical fractions -/
theorem rat_canonical (n d : Int) (hd : d ≠ 0) (x u : Q) (hx : Q.WF x) (hu : Q.WF u) :
    Q.WF (Q.make n d) ∧ Q.WF (Q.mul x u) := ⟨Q.make_wf n d hd, Q.mul_wf x u hx hu⟩

/-- `is_unit a ↔ inv a ≠ none`, `inv a = some u → a·u = 1` -/
theorem rat_units (x : Q) (hx : Q.WF x) :
    (Q.isUnit x = true ↔ Q.inv x ≠ none) ∧ (∀ u, Q.inv x = some u → Q.mul x u = Q.one) :=
  ⟨Q.isUnit_iff x, Q.inv_mul x hx⟩

/-- normalisation maps every non-zero element to `1`; hence idempotent and constant on associates -/
theorem rat_normalized (x u : Q) (hx : Q.WF x) (hu : Q.WF u) (hu0 : u.num ≠ 0) :
    ratOps.normalized x = (if x.num = 0 then x else Q.one) ∧
    ratOps.normalized (ratOps.normalized x) = ratOps.normalized x ∧
    ratOps.normalized (ratOps.mul x u) = ratOps.normalized x :=
  ⟨Q.normalized_eq x hx, Q.normalized_idem x hx, Q.normalized_assoc x u hx hu hu0⟩

/-- over a field the generic `gcd` takes an early return; the result is the normalised `1` (after fix F4),
`0` only for `gcd(0,0)` -/
theorem rat_gcd (x y : Q) (hx : Q.WF x) (hy : Q.WF y) :
    ratOps.gcd x y = .ok (if x.num = 0 ∧ y.num = 0 then Q.zero else Q.one) := Q.gcd_eq x y hx hy

example : Q.WF (Q.make 4 (-6)) ∧ Q.make 4 (-6) = ⟨-2, 3⟩ ∧ ratOps.gcd ⟨2, 3⟩ ⟨5, 1⟩ = .ok ⟨1, 1⟩ := by
  refine ⟨Q.make_wf 4 (-6) (by decide), by decide, by decide⟩

/-! ### F_p, p = 2, 3, 5, 7 (exhaustive) -/

/-- F_p, p ∈ {2,3,5,7}: exhaustive -/
theorem ff_units_and_normalisation : ∀ p ∈ [2, 3, 5, 7], ∀ a < p,
    (((ffOps p).isUnit a = true ↔ (ffOps p).inv a ≠ none) ∧
     (∀ u, (ffOps p).inv a = some u → (ffOps p).mul a u = (ffOps p).one ∧ u < p) ∧
     (ffOps p).isUnit ((ffOps p).normUnit a) = true ∧
     (∀ u < p, u ≠ 0 → a ≠ 0 → (ffOps p).normalized ((ffOps p).mul a u) = (ffOps p).normalized a) ∧
     (ffOps p).normalized ((ffOps p).normalized a) = (ffOps p).normalized a) := by
  decide +kernel

/-- F_p, p ∈ {2,3,5,7}: gcd / gcdx / lcm / division on all pairs -/
theorem ff_euclid : ∀ p ∈ [2, 3, 5, 7], ∀ a < p, ∀ b < p,
    ((ffOps p).gcd a b = .ok (if a = 0 ∧ b = 0 then 0 else 1 % p)) ∧
    ((match (ffOps p).gcdx a b with
      | .ok (d, s, t) => decide ((s * a + t * b) % p = d ∧ (ffOps p).gcd a b = .ok d)
      | _ => false) = true) ∧
    (¬(a = 0 ∧ b = 0) → (match (ffOps p).lcm a b with
      | .ok l => decide (l = 0 ↔ a * b % p = 0)
      | _ => false) = true) ∧
    (b ≠ 0 → (ffOps p).add ((ffOps p).mul ((ffOps p).div a b) b) ((ffOps p).rem a b) = a) := by
  decide +kernel

end Yuiv.C15
