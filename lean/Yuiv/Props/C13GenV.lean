import Yuiv.Proofs.C13GenV
/-
C13 — the hand-written model of `SpVec` (`C13.SpVec.*` in `Yuiv/Model/C13.lean`; `Props/C13.lean` has its entry lemmas:
`from_sorted_entries_ok`, subvec / stack / split / permute entries, `mul_vec_entries`, …) IS the source text of
`/repo/yui-matrix/src/sparse/sp_vec.rs`.

`Yuiv.GenSpVec.*` (file `Yuiv/Gen/SpVecFn.lean`) is regenerated from the Rust source by `tools/rs2lean_fn.py fn:spvec` on
every `./check` run.  Every theorem is an unconditional equality generated = model, including all panics
(`assert_eq!(inner.ncols(), 1)`, `assert!(i < dim)`, `try_from_csc_data(..).unwrap()`, the push of `from_entries` outside
the shape, `PermView::at`, checked `usize` subtraction, `vec[i] = a` out of range).

Property theorems only; helpers are in `Yuiv/Proofs/C13GenV.lean`.
-/
set_option linter.unusedSimpArgs false
set_option linter.unusedSectionVars false
namespace Yuiv.C13GenV
open Yuiv Res Yuiv.Rust Yuiv.C13

variable {R : Type} [Zero R] [One R] [Add R] [Mul R] [Neg R] [DecidableEq R]

/-! ### the wrapper: `new`, `into_spvec`, `dim`, `iter`, `iter_nz`, `zero`, `unit` -/

theorem gen_new_eq (A : SpMat R) : GenSpVec.SpVec.new A = A.intoSpVec := by
  unfold GenSpVec.SpVec.new C13.SpMat.intoSpVec
  by_cases h : A.ncols = 1
  · simp [h, assert_true]; rfl
  · simp [h, assert_false]

theorem gen_into_spvec_eq (A : SpMat R) : GenSpVec.SpMat.into_spvec A = A.intoSpVec := by
  unfold GenSpVec.SpMat.into_spvec
  rw [gen_new_eq]
  unfold C13.SpMat.intoSpVec
  by_cases h : A.ncols = 1
  · simp [h, assert_true]
  · simp [h, assert_false]

theorem gen_dim_eq (v : SpVec R) : GenSpVec.SpVec.dim v = v.dim := rfl
theorem gen_iter_eq (v : SpVec R) : GenSpVec.SpVec.iter v = v.ents := iter_eq v
theorem gen_iter_nz_eq (v : SpVec R) : GenSpVec.SpVec.iter_nz v = v.ents.filter (fun p => p.2 ≠ 0) := iter_nz_eq v

theorem gen_zero_eq (d : Nat) : GenSpVec.SpVec.zero (R := R) d = ok (SpVec.zero d) := by
  unfold GenSpVec.SpVec.zero
  rw [gen_new_eq]
  rfl

theorem gen_unit_eq (n i : Nat) : GenSpVec.SpVec.unit (R := R) n i = SpVec.unit n i := by
  unfold GenSpVec.SpVec.unit C13.SpVec.unit
  rw [try_unwrap]
  refine bind_congr' _ (fun A => ?_)
  exact gen_new_eq A

/-! ### constructors -/

theorem gen_from_entries_eq (d : Nat) (es : List (Nat × R)) :
    GenSpVec.SpVec.from_entries d es = SpVec.fromEntries d es := by
  unfold GenSpVec.SpVec.from_entries C13.SpVec.fromEntries
  have hc : GenSpVec.SpVec.from_entries_closure1 (R := R) = fun p => (p.1, 0, p.2) := by funext p; rfl
  rw [hc]
  refine bind_congr' _ (fun A => ?_)
  exact gen_into_spvec_eq A

theorem gen_from_raw_data_eq (d : Nat) (rows : List Nat) (vals : List R) :
    GenSpVec.SpVec.from_raw_data d rows vals = SpVec.fromRawData d rows vals := by
  unfold GenSpVec.SpVec.from_raw_data C13.SpVec.fromRawData
  simp only [try_unwrap]
  refine bind_congr' _ (fun A => ?_)
  exact gen_into_spvec_eq A

theorem gen_from_sorted_entries_eq (d : Nat) (es : List (Nat × R)) :
    GenSpVec.SpVec.from_sorted_entries d es = SpVec.fromSortedEntries d es := by
  unfold GenSpVec.SpVec.from_sorted_entries C13.SpVec.fromSortedEntries
  show (List.foldlM (GenSpVec.SpVec.from_sorted_entries_closure1 (R := R) d) ([], []) es >>= _) = _
  rw [sorted_fold]
  cases hall : es.all (fun p => decide (p.1 < d))
  · simp [assert_false]
  · simp only [if_true, bind_ok, assert_true, List.nil_append]
    exact gen_from_raw_data_eq d _ _

theorem gen_stack_vecs_eq (vs : List (SpVec R)) : GenSpVec.SpVec.stack_vecs vs = SpVec.stackVecs vs := by
  unfold GenSpVec.SpVec.stack_vecs C13.SpVec.stackVecs
  have hc : GenSpVec.SpVec.stack_vecs_closure1 (R := R) = fun (acc : Nat × List Nat × List R) v =>
      (acc.1 + v.dim, acc.2.1 ++ v.ents.map (fun p => p.1 + acc.1), acc.2.2 ++ v.ents.map (·.2)) := by
    funext acc v
    unfold GenSpVec.SpVec.stack_vecs_closure1
    simp [Sp.disassemble, Sp.vec_inner, C13.SpVec.toMat, C13.SpMat.disassemble, GenSpVec.SpVec.dim]
    intro a b _
    rfl
  simp only [hc]
  exact gen_from_raw_data_eq _ _ _

theorem gen_from_vec_eq (l : List R) : GenSpVec.SpVec.From_Vec_R.from_ l = SpVec.ofDense l := by
  unfold GenSpVec.SpVec.From_Vec_R.from_ C13.SpVec.ofDense
  rw [gen_from_entries_eq, Sp.enumerate, enum_zip]

/-! ### `extract` and its clients, `stack`, `split`, `to_dense`, `SpMat * SpVec` -/

theorem gen_extract_eq (v : SpVec R) (d : Nat) (f : Nat → Res (Option Nat)) :
    GenSpVec.SpVec.extract v d f = v.extract d f := by
  unfold GenSpVec.SpVec.extract C13.SpVec.extract
  rw [iter_eq, extract_map]
  refine bind_congr' _ (fun es => ?_)
  exact gen_from_entries_eq d es

theorem gen_permute_eq (v : SpVec R) (p : Perm) : GenSpVec.SpVec.permute v p = v.permute p := by
  unfold GenSpVec.SpVec.permute C13.SpVec.permute
  rw [gen_extract_eq]
  rfl

theorem gen_subvec_eq (v : SpVec R) (a b : Nat) : GenSpVec.SpVec.subvec v (a, b) = v.subvec a b := by
  unfold GenSpVec.SpVec.subvec C13.SpVec.subvec
  by_cases h : a ≤ b
  · simp only [U64.sub, h, if_true, bind_ok, decide_true, assert_true, gen_extract_eq]
    congr 1
    funext i
    unfold GenSpVec.SpVec.subvec_closure1 Sp.range_contains
    by_cases hc : (decide (a ≤ i) && decide (i < b)) = true
    · have hi : a ≤ i := by simp at hc; exact hc.1
      simp only [hc, if_true]
      simp only [U64.sub, hi, if_true, bind_ok, pure_eq_ok]
    · simp only [hc, if_false, pure_eq_ok]; rfl
  · simp [U64.sub, h, assert_false]

theorem gen_stack_eq (v w : SpVec R) : GenSpVec.SpVec.stack v w = v.stack w := by
  unfold GenSpVec.SpVec.stack C13.SpVec.stack
  rw [gen_from_entries_eq, iter_nz_eq, iter_nz_eq]
  have h1 : GenSpVec.SpVec.stack_closure1 (R := R) = id := by funext p; rfl
  have h2 : GenSpVec.SpVec.stack_closure2 (R := R) (GenSpVec.SpVec.dim v) = fun p => (v.dim + p.1, p.2) := by funext p; rfl
  rw [h1, h2, List.map_id]
  rfl

theorem gen_split_eq (v : SpVec R) (k : Nat) : GenSpVec.SpVec.split v k = v.split k := by
  unfold GenSpVec.SpVec.split C13.SpVec.split
  by_cases h : k ≤ v.dim
  · have h' : k ≤ GenSpVec.SpVec.dim v := h
    simp only [h, h', decide_true, assert_true, bind_ok, iter_eq, split_loop, List.nil_append, gen_from_entries_eq,
      U64.sub, if_true, gen_dim_eq]
  · have h' : ¬ k ≤ GenSpVec.SpVec.dim v := h
    simp [h, h', assert_false]

theorem gen_to_dense_eq (v : SpVec R) : GenSpVec.SpVec.to_dense v = v.toDense := by
  unfold GenSpVec.SpVec.to_dense C13.SpVec.toDense
  rw [iter_nz_eq, to_dense_loop]
  rfl

/-- `&SpMat * &SpVec` -/
theorem gen_mul_vec_eq (A : SpMat R) (v : SpVec R) : GenSpVec.SpMat.Mul_SpVec_R_ref.mul A v = A.mulVec v := by
  unfold GenSpVec.SpMat.Mul_SpVec_R_ref.mul C13.SpMat.mulVec
  refine bind_congr' _ (fun C => ?_)
  exact gen_new_eq C

end Yuiv.C13GenV
