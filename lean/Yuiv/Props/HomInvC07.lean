import Yuiv.Props.HomInv
import Yuiv.Props.C07Full
/-
C07 / C08 — the REPORTED homology invariants are isomorphism invariants of the homology module (property theorems only).

`Props/C07Full.lean` proves that the code model of `HomologyCalc::calculate` (on the code model of the library's SNF)
returns `(rank, tors, P, Q)` satisfying `HomologySpec`.  Here:

* `homologySpec_presents`: every answer satisfying `HomologySpec` PRESENTS the homology module
  `HZ d1 d2 = ker d2 / im d1` (a Mathlib quotient of submodules of `Fin n → ℤ`; definitionally the `HMat` / `Hn` of
  `Props/C08Hom.lean`) as `ℤ^rank × ∏_u ℤ/tors[u]`, written `∏_{i < rank + s} ZMod (c i)` with `c i = 0` on the free
  coordinates — the iso is induced by `z ↦ P·z`;
* `reported_invariants_iso_invariant`: if the homology modules of `(d1, d2)` and `(d1', d2')` are isomorphic (as abelian
  groups), the code model reports THE SAME `(rank, tors)` for both (`Proofs/HomInv.lean`: `#Hom(H, ℤ/q)` is an
  isomorphism invariant and determines rank and torsion orders).
-/
namespace Yuiv.C07
open Matrix Yuiv Yuiv.SnfUnique Yuiv.HomInv Finset

/-- **an answer satisfying `HomologySpec` presents the homology module**: `ker d2 / im d1 ≃ₗ[ℤ] ∏_i ZMod (c i)`,
`c = (0, …, 0, tors[0], tors[1], …)` (`rank` zeros), i.e. `ℤ^rank × ∏_u ℤ/tors[u]` -/
theorem homologySpec_presents (d1 d2 : Mat) (n m k rank : Nat) (tors : List Int) (P Q : Mat)
    (h : HomologySpec d1 d2 n m k rank tors P Q) :
    Nonempty (HZ (d1.toM n m) (d2.toM k n) ≃ₗ[ℤ]
      (∀ i : Fin (rank + tors.length), ZMod (coordOrder rank tors i.val))) := by
  refine HZ_present (d1.toM n m) (d2.toM k n) (fun i => coordOrder rank tors i.val)
    (P.toM (rank + tors.length) n) (Q.toM n (rank + tors.length)) h.pq h.cycles ?_ ?_
  · intro x i
    exact (coordOrder_dvd rank tors i.val _).2 (h.bdry x i)
  · intro z hz hdiv
    exact h.complete z hz (fun i => (coordOrder_dvd rank tors i.val _).1 (hdiv i))

/-- the counting function of the homology module in terms of the reported invariants:
`#Hom(H, ℤ/q) = q^rank · ∏_u #{y ∈ ℤ/q | tors[u]·y = 0}` (`= q^rank · ∏ gcd(tors[u], q)`) -/
theorem homCount_of_homologySpec (d1 d2 : Mat) (n m k rank : Nat) (tors : List Int) (P Q : Mat)
    (h : HomologySpec d1 d2 n m k rank tors P Q) (q : ℕ) [NeZero q] :
    homCount (HZ (d1.toM n m) (d2.toM k n)) q = q ^ rank * ∏ u ∈ range tors.length, cz (tors.getD u 0) q := by
  obtain ⟨e⟩ := homologySpec_presents d1 d2 n m k rank tors P Q h
  rw [homCount_congr e.toAddEquiv q, homCount_pi_zmod,
    Fin.prod_univ_eq_prod_range (fun i => cz ((coordOrder rank tors i : ℕ) : ℤ) q), Finset.prod_range_add]
  congr 1
  · rw [Finset.prod_congr rfl (g := fun _ => q) (fun i hi => by
      unfold coordOrder; rw [if_pos (Finset.mem_range.1 hi), Nat.cast_zero, cz_zero]),
      Finset.prod_const, Finset.card_range]
  · apply Finset.prod_congr rfl
    intro u _
    unfold coordOrder
    rw [if_neg (by omega), show rank + u - rank = u by omega]
    exact cz_natAbs _ _ q (Int.natAbs_natCast _)

/-- `(rank, tors)` of a `HomologySpec` answer are determined by the isomorphism type of the homology module -/
theorem homologySpec_invariants_unique (d1 d2 d1' d2' : Mat) (n m k n' m' k' rank rank' : Nat) (tors tors' : List Int)
    (P Q P' Q' : Mat) (h : HomologySpec d1 d2 n m k rank tors P Q)
    (h' : HomologySpec d1' d2' n' m' k' rank' tors' P' Q')
    (e : HZ (d1.toM n m) (d2.toM k n) ≃+ HZ (d1'.toM n' m') (d2'.toM k' n')) :
    rank = rank' ∧ tors = tors' := by
  have hgt : ∀ (tors : List Int), (∀ x ∈ tors, 1 < x) → ∀ u, u < tors.length → 1 < (tors.getD u 0).natAbs := by
    intro tors ht u hu
    rw [getD_lt _ _ hu]
    have := ht _ (List.getElem_mem hu)
    omega
  have hch : ∀ (tors : List Int), tors.Pairwise (· ∣ ·) → ∀ u, u + 1 < tors.length →
      tors.getD u 0 ∣ tors.getD (u + 1) 0 := by
    intro tors ht u hu
    rw [getD_lt _ _ hu, getD_lt _ _ (by omega)]
    exact List.pairwise_iff_getElem.1 ht u (u + 1) (by omega) hu (by omega)
  obtain ⟨hr, hs, ht⟩ := rank_tors_unique_core rank tors.length rank' tors'.length (fun u => tors.getD u 0)
    (fun u => tors'.getD u 0) (hgt tors h.tors_gt) (hgt tors' h'.tors_gt) (hch tors h.tors_chain)
    (hch tors' h'.tors_chain) (by
      intro q hq
      have : NeZero q := ⟨by omega⟩
      rw [← homCount_of_homologySpec d1 d2 n m k rank tors P Q h q,
        ← homCount_of_homologySpec d1' d2' n' m' k' rank' tors' P' Q' h' q]
      exact homCount_congr e q)
  refine ⟨hr, List.ext_getElem hs (fun i hi hi' => ?_)⟩
  have h1 := ht i hi
  simp only [getD_lt _ _ hi, getD_lt _ _ hi'] at h1
  have h2 := h.tors_gt _ (List.getElem_mem hi)
  have h3 := h'.tors_gt _ (List.getElem_mem hi')
  omega

/-- **reported_invariants_iso_invariant** (ℤ).  Let `d2·d1 = 0`, `d2'·d1' = 0`.  If the homology modules
`ker d2 / im d1` and `ker d2' / im d1'` are isomorphic as abelian groups (`≃+`; a `≃ₗ[ℤ]` gives one by `.toAddEquiv`), then
there are a fuel bound `N` and ONE pair `(rank, tors)` such that for every `fuel ≥ N` the code model of
`HomologyCalc::calculate` on the code model of the library's SNF returns `(rank, tors, _)` for `(d1, d2)` AND for
`(d1', d2')` — no panic, no fuel exhaustion.  So the printed rank and torsion list are isomorphism invariants of the
homology module; with `Props/C08Hom` (chain homotopy equivalences induce such isomorphisms) they are invariants of chain
reduction. -/
theorem reported_invariants_iso_invariant (d1 d2 d1' d2' : Mat) (hsh : d2.c = d1.r) (hsh' : d2'.c = d1'.r)
    (hdd : d2.toM d2.r d1.r * d1.toM d1.r d1.c = 0) (hdd' : d2'.toM d2'.r d1'.r * d1'.toM d1'.r d1'.c = 0)
    (e : HZ (d1.toM d1.r d1.c) (d2.toM d2.r d1.r) ≃+ HZ (d1'.toM d1'.r d1'.c) (d2'.toM d2'.r d1'.r)) :
    ∃ (N rank : Nat) (tors : List Int),
      (∀ fuel, N ≤ fuel → ∃ T, calculate (snfC09 fuel) d1 d2 true = .ok (rank, tors, some T)) ∧
      (∀ fuel, N ≤ fuel → ∃ T', calculate (snfC09 fuel) d1' d2' true = .ok (rank, tors, some T')) := by
  obtain ⟨N, _, _, rank, tors, T, P, Q, _, _, hc, _, _, _, _, _, _, hspec⟩ := calculate_end_to_end d1 d2 hsh hdd
  obtain ⟨N', _, _, rank', tors', T', P', Q', _, _, hc', _, _, _, _, _, _, hspec'⟩ :=
    calculate_end_to_end d1' d2' hsh' hdd'
  obtain ⟨hr, ht⟩ := homologySpec_invariants_unique d1 d2 d1' d2' _ _ _ _ _ _ rank rank' tors tors' P Q P' Q'
    hspec hspec' e
  subst hr; subst ht
  exact ⟨max N N', rank, tors, fun fuel hf => ⟨T, hc fuel (by omega)⟩, fun fuel hf => ⟨T', hc' fuel (by omega)⟩⟩

/-- non-vacuity: `d1 = [[2,0,0],[2,6,0],[0,0,0],[0,0,0]]`, `d2 = (0,0,0,1)` has `d2·d1 = 0` and the model reports
`(1, [2, 6])` (`H = ℤ ⊕ ℤ/2 ⊕ ℤ/6`, Props/C07Full.lean); the identity is an isomorphism of its homology module -/
example : Nonempty (HZ ((⟨4, 3, #[2, 0, 0, 2, 6, 0, 0, 0, 0, 0, 0, 0]⟩ : Mat).toM 4 3) ((⟨1, 4, #[0, 0, 0, 1]⟩ : Mat).toM 1 4)
    ≃+ HZ ((⟨4, 3, #[2, 0, 0, 2, 6, 0, 0, 0, 0, 0, 0, 0]⟩ : Mat).toM 4 3) ((⟨1, 4, #[0, 0, 0, 1]⟩ : Mat).toM 1 4)) :=
  ⟨AddEquiv.refl _⟩

end Yuiv.C07
