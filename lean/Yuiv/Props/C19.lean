import Yuiv.Proofs.C19
/-
C19 — the involutive Khovanov complex is the mapping cone of 1 + τ.

Proved: (1) over a commutative ring of characteristic 2 the cone differential D = [[d,0],[1+τ,d]]
(D(Bx) = B dx + Qx + Qτx, D(Qx) = Q dx, exactly the formula of `khi/complex.rs:from_kh_complex`) squares to zero
IF AND ONLY IF τ is a chain map; in characteristic ≠ 2 it does not even for τ = 1 (why the code asserts 1+1 = 0);
(2) the edge involution of `sinv_knot_from_code` is an involution of 1..n whose fixed labels are exactly 1 and n/2+1;
(3) arithmetic of the pair of invariants: s0 ≤ s1 ⇔ d0 ≤ d1 and s0 ≡ s1 (mod 2).
NOT proved: that τ is a chain map on the symmetric tangle complex the engine builds, and invariance — explored:
the library's complex is checked for D∘D = 0 and its homology is compared with the Lean cone reference.
-/
namespace Yuiv.C19
open Matrix

/-- (1) cone of 1+τ: D² = 0 ⇔ τ commutes with d, in characteristic 2 -/
theorem cone_d_sq {n : Nat} {R : Type} [CommRing R] [CharP R 2]
    (d τ : Matrix (Fin n) (Fin n) R) (hd : d * d = 0) :
    (fromBlocks d 0 (1 + τ) d) * (fromBlocks d 0 (1 + τ) d) = (0 : Matrix (Fin n ⊕ Fin n) (Fin n ⊕ Fin n) R)
      ↔ τ * d = d * τ := by
  rw [Matrix.fromBlocks_multiply, ← Matrix.fromBlocks_zero, Matrix.fromBlocks_inj]
  have key : (1 + τ) * d + d * (1 + τ) = τ * d + d * τ := by
    rw [add_mul, mul_add, one_mul, mul_one]
    rw [add_add_add_comm, mat_add_self, zero_add]
  rw [key]
  simp only [hd, zero_mul, mul_zero, add_zero, true_and, and_true]
  exact mat_add_eq_zero _ _

/-- (1') in characteristic 0 the same formula is not a differential, already for τ = 1 -/
theorem cone_d_sq_fails_char0 :
    let d : Matrix (Fin 2) (Fin 2) Int := !![0, 1; 0, 0]
    d * d = 0 ∧ (1 : Matrix (Fin 2) (Fin 2) Int) * d = d * 1 ∧
    (fromBlocks d 0 (1 + 1) d) * (fromBlocks d 0 (1 + 1) d) ≠ (0 : Matrix (Fin 2 ⊕ Fin 2) (Fin 2 ⊕ Fin 2) Int) := by
  intro d
  refine ⟨by decide, by decide, ?_⟩
  intro h
  have := congrFun (congrFun h (Sum.inr 0)) (Sum.inl 1)
  revert this
  decide

/-- (2) the edge involution of `sinv_knot_from_code` -/
theorem sinvEMap_involutive (n e : Nat) (he1 : 1 ≤ e) (hen : e ≤ n) :
    1 ≤ sinvEMap n e ∧ sinvEMap n e ≤ n ∧ sinvEMap n (sinvEMap n e) = e := by
  unfold sinvEMap
  rcases Nat.eq_or_lt_of_le he1 with h | h
  · subst h
    simp [Nat.mod_self]; omega
  · have h1 : (n + 1 - e) % n = n + 1 - e := Nat.mod_eq_of_lt (by omega)
    rw [h1]
    have h2 : (n + 1 - (n + 1 - e + 1)) % n = n + 1 - (n + 1 - e + 1) := Nat.mod_eq_of_lt (by omega)
    rw [h2]; omega

theorem sinvEMap_fixed (m e : Nat) (hm : 1 ≤ m) (he1 : 1 ≤ e) (hen : e ≤ 2 * m) :
    sinvEMap (2 * m) e = e ↔ (e = 1 ∨ e = m + 1) := by
  unfold sinvEMap
  rcases Nat.eq_or_lt_of_le he1 with h | h
  · subst h
    simp [Nat.mod_self]
  · have h1 : (2 * m + 1 - e) % (2 * m) = 2 * m + 1 - e := Nat.mod_eq_of_lt (by omega)
    rw [h1]; omega

/-- (3) arithmetic of the invariant pair -/
theorem ssi_arith (d0 d1 w r : Int) :
    ((ssi d0 d1 w r).1 ≤ (ssi d0 d1 w r).2 ↔ d0 ≤ d1) ∧
    ((ssi d0 d1 w r).2 - (ssi d0 d1 w r).1) % 2 = 0 := by
  unfold ssi
  constructor <;> simp only <;> omega

end Yuiv.C19
