import Yuiv.Proofs.C18InvMain
import Yuiv.Proofs.C18InvPerm
import Yuiv.Proofs.C18InvRev
import Yuiv.Proofs.C18InvRev2
import Yuiv.Proofs.C18InvBraid2
import Yuiv.Proofs.C18InvBraidCycle
/-
C18Inv — orientation, reordering and reversal theorems for the EXISTING model `Yuiv.C18` of
`Link::crossing_signs` / `writhe` / `signed_crossing_nums` (property theorems only; proofs in
`Proofs/C18InvDefs, C18InvOri, C18InvMain, C18InvPerm, C18InvRev, C18InvRev2, C18InvBraid, C18InvBraid2, C18InvBraidComp,
C18InvCycle, C18InvBraidCycle`).

Vocabulary (`Proofs/C18InvDefs.lean`).  Slots are pairs `(i, j)` (crossing `i`, position `j < 4`);
`thru l` = other end of the strand through the crossing, `partner l` = other end of the edge.
* `Orient l O`   : `O` = set of slots at which the oriented strands ENTER a crossing — of the two ends of a strand
                   through a crossing exactly one is an entrance, and of the two ends of an edge exactly one.
* `UnderIn l O`  : the orientation is consistent with the code: every strand through slot 0 enters there
                   (PD convention: the under-strand runs from slot 0 to slot 2).
* `sgnAt l O i`  : the Rust sign table (`signAt`) at the slot (1 or 3) where the over-strand of crossing `i` enters;
                   `signsOf l O` = these signs for the unresolved crossings, in crossing order.
* `Determined l` : every edge lies on a component containing slot 0 of some crossing (every component passes
                   under somewhere); then the orientation consistent with the code is unique.  `DeterminedB` is a
                   decidable sufficient criterion.  Without it the PD code does not determine the direction of a
                   component that only passes over, and `crossing_signs` picks the direction "from slot 1 of the
                   first crossing met" — which depends on the crossing order (see the `example` in section B).
* `Valid l`      : every label occurs in exactly two slots (as everywhere in C18).
-/
namespace Yuiv.C18
open Yuiv

/-! ### A. the signs are those of an orientation consistent with the code -/

/-- THE ORIENTATION THEOREM.  For every valid code that admits an orientation consistent with its under-strands
(every PD code of an oriented diagram does), `crossing_signs` returns (no panic), and what it returns are the
signs of an orientation `O'` consistent with the under-strands: for every unresolved crossing the table entry
at the slot where the over-strand enters.  `O'` agrees with the given `O` on every component that passes under
somewhere (`orientation_unique_on_under_components`). -/
theorem crossingSigns_orient (l : Link) (hv : Valid l) (O : Nat × Nat → Bool) (hO : Orient l O)
    (hU : UnderIn l O) :
    ∃ O', Orient l O' ∧ UnderIn l O' ∧ crossingSigns l = .ok (signsOf l O') ∧
      signedCrossingNums l = .ok ((signsOf l O').count .pos, (signsOf l O').count .neg) ∧
      writhe l = .ok (writheOf (signsOf l O')) := by
  obtain ⟨O', h1, h2, h3⟩ := crossingSigns_orient' l hv O hO hU
  exact ⟨O', h1, h2, h3, (writhe_of_signs l _ h3).1, (writhe_of_signs l _ h3).2⟩

/-- two orientations consistent with the under-strands agree on every component that contains an
under-strand end (slot 0 of some crossing) -/
theorem orientation_unique_on_under_components (l : Link) (hv : Valid l) (O O' : Nat × Nat → Bool)
    (hO : Orient l O) (hU : UnderIn l O) (hO' : Orient l O') (hU' : UnderIn l O')
    (i : Nat) (hi : i < l.length) (h : Nat × Nat) (hc : SConn l (i, 0) h) : O' h = O h :=
  orient_agree_under hv hO hU hO' hU' i hi h hc

/-- if every component passes under somewhere, the signs are those of THE orientation consistent with the code -/
theorem crossingSigns_determined (l : Link) (hv : Valid l) (O : Nat × Nat → Bool) (hO : Orient l O)
    (hU : UnderIn l O) (hD : Determined l) : crossingSigns l = .ok (signsOf l O) :=
  crossingSigns_determined' l hv O hO hU hD

/-- the sign of a crossing depends only on the direction in which the over-strand is passed, exactly as in the
table of `Link::crossing_signs`: entering at slot 1 (1→3) gives `−` for `X` and `+` for `Xm`; entering at slot 3
(3→1) gives `+` for `X` and `−` for `Xm`; resolved crossings carry no sign -/
theorem sgnAt_table (l : Link) (O : Nat × Nat → Bool) (i : Nat) :
    sgnAt l O i =
      match ctypeAt l i, O (i, 1) with
      | .X, true => some .neg
      | .X, false => some .pos
      | .Xm, true => some .pos
      | .Xm, false => some .neg
      | _, _ => none := by
  unfold sgnAt
  cases ctypeAt l i <;> cases O (i, 1) <;> rfl

/-- the decidable criterion implies `Determined` -/
theorem determined_of_check (l : Link) (hv : Valid l) (h : DeterminedB l) : Determined l :=
  determined_of_B hv h

/-- the hypotheses are satisfiable: the trefoil and the Hopf link with the orientation "enter at slots 0, 1" -/
example : Valid (fromPD [[1,4,2,5],[3,6,4,1],[5,2,6,3]]) ∧ Orient (fromPD [[1,4,2,5],[3,6,4,1],[5,2,6,3]]) exOri ∧
    UnderIn (fromPD [[1,4,2,5],[3,6,4,1],[5,2,6,3]]) exOri ∧ DeterminedB (fromPD [[1,4,2,5],[3,6,4,1],[5,2,6,3]]) ∧
    crossingSigns (fromPD [[1,4,2,5],[3,6,4,1],[5,2,6,3]])
      = .ok (signsOf (fromPD [[1,4,2,5],[3,6,4,1],[5,2,6,3]]) exOri) := by decide
example : Valid (fromPD [[4,1,3,2],[2,3,1,4]]) ∧ Orient (fromPD [[4,1,3,2],[2,3,1,4]]) exOri ∧
    UnderIn (fromPD [[4,1,3,2],[2,3,1,4]]) exOri ∧ DeterminedB (fromPD [[4,1,3,2],[2,3,1,4]]) ∧
    crossingSigns (fromPD [[4,1,3,2],[2,3,1,4]]) = .ok (signsOf (fromPD [[4,1,3,2],[2,3,1,4]]) exOri) := by decide

/-! ### B. crossing reordering

`permute p l`: position `k` of the new crossing list is crossing `p[k]` of `l`; `p` any permutation of
`0 .. n-1` (`p.Perm (List.range n)`). -/

/-- crossing signs are invariant under ANY reordering of the crossing list, as the correspondingly permuted
list of signs: there is one sign function `sg` on crossing indices with `crossing_signs l = sg` along `0..n-1`
and `crossing_signs (permute p l) = sg` along `p` -/
theorem crossingSigns_permute (l : Link) (hv : Valid l) (O : Nat × Nat → Bool) (hO : Orient l O)
    (hU : UnderIn l O) (hD : Determined l) (p : List Nat) (hp : p.Perm (List.range l.length)) :
    crossingSigns l = .ok ((List.range l.length).filterMap (sgnAt l O)) ∧
    crossingSigns (permute p l) = .ok (p.filterMap (sgnAt l O)) := by
  refine ⟨crossingSigns_determined' l hv O hO hU hD, ?_⟩
  rw [crossingSigns_determined' (permute p l) (valid_permute hp hv) _ (orient_permute hp hv hO)
    (underIn_permute hp hU) (determined_permute hp hv hD)]
  rw [signsOf_permute hp O]

/-- hence writhe and signed crossing numbers are invariant under crossing reordering -/
theorem writhe_permute (l : Link) (hv : Valid l) (O : Nat × Nat → Bool) (hO : Orient l O)
    (hU : UnderIn l O) (hD : Determined l) (p : List Nat) (hp : p.Perm (List.range l.length)) :
    signedCrossingNums (permute p l) = signedCrossingNums l ∧ writhe (permute p l) = writhe l ∧
    crossingNum (permute p l) = crossingNum l := by
  obtain ⟨h1, h2⟩ := crossingSigns_permute l hv O hO hU hD p hp
  have hperm : (p.filterMap (sgnAt l O)).Perm ((List.range l.length).filterMap (sgnAt l O)) :=
    List.Perm.filterMap _ hp
  obtain ⟨a1, a2⟩ := writhe_of_signs _ _ h1
  obtain ⟨b1, b2⟩ := writhe_of_signs _ _ h2
  refine ⟨?_, ?_, crossingNum_permute hp⟩
  · rw [a1, b1, hperm.count_eq, hperm.count_eq]
  · rw [a2, b2, writheOf_perm hperm]

example : permute [2, 0, 1] (fromPD [[1,4,2,5],[3,6,4,1],[5,2,6,3]]) = fromPD [[5,2,6,3],[1,4,2,5],[3,6,4,1]] := by
  decide
example : [2, 0, 1].Perm (List.range (fromPD [[1,4,2,5],[3,6,4,1],[5,2,6,3]]).length) := by decide

/-- `Determined` cannot be dropped for the individual signs: the closure of σ₁σ₁⁻¹ (a two-component unlink
diagram one of whose components only passes over) is valid and oriented consistently, but exchanging its two
crossings does not exchange the two signs (the writhe is 0 in both orders) -/
example :
    let l : Link := fromPD [[0,2,3,1],[3,2,0,1]]
    closure 2 [1, -1] = .ok l ∧ Valid l ∧ Orient l (fun h => h.2 == 0 || (h.1 == 0 && h.2 == 3) || (h.1 == 1 && h.2 == 1)) ∧
    UnderIn l (fun h => h.2 == 0 || (h.1 == 0 && h.2 == 3) || (h.1 == 1 && h.2 == 1)) ∧ ¬ DeterminedB l ∧
    crossingSigns l = .ok [.neg, .pos] ∧ crossingSigns (permute [1, 0] l) = .ok [.neg, .pos] ∧
    writhe l = .ok 0 ∧ writhe (permute [1, 0] l) = .ok 0 := by decide

/-! ### C. orientation reversal (PD codes: all crossings of type `X`/`Xm`, `AllX`) -/

/-- reversing ALL components (`[a,b,c,d] ↦ [c,d,a,b]` at every crossing) leaves every crossing sign unchanged —
for every valid PD code with an orientation consistent with its under-strands, also when some components never
pass under (the model walks such a component from slot 1 of its first crossing, in `l` and in `reverseAll l`) -/
theorem crossingSigns_reverseAll (l : Link) (hv : Valid l) (hx : AllX l) (O : Nat × Nat → Bool)
    (hO : Orient l O) (hU : UnderIn l O) :
    crossingSigns (reverseAll l) = crossingSigns l ∧ writhe (reverseAll l) = writhe l ∧
    signedCrossingNums (reverseAll l) = signedCrossingNums l := by
  have h := crossingSigns_reverseAll_all l hv hx O hO hU
  refine ⟨h, ?_, ?_⟩
  · unfold writhe signedCrossingNums; rw [h]
  · unfold signedCrossingNums; rw [h]

/-- the rule by which the direction of a component that never passes under is chosen (this is what makes the
individual signs depend on the crossing order in that case): the orientation `O'` whose signs `crossing_signs`
returns enters at slot 1 of the FIRST crossing `i0` whose over-strand lies on that component -/
theorem crossingSigns_orient_over_only (l : Link) (hv : Valid l) (O : Nat × Nat → Bool) (hO : Orient l O)
    (hU : UnderIn l O) :
    ∃ O', Orient l O' ∧ UnderIn l O' ∧ crossingSigns l = .ok (signsOf l O') ∧
      (∀ i0, i0 < l.length → (ctypeAt l i0).isResolved = false →
        (∀ i, i < l.length → ¬ SConn l (i, 0) (i0, 1)) → (∀ i, i < i0 → ¬ SConn l (i, 1) (i0, 1)) →
        O' (i0, 1) = true) :=
  crossingSigns_orient_first l hv O hO hU

/-- reversing ONE component (more generally a union `K` of components, given as a set of labels closed under
passing through crossings: `CompSet l K`; `revComp K l` rotates by two exactly the crossings whose under-strand
belongs to `K`) flips exactly the signs of the crossings between `K` and the other components, and leaves the
self-crossings of `K` and the crossings not involving `K` unchanged -/
theorem crossingSigns_revComp (l : Link) (hv : Valid l) (hx : AllX l) (K : Nat → Bool) (hK : CompSet l K)
    (O : Nat × Nat → Bool) (hO : Orient l O) (hU : UnderIn l O) (hD : Determined l) :
    crossingSigns l = .ok ((List.range l.length).filterMap (sgnAt l O)) ∧
    crossingSigns (revComp K l) = .ok ((List.range l.length).filterMap (fun i =>
      if (K (edgeAt l i 0) != K (edgeAt l i 1)) then (sgnAt l O i).map Sign.flip else sgnAt l O i)) := by
  refine ⟨crossingSigns_determined' l hv O hO hU hD, ?_⟩
  rw [crossingSigns_determined' (revComp K l) (valid_revComp K hv) _ (revOri_orient hv hK hO)
    (revOri_underIn hx hK hO hU) (determined_revComp hv hx hD)]
  rw [signsOf_revComp hx hK hO]

/-- Hopf link, components `{4,3}` and `{2,1}`: reversing the first flips both signs -/
example : CompSet (fromPD [[4,1,3,2],[2,3,1,4]]) exK ∧ AllX (fromPD [[4,1,3,2],[2,3,1,4]]) ∧
    revComp exK (fromPD [[4,1,3,2],[2,3,1,4]]) = fromPD [[3,2,4,1],[2,3,1,4]] ∧
    crossingSigns (fromPD [[4,1,3,2],[2,3,1,4]]) = .ok [.neg, .neg] ∧
    crossingSigns (revComp exK (fromPD [[4,1,3,2],[2,3,1,4]])) = .ok [.pos, .pos] := by decide
example : reverseAll (fromPD [[1,4,2,5],[3,6,4,1],[5,2,6,3]]) = fromPD [[2,5,1,4],[4,1,3,6],[6,3,5,2]] ∧
    crossingSigns (reverseAll (fromPD [[1,4,2,5],[3,6,4,1],[5,2,6,3]])) = .ok [.neg, .neg, .neg] := by decide

/-! ### D. braid closures (`Braid::closure`; every word for which `closure` returns, i.e. all letters in range and
no free loop)

`Obraid w`: all strands oriented downwards (entrances: slot 0 of every crossing, slot 3 of the crossing of a
positive letter, slot 1 of the crossing of a negative letter).  `expSum w` = Σ sign of the letters.
`braidPerm strands w` = the braid permutation as a list (`P[k]` = top position of the strand that ends at bottom
position `k`); `CycRel P` = the equivalence generated by `k ~ P[k]`, whose classes are the cycles;
`cycleCount σ n` = number of positions that are the least element of their `σ`-orbit = number of cycles. -/

/-- the downward orientation of the strands is an orientation of the closure consistent with its under-strands,
and for it the crossing of the letter `σᵢ^{±1}` has sign `±1` -/
theorem closure_braid_orientation (strands : Nat) (w : List Int) (l : Link) (h : closure strands w = .ok l) :
    Orient l (Obraid w) ∧ UnderIn l (Obraid w) ∧ signsOf l (Obraid w) = w.map braidSign ∧
    writheOf (signsOf l (Obraid w)) = expSum w :=
  ⟨(closure_orient strands w l h).1, (closure_orient strands w l h).2, closure_signs_braid strands w l h,
    closure_writhe_braid strands w l h⟩

/-- every orientation of a braid closure that is consistent with the under-strands has the same writhe as the
downward orientation (a component that only passes over can be reversed, but it moves one position to the left
at each positive and one to the right at each negative crossing, and closes up) -/
theorem closure_writhe_orientation_independent (strands : Nat) (w : List Int) (l : Link)
    (h : closure strands w = .ok l) (O' : Nat × Nat → Bool) (hO' : Orient l O') (hU' : UnderIn l O') :
    writheOf (signsOf l O') = expSum w := by
  rw [closure_writhe_any_orient strands w l h O' hO' hU', closure_writhe_braid strands w l h]

/-- WRITHE OF A BRAID CLOSURE = EXPONENT SUM, for the model's `writhe` (via `crossing_signs`), for every word -/
theorem closure_writhe (strands : Nat) (w : List Int) (l : Link) (h : closure strands w = .ok l) :
    writhe l = .ok (expSum w) ∧ expSum w = (w.map Int.sign).sum ∧
    ∃ p n, signedCrossingNums l = .ok (p, n) ∧ (p : Int) - (n : Int) = expSum w ∧ p + n = w.length :=
  ⟨closure_writhe' strands w l h, expSum_eq_sum w, closure_signedCrossingNums' strands w l h⟩

/-- two top positions lie on the same component of the closure iff they lie on the same cycle of the braid
permutation; every top position is a label of the closure and every label is connected to a top position -/
theorem closure_components_cycles (strands : Nat) (w : List Int) (l : Link) (h : closure strands w = .ok l) :
    (∀ a b, a < strands → b < strands → (Conn l a b ↔ CycRel (braidPerm strands w) a b)) ∧
    (∀ k, k < strands → k ∈ allEdges l) ∧ (∀ e ∈ allEdges l, ∃ k, k < strands ∧ Conn l k e) ∧
    (braidPerm strands w).Perm (List.range strands) :=
  ⟨fun a b ha hb => closure_conn_iff_cycle strands w l h a b ha hb, (closure_label_on_strand strands w l h).1,
    (closure_label_on_strand strands w l h).2, braidPerm_perm_of_closure strands w l h⟩

/-- NUMBER OF COMPONENTS OF A BRAID CLOSURE = NUMBER OF CYCLES OF THE BRAID PERMUTATION: `components` returns a
list whose length is the length of ANY transversal of the cycles, in particular `cycleCount` -/
theorem closure_components_count (strands : Nat) (w : List Int) (l : Link) (h : closure strands w = .ok l) :
    (∀ reps, CycTransversal (braidPerm strands w) reps → ∃ cs, components l = .ok cs ∧ cs.length = reps.length) ∧
    ∃ cs, components l = .ok cs ∧ cs.length = cycleCount (permFun (braidPerm strands w)) strands :=
  ⟨fun reps hr => closure_components_eq_cycles strands w l h reps hr, closure_components_count' strands w l h⟩

/-- `cycleCount` counts cycles: its representatives are one position from every cycle of a permutation list -/
theorem cycleCount_spec (P : List Nat) (n : Nat) (hp : P.Perm (List.range n)) :
    CycTransversal P (cycleReps (permFun P) n) ∧ cycleCount (permFun P) n = (cycleReps (permFun P) n).length :=
  ⟨cycTransversal_cycleReps hp, rfl⟩

example : closure 2 [1, 1, 1] = .ok (fromPD [[0,2,3,1],[2,4,5,3],[4,0,1,5]]) ∧ expSum [1, 1, 1] = 3 ∧
    braidPerm 2 [1, 1, 1] = [1, 0] ∧ cycleCount (permFun (braidPerm 2 [1, 1, 1])) 2 = 1 ∧
    writhe (fromPD [[0,2,3,1],[2,4,5,3],[4,0,1,5]]) = .ok 3 ∧
    (components (fromPD [[0,2,3,1],[2,4,5,3],[4,0,1,5]])).isOk = true := by decide
example : braidPerm 2 [1, 1] = [0, 1] ∧ cycleCount (permFun (braidPerm 2 [1, 1])) 2 = 2 ∧
    braidPerm 3 [1, -2] = [1, 2, 0] ∧ cycleCount (permFun (braidPerm 3 [1, -2])) 3 = 1 := by decide

end Yuiv.C18
