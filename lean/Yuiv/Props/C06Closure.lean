import Yuiv.Proofs.C06Closure
import Yuiv.Proofs.C06ClosureStrand
import Yuiv.Proofs.C06ClosureEx
import Yuiv.Proofs.C18InvMain
import Yuiv.Proofs.C18BridgeMain
import Yuiv.Props.C06Cycle
/-
C06Closure — the per-instance hypothesis H of `Props/C06Cycle.canon_is_cycle` DISCHARGED for an infinite family:
BRAID CLOSURES.  Property theorems only; proofs in `Proofs/C06Closure, C06ClosureStrand, C06ClosureEx`.

Setting.  `C18.closure n w = .ok l` (the code model of `Link::from(&Braid)`: `n` strands, word `w` of non-zero letters
`±(g+1)` = `σ_g^{±1}`), `K := toKh l` the same diagram as a link of the cube reference `KhRef`.  Every label `e` of `K`
has a strand position `C18.posLab n w e`.  `braidState w` is the state whose bit `j` is `1` iff the `j`-th letter is
negative: the orientation preserving state for the all-downward orientation (`closure_state_is_oriPres`; it is the
`oriPresState` of the reference's OWN `crossingSigns` whenever the orientation is determined by the code, e.g. for
every knot — `closure_ref_signs`).  `parityCols n w cs` colours a circle by the parity of the position of its first
label.

What is proved (for EVERY `n`, `w`, `l` with `closure n w = .ok l`; no size bound, knots and links alike):
 * `closure_validK`                — `validK K` (the other hypothesis of `canon_is_cycle`), from `C18.closure_valid'`;
 * `closure_arcs`                  — the arcs of `braidState w`: at the crossing of `σ_g^{±1}` the entering label at
                                     position `g` is joined to the leaving label at `g`, the same at `g+1`;
 * `closure_position_on_circles`   — the position is constant on every circle of that state;
 * `closure_arc_relation_is_position`, `closure_circles_are_strands` — conversely all labels of one position lie on
                                     one circle (the strands close up; second pass over the fold of `closureStep`):
                                     the state has EXACTLY `n` circles, circle = all labels of one position
                                     `0..n−1`, and `k < n` is itself a label of the circle of position `k`;
 * `closure_crossing_two_circles`  — the four labels of the crossing of `σ_g^{±1}` have positions `g, g, g+1, g+1`,
                                     equal positions there lie on one circle: it touches exactly two circles;
 * `closure_bicoloured`            — H for the parity colouring;
 * `canon_is_cycle_closure`        — hence BOTH canonical chains of the parity colouring are cycles of the reference
                                     cube, any `h`, reduced or not, UNCONDITIONALLY;
 * `canon_is_cycle_closure_refsigns` — the same phrased with the state computed from `KhRef.crossingSigns`.

NOT proved HERE (now proved in `Props/C06Walk.lean`: `canon_reply_flags_closure`, `canon_reply_string_closure`; the
paragraph and the final comment below record what was missing at the time): that the colours which
`C06Canon.coloredSeifertCircles` (walk model of `Link::seifert_circles` + BFS) assigns are the parity colours or their
swap.  That needs (a) a specification of the walk model `componentsOf` (its paths = the classes of the arc relation),
which exists for no diagram yet, and (b) connectedness of the Seifert graph of a knot closure (every `σ_g`, `g + 1 < n`,
occurs in the word of a knot).
-/
namespace Yuiv.C06Closure
open Yuiv Yuiv.KhRef Yuiv.C06Canon Yuiv.C04Inv Yuiv.C06Cycle Yuiv.Drv.C06
open Yuiv.C18 (closure closure_bform closure_valid' posLab)
open Yuiv.C18Bridge (toKh encSign)

/-- the translated closure is a valid diagram of the reference (four slots per crossing, every label in exactly two
slots), all its crossings are unresolved, one per letter -/
theorem closure_validK (n : Nat) (w : List Int) (l : C18.Link) (h : closure n w = .ok l) :
    validK (toKh l) = true ∧ crossingNum (toKh l) = w.length ∧ (∀ c ∈ (toKh l).toList, c.ct = .X) := by
  obtain ⟨ins, outs, hB⟩ := closure_bform n w l h
  exact ⟨validK_toKh l (closure_valid' n w l h), crossingNum_toKh_closure hB, toKh_allX hB⟩

/-- `braidState w` is a vertex of the cube, and it is `Link::ori_pres_state` for the signs `+1` (positive letter),
`−1` (negative letter) -/
theorem closure_state_is_oriPres (w : List Int) :
    braidState w < 2 ^ w.length ∧ braidState w = oriPresState (w.map (fun s => if s > 0 then (1 : Int) else -1)) ∧
    ∀ j, (braidState w).testBit j = (braidBits w).getD j false :=
  ⟨braidState_lt w, braidState_eq w, fun j => testBit_bitsToNat _ j⟩

/-- if every component of the closure passes under somewhere (`Determined`, true for every knot with a crossing), the
reference's own `crossingSigns` are the letter signs and its orientation preserving state is `braidState w` -/
theorem closure_ref_signs (n : Nat) (w : List Int) (l : C18.Link) (h : closure n w = .ok l) (hD : C18.Determined l) :
    KhRef.crossingSigns (toKh l) = some ((w.map C18.braidSign).map encSign).toArray ∧
    oriPresState ((w.map C18.braidSign).map encSign) = braidState w := by
  have hv := closure_valid' n w l h
  obtain ⟨hO, hU⟩ := C18.closure_orient n w l h
  constructor
  · rw [C18Bridge.khSigns_enc l hv, C18.crossingSigns_determined' l hv _ hO hU hD, C18.closure_signs_braid n w l h]
    rfl
  · rw [braidState_eq, List.map_map]
    congr 1
    apply List.map_congr_left
    intro s _
    by_cases hs : s > 0 <;> simp [C18.braidSign, hs, encSign]

/-- the arcs of the state `braidState w`: exactly, for every letter `j` (`ins`, `outs` = the entering / leaving labels
of the normal form `C18.BForm`), the two arcs "enter at position `g` — leave at position `g`" and the same at `g+1`;
in particular every arc joins labels of equal position -/
theorem closure_arcs (n : Nat) (w : List Int) (l : C18.Link) (h : closure n w = .ok l) :
    ∃ ins outs, C18.BForm n w l ins outs ∧
      (∀ p, p ∈ statePairs (toKh l) (braidState w) ↔ ∃ j, j < w.length ∧
        (p = (if w.getD j 0 > 0 then (ins.getD (2 * j) 0, outs.getD (2 * j) 0)
              else (ins.getD (2 * j) 0, outs.getD (2 * j + 1) 0)) ∨
         p = (if w.getD j 0 > 0 then (outs.getD (2 * j + 1) 0, ins.getD (2 * j + 1) 0)
              else (ins.getD (2 * j + 1) 0, outs.getD (2 * j) 0)))) ∧
      ∀ p ∈ statePairs (toKh l) (braidState w), posLab n w p.1 = posLab n w p.2 := by
  obtain ⟨ins, outs, hB⟩ := closure_bform n w l h
  exact ⟨ins, outs, hB, statePairs_closure hB, pos_of_pair hB⟩

/-- the circles of the orientation preserving state run along the strands: the strand position is constant on every
circle (and on every class of the arc relation) -/
theorem closure_position_on_circles (n : Nat) (w : List Int) (l : C18.Link) (h : closure n w = .ok l) :
    (∀ x y, Conn (statePairs (toKh l) (braidState w)) x y → posLab n w x = posLab n w y) ∧
    ∀ i, i < (circles (toKh l) (edgeLabels (toKh l)) (braidState w)).size →
      ∀ x ∈ (circles (toKh l) (edgeLabels (toKh l)) (braidState w))[i]!,
      ∀ y ∈ (circles (toKh l) (edgeLabels (toKh l)) (braidState w))[i]!, posLab n w x = posLab n w y := by
  obtain ⟨ins, outs, hB⟩ := closure_bform n w l h
  have hv := validK_toKh l (closure_valid' n w l h)
  have spec := circles_spec (toKh l) (wf_of_validK _ hv) (braidState w)
  exact ⟨fun x y c => pos_of_conn hB c, fun i hi x hx y hy => pos_of_conn hB (spec.conn_of_mem hi hx hy)⟩

/-- CONVERSELY the strands close up: on the labels of the closure the arc relation of the orientation preserving state
IS "same strand position"; the positions are `0, …, n−1`, and `k < n` is itself a label, of position `k` -/
theorem closure_arc_relation_is_position (n : Nat) (w : List Int) (l : C18.Link) (h : closure n w = .ok l) :
    (∀ x ∈ edgeLabels (toKh l), ∀ y ∈ edgeLabels (toKh l),
      (Conn (statePairs (toKh l) (braidState w)) x y ↔ posLab n w x = posLab n w y)) ∧
    (∀ x ∈ edgeLabels (toKh l), posLab n w x < n) ∧
    (∀ k, k < n → k ∈ edgeLabels (toKh l) ∧ posLab n w k = k) :=
  conn_iff_pos n w l h

/-- the orientation preserving state of the closure of a braid with `n` strands has EXACTLY the `n` strands as circles:
`n` circles, each consisting of all labels of one strand position, and the label `k < n` lies on the circle of
position `k` -/
theorem closure_circles_are_strands (n : Nat) (w : List Int) (l : C18.Link) (h : closure n w = .ok l) :
    (circles (toKh l) (edgeLabels (toKh l)) (braidState w)).size = n ∧
    (∀ i, i < (circles (toKh l) (edgeLabels (toKh l)) (braidState w)).size →
      ∀ x ∈ (circles (toKh l) (edgeLabels (toKh l)) (braidState w))[i]!, ∀ y,
        y ∈ (circles (toKh l) (edgeLabels (toKh l)) (braidState w))[i]! ↔
          y ∈ edgeLabels (toKh l) ∧ posLab n w y = posLab n w x) ∧
    (∀ k, k < n → ∃ i, i < (circles (toKh l) (edgeLabels (toKh l)) (braidState w)).size ∧
      k ∈ (circles (toKh l) (edgeLabels (toKh l)) (braidState w))[i]!) :=
  circles_are_strands n w l h

/-- the crossing of the letter `σ_g^{±1}` (every crossing of `K` is one): its labels have positions `g` or `g+1`, both
occur, and two of its labels of equal position lie on one circle — so it touches exactly two circles, those of the
positions `g` and `g+1` -/
theorem closure_crossing_two_circles (n : Nat) (w : List Int) (l : C18.Link) (h : closure n w = .ok l)
    (x : Crossing) (hx : x ∈ toKh l) :
    ∃ j, j < w.length ∧ (toKh l)[j]? = some x ∧
      (∀ e ∈ x.e.toList, posLab n w e = (w.getD j 0).natAbs - 1 ∨ posLab n w e = (w.getD j 0).natAbs - 1 + 1) ∧
      (∀ e ∈ x.e.toList, ∀ e' ∈ x.e.toList, posLab n w e = posLab n w e' →
        Conn (statePairs (toKh l) (braidState w)) e e') ∧
      (∃ e ∈ x.e.toList, ∃ e' ∈ x.e.toList,
        posLab n w e = (w.getD j 0).natAbs - 1 ∧ posLab n w e' = (w.getD j 0).natAbs - 1 + 1) := by
  obtain ⟨ins, outs, hB⟩ := closure_bform n w l h
  obtain ⟨j, hj, rfl⟩ := mem_toKh_closure hB x hx
  refine ⟨j, hj, ?_, crossing_facts hB j hj⟩
  have := toKh_getElem? l j
  rw [(hB.cr j hj).2] at this
  simpa using this

/-- **H for braid closures**: with the circles coloured by the parity of their strand position, every crossing of the
closure touches exactly two circles of the orientation preserving state and these have different colours -/
theorem closure_bicoloured (n : Nat) (w : List Int) (l : C18.Link) (h : closure n w = .ok l) :
    bicoloured (toKh l) (circles (toKh l) (edgeLabels (toKh l)) (braidState w))
      (parityCols n w (circles (toKh l) (edgeLabels (toKh l)) (braidState w))) = true := by
  obtain ⟨ins, outs, hB⟩ := closure_bform n w l h
  exact bicoloured_closure hB (validK_toKh l (closure_valid' n w l h))

/-- **THE CANONICAL CHAINS OF A BRAID CLOSURE ARE CYCLES — no per-instance hypothesis.**  For every braid word whose
closure the code builds (`closure n w = .ok l`), every `h`, reduced (`base = some e`, `red` arbitrary) or not: the
reference differential sends the canonical chain of the parity colouring at the orientation preserving state, and the
chain with the colours swapped, to `0` (the driver's evaluation `dOfChain … = some []`: `d` is defined on every
generator of the chain and every target generator has total coefficient `0`) -/
theorem canon_is_cycle_closure (n : Nat) (w : List Int) (l : C18.Link) (hcl : closure n w = .ok l)
    (h : Int) (base : Option Nat) (red : Bool) :
    dOfChain { mkCube (toKh l) ⟨h, 0, false⟩ with base := base } ⟨h, 0, red⟩
        (chainOf (braidState w) h (parityCols n w (circles (toKh l) (edgeLabels (toKh l)) (braidState w)))) = some [] ∧
    dOfChain { mkCube (toKh l) ⟨h, 0, false⟩ with base := base } ⟨h, 0, red⟩
        (chainOf (braidState w) h
          ((parityCols n w (circles (toKh l) (edgeLabels (toKh l)) (braidState w))).map Colour.other)) = some [] := by
  obtain ⟨hv, hn, _⟩ := closure_validK n w l hcl
  have hs : braidState w < 2 ^ crossingNum (toKh l) := by rw [hn]; exact braidState_lt w
  have hlen : (parityCols n w (circles (toKh l) (edgeLabels (toKh l)) (braidState w))).length =
      (circles (toKh l) (edgeLabels (toKh l)) (braidState w)).size := by simp [parityCols]
  exact ⟨canon_is_cycle (toKh l) hv h base red _ hs _ hlen (closure_bicoloured n w l hcl),
    canon_is_cycle_swapped (toKh l) hv h base red _ hs _ hlen (closure_bicoloured n w l hcl)⟩

/-- in coefficients: `Cube.d` is defined on every generator of the canonical chain of a braid closure and every target
generator has total coefficient `0` -/
theorem canon_is_cycle_closure_coefficients (n : Nat) (w : List Int) (l : C18.Link) (hcl : closure n w = .ok l)
    (h : Int) (base : Option Nat) (red : Bool) :
    (∀ ga ∈ chainOf (braidState w) h (parityCols n w (circles (toKh l) (edgeLabels (toKh l)) (braidState w))), ∃ ts,
      ({ mkCube (toKh l) ⟨h, 0, false⟩ with base := base } : Cube).d ⟨h, 0, red⟩ ga.1 = some ts) ∧
    ∀ y, chainSum (fun g =>
      ((({ mkCube (toKh l) ⟨h, 0, false⟩ with base := base } : Cube).d ⟨h, 0, red⟩ g).getD #[]).toList)
        (chainOf (braidState w) h (parityCols n w (circles (toKh l) (edgeLabels (toKh l)) (braidState w)))) y = 0 :=
  (dOfChain_nil_iff _ _ _).1 (canon_is_cycle_closure n w l hcl h base red).1

/-- the same with the state the library computes: if the reference's `crossingSigns` of the closure are `sg` and the
orientation is determined by the code (`Determined`: every component passes under somewhere — every knot), then
`oriPresState sg` IS `braidState w` and the canonical chains at `Link::ori_pres_state` are cycles -/
theorem canon_is_cycle_closure_refsigns (n : Nat) (w : List Int) (l : C18.Link) (hcl : closure n w = .ok l)
    (hD : C18.Determined l) (sg : Array Int) (hsg : KhRef.crossingSigns (toKh l) = some sg)
    (h : Int) (base : Option Nat) (red : Bool) :
    oriPresState sg.toList = braidState w ∧
    dOfChain { mkCube (toKh l) ⟨h, 0, false⟩ with base := base } ⟨h, 0, red⟩
      (chainOf (oriPresState sg.toList) h
        (parityCols n w (circles (toKh l) (edgeLabels (toKh l)) (oriPresState sg.toList)))) = some [] ∧
    dOfChain { mkCube (toKh l) ⟨h, 0, false⟩ with base := base } ⟨h, 0, red⟩
      (chainOf (oriPresState sg.toList) h
        ((parityCols n w (circles (toKh l) (edgeLabels (toKh l)) (oriPresState sg.toList))).map Colour.other)) =
      some [] := by
  obtain ⟨h1, h2⟩ := closure_ref_signs n w l hcl hD
  rw [h1] at hsg
  have e : oriPresState sg.toList = braidState w := by
    rw [← Option.some.inj hsg]; exact h2
  rw [e]
  exact ⟨rfl, canon_is_cycle_closure n w l hcl h base red⟩

/-! ### non-vacuity -/

/-- trefoil `σ₁³` (all positive: state 0), Hopf link `σ₁⁻²` (a 2-component link: H does not need a knot; state 3),
figure eight `σ₁σ₂⁻¹σ₁σ₂⁻¹` (three strands, mixed signs: state 10 = 0b1010) -/
example : closure 2 [1, 1, 1] = .ok trefoilB ∧ closure 2 [-1, -1] = .ok hopfB ∧
    closure 3 [1, -2, 1, -2] = .ok fig8B ∧
    braidState [1, 1, 1] = 0 ∧ braidState [-1, -1] = 3 ∧ braidState [1, -2, 1, -2] = 10 :=
  ⟨closure_trefoilB, closure_hopfB, closure_fig8B, by decide +kernel, by decide +kernel, by decide +kernel⟩

/-- the circles of the figure eight closure at its orientation preserving state are the three strands, coloured
a, b, a; a constant colouring violates H -/
example : circles (toKh fig8B) (edgeLabels (toKh fig8B)) 10 = #[#[0, 3], #[1, 4, 5, 8], #[2, 6]] ∧
    parityCols 3 [1, -2, 1, -2] (circles (toKh fig8B) (edgeLabels (toKh fig8B)) 10) = [.a, .b, .a] ∧
    bicoloured (toKh fig8B) (circles (toKh fig8B) (edgeLabels (toKh fig8B)) 10) [.a, .a, .a] = false := by
  rw [edgeLabels_fig8B]; decide +kernel

/-- `closure_circles_are_strands` at the figure eight: three strands, three circles (read off the theorem, not
evaluated) -/
example : (circles (toKh fig8B) (edgeLabels (toKh fig8B)) (braidState [1, -2, 1, -2])).size = 3 :=
  (closure_circles_are_strands 3 [1, -2, 1, -2] fig8B closure_fig8B).1

/-- the instance of `canon_is_cycle_closure` at the figure eight, `h = 2`: the chain is
`(X)(X−2)(X) = −2·X⊗1⊗X + X⊗X⊗X ≠ 0` at the vertex `10` (two merge edges leave it) -/
example : dOfChain { mkCube (toKh fig8B) ⟨2, 0, false⟩ with base := none } ⟨2, 0, false⟩
      (chainOf 10 2 [.a, .b, .a]) = some [] ∧
    (chainOf 10 2 [.a, .b, .a]).map (fun ga => (ga.1.s, ga.1.mask, ga.2)) = [(10, 5, -2), (10, 7, 1)] := by
  have h := (canon_is_cycle_closure 3 [1, -2, 1, -2] fig8B closure_fig8B 2 none false).1
  have e : parityCols 3 [1, -2, 1, -2] (circles (toKh fig8B) (edgeLabels (toKh fig8B)) (braidState [1, -2, 1, -2])) =
      [.a, .b, .a] := by rw [edgeLabels_fig8B]; decide +kernel
  rw [e, show braidState [1, -2, 1, -2] = 10 by decide +kernel] at h
  exact ⟨h, by decide +kernel⟩

/-- the Hopf link closure, reduced theory based at edge `0`, `h = 3` -/
example : dOfChain { mkCube (toKh hopfB) ⟨3, 0, false⟩ with base := some 0 } ⟨3, 0, true⟩
      (chainOf 3 3 [.a, .b]) = some [] := by
  have h := (canon_is_cycle_closure 2 [-1, -1] hopfB closure_hopfB 3 (some 0) true).1
  have e : parityCols 2 [-1, -1] (circles (toKh hopfB) (edgeLabels (toKh hopfB)) (braidState [-1, -1])) =
      [.a, .b] := by rw [edgeLabels_hopfB]; decide +kernel
  rw [e, show braidState [-1, -1] = 3 by decide +kernel] at h
  exact h

/-- the trefoil closure is `Determined` (decidable criterion `DeterminedB`), so `closure_ref_signs` applies: the
reference's signs are `+1, +1, +1` -/
example : KhRef.crossingSigns (toKh trefoilB) = some #[1, 1, 1] :=
  (closure_ref_signs 2 [1, 1, 1] trefoilB closure_trefoilB
    (C18.determined_of_B (closure_valid' _ _ _ closure_trefoilB) (by decide +kernel))).1

/-
WHAT REMAINED for an unconditional `canon_reply_dz` on closures (all of it is done in `Props/C06Walk.lean`).  `Drv/C06.canonReply` builds its chains from
`C06Canon.canonCyclesAt`, whose colours are `coloursInRefOrder cc …` with `cc` from `coloredSeifertCircles` (the walk
model of `Link::seifert_circles` + the BFS of `colored_seifert_circles`).  `canon_reply_dz` needs, for that `cc`, the
driver's checks `crossingsBicoloured` and `sets`.  To derive them for closures one needs
  (a) the specification of the walk model `componentsOf l (resolvedTypes l s)` — its paths are the classes of
      `Conn (statePairs l s)`, each label once — which is not available for any diagram;
  (b) for knots: the Seifert graph (path `0 — 1 — … — n−1`, by `closure_circles_are_strands` and
      `closure_crossing_two_circles`) is connected, i.e. every `σ_g` occurs, so that the BFS reaches every circle and
      `Props/C06Canon.colouring_spec` identifies its colours with the parity colouring (`χ` := parity, up to the swap
      fixed by the start circle);
  (c) that `KhRef.circles` lists the circles by their least label (then circle `k` IS the strand `k` and
      `parityCols` = a, b, a, b, …; `CirclesSpec` does not record the order).
Then `coloursInRefOrder cc … = parityCols …` or its swap, and `canon_is_cycle_closure` gives `dz`.
-/

end Yuiv.C06Closure
