import Yuiv.Proofs.C18GenB
/-
TIE BY TRANSLATION (`fn:braid`): `Yuiv.GenBraid.*` (Yuiv/Gen/BraidFn.lean) is regenerated from the CURRENT source text of
yui-link/src/braid.rs by tools/rs2lean_fn.py (renderer tools/rs2lean_link.py, prelude Yuiv/Model/RustBraid.lean) on every run.
Proofs in Yuiv/Proofs/C18GenB.lean (`GenFn.g_*`).  `word b` = the list of the signed generator indices of `b`,
`toL` = the conversion of the generated `Link` to the hand model's (Proofs/C18Gen), `rmap f` = map under `Res`.

* `gen_braid_closure_eq`: generated `Braid::closure` = hand model `C18.closure` for EVERY braid (any strand number, any word,
  zero / out-of-range generators included): same link, same panics (`index() - 1` underflow, the two index panics, the
  free-loop assertion).  `conn` is a `HashMap` built by inserting `zip(bottom_edges, 0..strands)` in order (overwriting);
  it is the model's first-index renaming because the bottom labels are pairwise distinct (loop invariant `CInv`).
  The theorems of Props/C18Inv (writhe = exponent sum, components = cycles of the permutation, validity) are about
  `C18.closure`, hence about the generated function.
* `Generator::{new, index, sign, inv}`, `Braid::{new, strands, elements, inv}`, `MulAssign::mul_assign` in closed form.
-/
namespace Yuiv.C18
open Yuiv Yuiv.Rust Yuiv.GenLink Yuiv.GenBraid Yuiv.C18.GenFn

theorem gen_braid_closure_eq (b : Braid) : rmap toL b.closure = C18.closure b.strands_ (word b) :=
  GenFn.g_braid_closure_eq b

/-- the same, starting from the model's arguments -/
theorem gen_braid_closure_eq' (n : Nat) (w : List Int) :
    rmap toL (Braid.new n (w.map Generator.mk)).closure = C18.closure n w := by
  rw [gen_braid_closure_eq]
  simp [Braid.new, word, Function.comp_def]

theorem gen_generator_index_eq (g : Generator) : g.index = g.v0_.natAbs := GenFn.g_gen_index_eq g

theorem gen_generator_sign_eq (g : Generator) : g.sign.is_positive = decide (g.v0_ > 0) := GenFn.g_gen_sign_eq g

theorem gen_generator_new_eq (i : Nat) (s : Lk.Sign) :
    Generator.new i s = if i = 0 then .panic else .ok ⟨if s = .Pos then (i : Int) else -(i : Int)⟩ :=
  GenFn.g_gen_new_eq i s

theorem gen_generator_inv_eq (g : Generator) : g.inv.v0_ = -g.v0_ := rfl

theorem gen_braid_new_eq (n : Nat) (els : List Generator) :
    (Braid.new n els).strands = n ∧ (Braid.new n els).elements = els := ⟨rfl, rfl⟩

theorem gen_braid_inv_eq (b : Braid) :
    word b.inv = (word b).reverse.map (fun x => -x) ∧ b.inv.strands_ = b.strands_ := GenFn.g_braid_inv_eq b

theorem gen_braid_mul_assign_eq (a b : Braid) :
    a.mul_assign b = if a.strands_ = b.strands_ then .ok ⟨a.strands_, a.elements_ ++ b.elements_⟩ else .panic :=
  GenFn.g_mul_assign_eq a b

/-- regression net: the generated closure evaluated by the kernel (trefoil, figure-eight word, a free loop, a zero generator,
an out-of-range generator) -/
theorem gen_braid_closure_samples :
    (Braid.new 2 [⟨1⟩, ⟨1⟩, ⟨1⟩]).closure = .ok ⟨[⟨.X, ⟨0, 2, 3, 1⟩⟩, ⟨.X, ⟨2, 4, 5, 3⟩⟩, ⟨.X, ⟨4, 0, 1, 5⟩⟩]⟩ ∧
    (Braid.new 3 [⟨1⟩, ⟨-2⟩, ⟨1⟩, ⟨-2⟩]).closure =
      .ok ⟨[⟨.X, ⟨0, 3, 4, 1⟩⟩, ⟨.X, ⟨2, 4, 5, 6⟩⟩, ⟨.X, ⟨3, 0, 8, 5⟩⟩, ⟨.X, ⟨6, 8, 1, 2⟩⟩]⟩ := by decide +kernel

theorem gen_braid_closure_panics :
    (Braid.new 3 [⟨1⟩]).closure = .panic ∧ (Braid.new 2 [⟨0⟩]).closure = .panic ∧ (Braid.new 2 [⟨2⟩]).closure = .panic ∧
    (Braid.new 2 [⟨-1⟩, ⟨1⟩]).closure ≠ .panic := by decide +kernel

end Yuiv.C18
